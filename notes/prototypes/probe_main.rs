use std::collections::HashMap;
use std::path::PathBuf;
use sv_parser::*;

fn main() {
    let args: Vec<String> = std::env::args().collect();
    let mode = &args[1];
    let src = std::fs::read_to_string(&args[2]).unwrap();
    let defines: Defines = HashMap::new();
    let incs: Vec<PathBuf> = args[3..].iter().map(PathBuf::from).collect();
    match mode.as_str() {
        "pp" | "pps" => {
            let r = preprocess_str(&src, &args[2], &defines, &incs, false, mode == "pps", 0, 0);
            match r {
                Ok((t, d)) => {
                    println!("TEXT<<{}>>", t.text());
                    let mut o = String::new();
                    for i in 0..t.text().len() {
                        match t.origin(i) { Some((p, x)) => o.push_str(&format!("{}:{} ", p.file_name().map(|x| x.to_string_lossy().to_string()).unwrap_or_default(), x)), None => o.push_str("- ") }
                    }
                    println!("ORIG {}", o);
                    let mut ks: Vec<_> = d.iter().filter(|(k,_)| !k.starts_with("SV_COV")).collect();
                    ks.sort_by(|a,b| a.0.cmp(b.0));
                    for (k, v) in ks { println!("DEF {} = {:?}", k, v.as_ref().map(|d| (&d.arguments, d.text.as_ref().map(|t| &t.text)))); }
                }
                Err(e) => println!("ERR {:?}", e),
            }
        }
        "sv" | "svi" | "lib" | "libi" => {
            let inc = mode.ends_with('i');
            let r = if mode.starts_with("sv") { parse_sv_str(&src, &args[2], &defines, &incs, false, inc) } else { parse_lib_str(&src, &args[2], &defines, &incs, false, inc) };
            match r {
                Ok((t, _)) => {
                    let mut pos = 0usize; let mut bad = false;
                    for n in &t { if let RefNode::Locate(l) = n { if l.offset != pos || l.len == 0 { bad = true; println!("GAP at {} leaf {:?}", pos, l);} pos = l.offset + l.len; } }
                    println!("OK leaves_end={} bad={}", pos, bad);
                    if args.len() > 3 && args[3] == "-t" { println!("{}", t); }
                    else { print!("{}", t); }
                }
                Err(e) => println!("ERR {:?}", e),
            }
        }
        _ => {}
    }
}

/-! Prototype: generic PEG interpreter with fuel + tiling theorem. -/

namespace Peg

inductive Tree where
  | leaf (off len : Nat)
  | node (kind : Nat) (kids : List Tree)
deriving Repr, Inhabited

inductive PExpr where
  | tag (bs : List Nat)
  | call (f : Nat)
  | seq (es : List PExpr)
  | alt (es : List PExpr)
  | opt (e : PExpr)
  | many0 (e : PExpr)
  | node (kind : Nat) (e : PExpr)
  | peek (e : PExpr)
  | not (e : PExpr)
  | dropL (a b : PExpr)            -- preceded(a,b): a's output dropped
deriving Repr, Inhabited

abbrev Grammar := Nat → PExpr

inductive Res where
  | ok (pos : Nat) (ts : List Tree)
  | err
  | oof                             -- out of fuel
deriving Repr, Inhabited

def matchTag (inp : Array UInt8) (pos : Nat) : List Nat → Bool
  | [] => true
  | b :: bs => (if h : pos < inp.size then inp[pos].toNat == b else false) && matchTag inp (pos+1) bs

mutual
def eval (g : Grammar) (inp : Array UInt8) : Nat → PExpr → Nat → Res
  | 0, _, _ => .oof
  | fuel+1, e, pos =>
    match e with
    | .tag bs => if matchTag inp pos bs then .ok (pos + bs.length) [.leaf pos bs.length] else .err
    | .call f => eval g inp fuel (g f) pos
    | .seq es => evalSeq g inp fuel es pos
    | .alt es => evalAlt g inp fuel es pos
    | .opt e => match eval g inp fuel e pos with
        | .ok q ts => .ok q ts
        | .err => .ok pos []
        | .oof => .oof
    | .many0 e => evalMany g inp fuel e pos
    | .node k e => match eval g inp fuel e pos with
        | .ok q ts => .ok q [.node k ts]
        | r => r
    | .peek e => match eval g inp fuel e pos with
        | .ok _ _ => .ok pos []
        | r => r
    | .not e => match eval g inp fuel e pos with
        | .ok _ _ => .err
        | .err => .ok pos []
        | .oof => .oof
    | .dropL a b => match eval g inp fuel a pos with
        | .ok q _ => eval g inp fuel b q
        | r => r
def evalSeq (g : Grammar) (inp : Array UInt8) : Nat → List PExpr → Nat → Res
  | 0, _, _ => .oof
  | _+1, [], pos => .ok pos []
  | fuel+1, e :: es, pos =>
    match eval g inp fuel e pos with
    | .ok q ts => match evalSeq g inp fuel es q with
        | .ok q' ts' => .ok q' (ts ++ ts')
        | r => r
    | r => r
def evalAlt (g : Grammar) (inp : Array UInt8) : Nat → List PExpr → Nat → Res
  | 0, _, _ => .oof
  | _+1, [], _ => .err
  | fuel+1, e :: es, pos =>
    match eval g inp fuel e pos with
    | .ok q ts => .ok q ts
    | .err => evalAlt g inp fuel es pos
    | .oof => .oof
def evalMany (g : Grammar) (inp : Array UInt8) : Nat → PExpr → Nat → Res
  | 0, _, _ => .oof
  | fuel+1, e, pos =>
    match eval g inp fuel e pos with
    | .ok q ts =>
      if q = pos then .err   -- nom many0: non-consuming success is an error
      else match evalMany g inp fuel e q with
        | .ok q' ts' => .ok q' (ts ++ ts')
        | r => r
    | .err => .ok pos []
    | .oof => .oof
end

-- leaves in pre-order
mutual
def leaves : Tree → List (Nat × Nat)
  | .leaf o l => [(o, l)]
  | .node _ ks => leavesL ks
def leavesL : List Tree → List (Nat × Nat)
  | [] => []
  | t :: ts => leaves t ++ leavesL ts
end

/-- `Chain p ls q`: the ranges follow one another from p to q, none empty. -/
def Chain : Nat → List (Nat × Nat) → Nat → Prop
  | p, [], q => p = q
  | p, (o, l) :: ls, q => o = p ∧ 0 < l ∧ Chain (p + l) ls q

theorem Chain.append {p m q : Nat} {a b : List (Nat × Nat)}
    (h1 : Chain p a m) (h2 : Chain m b q) : Chain p (a ++ b) q := by
  induction a generalizing p with
  | nil => simp [Chain] at h1; subst h1; simpa using h2
  | cons x xs ih =>
    obtain ⟨o, l⟩ := x
    simp [Chain] at h1 ⊢
    exact ⟨h1.1, h1.2.1, ih h1.2.2⟩

theorem leavesL_append (a b : List Tree) : leavesL (a ++ b) = leavesL a ++ leavesL b := by
  induction a with
  | nil => simp [leavesL]
  | cons t ts ih => simp [leavesL, ih, List.append_assoc]

-- syntactic well-formedness for tiling
mutual
def NonCons : PExpr → Bool
  | .peek _ => true
  | .not _ => true
  | .seq es => NonConsL es
  | _ => false
def NonConsL : List PExpr → Bool
  | [] => true
  | e :: es => NonCons e && NonConsL es
end

mutual
def WF : PExpr → Bool
  | .tag bs => !bs.isEmpty
  | .call _ => true
  | .seq es => WFL es
  | .alt es => WFL es
  | .opt e => WF e
  | .many0 e => WF e
  | .node _ e => WF e
  | .peek _ => true
  | .not _ => true
  | .dropL a b => NonCons a && WF b
def WFL : List PExpr → Bool
  | [] => true
  | e :: es => WF e && WFL es
end

def Tiles (p : Nat) (r : Res) : Prop :=
  match r with
  | .ok q ts => Chain p (leavesL ts) q
  | _ => True

/-- a non-consuming expression returns no trees and does not move -/
def Still (p : Nat) (r : Res) : Prop :=
  match r with
  | .ok q ts => q = p ∧ ts = []
  | _ => True

theorem still_all (g : Grammar) (inp : Array UInt8) :
    ∀ fuel, (∀ e pos, NonCons e = true → Still pos (eval g inp fuel e pos)) ∧
            (∀ es pos, NonConsL es = true → Still pos (evalSeq g inp fuel es pos)) := by
  intro fuel
  induction fuel with
  | zero => constructor <;> intros <;> simp [eval, evalSeq, Still]
  | succ n ih =>
    obtain ⟨ihE, ihS⟩ := ih
    constructor
    · intro e pos h
      cases e <;> simp [NonCons] at h
      case seq es => simpa [eval] using ihS es pos h
      case peek e => simp only [eval]; split <;> simp [Still]
      case not e => simp only [eval]; split <;> simp [Still]
    · intro es pos h
      cases es with
      | nil => simp [evalSeq, Still]
      | cons e es =>
        simp [NonConsL] at h
        simp only [evalSeq]
        have h1 := ihE e pos h.1
        split
        · rename_i q ts heq
          rw [heq] at h1; simp [Still] at h1
          obtain ⟨rfl, rfl⟩ := h1
          have h2 := ihS es q h.2
          split
          · rename_i q' ts' heq2
            rw [heq2] at h2; simp [Still] at h2 ⊢; exact h2
          · rename_i r hr; cases r <;> simp_all [Still]
        · rename_i r hr; cases r <;> simp_all [Still]

theorem tiling (g : Grammar) (inp : Array UInt8) (hg : ∀ f, WF (g f) = true) :
    ∀ fuel,
      (∀ e pos, WF e = true → Tiles pos (eval g inp fuel e pos)) ∧
      (∀ es pos, WFL es = true → Tiles pos (evalSeq g inp fuel es pos)) ∧
      (∀ es pos, WFL es = true → Tiles pos (evalAlt g inp fuel es pos)) ∧
      (∀ e pos, WF e = true → Tiles pos (evalMany g inp fuel e pos)) := by
  intro fuel
  induction fuel with
  | zero => refine ⟨?_, ?_, ?_, ?_⟩ <;> intros <;> simp [eval, evalSeq, evalAlt, evalMany, Tiles]
  | succ n ih =>
    obtain ⟨ihE, ihS, ihA, ihM⟩ := ih
    refine ⟨?_, ?_, ?_, ?_⟩
    · intro e pos h
      cases e with
      | tag bs =>
        simp only [eval]; split
        · simp [WF] at h
          have : 0 < bs.length := by cases bs <;> simp_all
          simp [Tiles, leavesL, leaves, Chain, this]
        · simp [Tiles]
      | call f => simpa [eval] using ihE (g f) pos (hg f)
      | seq es => simpa [eval] using ihS es pos (by simpa [WF] using h)
      | alt es => simpa [eval] using ihA es pos (by simpa [WF] using h)
      | opt e =>
        have := ihE e pos (by simpa [WF] using h)
        simp only [eval]; split <;> simp_all [Tiles, leavesL, Chain]
      | many0 e => simpa [eval] using ihM e pos (by simpa [WF] using h)
      | node k e =>
        have := ihE e pos (by simpa [WF] using h)
        simp only [eval]; split
        · rename_i q ts heq; rw [heq] at this
          simpa [Tiles, leavesL, leaves] using this
        · rename_i r hr; cases r <;> simp_all [Tiles]
      | peek e => simp only [eval]; split <;> simp_all [Tiles, leavesL, Chain]
      | not e => simp only [eval]; split <;> simp_all [Tiles, leavesL, Chain]
      | dropL a b =>
        simp [WF] at h
        have ha := (still_all g inp n).1 a pos h.1
        simp only [eval]; split
        · rename_i q ts heq; rw [heq] at ha; simp [Still] at ha
          obtain ⟨rfl, rfl⟩ := ha
          exact ihE b q h.2
        · rename_i r hr; cases r <;> simp_all [Tiles]
    · intro es pos h
      cases es with
      | nil => simp [evalSeq, Tiles, leavesL, Chain]
      | cons e es =>
        simp [WFL] at h
        have h1 := ihE e pos h.1
        simp only [evalSeq]; split
        · rename_i q ts heq; rw [heq] at h1
          have h2 := ihS es q h.2
          split
          · rename_i q' ts' heq2; rw [heq2] at h2
            simp only [Tiles] at h1 h2 ⊢
            rw [leavesL_append]; exact Chain.append h1 h2
          · rename_i r hr; cases r <;> simp_all [Tiles]
        · rename_i r hr; cases r <;> simp_all [Tiles]
    · intro es pos h
      cases es with
      | nil => simp [evalAlt, Tiles]
      | cons e es =>
        simp [WFL] at h
        have h1 := ihE e pos h.1
        simp only [evalAlt]; split
        · rename_i q ts heq; rw [heq] at h1; exact h1
        · exact ihA es pos h.2
        · simp [Tiles]
    · intro e pos h
      have h1 := ihE e pos h
      simp only [evalMany]; split
      · rename_i q ts heq; rw [heq] at h1
        split
        · simp [Tiles]
        · have h2 := ihM e q h
          split
          · rename_i q' ts' heq2; rw [heq2] at h2
            simp only [Tiles] at h1 h2 ⊢
            rw [leavesL_append]; exact Chain.append h1 h2
          · rename_i r hr; cases r <;> simp_all [Tiles]
      · simp [Tiles, leavesL, Chain]
      · simp [Tiles]

end Peg


namespace It

inductive Tree where
  | node (kind : Nat) (kids : List Tree)
deriving Repr, Inhabited

def Tree.kids : Tree → List Tree
  | .node _ ks => ks

mutual
def pre : Tree → List Tree
  | .node k ks => .node k ks :: preL ks
def preL : List Tree → List Tree
  | [] => []
  | t :: ts => pre t ++ preL ts
end

mutual
def size : Tree → Nat
  | .node _ ks => 1 + sizeL ks
def sizeL : List Tree → Nat
  | [] => 0
  | t :: ts => size t + sizeL ts
end

theorem preL_append (a b : List Tree) : preL (a ++ b) = preL a ++ preL b := by
  induction a with
  | nil => simp [preL]
  | cons t ts ih => simp [preL, ih, List.append_assoc]

theorem sizeL_append (a b : List Tree) : sizeL (a ++ b) = sizeL a + sizeL b := by
  induction a with
  | nil => simp [sizeL]
  | cons t ts ih => simp [sizeL, ih]; omega

/- The Rust iterator: `next` is a Vec used as a stack with the top at the END.
   pop(); children reversed; appended. -/
def step (st : List Tree) : Option (Tree × List Tree) :=
  match st.getLast? with
  | none => none
  | some x => some (x, st.dropLast ++ x.kids.reverse)

/- run with fuel -/
def run : Nat → List Tree → List Tree
  | 0, _ => []
  | n+1, st => match step st with
    | none => []
    | some (x, st') => x :: run n st'

/- stack (top at end) represents the forest `st.reverse` still to be visited -/
theorem run_pre : ∀ n (st : List Tree), sizeL st.reverse < n → run n st = preL st.reverse := by
  intro n
  induction n with
  | zero => intro st h; omega
  | succ n ih =>
    intro st h
    rcases List.eq_nil_or_concat st with rfl | ⟨init, x, rfl⟩
    · simp [run, step, preL]
    · rw [List.concat_eq_append] at h ⊢
      cases x with
      | node k ks =>
        have hs : sizeL (init ++ ks.reverse).reverse < n := by
          simp [List.reverse_append, sizeL_append, sizeL, size] at h ⊢
          omega
        simp only [run, step, List.getLast?_append, List.getLast?_singleton, Option.some_or,
          List.dropLast_concat, Tree.kids]
        rw [ih _ hs]
        simp [List.reverse_append, preL_append, preL, pre]

/- `Iter::new(roots)` reverses the roots; iteration yields their pre-orders in order -/
theorem iter_preorder (roots : List Tree) :
    run (sizeL roots + 1) roots.reverse = preL roots := by
  have := run_pre (sizeL roots + 1) roots.reverse (by simp)
  simpa using this

end It
#print axioms It.iter_preorder

"""Prototype: parse the Rust expression subset used by sv-parser-parser and translate to a PEG AST.
Measures how many of the parser functions translate mechanically."""
import re, os, sys, collections, json
sys.path.insert(0, '/root/scratch/an')
from classify import functions

TOK = re.compile(r'''
    (?P<ws>\s+|//[^\n]*)
  | (?P<str>r\#*"(?:.|\n)*?"\#*|"(?:\\.|[^"\\])*")
  | (?P<chr>'(?:\\.|[^'\\])')
  | (?P<num>\d+(?:usize)?)
  | (?P<id>[A-Za-z_][A-Za-z0-9_]*(?:::[A-Za-z_][A-Za-z0-9_]*)*!?)
  | (?P<op>=>|\|\||[(){}\[\],;?&*.=|:<>!\-+'])
''', re.X)

def lex(s):
    out = []; i = 0
    while i < len(s):
        m = TOK.match(s, i)
        if not m: raise SyntaxError('lex at %r' % s[i:i+30])
        i = m.end()
        k = m.lastgroup
        if k == 'ws': continue
        out.append((k, m.group(k)))
    out.append(('eof', ''))
    return out

class P:
    def __init__(self, toks): self.t = toks; self.i = 0
    def peek(self, o=0): return self.t[self.i+o]
    def eat(self, v=None, k=None):
        tk = self.t[self.i]
        if v is not None and tk[1] != v: raise SyntaxError('expected %r got %r at %d' % (v, tk, self.i))
        if k is not None and tk[0] != k: raise SyntaxError('expected kind %r got %r' % (k, tk))
        self.i += 1; return tk
    def at(self, v): return self.t[self.i][1] == v and self.t[self.i][0] in ('op',)
    # expr := closure | postfix
    def expr(self):
        if self.at('|') or self.at('||'):
            return self.closure()
        if self.at('&'): self.eat('&'); return self.expr()
        if self.at('*'): self.eat('*'); return ('deref', self.expr())
        return self.postfix()
    def closure(self):
        params = []
        if self.at('||'): self.eat('||')
        else:
            self.eat('|')
            depth = 0; buf = []
            while not (self.at('|') and depth == 0):
                tk = self.eat()
                if tk[1] == '(': depth += 1
                if tk[1] == ')': depth -= 1
                buf.append(tk[1])
            self.eat('|'); params = buf
        if self.at('{'):
            body = self.block()
        else:
            body = ('block', [], self.expr())
        return ('closure', params, body)
    def block(self):
        self.eat('{'); stmts = []
        while True:
            if self.at('}'): self.eat('}'); return ('block', stmts, None)
            e = self.stmt_or_expr()
            if self.at(';'): self.eat(';'); stmts.append(e); continue
            self.eat('}'); return ('block', stmts, e)
    def stmt_or_expr(self):
        if self.peek() == ('id', 'let'):
            self.eat(); pat = self.pattern()
            if self.at(':'):  # type ascription
                self.eat(':'); self.type_()
            self.eat('='); e = self.expr(); return ('let', pat, e)
        return self.expr()
    def type_(self):
        depth = 0
        while not ((self.at('=') or self.at(';')) and depth == 0):
            tk = self.eat()
            if tk[1] in '(<': depth += 1
            if tk[1] in ')>': depth -= 1
    def pattern(self):
        if self.at('('):
            self.eat('('); items = []
            while not self.at(')'):
                items.append(self.pattern())
                if self.at(','): self.eat(',')
            self.eat(')'); return ('ptuple', items)
        if self.peek() == ('id', 'mut'): self.eat()
        if self.peek() == ('id', 'ref'): self.eat()
        tk = self.eat(k='id'); return ('pvar', tk[1])
    def postfix(self):
        e = self.primary()
        while True:
            if self.at('('):
                e = ('call', e, self.args())
            elif self.at('?'):
                self.eat('?'); e = ('try', e)
            elif self.at('.'):
                self.eat('.'); name = self.eat()[1]
                if self.at('('): e = ('mcall', e, name, self.args())
                else: e = ('field', e, name)
            else: return e
    def args(self):
        self.eat('('); a = []
        while not self.at(')'):
            a.append(self.expr())
            if self.at(','): self.eat(',')
        self.eat(')'); return a
    def primary(self):
        k, v = self.peek()
        if k == 'str': self.eat(); return ('str', v)
        if k == 'chr': self.eat(); return ('chr', v)
        if k == 'num': self.eat(); return ('num', v)
        if k == 'op' and v == '(':
            a = self.args()
            return ('tuple', a)
        if k == 'op' and v == '{':
            return self.block()
        if k == 'id':
            self.eat()
            if v == 'vec!':
                self.eat('['); self.eat(']'); return ('vecempty',)
            if v in ('if', 'for', 'while', 'match', 'loop', 'unsafe'):
                raise SyntaxError('control flow ' + v)
            # struct literal?  Path { nodes: ... }
            if self.at('{') and re.match(r'^[A-Z]', v.split('::')[-1]) and self.peek(1) == ('id', 'nodes'):
                self.eat('{'); self.eat('nodes'); self.eat(':'); e = self.expr()
                if self.at(','): self.eat(',')
                self.eat('}'); return ('struct', v, e)
            return ('path', v)
        raise SyntaxError('primary %r' % (self.peek(),))

def parse_body(body):
    toks = lex(body)
    p = P(toks)
    stmts = []
    while p.peek()[0] != 'eof':
        e = p.stmt_or_expr()
        if p.at(';'): p.eat(';')
        stmts.append(e)
    return stmts

# ---------------------------------------------------------------------------- translation
LEAF_COMB = {'tag', 'tag_no_case', 'is_a', 'is_not', 'one_of', 'none_of', 'take', 'symbol', 'symbol_exact', 'keyword'}
UNARY = {'opt', 'many0', 'many1', 'peek', 'not', 'ws', 'no_ws', 'paren', 'paren_exact', 'bracket', 'brace', 'apostrophe_brace'}
BINARY = {'pair', 'terminated', 'preceded', 'many_till', 'list'}
ZERO = {'digit1', 'space1', 'multispace1', 'eof', 'alpha1', 'alphanumeric1', 'char', 'anychar'}

class Opaque(Exception): pass

def tr(e, prods):
    k = e[0]
    if k == 'path':
        n = e[1]
        if n in prods: return ['call', n]
        if n in ZERO: return [n]
        if n == 'into_locate': return ['fn_into_locate']
        raise Opaque('path ' + n)
    if k == 'call':
        f, a = e[1], e[2]
        if f[0] == 'path':
            n = f[1]
            if n in LEAF_COMB:
                if len(a) == 1 and a[0][0] in ('str', 'path', 'num'): return [n, a[0][1]]
                raise Opaque('leaf arg')
            if n in ('char',):
                return ['char', a[0][1]]
            if n in UNARY and len(a) == 1: return [n, tr(a[0], prods)]
            if n in BINARY and len(a) == 2: return [n, tr(a[0], prods), tr(a[1], prods)]
            if n == 'triple' and len(a) == 3: return ['seq'] + [tr(x, prods) for x in a]
            if n in ('alt', 'tuple') and len(a) == 1 and a[0][0] == 'tuple':
                return ['alt' if n == 'alt' else 'seq'] + [tr(x, prods) for x in a[0][1]]
            if n == 'map' and len(a) == 2:
                return ['map', tr(a[0], prods), closure_shape(a[1])]
            if n == 'all_consuming' and len(a) == 1: return ['all_consuming', tr(a[0], prods)]
            if n == 'context' and len(a) == 2: return tr(a[1], prods)
            raise Opaque('comb ' + n)
        raise Opaque('call of non-path')
    raise Opaque('expr ' + k)

def closure_shape(c):
    if c[0] == 'path' and c[1] == 'into_locate': return 'into_locate'
    if c[0] != 'closure': raise Opaque('map fn not closure')
    params, body = c[1], c[2]
    stmts, val = body[1], body[2]
    side = []
    for s in stmts:
        if s[0] == 'call' and s[1] == ('path', 'begin_keywords'): side.append(('begin_keywords', s[2][0][1]))
        else: raise Opaque('closure stmt')
    return ('closure', params, side, res_shape(val))

def res_shape(v):
    """result constructor shape: nested list of variable names in order"""
    k = v[0]
    if k == 'path': return ['var', v[1]]
    if k == 'struct': return ['node', v[1], res_shape(v[2])]
    if k == 'tuple': return ['tuple'] + [res_shape(x) for x in v[1]]
    if k == 'vecempty': return ['empty']
    if k == 'call' and v[1][0] == 'path':
        n = v[1][1]
        if n == 'Box::new' and len(v[2]) == 1: return res_shape(v[2][0])
        if n == 'into_locate' and len(v[2]) == 1: return ['leaf', res_shape(v[2][0])]
        if re.match(r'^[A-Z]\w*::[A-Z]\w*$', n) and len(v[2]) == 1: return ['enum', n, res_shape(v[2][0])]
    raise Opaque('result ' + k + ' ' + str(v)[:60])

def translate_fn(name, body, prods):
    stmts = parse_body(body)
    if len(stmts) == 1 and stmts[0][0] == 'call' and stmts[0][2] == [('path', 's')]:
        return ['expr', tr(stmts[0][1], prods)]
    binds = []
    for st in stmts[:-1]:
        if st[0] == 'let' and st[2][0] == 'try' and st[2][1][0] == 'call' and st[2][1][2] == [('path', 's')] \
           and st[1][0] == 'ptuple' and st[1][1][0] == ('pvar', 's') and len(st[1][1]) == 2:
            binds.append([st[1][1][1], tr(st[2][1][1], prods)])
        else:
            raise Opaque('stmt ' + st[0])
    last = stmts[-1]
    if last[0] == 'call' and last[1] == ('path', 'Ok') and last[2][0][0] == 'tuple' and last[2][0][1][0] == ('path', 's'):
        return ['seqfn', binds, res_shape(last[2][0][1][1])]
    raise Opaque('last stmt')

if __name__ == '__main__':
    os.chdir('/repo/sv-parser-parser/src')
    fns = []
    for root, _, files in os.walk('.'):
        for f in sorted(files):
            if f.endswith('.rs') and f not in ('tests.rs', 'keywords.rs', 'utils.rs', 'lib.rs'):
                for x in functions(os.path.join(root, f)): fns.append((os.path.join(root, f),) + x)
    prods = set(x[1] for x in fns) | {'white_space'}
    ok = 0; bad = collections.Counter(); badl = []
    out = {}
    for path, name, attrs, ret, body in fns:
        try:
            out[name] = translate_fn(name, body, prods); ok += 1
        except (Opaque, SyntaxError) as ex:
            bad[str(ex)[:40]] += 1; badl.append((name, str(ex)[:80]))
    print('translated', ok, 'of', len(fns))
    for k, v in bad.most_common(): print(' ', v, k)
    for b in badl: print('   ', b)
    json.dump(out, open('/root/scratch/an/grammar.json', 'w'))

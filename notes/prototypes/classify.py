import re,os,collections,sys
def strip_strings(src):
    # replace contents of string/char literals and comments with placeholders of same length
    out=[];i=0;n=len(src)
    while i<n:
        c=src[i]
        if src.startswith('//',i):
            j=src.find('\n',i); j=n if j<0 else j
            out.append(' '*(j-i)); i=j
        elif c=='"':
            j=i+1
            while src[j]!='"':
                if src[j]=='\\': j+=1
                j+=1
            out.append('"'+'_'*(j-i-1)+'"'); i=j+1
        elif c=="'" and re.match(r"'(\\.|[^\\'])'",src[i:]):
            m=re.match(r"'(\\.|[^\\'])'",src[i:])
            out.append("'"+'_'*(len(m.group(0))-2)+"'"); i+=len(m.group(0))
        else:
            out.append(c); i+=1
    return ''.join(out)
def functions(path):
    src=open(path).read()
    ss=strip_strings(src)
    assert len(ss)==len(src)
    for m in re.finditer(r'((?:#\[[^\]]*\]\s*)*)pub(?:\(crate\))? fn (\w+)\s*\(\s*s: Span,?\s*\)\s*->\s*IResult<Span, ([^{]*)>\s*\{', ss):
        start=m.end(); depth=1;i=start
        while depth>0:
            c=ss[i]
            if c=='{':depth+=1
            elif c=='}':depth-=1
            i+=1
        yield m.group(2),m.group(1),m.group(3).strip(),src[start:i-1]
if __name__=='__main__':
    os.chdir('/repo/sv-parser-parser/src')
    fns=[]
    for root,_,files in os.walk('.'):
        for f in sorted(files):
            if f.endswith('.rs') and f not in('tests.rs','keywords.rs','utils.rs','lib.rs'):
                for x in functions(os.path.join(root,f)): fns.append((os.path.join(root,f),)+x)
    print(len(fns))
    cnt=collections.Counter(); odd=[]
    for path,name,attrs,ret,body in fns:
        lines=[l.strip() for l in body.strip().split('\n')]
        b=' '.join(lines)
        if re.fullmatch(r'alt\(\(.*\)\)\(s\)', b, re.S): cnt['pure_alt']+=1; continue
        stm=[x.strip() for x in re.split(r';\s+(?=let |Ok\(|if |for |begin_|end_)', b)]
        ok=True
        for st in stm[:-1]:
            if not re.match(r'let \(s, [^=]*\) = .*\(s\)\?$', st, re.S): ok=False
        if ok and re.match(r'Ok\(\(', stm[-1]): cnt['seq']+=1; continue
        cnt['other']+=1; odd.append((path,name))
    print(cnt)
    for o in odd: print(o)

use std::collections::HashMap;
use sv_parser::*;
fn main() {
    let src = "module m; wire a `default_nettype none\n; endmodule\n";
    let defines: Defines = HashMap::new();
    let (t, _) = parse_sv_str(src, "x.sv", &defines, &[""], false, false).unwrap();
    for n in &t {
        if let RefNode::NetIdentifier(x) = n {
            println!("trim=<<{}>> full=<<{}>>", t.get_str_trim(x).unwrap(), t.get_str(x).unwrap());
        }
    }
    // events balance check
    let mut depth = 0i64; let mut n_enter = 0; let mut n_iter = 0;
    for e in (&t).into_iter().event() { match e { NodeEvent::Enter(_) => { depth += 1; n_enter += 1; } NodeEvent::Leave(_) => depth -= 1 } }
    for _ in &t { n_iter += 1; }
    println!("depth={} enters={} iter={}", depth, n_enter, n_iter);
}

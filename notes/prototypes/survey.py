import re,os,collections,sys
sys.path.insert(0,'/root/scratch/an')
from classify import functions
os.chdir('/repo/sv-parser-parser/src')
calls=collections.Counter(); closures=collections.Counter(); results=collections.Counter()
pats=collections.Counter()
for root,_,files in os.walk('.'):
    for f in sorted(files):
        if f.endswith('.rs') and f not in('tests.rs','keywords.rs','utils.rs','lib.rs'):
            for name,attrs,ret,body in functions(os.path.join(root,f)):
                b=' '.join(l.strip() for l in body.strip().split('\n'))
                for m in re.finditer(r'\b([a-z_0-9]+)\(', b):
                    calls[m.group(1)]+=1
                for m in re.finditer(r'\|([^|]*)\|\s*(\{[^}]*\}|[^,)]*(?:\([^()]*(?:\([^()]*(?:\([^()]*\))?[^()]*\))?[^()]*\))?)', b):
                    c=re.sub(r'[A-Z]\w+','T',m.group(0))
                    closures[c]+=1
                for m in re.finditer(r'let \(s, ([^=]*)\) =', b):
                    p=re.sub(r'\b[a-z]\b','v',m.group(1))
                    pats[p]+=1
                m=re.search(r'Ok\(\(\s*s,\s*(.*)\)\)\s*$', b)
                if m:
                    r=re.sub(r'[A-Z]\w+','T',m.group(1)); r=re.sub(r'\b[a-z]\b','v',r)
                    results[r]+=1
prod=set()
for root,_,files in os.walk('.'):
    for f in files:
        if f.endswith('.rs') and f not in('tests.rs',):
            prod|=set(re.findall(r'fn (\w+)',open(os.path.join(root,f)).read()))
print('COMBINATORS (non-production calls):')
for k,v in calls.most_common():
    if k not in prod: print(' ',k,v)
print('CLOSURES:'); 
for k,v in closures.most_common(60): print(' ',v,k)
print(len(closures))
print('PATTERNS:')
for k,v in pats.most_common(40): print(' ',v,k)
print('RESULTS:')
for k,v in results.most_common(50): print(' ',v,k)
print(len(results))

`M

"s" `include "f.svh"

module m(a);  `begin_keywords "1364-2001"
  wire w0;
  input a;
  reg logic;
endmodule
`end_keywords
module n; reg logic; endmodule

`ifdef X
A
`elsif __LINE__
B
`endif

/* a
 b */ `include "f.svh"

a "s"  b

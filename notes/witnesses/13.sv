`define E(x) x
a `E()bcd efg

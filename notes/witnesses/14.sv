`define M `include "r2.svh"
`M

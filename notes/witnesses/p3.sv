modulem; endmodule

`ifndef __FILE__
A
`elsif UNDEF
B
`endif

`resetall
module module; endmodule

x
y `include "f.svh"

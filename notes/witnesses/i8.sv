`ifdef X
`endif `include "f.svh"

a/* c */b // x
`define M 1 // k
`M/*y*/+`M // z
`ifdef M /* q */
yes // w
`endif // e
"s" /* t */ u

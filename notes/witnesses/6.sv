`ifdef X
A
`else   
  B
`endif  
C

`define S "a``b"
`S

//! C01 oracle: on every accepted input the leaves tile the preprocessed text, lines are right,
//! get_str of every node is the slice spanned by its own leaves.
use crate::{api::*, corpus, gen, report::Report, util::{self, Rng}};
use std::path::PathBuf;

pub struct Case { pub text: String, pub lib: bool, pub incomplete: bool, pub tag: String }

/// returns Err(description) on a property failure, Ok(nontrivial) otherwise (Ok(false) = rejected input)
pub fn check_one(c: &Case) -> Result<(bool, usize), String> {
    let d = no_defines(); let inc = no_includes();
    let path = PathBuf::from("t.sv");
    let pp = match preprocess_str(&c.text, &path, &d, &inc, false, false, 0, 0) { Ok((t, _)) => t.text().to_string(), Err(_) => return Ok((false, 0)) };
    let r = if c.lib { parse_lib_str(&c.text, &path, &d, &inc, false, c.incomplete) } else { parse_sv_str(&c.text, &path, &d, &inc, false, c.incomplete) };
    let (tree, _) = match r { Ok(x) => x, Err(_) => return Ok((false, 0)) };
    check_tree(&tree, &pp, c.incomplete)
}

pub fn check_tree(tree: &SyntaxTree, pp: &str, incomplete: bool) -> Result<(bool, usize), String> {
    let mut pos = 0usize; let mut nleaves = 0usize; let mut cat = String::new();
    let mut nl_before = 0usize; let mut scanned = 0usize;
    let bytes = pp.as_bytes();
    for n in tree {
        if let RefNode::Locate(x) = n {
            nleaves += 1;
            if x.offset != pos { return Err(format!("leaf #{} starts at {} but previous leaf ended at {}", nleaves, x.offset, pos)); }
            if x.len == 0 { return Err(format!("leaf #{} at {} is empty", nleaves, x.offset)); }
            if x.offset + x.len > pp.len() { return Err(format!("leaf #{} [{}, {}) exceeds text length {}", nleaves, x.offset, x.offset + x.len, pp.len())); }
            if !pp.is_char_boundary(x.offset) || !pp.is_char_boundary(x.offset + x.len) { return Err(format!("leaf #{} [{}, {}) not on char boundaries", nleaves, x.offset, x.offset + x.len)); }
            while scanned < x.offset { if bytes[scanned] == b'\n' { nl_before += 1; } scanned += 1; }
            if x.line as usize != 1 + nl_before { return Err(format!("leaf #{} at {} has line {} but {} newlines precede it", nleaves, x.offset, x.line, nl_before)); }
            match tree.get_str(x) { Some(s) => cat.push_str(s), None => return Err("get_str(leaf) = None".into()) }
            pos = x.offset + x.len;
        }
    }
    if incomplete { if !pp.starts_with(&cat) { return Err("concatenated leaves are not a prefix of the preprocessed text".into()); } }
    else {
        if pos != pp.len() { return Err(format!("strict mode: leaves end at {} but the text has {} bytes", pos, pp.len())); }
        if cat != pp { return Err("concatenated get_str over leaves differs from the preprocessed text".into()); }
    }
    // every node: get_str == slice of its own leaves; Locate::try_from consistent
    let mut nodes = 0usize;
    for n in tree {
        nodes += 1;
        if nodes > 4000 { break; }
        let mut first: Option<usize> = None; let mut last = 0usize;
        for m in n.clone() { if let RefNode::Locate(x) = m { if first.is_none() { first = Some(x.offset); } last = x.offset + x.len; } }
        let got = tree.get_str(vec![n.clone()]);
        match (first, got) {
            (None, None) => {}
            (Some(b), Some(s)) => { if s != &pp[b..last] { return Err(format!("get_str of node {} is {:?} but its leaves span [{}, {})", n, s, b, last)); } }
            (a, b) => return Err(format!("get_str of node {}: leaves {:?} vs {:?}", n, a, b.map(|x| x.len()))),
        }
    }
    Ok((nleaves >= 3, nleaves))
}

fn relayout(text: &str, rng: &mut Rng) -> String {
    // replace some blanks by richer trivia (comments with non-ASCII, kept directives, CRLF)
    let triv = [" ", "  ", "\t", "\n", "\r\n", " /* é日本 */ ", " // x\u{1f600}\n", "\n`celldefine\n", "\n`default_nettype none\n", "\n`timescale 1ns/1ps\n", "\n`line 3 \"f.v\" 1\n", "\n`pragma foo\n", " /**/ "];
    let mut out = String::new();
    for ch in text.chars() {
        if (ch == ' ' || ch == '\n') && rng.chance(1, 4) { out.push_str(rng.pick_str(&triv)); } else { out.push(ch); }
    }
    out
}

pub fn main(args: &[String]) {
    let workdir = &args[0]; let tier = &args[1]; let seed: u64 = args[2].parse().unwrap(); let out = &args[3];
    let thorough = tier == "thorough";
    let corp = corpus::load(workdir);
    let mut rng = Rng::new(seed);
    let mut cases = vec![];
    for it in &corp {
        let lib = it.kind == "lib";
        cases.push(Case { text: it.text.clone(), lib, incomplete: false, tag: format!("corpus:{}", it.name) });
        cases.push(Case { text: it.text.clone(), lib, incomplete: true, tag: format!("corpus-inc:{}", it.name) });
    }
    let ngen = if thorough { 30000 } else { 2500 };
    for i in 0..ngen {
        let base = rng.pick(&corp);
        let lib = base.kind == "lib";
        let t = match i % 6 {
            // grammar-directed sentences of the Annex A subset (the C02 generator): structured, mostly accepted
            5 => crate::c02::generate(&mut rng, 5).text,
            0 | 1 => relayout(&base.text, &mut rng),
            2 => { let t = relayout(&base.text, &mut rng); gen::mutate(&t, &mut rng, gen::SV_ATOMS) }
            3 => { let mut t = base.text.clone(); t.push_str(rng.pick_str(&["\n)", " endmodule garbage ((", "\n\u{1}", "module"])); t }  // incomplete-mode prefixes
            _ => { let b2 = rng.pick(&corp); format!("{}\n{}", base.text, b2.text) }
        };
        let lib = lib && i % 6 != 5;
        cases.push(Case { text: t, lib, incomplete: i % 6 == 3 || rng.chance(1, 3), tag: format!("gen{}", i % 6) });
    }
    let cases = std::sync::Arc::new(cases);
    let c2 = cases.clone();
    let results = util::par_map(cases.len(), util::env_usize("SVH_THREADS", 16), move |i| {
        let c = &c2[i];
        match std::panic::catch_unwind(std::panic::AssertUnwindSafe(|| check_one(c))) {
            Ok(r) => r, Err(e) => Err(format!("panic: {}", util::panic_msg(e))),
        }
    });
    let mut rep = Report::new("inputs: every corpus program (strict and incomplete, SV and library grammar) + re-laid-out / mutated / concatenated / garbage-suffixed variants; non-trivial = accepted with >= 3 leaves; distinct by hash of (mode, text)");
    for (c, r) in cases.iter().zip(results.into_iter()) {
        let key = format!("{}{}{}", c.lib, c.incomplete, c.text);
        match r {
            Ok((nt, nl)) => {
                rep.case(key.as_bytes(), nt);
                rep.count(if nl == 0 { "rejected-or-empty" } else if c.incomplete { "accepted-incomplete" } else { "accepted-strict" });
                rep.count(&format!("tag:{}", c.tag.split(':').next().unwrap()));
                if nt && rep.samples.len() < 4 && c.text.len() < 200 { rep.sample(format!("[{} leaves, {}] {}", nl, if c.incomplete { "incomplete" } else { "strict" }, c.text)); }
            }
            Err(msg) => {
                rep.case(key.as_bytes(), true);
                let lib = c.lib; let inc = c.incomplete;
                let small = crate::report::shrink(&c.text, &|t| {
                    let cc = Case { text: t.to_string(), lib, incomplete: inc, tag: String::new() };
                    matches!(std::panic::catch_unwind(std::panic::AssertUnwindSafe(|| check_one(&cc))), Ok(Err(_)) | Err(_))
                });
                rep.violation(&msg, &small, &format!("lib={} incomplete={} tag={}", c.lib, c.incomplete, c.tag));
            }
        }
    }
    rep.write(out);
    println!("{}", rep.to_json().len());
}

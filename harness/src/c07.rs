//! C07 oracle (history independence) and C19 oracle (threads): every call returns what it returns on a fresh thread.
use crate::{calls::{self, Call, Entry}, corpus, gen_pp, ppcmp, report::Report, util::{self, Rng}};
use std::sync::{Arc, Barrier};

fn polluting_texts() -> Vec<&'static str> {
    vec![
        "`begin_keywords \"1364-2001\"\nmodule m; reg logic; endmodule\n",                 // region left open
        "`begin_keywords \"1364-1995\"\n`begin_keywords \"1800-2005\"\nmodule m; endmodule\n",
        "module v;m`resetall",                                                                 // used to leak the directive table
        "`define R `R\n`R\n",                                                                  // recursion limit
        "`include \"self.svh\"\n",
        "module broken ( ;\n",
        "`ifdef A\n`endif\nmodule FetchStage();\n always_comb begin\n for (int j = i + 1; j < W; j++) begin\n end\n break;\n end\n A b;\nendmodule",
        "`timescale 1ns/1ps\n`celldefine\nmodule m; endmodule\n`endcelldefine\n",
        "module m; wire [7:0] a = b + c * (d - e) / f ** g; endmodule\n",
        "`define D(x,y) x+y\nmodule m; assign a = `D(1,2); endmodule\n",
        "library lib1 a.v;\n",
        // an incomplete-mode parse stops inside an open region (before `end_keywords)
        "`begin_keywords \"1364-2001\"\nmodule a; wire logic; endmodule\nmodule b; assign = 1; endmodule\n`end_keywords\n",
        "module m; logic x; endmodule\n`begin_keywords \"1364-2001\"\nmodule n; reg y; endmodule\n",
        "library lib1 a.v;\n`begin_keywords \"1364-1995\"\n",
    ]
}

/// inputs whose result changes if one of the three thread-local cells (keyword-version stack, directive depth, memo table) is not reset:
/// words that are reserved only in later standards, in identifier slots of the preprocessor grammar and of the SystemVerilog grammar;
/// comments next to tokens (rejected while the directive depth is non-zero)
fn sensitive_texts() -> Vec<&'static str> {
    vec![
        "`ifdef logic\nwire a;\n`else\nwire b;\n`endif\n",
        "`ifndef priority\nwire a;\n`endif\n",
        "`undef bit\nmodule m; endmodule\n",
        "`pragma unique x\nmodule m; endmodule\n",
        "`ifdef A\n`elsif do\nwire c;\n`endif\n",
        "`define logic 1\nmodule m; endmodule\n",
        "module m; wire logic; endmodule\n",
        "module m; reg automatic; endmodule\n",
        "module module; endmodule\n",
        "module m; /* c */ wire /* d */ w; // e\nendmodule\n",
        "module m; logic x; endmodule\n",
        "library logic a.v;\n",
    ]
}

fn random_call(rng: &mut Rng, pool: &[gen_pp::Case]) -> Call {
    let entry = match rng.below(9) { 0 => Entry::Preprocess, 1 => Entry::PreprocessStr, 2 => Entry::ParseSv, 3 => Entry::ParseSvStr, 4 => Entry::ParseSvTwoStep, 5 => Entry::ParseSvStrTwoStep, 6 => Entry::ParseLib, 7 => Entry::ParseLibStr, _ => Entry::ParseLibTwoStep };
    Call { entry, case: rng.pick(pool).clone(), incomplete: rng.chance(1, 3), strip: rng.chance(1, 4), ignore: rng.chance(1, 6) }
}

fn build_pool(rng: &mut Rng, workdir: &str, root: &str, n: usize) -> Vec<gen_pp::Case> {
    let corp = corpus::load(workdir);
    let mut pool = vec![];
    for (i, t) in polluting_texts().iter().enumerate() {
        let mut c = calls::text_case(&format!("p{}", i), t);
        if t.contains("self.svh") { c.files.push((format!("p{}/self.svh", i), Some(format!("`include \"p{}/self.svh\"\n", i)))); c.files[0].1 = Some(format!("`include \"p{}/self.svh\"\n", i)); }
        pool.push(c);
    }
    for (i, t) in sensitive_texts().iter().enumerate() { pool.push(calls::text_case(&format!("s{}", i), t)); }
    // two long texts that stay inside `begin_keywords regions of different standards (`logic` an identifier in one, a keyword in the other)
    let kw_a: String = (0..40).map(|i| format!("`begin_keywords \"1364-2001\"\nmodule a{} (input logic, output reg q); assign q = logic; endmodule\n`end_keywords\n", i)).collect();
    let kw_b: String = (0..40).map(|i| format!("`begin_keywords \"1800-2005\"\nmodule b{} (input logic d, output logic q); assign q = d; endmodule\n`end_keywords\n", i)).collect();
    pool.push(calls::text_case("kwa", &kw_a)); pool.push(calls::text_case("kwb", &kw_b));
    for i in 0..n {
        pool.push(if i % 2 == 0 { gen_pp::gen_case(rng, 1000 + i, false) } else { let b = rng.pick(&corp); calls::text_case(&format!("k{}", i), &b.text) });
    }
    for c in &pool { ppcmp::materialise(root, c); }
    pool
}

fn fresh(c: &Call) -> String { let c = c.clone(); match util::guarded(1024, move || calls::run(&c)) { Ok(s) => s, Err(p) => format!("panic {}", p) } }

pub fn main_c07(args: &[String]) {
    let workdir = &args[0]; let tier = &args[1]; let seed: u64 = args[2].parse().unwrap(); let out = &args[3];
    let thorough = tier == "thorough";
    let mut rng = Rng::new(seed ^ 0xc07);
    let root = format!("{}.fs", out);
    let _ = std::fs::remove_dir_all(&root); std::fs::create_dir_all(&root).unwrap();
    let pool = build_pool(&mut rng, workdir, &root, if thorough { 400 } else { 80 });
    std::env::set_current_dir(&root).unwrap();
    let nh = if thorough { 4000 } else { 1000 };
    let mut hists = vec![];
    for _ in 0..nh {
        let len = rng.range(1, 8);
        let np = polluting_texts().len(); let ns = sensitive_texts().len();
        let mut h: Vec<Call> = (0..len).map(|_| { if rng.chance(1, 3) { let mut c = random_call(&mut rng, &pool[..np]); c.strip = false; c } else { random_call(&mut rng, &pool) } }).collect();
        // one probe in three is a state-sensitive input
        h.push(if rng.chance(1, 3) { random_call(&mut rng, &pool[np..np + ns]) } else { random_call(&mut rng, &pool) });
        hists.push(h);
    }
    let hists = Arc::new(hists);
    let h2 = hists.clone();
    let results = util::par_map(hists.len(), util::env_usize("SVH_THREADS", 16), move |i| {
        let h = h2[i].clone();
        let probe = h.last().unwrap().clone();
        let expect = fresh(&probe);
        let p2 = probe.clone();
        // history + probe (twice) on one thread
        let got = util::guarded(1024, move || { let mut outs = vec![]; for c in &h { outs.push(calls::run(c)); } outs.push(calls::run(&p2)); outs });
        (expect, got)
    });
    let mut rep = Report::new("random histories of 1-8 calls over all nine entry points (generated preprocessor cases, corpus programs, state-polluting inputs: open begin_keywords regions, former directive-table leak, recursive macro, self-including file, rejected programs, incomplete-mode parses that stop inside an open region) followed by a probe run twice (one probe in three is a state-sensitive input: a word reserved only by a later standard in an identifier slot of the preprocessor or SystemVerilog grammar, comments next to tokens); the probe result on the used thread must equal the result on a fresh thread; non-trivial = history with >= 2 calls whose probe succeeds; distinct by history");
    for (h, (expect, got)) in hists.iter().zip(results.into_iter()) {
        let key = format!("{:?}", h.iter().map(|c| (format!("{:?}", c.entry), c.case.top.clone(), c.incomplete, c.strip, c.ignore)).collect::<Vec<_>>());
        let ok = expect.starts_with("ok") || expect.starts_with("tree");
        rep.case(key.as_bytes(), h.len() >= 2 && ok);
        rep.count(if ok { "probe-succeeds" } else { "probe-fails" });
        match got {
            Err(p) => rep.violation(&format!("panic in history: {}", p), &key, ""),
            Ok(outs) => {
                let n = outs.len();
                if outs[n - 2] != expect || outs[n - 1] != expect {
                    let probe = h.last().unwrap();
                    rep.violation(&format!("probe {:?} on {} after a history of {} calls returns {} ; on a fresh thread {}", probe.entry, probe.case.top, n - 2, &outs[n - 2][..outs[n - 2].len().min(100)], &expect[..expect.len().min(100)]), &calls::top_text(&probe.case).unwrap_or_default(), &key);
                }
            }
        }
        if rep.samples.len() < 3 { rep.sample(key.chars().take(300).collect()); }
    }
    rep.write(out);
    println!("ok");
}

pub fn main_c19(args: &[String]) {
    let workdir = &args[0]; let tier = &args[1]; let seed: u64 = args[2].parse().unwrap(); let out = &args[3];
    let thorough = tier == "thorough";
    let mut rng = Rng::new(seed ^ 0xc19);
    let root = format!("{}.fs", out);
    let _ = std::fs::remove_dir_all(&root); std::fs::create_dir_all(&root).unwrap();
    let pool = build_pool(&mut rng, workdir, &root, if thorough { 300 } else { 60 });
    std::env::set_current_dir(&root).unwrap();
    let mut rep = Report::new("rounds of N in {2, 8, 32} barrier-started threads, each running a random list of calls (all entry points; distinct inputs and the same input on several threads); every result must equal the result of the same call alone on a fresh thread; non-trivial = call that succeeds; distinct by (entry, input, flags)");
    let rounds = if thorough { 60 } else { 15 };
    for round in 0..rounds {
        let nthreads = [2usize, 8, 32][round % 3];
        let per = if thorough { 12 } else { 6 };
        let shared = random_call(&mut rng, &pool);
        // k % 3 == 1: threads with an even index work inside `begin_keywords regions of one standard, threads with an odd index inside regions of
        // another one (state derived from the per-thread version stack must not be shared)
        let np = polluting_texts().len(); let ns = sensitive_texts().len();
        let lists: Vec<Vec<Call>> = (0..nthreads).map(|ti| (0..per).map(|k| if k % 3 == 0 { shared.clone() } else if k % 3 == 1 && round % 2 == 0 {
            Call { entry: Entry::ParseSvStr, case: pool[np + ns + (ti % 2)].clone(), incomplete: false, strip: false, ignore: false } } else { random_call(&mut rng, &pool) }).collect()).collect();
        // sequential reference
        let reference: Vec<Vec<String>> = lists.iter().map(|l| l.iter().map(fresh).collect()).collect();
        let barrier = Arc::new(Barrier::new(nthreads));
        let mut handles = vec![];
        for l in lists.clone() {
            let b = barrier.clone();
            handles.push(std::thread::Builder::new().stack_size(1024 << 20).spawn(move || {
                b.wait();
                l.iter().map(|c| match std::panic::catch_unwind(std::panic::AssertUnwindSafe(|| calls::run(c))) { Ok(s) => s, Err(e) => format!("panic {}", util::panic_msg(e)) }).collect::<Vec<String>>()
            }).unwrap());
        }
        for (ti, h) in handles.into_iter().enumerate() {
            let got = h.join().unwrap_or_else(|_| vec!["thread died".into()]);
            for (k, c) in lists[ti].iter().enumerate() {
                let key = format!("{:?}{}{}{}{}", c.entry, c.case.top, c.incomplete, c.strip, c.ignore);
                let exp = &reference[ti][k];
                let ok = exp.starts_with("ok") || exp.starts_with("tree");
                rep.case(key.as_bytes(), ok);
                rep.count(&format!("threads={}", nthreads));
                if got.get(k) != Some(exp) {
                    rep.violation(&format!("with {} concurrent threads {:?} on {} returned {} ; alone it returns {}", nthreads, c.entry, c.case.top, got.get(k).map(|s| &s[..s.len().min(100)]).unwrap_or("nothing"), &exp[..exp.len().min(100)]), &calls::top_text(&c.case).unwrap_or_default(), "");
                }
                if ok && rep.samples.len() < 3 { rep.sample(format!("{:?} {}", c.entry, calls::top_text(&c.case).unwrap_or_default().chars().take(120).collect::<String>())); }
            }
        }
    }
    rep.write(out);
    println!("ok");
}

//! A uniform "call of a public entry point" with a canonical, comparable result (used by C07, C19, C20).
use crate::{api::*, c15, gen_pp, ppcmp};
use std::path::PathBuf;

#[derive(Clone, Debug)]
pub enum Entry { Preprocess, PreprocessStr, ParseSv, ParseSvStr, ParseSvTwoStep, ParseSvStrTwoStep, ParseLib, ParseLibStr, ParseLibTwoStep }

#[derive(Clone, Debug)]
pub struct Call { pub entry: Entry, pub case: gen_pp::Case, pub incomplete: bool, pub strip: bool, pub ignore: bool }

fn tree_str(r: Result<(SyntaxTree, Defines), Error>) -> String {
    match r {
        Ok((t, d)) => { let (h, n, e) = c15::tree_hash(&t, false); format!("tree {} {} {} [{}]", h, n, e, ppcmp::defines_hex(&d)) }
        Err(e) => format!("err {}", err_str(&e)),
    }
}

pub fn top_text(case: &gen_pp::Case) -> Option<String> {
    case.files.iter().find(|f| f.0 == case.top).and_then(|f| f.1.clone())
}

/// cwd must be the directory in which the case was materialised
pub fn run(c: &Call) -> String {
    let d = ppcmp::mk_defines(&c.case.defines);
    let inc: Vec<PathBuf> = c.case.incpaths.iter().map(PathBuf::from).collect();
    let path = PathBuf::from(&c.case.top);
    let text = top_text(&c.case);
    match c.entry {
        Entry::Preprocess => ppcmp::result_line(&preprocess(&path, &d, &inc, c.strip, c.ignore)),
        Entry::PreprocessStr => match text { Some(t) => ppcmp::result_line(&preprocess_str(&t, &path, &d, &inc, c.ignore, c.strip, 0, 0)), None => "no-text".into() },
        Entry::ParseSv => tree_str(parse_sv(&path, &d, &inc, c.ignore, c.incomplete)),
        Entry::ParseSvStr => match text { Some(t) => tree_str(parse_sv_str(&t, &path, &d, &inc, c.ignore, c.incomplete)), None => "no-text".into() },
        Entry::ParseSvTwoStep => match preprocess(&path, &d, &inc, false, c.ignore) { Ok((t, dd)) => tree_str(parse_sv_pp(t, dd, c.incomplete)), Err(e) => format!("err {}", err_str(&e)) },
        Entry::ParseSvStrTwoStep => match text { Some(t) => match preprocess_str(&t, &path, &d, &inc, c.ignore, false, 0, 0) { Ok((t, dd)) => tree_str(parse_sv_pp(t, dd, c.incomplete)), Err(e) => format!("err {}", err_str(&e)) }, None => "no-text".into() },
        Entry::ParseLib => tree_str(parse_lib(&path, &d, &inc, c.ignore, c.incomplete)),
        Entry::ParseLibStr => match text { Some(t) => tree_str(parse_lib_str(&t, &path, &d, &inc, c.ignore, c.incomplete)), None => "no-text".into() },
        Entry::ParseLibTwoStep => match preprocess(&path, &d, &inc, false, c.ignore) { Ok((t, dd)) => tree_str(parse_lib_pp(t, dd, c.incomplete)), Err(e) => format!("err {}", err_str(&e)) },
    }
}

/// a case whose top file is the given text (used to mix in corpus programs and state-polluting inputs)
pub fn text_case(dir: &str, text: &str) -> gen_pp::Case {
    gen_pp::Case { dir: dir.to_string(), files: vec![(format!("{}/top.sv", dir), Some(text.to_string()))], top: format!("{}/top.sv", dir), ..Default::default() }
}

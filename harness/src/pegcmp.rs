//! T-gen validation: run the real parsers on inputs and print one canonical line per case, in the same
//! format as `svmodel`'s `parse` command, so that the generated grammar + Lean semantics can be diffed
//! against the implementation.
use crate::{corpus, gen, parsers, skel::Kinds, util::{self, Rng}};
use std::io::Write;

pub struct Case { pub start: String, pub cap: Option<usize>, pub text: String, pub tag: String }

pub fn build_cases(workdir: &str, which: &str, seed: u64, n_gen: usize, max_bytes: usize) -> Vec<Case> {
    let mut rng = Rng::new(seed ^ 0x5eed);
    let mut cases = vec![];
    let corp = corpus::load(workdir);
    let pps = corpus::pp_testcases();
    let cap = Some(1024usize);
    if which == "pp" || which == "all" {
        for it in &pps { cases.push(Case { start: "pp".into(), cap, text: it.text.clone(), tag: format!("pp-testcase:{}", it.name) }); }
        for it in corp.iter().step_by(7) { cases.push(Case { start: "pp".into(), cap, text: it.text.clone(), tag: format!("corpus-as-pp:{}", it.name) }); }
        for i in 0..n_gen {
            let t = if i % 3 == 0 && !pps.is_empty() { let b = rng.pick(&pps).text.clone(); let mut t = b; for _ in 0..rng.range(1, 3) { t = gen::mutate(&t, &mut rng, gen::PP_ATOMS); } t }
                    else { gen::soup(&mut rng, gen::PP_ATOMS, 24) };
            cases.push(Case { start: "pp".into(), cap, text: t, tag: "pp-gen".into() });
        }
    }
    if which == "sv" || which == "all" {
        for it in &corp {
            if it.text.len() > max_bytes { continue; }
            let (a, b) = if it.kind == "lib" { ("lib", "libi") } else { ("sv", "svi") };
            cases.push(Case { start: a.into(), cap, text: it.text.clone(), tag: format!("corpus:{}", it.name) });
            if rng.chance(1, 4) { cases.push(Case { start: b.into(), cap, text: it.text.clone(), tag: format!("corpus-inc:{}", it.name) }); }
        }
        for i in 0..n_gen {
            let base = rng.pick(&corp);
            if base.text.len() > max_bytes { continue; }
            let lib = base.kind == "lib";
            let atoms = if lib { gen::LIB_ATOMS } else { gen::SV_ATOMS };
            let t = if i % 4 == 0 { gen::soup(&mut rng, atoms, 16) } else { let mut t = base.text.clone(); for _ in 0..rng.range(1, 2) { t = gen::mutate(&t, &mut rng, atoms); } t };
            let start = match (lib, rng.chance(1, 3)) { (false, false) => "sv", (false, true) => "svi", (true, false) => "lib", (true, true) => "libi" };
            // tiny memo capacities make the real parser exponential on anything but short inputs
            let cap = if t.len() <= 48 { *rng.pick(&[Some(1024usize), Some(16), Some(1), None]) } else { *rng.pick(&[Some(1024usize), Some(1024), None]) };
            cases.push(Case { start: start.into(), cap, text: t, tag: "sv-gen".into() });
        }
    }
    cases
}

/// inputs for which the memo table is compared as well
pub fn memo_obs(text: &str, verbose: bool) -> bool { !verbose && text.len() <= 200 }

pub fn main(args: &[String]) {
    // pegcmp <workdir> <which> <seed> <n_gen> <max_bytes> <outprefix>
    let workdir = &args[0]; let which = &args[1];
    let seed: u64 = args[2].parse().unwrap(); let n_gen: usize = args[3].parse().unwrap();
    let max_bytes: usize = args[4].parse().unwrap(); let out = &args[5];
    let cases = std::sync::Arc::new(build_cases(workdir, which, seed, n_gen, max_bytes));
    let kinds = std::sync::Arc::new(Kinds::load(workdir));
    let verbose = std::env::var("SVH_VERBOSE").is_ok();
    let c2 = cases.clone(); let wd2 = workdir.clone();
    let lines = util::par_map(cases.len(), util::env_usize("SVH_THREADS", 16), move |i| {
        let c = &c2[i];
        let text = c.text.clone(); let start = c.start.clone(); let cap = c.cap; let kinds = kinds.clone();
        let wd = wd2.clone();
        match std::panic::catch_unwind(std::panic::AssertUnwindSafe(|| {
            let l = parsers::run(&start, Some(cap), &text, &kinds, verbose).line();
            // short inputs: also the canonical hash of the memo table the parse left behind (sharp observable of the memo traffic)
            if memo_obs(&text, verbose) { format!("{} m={}", l.split(' ').take(if l.starts_with("ok") { 7 } else { 4 }).collect::<Vec<_>>().join(" "), parsers::memo_hash(&text, &wd)) } else { l }
        })) {
            Ok(l) => l,
            Err(e) => format!("panic {}", util::panic_msg(e).replace('\n', " ")),
        }
    });
    let mut fc = std::fs::File::create(format!("{}.cases", out)).unwrap();
    let mut fi = std::fs::File::create(format!("{}.impl", out)).unwrap();
    let mut ft = std::fs::File::create(format!("{}.tags", out)).unwrap();
    for (c, l) in cases.iter().zip(lines.iter()) {
        let cap = c.cap.map(|x| x.to_string()).unwrap_or("none".into());
        writeln!(fc, "{} {} {} {}", if memo_obs(&c.text, verbose) { "parseh" } else if verbose { "parsev" } else { "parse" }, c.start, cap, util::hex(c.text.as_bytes())).unwrap();
        writeln!(fi, "{}", l).unwrap();
        writeln!(ft, "{}", c.tag).unwrap();
    }
    println!("{{\"cases\": {}}}", cases.len());
}

mod util; mod skel; mod parsers; mod corpus; mod gen; mod pegcmp; mod report; mod api; mod c01; mod c16;

fn main() {
    util::silence_panics();
    let args: Vec<String> = std::env::args().skip(1).collect();
    if args.is_empty() { eprintln!("usage: svh <command> ..."); std::process::exit(2); }
    match args[0].as_str() {
        "pegcmp" => pegcmp::main(&args[1..]),
        "c01" => c01::main(&args[1..]),
        "c16" => c16::main(&args[1..]),
        x => { eprintln!("unknown command {}", x); std::process::exit(2); }
    }
}

mod util; mod skel; mod parsers; mod corpus; mod gen; mod pegcmp; mod report; mod api; mod c01; mod c16; mod c15; mod gen_pp; mod ppcmp; mod c06; mod calls; mod c20; mod c07; mod ppref; mod ppo; mod c09; mod c18; mod c17; mod toks; mod c14; mod c13; mod c12; mod c02; mod c08;

fn main() {
    if std::env::var("SVH_PANICS").is_err() { util::silence_panics(); }
    let args: Vec<String> = std::env::args().skip(1).collect();
    if args.is_empty() { eprintln!("usage: svh <command> ..."); std::process::exit(2); }
    match args[0].as_str() {
        "pegcmp" => pegcmp::main(&args[1..]),
        "c01" => c01::main(&args[1..]),
        "c16" => c16::main(&args[1..]),
        "c15" => c15::main(&args[1..]),
        "ppcmp" => ppcmp::main(&args[1..]),
        "c06" => c06::main(&args[1..]),
        "c20" => c20::main(&args[1..]),
        "c07" => c07::main_c07(&args[1..]),
        "c19" => c07::main_c19(&args[1..]),
        "c09" => c09::main(&args[1..]),
        "c09-child" => c09::child(&args[1..]),
        "c18" => c18::main(&args[1..]),
        "c17" => c17::main(&args[1..]),
        "c14" => c14::main(&args[1..]),
        "c13" => c13::main(&args[1..]),
        "c12" => c12::main(&args[1..]),
        "c02" => c02::main(&args[1..]),
        "c08" => c08::main(&args[1..]),
        "c03" | "c04" | "c05" | "c10" | "c11" => ppo::main(&args[1..], &args[0]),
        "parse" => { let k = skel::Kinds::load(&args[1]); println!("{}", parsers::run(&args[2], Some(Some(1024)), &args[3], &k, true).line()); }
        x => { eprintln!("unknown command {}", x); std::process::exit(2); }
    }
}

mod util; mod skel; mod parsers; mod corpus; mod gen; mod pegcmp; mod report; mod api; mod c01; mod c16; mod c15; mod gen_pp; mod ppcmp; mod c06; mod calls; mod c20; mod c07; mod ppref; mod ppo; mod c09; mod c18; mod c17; mod toks; mod c14; mod c13; mod c12; mod c02; mod c08; mod unitcmp;

fn main() {
    if std::env::var("SVH_PANICS").is_err() { util::silence_panics(); }
    let args: Vec<String> = std::env::args().skip(1).collect();
    if args.is_empty() { eprintln!("usage: svh <command> ..."); std::process::exit(2); }
    match args[0].as_str() {
        "pegcmp" => pegcmp::main(&args[1..]),
        "c01" => c01::main(&args[1..]),
        "c16" => c16::main(&args[1..]),
        "c15" => c15::main(&args[1..]),
        "ppcmp" => ppcmp::main(&args[1..]),
        "c06" => c06::main(&args[1..]),
        "c20" => c20::main(&args[1..]),
        "c07" => c07::main_c07(&args[1..]),
        "c19" => c07::main_c19(&args[1..]),
        "c09" => c09::main(&args[1..]),
        "c09-child" => c09::child(&args[1..]),
        "c18" => c18::main(&args[1..]),
        "c17" => c17::main(&args[1..]),
        "c14" => c14::main(&args[1..]),
        "c13" => c13::main(&args[1..]),
        "c12" => c12::main(&args[1..]),
        "c02" => c02::main(&args[1..]),
        "c08" => c08::main(&args[1..]),
        "unitcmp" => unitcmp::main(&args[1..]),
        "c03" | "c04" | "c05" | "c10" | "c11" => ppo::main(&args[1..], &args[0]),
        "parse" => { let k = skel::Kinds::load(&args[1]); println!("{}", parsers::run(&args[2], Some(Some(1024)), &args[3], &k, true).line()); }
        // debugging aid: observation line of one parser entry on a file at a given memo capacity
        "parsef" => { let k = skel::Kinds::load(&args[1]); let text = std::fs::read_to_string(&args[4]).unwrap();
            let cap = if args[3] == "none" { None } else { Some(args[3].parse().unwrap()) };
            println!("{}", parsers::run(&args[2], Some(cap), &text, &k, false).line()); }
        // memo table after a parse with unbounded capacity: probes every (production, offset, flag)
        "memof" => { let text = std::fs::read_to_string(&args[3]).unwrap();
            println!("{}", parsers::memo_dump(&args[2], &text, &std::fs::read_to_string(format!("{}/names.txt", args[1])).unwrap())); }
        // debugging aid: preprocess a file (cwd-relative includes) and print the text or the error
        "ppf" => { use crate::api::*;
            let d = no_defines(); let inc: Vec<std::path::PathBuf> = args[3..].iter().map(std::path::PathBuf::from).collect();
            match preprocess(std::path::PathBuf::from(&args[1]), &d, &inc, args[2] == "strip", false) { Ok((t, _)) => print!("{}", t.text()), Err(e) => println!("ERR {}", err_str(&e)) } }
        // debugging aid: whitespace-free event dump of the tree of a file (one line per event)
        "shapedump" => {
            use crate::api::*;
            let text = std::fs::read_to_string(&args[1]).unwrap();
            if let Ok(c) = std::env::var("SVH_CAP") { sv_parser_parser::utils::verif::set_memo_capacity(if c == "none" { None } else { Some(c.parse().unwrap()) }); }
            match crate::c12::parse(&text) {
                Err(e) => println!("ERR {}", err_str(&e)),
                Ok((tree, _)) => { let mut ws = 0usize; let mut depth = 0usize;
                    for ev in tree.into_iter().event() { match ev {
                        NodeEvent::Enter(RefNode::WhiteSpace(_)) => ws += 1, NodeEvent::Leave(RefNode::WhiteSpace(_)) => ws -= 1,
                        NodeEvent::Enter(RefNode::Locate(l)) if ws == 0 => println!("{}'{}'", " ".repeat(depth), tree.get_str(l).unwrap_or("?")),
                        NodeEvent::Enter(x) if ws == 0 => { println!("{}{}", " ".repeat(depth), x); depth += 1; }
                        NodeEvent::Leave(RefNode::Locate(_)) => {}
                        NodeEvent::Leave(_) if ws == 0 => depth -= 1,
                        _ => {} } } }
            }
        }
        x => { eprintln!("unknown command {}", x); std::process::exit(2); }
    }
}

//! Tree skeletons of real syntax trees (observed through the public iterator API only).
use crate::util::Fnv;
use std::collections::HashMap;
use sv_parser_syntaxtree::{NodeEvent, RefNode};

pub struct Kinds { pub id: HashMap<String, u64>, pub names: Vec<String> }

impl Kinds {
    pub fn load(workdir: &str) -> Kinds {
        let txt = std::fs::read_to_string(format!("{}/kinds.txt", workdir)).expect("kinds.txt (run svx)");
        let names: Vec<String> = txt.lines().map(|x| x.to_string()).collect();
        let id = names.iter().enumerate().map(|(i, n)| (n.clone(), i as u64)).collect();
        Kinds { id, names }
    }
    pub fn of(&self, n: &RefNode) -> u64 {
        *self.id.get(&n.to_string()).unwrap_or(&999_999)
    }
}

#[derive(Default, Clone, Debug)]
pub struct Skel { pub hash: u64, pub leaves: usize, pub nodes: usize }

/// Hash of the event stream of a node: Enter Locate -> (1,o,l,line); Enter other -> (2,kind); Leave other -> 3.
pub fn skel_of<'a>(root: RefNode<'a>, kinds: &Kinds) -> Skel {
    let mut h = Fnv::new();
    let mut s = Skel::default();
    for ev in root.into_iter().event() {
        match ev {
            NodeEvent::Enter(RefNode::Locate(x)) => {
                h.add(1); h.add(x.offset as u64); h.add(x.len as u64); h.add(x.line as u64);
                s.leaves += 1; s.nodes += 1;
            }
            NodeEvent::Enter(x) => { h.add(2); h.add(kinds.of(&x)); s.nodes += 1; }
            NodeEvent::Leave(RefNode::Locate(_)) => {}
            NodeEvent::Leave(_) => { h.add(3); }
        }
    }
    s.hash = h.0;
    s
}

pub fn skel_str<'a>(root: RefNode<'a>) -> String {
    let mut o = String::new();
    for ev in root.into_iter().event() {
        match ev {
            NodeEvent::Enter(RefNode::Locate(x)) => { o.push_str(&format!("L{},{},{} ", x.offset, x.len, x.line)); }
            NodeEvent::Enter(x) => { o.push_str(&format!("({} ", x)); }
            NodeEvent::Leave(RefNode::Locate(_)) => {}
            NodeEvent::Leave(_) => { o.push_str(") "); }
        }
    }
    o
}

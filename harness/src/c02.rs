//! C02 oracle: grammar-directed generator for the covered Annex A subset; every sentence must be accepted in strict
//! mode, each generated construct must appear exactly once under its Annex A node kind with its identifier, and
//! every identifier / keyword of the source must be exactly one leaf.
use crate::{api::*, report::Report, util::{self, Rng}};
use std::path::PathBuf;

pub struct Sent { pub tainted: bool, pub text: String, pub toks: Vec<String>, pub expect: Vec<(&'static str, &'static str, String)>, pub counts: Vec<(&'static str, usize)> }

struct G<'a> { allow_taint: bool, rng: &'a mut Rng, n: usize, s: Sent, depth: usize, mods: Vec<(String, Vec<String>)>, cnt: std::collections::HashMap<&'static str, usize> }

const PRE: &[&str] = &["module_x", "end", "wirex", "a$b", "_u", "begin_", "x", "logic_", "input_q", "assign", "if_", "case1", "reg", "int_"];

impl<'a> G<'a> {
    fn lay(&mut self) { let t = self.rng.pick_str(&[" ", " ", " ", "\n", "  ", "\t", " /* c */ ", " // c\n"]); self.s.text.push_str(t); }
    fn kw(&mut self, k: &str) { self.s.text.push_str(k); self.s.toks.push(k.to_string()); self.lay(); }
    fn sym(&mut self, k: &str) { self.s.text.push_str(k); if self.rng.chance(1, 2) { self.lay(); } }
    fn symt(&mut self, k: &str) { self.s.text.push_str(k); self.lay(); }
    /// a fresh adversarial identifier
    fn fresh(&mut self) -> String {
        self.n += 1;
        if self.rng.chance(1, 7) { format!("\\e{}!{}", self.rng.pick_str(&["+", "(", "`", "\""]), self.n) }
        else { let p = self.rng.pick_str(PRE); let id = format!("{}{}", p, self.n); if id.ends_with(char::is_numeric) && p.ends_with('$') { format!("{}_{}", p, self.n) } else { id } }
    }
    fn id(&mut self, name: &str) {
        self.s.text.push_str(name); self.s.toks.push(name.to_string());
        if name.starts_with('\\') { self.s.text.push(' '); } else { self.lay(); }
    }
    fn idn(&mut self, name: &str) {  // identifier directly followed by a symbol (no layout unless escaped)
        self.s.text.push_str(name); self.s.toks.push(name.to_string());
        if name.starts_with('\\') { self.s.text.push(' '); } else if self.rng.chance(1, 2) { self.lay(); }
    }
    fn bump(&mut self, k: &'static str) { *self.cnt.entry(k).or_insert(0) += 1; }
    fn number(&mut self) { let t = self.rng.pick_str(&["0", "1", "42", "4'b1010", "8'hFF", "'0", "'1", "3'sd2", "1.5", "2e3", "16'hab_cd", "8 'o17", "'x"]); self.s.text.push_str(t); self.lay(); }
    fn expr(&mut self, vars: &[String], d: usize) {
        let r = self.rng.below(if d > 2 { 4 } else { 12 });
        match r {
            // chained method calls on a variable: v.m_a(e).m_b().m_c()
            11 if !vars.is_empty() => {
                let v = self.rng.pick(vars).clone(); self.idn(&v);
                let k = self.rng.range(1, 4);
                for j in 0..k { self.sym("."); self.idn(["m_a", "m_b", "m_c", "m_d"][j % 4]); self.sym("("); if j == 0 && self.rng.chance(1, 2) { self.expr(vars, d + 2); } self.sym(")"); }
                self.lay();
            }
            0 | 1 => self.number(),
            2 | 3 => { if vars.is_empty() { self.number() } else { let v = self.rng.pick(vars).clone(); self.id(&v); } }
            4 => { self.expr(vars, d + 1); let op = self.rng.pick_str(&["+", "-", "*", "/", "&", "|", "^", "==", "!=", "<", "<=", ">>", "<<", "&&", "||", "%", "**", ">>>", "===", "~^"]); self.symt(op); self.expr(vars, d + 1); }
            5 => { let op = self.rng.pick_str(&["~", "!", "-", "&", "|", "^"]); self.s.text.push_str(op); self.sym("("); self.expr(vars, d + 1); self.symt(")"); }
            6 => { self.sym("("); self.expr(vars, d + 1); self.symt("?"); self.expr(vars, d + 1); self.symt(":"); self.expr(vars, d + 1); self.symt(")"); }
            7 => { self.sym("{"); self.expr(vars, d + 1); self.sym(","); self.expr(vars, d + 1); self.symt("}"); }
            8 => { self.sym("{"); self.s.text.push_str("2 "); self.sym("{"); self.expr(vars, d + 1); self.sym("}"); self.symt("}"); }
            9 => { self.s.text.push_str("\"str\\n\""); self.lay(); }
            _ => { if vars.is_empty() { self.number() } else { let v = self.rng.pick(vars).clone(); self.idn(&v); self.sym("["); self.s.text.push_str("0"); self.symt("]"); } }
        }
    }
    fn stmt(&mut self, vars: &[String], d: usize) { self.stmt2(vars, d, false, false) }
    /// `nonnull`: a statement (not statement_or_null) is required; `first`: first item of a begin-end block, where a blocking
    /// assignment to a plain identifier would be read as a declaration with implicit type (known finding)
    fn stmt2(&mut self, vars: &[String], d: usize, nonnull: bool, first: bool) {
        let r = self.rng.below(if d > 2 { 3 } else { 9 });
        match r {
            0 | 1 if !vars.is_empty() => { let v = self.rng.pick(vars).clone(); self.id(&v); { let blocking = self.rng.chance(1, 2); if blocking && first { if self.allow_taint { self.s.tainted = true; self.symt("="); } else { self.symt("<="); } } else { self.symt(if blocking { "=" } else { "<=" }); } } self.expr(vars, 1); self.symt(";"); }
            2 => { self.s.text.push_str("$display"); self.s.toks.push("$display".into()); self.sym("("); self.s.text.push_str("\"m\""); if !vars.is_empty() { self.sym(","); let v = self.rng.pick(vars).clone(); self.id(&v); } self.sym(")"); self.symt(";"); }
            3 => { self.kw("if"); self.sym("("); self.expr(vars, 1); self.symt(")"); self.stmt(vars, d + 1); if self.rng.chance(1, 2) { self.kw("else"); self.stmt(vars, d + 1); } }
            4 => { self.kw("begin"); let named = self.rng.chance(1, 3); let mut nm = String::new(); if named { self.symt(":"); nm = self.fresh(); self.id(&nm); } for k in 0..self.rng.range(0, 2) { self.stmt2(vars, d + 1, false, k == 0); } self.kw("end"); if named && self.rng.chance(1, 2) { self.symt(":"); self.id(&nm); } }
            5 => { self.kw("case"); self.sym("("); self.expr(vars, 1); self.symt(")"); self.number(); self.symt(":"); self.stmt(vars, d + 1); self.kw("default"); self.symt(":"); self.stmt(vars, d + 1); self.kw("endcase"); }
            6 => { self.kw("for"); self.sym("("); self.kw("int"); let i = self.fresh(); self.id(&i); self.symt("="); self.s.text.push_str("0 "); self.symt(";"); self.id(&i); self.symt("<"); self.s.text.push_str("4 "); self.symt(";"); self.idn(&i); self.symt("++"); self.symt(")"); let mut v2 = vars.to_vec(); v2.push(i); self.stmt(&v2, d + 1); }
            7 => { self.kw("while"); self.sym("("); self.expr(vars, 1); self.symt(")"); self.stmt(vars, d + 1); }
            _ => { if nonnull { self.kw("begin"); self.kw("end"); } else { self.symt(";"); } }
        }
    }
    /// a module instantiation (A.4.1.1) of one of the modules generated so far: ordered or named port connections, optional parameter override
    fn instantiation(&mut self, vars: &Vec<String>) {
                let (m, ports) = self.rng.pick(&self.mods).clone(); let np = ports.len(); self.id(&m);
                if self.rng.chance(1, 3) { self.sym("#"); self.sym("("); self.sym("."); self.idn("P0"); self.sym("("); self.number(); self.sym(")"); self.symt(")"); }
                let inst = self.fresh(); self.idn(&inst); self.s.expect.push(("ModuleInstantiation", "InstanceIdentifier", inst));
                self.sym("(");
                let named = self.rng.chance(1, 2);
                for k in 0..np { if k > 0 { self.sym(","); } if named { self.sym("."); self.idn(&ports[k]); self.sym("("); self.expr(vars, 2); self.sym(")"); } else { self.expr(vars, 2); } }
                self.sym(")"); self.symt(";"); self.bump("ModuleInstantiation"); }
    fn range(&mut self) { self.sym("["); self.s.text.push_str(self.rng.pick_str(&["7", "3", "1", "0"])); self.sym(":"); self.s.text.push_str("0"); self.symt("]"); }
    fn item(&mut self, vars: &mut Vec<String>, in_module: bool) {
        let r = self.rng.below(if in_module { 16 } else { 8 });
        match r {
            0 => { let t = self.rng.pick_str(&["wire", "tri", "wand", "wor", "uwire"]).to_string(); self.kw(&t); if self.rng.chance(1, 2) { self.range(); } let n = self.fresh(); self.idn(&n); self.s.expect.push(("NetDeclaration", "NetIdentifier", n.clone())); if self.rng.chance(1, 3) { self.symt("="); self.expr(vars, 1); } self.symt(";"); vars.push(n); }
            1 | 2 => { if self.rng.chance(1, 3) { let pre = self.rng.pick_str(&["var", "const", "static", "automatic", "var static", "var automatic", "const var", "const static", "const var static", "const var automatic"]).to_string(); for w in pre.split(' ') { self.kw(w); } }
                let t = self.rng.pick_str(&["logic", "reg", "bit", "int", "integer", "byte", "shortint", "longint", "real", "time", "string"]).to_string(); self.kw(&t); if (t == "logic" || t == "reg" || t == "bit") && self.rng.chance(1, 2) { self.range(); }
                let n = self.fresh(); self.idn(&n); self.s.expect.push(("DataDeclaration", "VariableIdentifier", n.clone()));
                if self.rng.chance(1, 4) { self.sym(","); let n2 = self.fresh(); self.idn(&n2); self.s.expect.push(("DataDeclaration", "VariableIdentifier", n2.clone())); vars.push(n2); }
                self.symt(";"); if t != "string" && t != "real" && t != "time" { vars.push(n); } }
            3 => { self.kw("typedef"); self.kw("logic"); self.range(); let n = self.fresh(); self.idn(&n); self.s.expect.push(("TypeDeclaration", "TypeIdentifier", n)); self.symt(";"); }
            4 => { let k = if self.rng.chance(1, 2) { "parameter" } else { "localparam" }; self.kw(k); if self.rng.chance(1, 2) { self.kw("int"); } let n = self.fresh(); self.id(&n); self.s.expect.push((if k == "parameter" { "ParameterDeclaration" } else { "LocalParameterDeclaration" }, "ParameterIdentifier", n.clone())); self.symt("="); self.expr(&[], 1); self.symt(";"); vars.push(n); }
            5 => { // function
                self.kw("function"); if self.rng.chance(1, 2) { self.kw("automatic"); } { let t = self.rng.pick_str(&["int", "void", "logic"]); self.kw(t); } let n = self.fresh(); self.idn(&n); self.s.expect.push(("FunctionDeclaration", "FunctionIdentifier", n.clone()));
                self.sym("("); self.kw("input"); self.kw("int"); let a = self.fresh(); self.idn(&a); self.sym(")"); self.symt(";");
                let v2 = vec![a]; for k in 0..self.rng.range(0, 2) { self.stmt2(&v2, 1, false, k == 0); } self.kw("endfunction"); if self.rng.chance(1, 3) { self.symt(":"); self.id(&n); } self.bump("FunctionDeclaration"); }
            6 => { self.kw("task"); let n = self.fresh(); self.idn(&n); self.s.expect.push(("TaskDeclaration", "TaskIdentifier", n.clone())); self.sym("("); self.sym(")"); self.symt(";"); for k in 0..self.rng.range(0, 2) { self.stmt2(vars, 1, false, k == 0); } self.kw("endtask"); self.bump("TaskDeclaration"); }
            7 => { self.kw("import"); self.id("pkg0"); self.sym("::"); self.symt("*"); self.symt(";"); }
            8 | 9 if !vars.is_empty() => { self.kw("assign"); let v = self.rng.pick(vars).clone(); self.id(&v); self.symt("="); self.expr(vars, 0); self.symt(";"); self.bump("ContinuousAssign"); }
            10 => { let k = self.rng.below(4);
                match k { 0 => { self.kw("always_comb"); } 1 => { self.kw("always_ff"); self.sym("@"); self.sym("("); self.kw("posedge"); self.id("clk"); self.symt(")"); } 2 => { self.kw("always"); self.symt("@*"); } _ => { self.kw("always"); self.sym("@"); self.sym("("); self.kw("negedge"); self.id("clk"); self.kw("or"); self.kw("posedge"); self.id("rst"); self.symt(")"); } }
                self.stmt2(vars, 0, true, false); self.bump("AlwaysConstruct"); }
            11 => { self.kw("initial"); self.stmt(vars, 0); self.bump("InitialConstruct"); }
            12 if !self.mods.is_empty() => { self.instantiation(vars); }
            13 => { self.kw("generate"); self.kw("for"); self.sym("("); self.kw("genvar"); let g = self.fresh(); self.id(&g); self.symt("="); self.s.text.push_str("0 "); self.symt(";"); self.id(&g); self.symt("<"); self.s.text.push_str("2 "); self.symt(";"); self.idn(&g); self.symt("++"); self.symt(")"); self.kw("begin"); self.symt(":"); let b = self.fresh(); self.id(&b);
                let mut v2 = vars.clone(); if !self.mods.is_empty() && self.rng.chance(1, 2) { self.instantiation(&v2); } else { self.item(&mut v2, false); } self.kw("end"); self.kw("endgenerate"); self.bump("GenerateRegion"); }
            14 => { self.kw("if"); self.sym("("); self.number(); self.symt(")"); let blk = self.rng.chance(2, 3); if blk { self.kw("begin"); } let mut v2 = vars.clone(); if !self.mods.is_empty() && (!blk || self.rng.chance(1, 2)) { self.instantiation(&v2); } else if blk { self.item(&mut v2, false); } else { self.symt(";"); } if blk { self.kw("end"); } if self.rng.chance(1, 2) { self.kw("else"); self.kw("begin"); self.kw("end"); } self.bump("ConditionalGenerateConstruct"); }
            _ => { let n = self.fresh(); self.kw("logic"); self.idn(&n); self.s.expect.push(("DataDeclaration", "VariableIdentifier", n.clone())); self.symt(";"); vars.push(n); }
        }
    }
    fn module(&mut self) {
        let kind = self.rng.pick_str(&["module", "module", "module", "macromodule"]).to_string();
        self.kw(&kind);
        let name = self.fresh(); self.idn(&name);
        self.s.expect.push(("ModuleDeclaration", "ModuleIdentifier", name.clone()));
        let mut vars: Vec<String> = vec!["clk".into(), "rst".into()];
        let ansi = self.rng.chance(2, 3);
        let np = self.rng.range(0, 3);
        if self.rng.chance(1, 3) { self.sym("#"); self.sym("("); self.kw("parameter"); if self.rng.chance(1, 2) { self.kw("int"); } self.id("P0"); self.symt("="); self.number(); self.symt(")"); vars.push("P0".into()); }
        let pnames: Vec<String> = (0..np).map(|_| { self.n += 1; format!("p{}", self.n) }).collect();
        if ansi {
            self.sym("(");
            self.kw("input"); self.id("clk"); self.sym(","); self.kw("input"); self.kw("logic"); self.idn("rst");
            for p in &pnames { self.sym(","); let d = self.rng.pick_str(&["input", "output", "inout"]).to_string(); self.kw(&d); if d != "inout" && self.rng.chance(1, 2) { self.kw("logic"); if self.rng.chance(1, 2) { self.range(); } } else if self.rng.chance(1, 3) { self.kw("wire"); } self.idn(p); self.s.expect.push(("AnsiPortDeclaration", "PortIdentifier", p.clone())); vars.push(p.clone()); }
            self.sym(")"); self.symt(";");
        } else {
            self.sym("("); self.idn("clk"); self.sym(","); self.idn("rst"); for p in &pnames { self.sym(","); self.idn(p); } self.sym(")"); self.symt(";");
            self.kw("input"); self.idn("clk"); self.symt(";"); self.kw("input"); self.idn("rst"); self.symt(";");
            for p in &pnames { let out = self.rng.chance(1, 2); self.kw(if out { "output" } else { "input" }); if self.rng.chance(1, 2) { self.range(); } self.idn(p); self.symt(";"); self.s.expect.push((if out { "OutputDeclaration" } else { "InputDeclaration" }, "PortIdentifier", p.clone())); vars.push(p.clone()); }
        }
        for _ in 0..self.rng.range(0, 6) { self.item(&mut vars, true); }
        self.kw("endmodule"); if self.rng.chance(1, 3) { self.symt(":"); self.id(&name); }
        let mut all = vec!["clk".to_string(), "rst".to_string()]; all.extend(pnames); self.mods.push((name, all));
    }
    fn other_design_element(&mut self) {
        let mut vars: Vec<String> = vec![];
        match self.rng.below(4) {
            0 => { self.kw("interface"); let n = self.fresh(); self.idn(&n); self.s.expect.push(("InterfaceDeclaration", "InterfaceIdentifier", n)); self.symt(";"); for _ in 0..self.rng.range(0, 3) { self.item(&mut vars, false); }
                   if !vars.is_empty() && self.rng.chance(1, 2) { self.kw("modport"); let m = self.fresh(); self.idn(&m); self.sym("("); self.kw("input"); let v = vars[0].clone(); self.idn(&v); self.sym(")"); self.symt(";"); }
                   self.kw("endinterface"); }
            1 => { self.kw("program"); let n = self.fresh(); self.idn(&n); self.s.expect.push(("ProgramDeclaration", "ProgramIdentifier", n)); self.symt(";"); self.kw("initial"); self.stmt(&[], 0); self.bump("InitialConstruct"); self.kw("endprogram"); }
            2 => { self.kw("package"); let n = self.fresh(); self.idn(&n); self.s.expect.push(("PackageDeclaration", "PackageIdentifier", n)); self.symt(";"); for _ in 0..self.rng.range(0, 3) { let k = self.rng.below(3); if k == 0 { self.kw("typedef"); self.kw("logic"); self.range(); let t = self.fresh(); self.idn(&t); self.s.expect.push(("TypeDeclaration", "TypeIdentifier", t)); self.symt(";"); } else if k == 1 { self.kw("localparam"); let p = self.fresh(); self.id(&p); self.s.expect.push(("LocalParameterDeclaration", "ParameterIdentifier", p)); self.symt("="); self.number(); self.symt(";"); } else { let mut v = vec![]; self.item_fn(&mut v); } } self.kw("endpackage"); }
            _ => { self.kw("class"); let n = self.fresh(); self.idn(&n); self.s.expect.push(("ClassDeclaration", "ClassIdentifier", n)); self.symt(";");
                   for _ in 0..self.rng.range(0, 3) { if self.rng.chance(1, 2) { { let t = self.rng.pick_str(&["int", "logic", "bit"]); self.kw(t); } let v = self.fresh(); self.idn(&v); self.symt(";"); vars.push(v); } else { let mut v = vars.clone(); self.item_fn(&mut v); } }
                   self.kw("endclass"); }
        }
    }
    fn item_fn(&mut self, vars: &mut Vec<String>) {
        self.kw("function"); { let t = self.rng.pick_str(&["int", "void"]); self.kw(t); } let n = self.fresh(); self.idn(&n); self.s.expect.push(("FunctionDeclaration", "FunctionIdentifier", n)); self.sym("("); self.sym(")"); self.symt(";"); for k in 0..self.rng.range(0, 2) { self.stmt2(vars, 1, false, k == 0); } self.kw("endfunction"); self.bump("FunctionDeclaration");
    }
}

pub fn generate(rng: &mut Rng, max_elems: usize) -> Sent {
    let allow_taint = rng.chance(1, 12);
    let mut g = G { allow_taint, rng, n: 0, s: Sent { tainted: false, text: String::new(), toks: vec![], expect: vec![], counts: vec![] }, depth: 0, mods: vec![], cnt: Default::default() };
    let _ = g.depth;
    let k = g.rng.range(1, max_elems);
    for _ in 0..k { if g.rng.chance(3, 4) { g.module(); } else { g.other_design_element(); } }
    let mut counts: Vec<(&'static str, usize)> = g.cnt.iter().map(|(k, v)| (*k, *v)).collect(); counts.sort();
    g.s.counts = counts;
    g.s
}

pub fn check(s: &Sent) -> Result<usize, String> {
    let d = no_defines(); let i = no_includes();
    let (tree, _) = match parse_sv_str(&s.text, PathBuf::from("g.sv"), &d, &i, false, false) { Ok(x) => x, Err(e) => return Err(format!("a sentence of the covered Annex A subset is rejected: {}", err_str(&e))) };
    // walk: path of ancestors; record (ancestors, kind, first-leaf text) for identifier kinds; token leaves
    let mut path: Vec<String> = vec![]; let mut ids: Vec<usize> = vec![]; let mut next_id = 0usize; let mut ws = 0usize;
    let mut found: Vec<(Vec<(String, usize)>, String, String)> = vec![];
    let mut toks: Vec<String> = vec![];
    let mut kind_counts: std::collections::HashMap<String, usize> = Default::default();
    let mut pending: Vec<(usize, String)> = vec![];   // (depth, kind) of identifier-kind nodes waiting for their first leaf
    for ev in tree.into_iter().event() {
        match ev {
            NodeEvent::Enter(RefNode::Locate(l)) => {
                if ws > 0 { continue; }
                let txt = tree.get_str(l).unwrap_or("").to_string();
                for (dep, k) in pending.drain(..) { found.push((path[..dep].iter().cloned().zip(ids[..dep].iter().cloned()).collect(), k, txt.clone())); }
                let parent = path.last().map(|x| x.as_str()).unwrap_or("");
                if parent == "Keyword" || parent == "SimpleIdentifier" || parent == "EscapedIdentifier" || parent == "SystemTfIdentifier" { toks.push(txt); }
            }
            NodeEvent::Enter(x) => {
                if let RefNode::WhiteSpace(_) = x { ws += 1; }
                let name = x.to_string();
                if ws == 0 { *kind_counts.entry(name.clone()).or_insert(0) += 1; if name.ends_with("Identifier") && name != "SimpleIdentifier" && name != "EscapedIdentifier" && name != "Identifier" && name != "SystemTfIdentifier" { pending.push((path.len(), name.clone())); } }
                path.push(name); next_id += 1; ids.push(next_id);
            }
            NodeEvent::Leave(RefNode::Locate(_)) => {}
            NodeEvent::Leave(x) => { if let RefNode::WhiteSpace(_) = x { ws -= 1; } path.pop(); ids.pop(); }
        }
    }
    for (wrapper, idk, name) in &s.expect {
        // distinct nodes of kind `wrapper` that carry an `idk` with this text (the name may be repeated inside one construct, e.g. as end label)
        const CONSTRUCTS: &[&str] = &["ModuleDeclaration", "InterfaceDeclaration", "ProgramDeclaration", "PackageDeclaration", "ClassDeclaration", "AnsiPortDeclaration", "InputDeclaration", "OutputDeclaration", "InoutDeclaration",
            "ParameterDeclaration", "LocalParameterDeclaration", "NetDeclaration", "DataDeclaration", "TypeDeclaration", "FunctionDeclaration", "TaskDeclaration", "ModuleInstantiation", "ParameterPortList", "PackageImportDeclaration", "ModportDeclaration"];
        // the construct that DECLARES the identifier = its nearest enclosing construct node
        let mut inst: Vec<usize> = found.iter().filter(|(_, k, t)| k == idk && t == name).filter_map(|(anc, _, _)| anc.iter().rev().find(|a| CONSTRUCTS.contains(&a.0.as_str())).filter(|a| &a.0 == wrapper).map(|a| a.1)).collect();
        inst.sort(); inst.dedup();
        if inst.len() != 1 { return Err(format!("{} {:?} is carried by {} nodes of kind {} (expected exactly one)", idk, name, inst.len(), wrapper)); }
    }
    for (k, n) in &s.counts {
        let got = *kind_counts.get(*k).unwrap_or(&0);
        if got != *n { return Err(format!("{} {} nodes in the tree, {} generated", got, k, n)); }
    }
    let want: Vec<&String> = s.toks.iter().collect();
    let got: Vec<&String> = toks.iter().collect();
    if want != got {
        let k = want.iter().zip(got.iter()).position(|(a, b)| a != b).unwrap_or(want.len().min(got.len()));
        return Err(format!("identifier / keyword leaf #{} differs: source has {:?}, tree has {:?} ({} vs {} leaves)", k, want.get(k), got.get(k), want.len(), got.len()));
    }
    Ok(s.expect.len())
}

pub fn main(args: &[String]) {
    let _workdir = &args[0]; let tier = &args[1]; let seed: u64 = args[2].parse().unwrap(); let out = &args[3];
    let thorough = tier == "thorough";
    let mut rng = Rng::new(seed ^ 0xc02);
    let n = if thorough { 60000 } else { 6000 };
    let sents: Vec<Sent> = (0..n).map(|_| generate(&mut rng, if thorough { 5 } else { 3 })).collect();
    let sents = std::sync::Arc::new(sents);
    let s2 = sents.clone();
    let results = util::par_map(sents.len(), util::env_usize("SVH_THREADS", 16), move |i| {
        match std::panic::catch_unwind(std::panic::AssertUnwindSafe(|| check(&s2[i]))) { Ok(r) => r, Err(e) => Err(format!("panic: {}", util::panic_msg(e))) }
    });
    let mut rep = Report::new("grammar-directed sentences of the covered Annex A subset (modules with ANSI / non-ANSI ports and parameter ports, interfaces with modports, programs, packages, classes; net / variable / type / parameter declarations; continuous assigns; always / initial blocks; statements; expressions with all operator classes and literal forms; instantiations with ordered / named ports and parameter overrides; generate loops and conditionals; functions and tasks) with adversarial identifiers (keyword-prefixed, escaped, $-names) and random layout incl. comments; the generator emits the expected (node kind, identifier) list and the identifier / keyword token list; non-trivial = sentence with >= 4 expected items; distinct by text");
    for (s, r) in sents.iter().zip(results.into_iter()) {
        match r {
            Ok(k) => { rep.case(s.text.as_bytes(), k >= 4); rep.add("expected-items", k); rep.add("tokens", s.toks.len()); if k >= 4 && s.text.len() < 300 { rep.sample(s.text.clone()); } }
            Err(m) => { rep.case(s.text.as_bytes(), true);
                if s.tainted && m.contains("DataDeclaration") { rep.known("leading-assignment-parsed-as-declaration", &m, &s.text, ""); } else { rep.violation(&m, &s.text, ""); } }
        }
    }
    rep.write(out);
    println!("ok");
}

//! The in-tree corpus extracted by svx (work/corpus) and the preprocessor testcases.
use std::path::PathBuf;

#[derive(Clone)]
pub struct Item { pub name: String, pub kind: String, pub text: String }

pub fn load(workdir: &str) -> Vec<Item> {
    let dir = format!("{}/corpus", workdir);
    let mut names: Vec<String> = std::fs::read_dir(&dir).expect("corpus dir (run svx)")
        .filter_map(|e| e.ok()).map(|e| e.file_name().to_string_lossy().to_string())
        .filter(|n| n.ends_with(".sv") || n.ends_with(".map")).collect();
    names.sort();
    names.into_iter().map(|n| {
        let text = std::fs::read_to_string(format!("{}/{}", dir, n)).unwrap();
        let kind = if n.starts_with("lib_") { "lib" } else { "sv" }.to_string();
        Item { name: n, kind, text }
    }).collect()
}

pub fn pp_testcase_dir() -> PathBuf { PathBuf::from("/repo/sv-parser-pp/testcases") }

pub fn pp_testcases() -> Vec<Item> {
    let dir = pp_testcase_dir();
    let mut names: Vec<String> = std::fs::read_dir(&dir).unwrap().filter_map(|e| e.ok())
        .map(|e| e.file_name().to_string_lossy().to_string())
        .filter(|n| n.ends_with(".sv") || n.ends_with(".svh")).collect();
    names.sort();
    names.into_iter().filter_map(|n| {
        let b = std::fs::read(dir.join(&n)).ok()?;
        let text = String::from_utf8(b).ok()?;
        Some(Item { name: n, kind: "pp".into(), text })
    }).collect()
}

//! C08 oracle: every public entry point returns Ok or a structured Error — never a panic.
use crate::{api::*, corpus, gen, gen_pp, ppcmp, report::Report, util::{self, Rng}};
use std::convert::TryFrom;
use std::path::PathBuf;

/// exercise everything a user can do with a tree
fn use_tree(t: &SyntaxTree) -> usize {
    let mut n = 0usize;
    for node in t { n += 1;
        let _ = t.get_str(vec![node.clone()]);
        if n % 7 == 0 { let _ = t.get_str_trim(vec![node.clone()]); }
        match node {
            RefNode::Locate(l) => { let _ = t.get_origin(l); }
            RefNode::ModuleDeclaration(x) => { let _ = Locate::try_from(x); }
            RefNode::Description(x) => { let _ = Locate::try_from(x); }
            RefNode::ModuleItem(x) => { let _ = Locate::try_from(x); }
            RefNode::Statement(x) => { let _ = Locate::try_from(x); }
            RefNode::Expression(x) => { let _ = Locate::try_from(x); }
            RefNode::Identifier(x) => { let _ = Locate::try_from(x); }
            RefNode::WhiteSpace(x) => { let _ = Locate::try_from(x); }
            RefNode::SourceText(x) => { let _ = Locate::try_from(x); }
            RefNode::Symbol(x) => { let _ = Locate::try_from(x); }
            RefNode::Keyword(x) => { let _ = Locate::try_from(x); }
            RefNode::CompilerDirective(x) => { let _ = Locate::try_from(x); }
            RefNode::LibraryText(x) => { let _ = Locate::try_from(x); }
            RefNode::DataDeclaration(x) => { let _ = Locate::try_from(x); }
            _ => {}
        }
    }
    for _ in t.into_iter().event() { n += 1; }
    if n < 4000 { let _ = format!("{}", t); let _ = format!("{:?}", t); }
    n
}

pub fn one_text(text: &str, mode: usize, defs: &Defines) -> Result<(bool, String), String> {
    let inc: Vec<PathBuf> = vec![PathBuf::from("nowhere"), PathBuf::from("")];
    let p = PathBuf::from("dir/f.sv");
    let r = match mode % 6 {
        0 => preprocess_str(text, &p, defs, &inc, false, false, 0, 0).map(|x| x.0.text().len()).map_err(|e| err_str(&e)),
        1 => preprocess_str(text, &p, defs, &inc, true, true, 0, 0).map(|x| x.0.text().len()).map_err(|e| err_str(&e)),
        2 => parse_sv_str(text, &p, defs, &inc, false, false).map(|x| use_tree(&x.0)).map_err(|e| err_str(&e)),
        3 => parse_sv_str(text, &p, defs, &inc, true, true).map(|x| use_tree(&x.0)).map_err(|e| err_str(&e)),
        4 => parse_lib_str(text, &p, defs, &inc, false, false).map(|x| use_tree(&x.0)).map_err(|e| err_str(&e)),
        _ => parse_lib_str(text, &p, defs, &inc, false, true).map(|x| use_tree(&x.0)).map_err(|e| err_str(&e)),
    };
    match r { Ok(n) => Ok((true, format!("ok {}", n))), Err(e) => Ok((false, e)) }
}

fn weird_defines(rng: &mut Rng) -> Defines {
    let mut v: Vec<(String, Option<(Vec<(String, Option<String>)>, Option<String>)>)> = vec![];
    if rng.chance(1, 2) { v.push(("A".into(), None)); }
    if rng.chance(1, 3) { v.push(("B".into(), Some((vec![("x".into(), None)], None)))); }           // formals but no text
    if rng.chance(1, 3) { v.push(("C".into(), Some((vec![], Some("`C".into()))))); }                 // self-recursive
    if rng.chance(1, 4) { v.push(("é".into(), Some((vec![], Some("\"".into()))))); }                // odd name, unterminated string body
    if rng.chance(1, 4) { v.push(("D".into(), Some((vec![("a".into(), Some("`".into())), ("a".into(), None)], Some("a``a `\" \\\n".into()))))); }
    if rng.chance(1, 5) { v.push(("__LINE__".into(), Some((vec![], Some("7".into()))))); }
    ppcmp::mk_defines(&v)
}

pub fn main(args: &[String]) {
    let workdir = &args[0]; let tier = &args[1]; let seed: u64 = args[2].parse().unwrap(); let out = &args[3];
    let thorough = tier == "thorough";
    let corp = corpus::load(workdir); let pps = corpus::pp_testcases();
    let mut rng = Rng::new(seed ^ 0xc08);
    let n = if thorough { 300000 } else { 20000 };
    let mut texts: Vec<(String, &'static str)> = vec![];
    for i in 0..n {
        let (t, tag) = match i % 8 {
            0 => (gen::soup(&mut rng, gen::PP_ATOMS, 20), "pp-soup"),
            1 => (gen::soup(&mut rng, gen::SV_ATOMS, 24), "sv-soup"),
            2 => (gen::soup(&mut rng, gen::LIB_ATOMS, 16), "lib-soup"),
            3 => { let b = rng.pick(&corp).text.clone(); let mut t = b; for _ in 0..rng.range(1, 4) { t = gen::mutate(&t, &mut rng, gen::SV_ATOMS); } (t, "mutated-sv") }
            4 => { let b = rng.pick(&pps).text.clone(); let mut t = b; for _ in 0..rng.range(1, 4) { t = gen::mutate(&t, &mut rng, gen::PP_ATOMS); } (t, "mutated-pp") }
            5 => { let b = &rng.pick(&corp).text; let mut c = rng.below(b.len() + 1); while !b.is_char_boundary(c) { c -= 1; } (b[..c].to_string(), "truncated") }
            6 => { let a = gen::soup(&mut rng, gen::PP_ATOMS, 8); let b = gen::soup(&mut rng, gen::SV_ATOMS, 8); (format!("{}{}", a, b), "mixed-soup") }
            _ => { // every prefix of a small program, one per case
                let small = ["module m;`define A(x) x\n`A(1)\nendmodule", "`ifdef A\n`else\n`endif\n\"s\" \\e ", "a /* c */ `include \"x\"\n", "`timescale 1ns/1ps\n`begin_keywords \"1364-2001\"\n"];
                let b = small[(i / 8) % small.len()]; let c = ((i / 32) % (b.len() + 1)).min(b.len()); let mut c = c; while !b.is_char_boundary(c) { c -= 1; } (b[..c].to_string(), "prefix") }
        };
        texts.push((t, tag));
    }
    // modes[i]: which entry point / flag combination case i goes through (default i / 3, as before)
    let mut modes: Vec<usize> = (0..texts.len()).map(|i| i / 3).collect();
    // slot family: every syntactic slot of the preprocessor language (macro text, macro-named include operand, default text, actual argument,
    // file names, conditional / undef names, string and comment contents, directive arguments, macro names, stringification, escaped identifiers)
    // filled with every odd string (empty, a lone delimiter, unbalanced quote / bracket, multi-byte characters first / last, line ends,
    // comment openers, backticks), through all six entry-point modes
    {
        let templates = ["`define X {}\n`include `X\n", "`define X {}\n`X\n", "`define X(a) {}\n`X(1)\n", "`define X(a={}) a\n`X()\n", "`define X(a) a\n`X({})\n", "`define X(a,b) a b\n`X({},{})\n",
            "`include \"{}\"\n", "`include <{}>\n", "`include {}\n", "`ifdef {}\n`endif\n", "`ifndef A\n`elsif {}\n`endif\n", "`undef {}\n", "\"{}\"\n", "/*{}*/\n", "//{}\n", "`timescale {}\n", "`line {}\n", "`pragma {}\n",
            "`begin_keywords \"{}\"\n", "`default_nettype {}\n", "`define {} 1\n", "`define X(a) `\"a{}`\"\n`X(1)\n", "`{}\n", "\\{} \n", "`define X {}\nmodule m; initial $display(`X); endmodule\n",
            "`__FILE__{}\n", "`__LINE__{}\n", "`define X(a) a``{}\n`X(1)\n", "`define X \"{}\"\n`include `X\n", "`define X <{}>\n`include `X\n", "module m; initial $display(\"{}\"); endmodule\n", "module {}; endmodule\n"];
        let odd = ["", "<", ">", "\"", "\"\"", "<>", "<a", "a>", "\"a", "a\"", "é", "\"é", "é\"", "<é", "é>", "inc/café", "\"a.svh\" é", "日", "\\", "\\\n", "`", "``", "`\"", "`\\`\"", "(", ")", "((", ",", "{", "}", "[", " ", "\t", "\n", "\r", "\r\n",
            "//", "/*", "*/", "/", "1", "a b", "\u{85}", "\u{a0}", "\u{0}", "\u{feff}", "a\u{301}", "x.svh", "dir", "\x0c", "__LINE__", "X", "a\nb", "\"a\nb\"", "'", "$", "#"];
        for t in templates.iter() { for o in odd.iter() { for m in 0..6usize { texts.push((t.replace("{}", o), "slot-family")); modes.push(m); } } }
    }
    let modes = std::sync::Arc::new(modes); let modes2 = modes.clone();
    let defs: Vec<Defines> = (0..16).map(|_| weird_defines(&mut rng)).collect();
    let texts = std::sync::Arc::new(texts); let defs = std::sync::Arc::new(defs);
    let (t2, d2) = (texts.clone(), defs.clone());
    let results = util::par_map(texts.len(), util::env_usize("SVH_THREADS", 16), move |i| {
        let (t, _) = &t2[i]; let d = &d2[i % 16];
        match std::panic::catch_unwind(std::panic::AssertUnwindSafe(|| one_text(t, modes2[i], d))) { Ok(r) => r, Err(e) => Err(format!("panic: {}", util::panic_msg(e))) }
    });
    let mut rep = Report::new("token soups from the directive / SystemVerilog / library alphabets (incl. non-ASCII, control bytes, lone backticks, quotes, backslashes), mutated corpus and preprocessor test inputs, truncations at every byte of small programs, with odd caller defines (formals without text, self-recursive, odd names, unterminated-string bodies), through preprocess_str / parse_sv_str / parse_lib_str with all flags, then tree iteration, events, get_str, get_str_trim, get_origin, Locate::try_from, Display and Debug; files with arbitrary bytes and missing include targets through preprocess / parse_sv; non-trivial = every case (each is a potential panic); distinct by (text, mode)");
    for (i, ((t, tag), r)) in texts.iter().zip(results.into_iter()).enumerate() {
        let key = format!("{}{}", modes[i] % 6, t);
        match r {
            Ok((ok, what)) => { rep.case(key.as_bytes(), true); rep.count(&format!("{}:{}", tag, if ok { "ok" } else { what.split('(').next().unwrap_or("err") })); if rep.samples.len() < 4 && t.len() < 80 { rep.sample(format!("{:?} -> {}", t, &what[..what.len().min(60)])); } }
            Err(m) => { rep.case(key.as_bytes(), true);
                let mode = modes[i]; let d = defs[i % 16].clone();
                let small = crate::report::shrink(t, &|x| matches!(std::panic::catch_unwind(std::panic::AssertUnwindSafe(|| one_text(x, mode, &d))), Err(_)));
                rep.violation(&m, &small, &format!("mode={} tag={}", mode % 6, tag)); }
        }
    }
    // files: arbitrary bytes, missing include targets
    let root = format!("{}.fs", out);
    let _ = std::fs::remove_dir_all(&root); std::fs::create_dir_all(&root).unwrap();
    std::env::set_current_dir(&root).unwrap();
    let nfile = if thorough { 2000 } else { 200 };
    for i in 0..nfile {
        let bytes: Vec<u8> = (0..rng.range(0, 40)).map(|_| *rng.pick(&[0u8, 0xff, 0xfe, 0x80, b'`', b'"', b'a', b'\n', 0xc3, 0x28, b'/', b'*', b'\\'])).collect();
        let f = format!("b{}.sv", i); std::fs::write(&f, &bytes).unwrap();
        let valid = std::str::from_utf8(&bytes).is_ok();
        let top = format!("t{}.sv", i); std::fs::write(&top, format!("x\n`include \"{}\"\n`include \"missing{}.svh\"\n", f, i)).unwrap();
        let d = no_defines(); let inc = no_includes();
        for (k, path) in [&f, &top].iter().enumerate() {
            let p = PathBuf::from(path);
            let r = std::panic::catch_unwind(|| { let a = preprocess(&p, &d, &inc, false, false).map(|_| ()).map_err(|e| err_str(&e)); let b = parse_sv(&p, &d, &inc, false, true).map(|x| { use_tree(&x.0); }).map_err(|e| err_str(&e)); (a, b) });
            rep.case(format!("file{}{}", i, k).as_bytes(), true); rep.count("file-case");
            match r {
                Err(e) => rep.violation(&format!("panic: {}", util::panic_msg(e)), &format!("{:?}", bytes), path),
                Ok((a, _)) => {
                    if k == 0 && !valid { if a != Err(format!("ReadUtf8({})", f)) { rep.violation(&format!("a file that is not UTF-8 must give ReadUtf8 naming it, got {:?}", a), &format!("{:?}", bytes), path); } }
                    if k == 1 && !valid { if a != Err(format!("Include[ReadUtf8({})]", f)) { rep.violation(&format!("a non-UTF-8 file reached through `include must give Include[ReadUtf8(file)], got {:?}", a), &format!("{:?}", bytes), path); } }
                    if k == 1 && valid { if let Err(e) = &a { if e.contains("File(") && !e.contains(&format!("File(missing{}.svh)", i)) { rep.violation(&format!("missing include must give File naming the path tried, got {}", e), "", path); } } }
                }
            }
        }
    }
    let d = no_defines(); let inc = no_includes();
    match preprocess(PathBuf::from("does/not/exist.sv"), &d, &inc, false, false) { Err(Error::File { path, .. }) if path == PathBuf::from("does/not/exist.sv") => {}, other => rep.violation(&format!("missing top file: {:?}", other.map(|_| ()).map_err(|e| err_str(&e))), "", "") }
    let _ = gen_pp::gen_case;
    rep.write(out);
    println!("ok");
}

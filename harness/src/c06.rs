//! C06 oracle: directive-free text passes through unchanged (text and origins); outputs are fixed points.
use crate::{api::*, gen_pp, ppcmp, report::Report, util::{self, Rng}};
use std::path::PathBuf;

/// directive-free text; `tainted` = a top-level string literal / escaped identifier is followed by trivia
/// (known finding class strlit-trailing-trivia); `malformed` = may contain unterminated constructs
pub fn gen_text(rng: &mut Rng, allow_taint: bool, malformed: bool) -> (String, bool) {
    let words = ["a", "module", "x1", "_y", "$display", "42", "8'hff", "1.5e3", "é", "日本", "w"];
    let punct = [";", ",", "(", ")", "[", "]", "{", "}", "=", "+", "-", "*", "/", "#", "@", ".", ":", "?", "<=", "'", "~", "|", "&", "%", "!"];
    let ws = [" ", "  ", "\t", "\n", "\r\n", "\n\n", " \n ", "\x0c", "\r", " \r "];
    let strs = ["\"s\"", "\"a b\"", "\"`A `define\"", "\"x\\\"y\"", "\"q\\\\\"", "\"// no\"", "\"/* no */\"", "\"é\"", "\"\"", "\"a\\\nb\""];
    let escs = ["\\esc", "\\a+b", "\\`A", "\\x\"y", "\\é"];
    let cmts = ["// c\n", "// `define X 1\n", "//\n", "/* c */", "/**/", "/* a\n `ifdef b */", "/* é */", "// \"open\n", "/* \" */", "// c\r\n", "// a\rb\n", "// é \r\r\n", "/* a\r b */"];
    let mut s = String::new(); let mut tainted = false;
    let n = rng.range(1, 14);
    let mut last_strlike = false;
    for _ in 0..n {
        let r = rng.below(100);
        if last_strlike {
            // what follows a string / escaped identifier decides the class
            last_strlike = false;
            if allow_taint && rng.chance(1, 2) { s.push_str(rng.pick_str(&[" ", "  ", "\n", " /* t */", "\t// t\n"])); tainted = true; continue; }
            else if !allow_taint && rng.chance(1, 3) {
                // a white-space run that begins with a line end is one Newline node: not emitted twice, so still the clean stream
                s.push_str(rng.pick_str(&["\n", "\r\n", "\n  ", "\n\t\n", "\r\n \x0c"])); s.push_str(rng.pick_str(&[";", "x", "(", "42"])); continue; }
            else { s.push_str(rng.pick_str(&[";", ",", ")", "="])); continue; }
        }
        match r {
            0..=34 => { s.push_str(rng.pick_str(&words)); s.push_str(rng.pick_str(&ws)); }
            35..=54 => { s.push_str(rng.pick_str(&punct)); if rng.chance(1, 2) { s.push_str(rng.pick_str(&ws)); } }
            55..=64 => s.push_str(rng.pick_str(&ws)),
            65..=76 => s.push_str(rng.pick_str(&cmts)),
            77..=88 => { if s.ends_with('\\') { s.push(' '); } s.push_str(rng.pick_str(&strs)); last_strlike = true; }
            89..=94 => {
                // an escaped identifier ends at the first blank: the blank is its own terminator
                s.push_str(rng.pick_str(&escs)); s.push(' ');
                if allow_taint { tainted = true; } else { s.pop(); s.push('\n'); tainted = true; }
            }
            _ => if malformed { s.push_str(rng.pick_str(&["\"open", "/* open", "\\", "\\\n", "\"a\\", "/*/"])); } else { s.push_str("z "); },
        }
    }
    if last_strlike && !allow_taint { s.push(';'); }
    (s, tainted)
}

pub fn check_identity(text: &str) -> Result<bool, String> {
    let d = no_defines(); let inc = no_includes();
    match preprocess_str(text, PathBuf::from("dir/f.sv"), &d, &inc, false, false, 0, 0) {
        Err(e) => Err(format!("well-formed directive-free text rejected: {}", err_str(&e))),
        Ok((t, _)) => {
            if t.text() != text {
                let a = t.text().as_bytes(); let b = text.as_bytes();
                let k = a.iter().zip(b.iter()).position(|(x, y)| x != y).unwrap_or(a.len().min(b.len()));
                return Err(format!("output differs from input at byte {} (output {} bytes, input {} bytes)", k, a.len(), b.len()));
            }
            for i in 0..text.len() {
                match t.origin(i) {
                    Some((p, o)) if p == &PathBuf::from("dir/f.sv") && o == i => {}
                    other => return Err(format!("origin({}) = {:?}, expected (dir/f.sv, {})", i, other.map(|(p, o)| (p.display().to_string(), o)), i)),
                }
            }
            Ok(text.len() >= 8)
        }
    }
}

/// independent scanner: (has a backtick outside comments / strings / escaped identifiers,
///                       has a top-level string literal or escaped identifier whose trailing trivia is emitted twice — known finding D4)
/// What follows the string decides: a white-space run that begins with a line end is ONE node of kind Newline, which the event loop never
/// emits on its own, so `"s"<newline><blanks>` followed by a token is NOT in the class; a run that begins with a blank / tab / form feed
/// (a Space node), a comment or a directive — directly after the string or after such a Newline run — is.
pub fn scan_class(text: &str) -> (bool, bool) { let (d, t, _) = scan3(text); (d, t) }

/// as `scan_class`, plus: some top-level string literal / escaped identifier is followed by ANY trivia (the shape excluded by the
/// hypothesis `PlainSD` of the Lean theorem C06_identity, which is wider than the defect class)
pub fn scan3(text: &str) -> (bool, bool, bool) {
    let b: Vec<char> = text.chars().collect(); let mut i = 0; let mut directive = false; let mut tainted = false; let mut any = false;
    let is_ws = |c: char| c == ' ' || c == '\t' || c == '\r' || c == '\n' || c == '\x0c';
    let starts_cd = |j: usize| j < b.len() && (b[j] == '`' || (b[j] == '/' && j + 1 < b.len() && (b[j + 1] == '/' || b[j + 1] == '*')));
    let dup = |j: usize| -> (bool, bool) {
        // (defect class, any trivia)
        if j >= b.len() { return (false, false); }
        if b[j] == ' ' || b[j] == '\t' || b[j] == '\x0c' || starts_cd(j) { return (true, true); }
        if b[j] == '\r' || b[j] == '\n' { let mut k = j; while k < b.len() && is_ws(b[k]) { k += 1; } return (starts_cd(k), true); }
        (false, false)
    };
    while i < b.len() {
        let c = b[i];
        if c == '/' && i + 1 < b.len() && b[i + 1] == '/' { while i < b.len() && b[i] != '\n' { i += 1; } }
        else if c == '/' && i + 1 < b.len() && b[i + 1] == '*' { i += 2; loop { if i + 1 >= b.len() { i = b.len(); break; } if b[i] == '*' && b[i + 1] == '/' { i += 2; break; } i += 1; } }
        else if c == '"' { i += 1; loop { if i >= b.len() { break; } if b[i] == '\\' { i += 2; continue; } if b[i] == '"' { i += 1; break; } i += 1; } let (t, a) = dup(i); tainted |= t; any |= a; }
        else if c == '\\' { i += 1; while i < b.len() && !is_ws(b[i]) { i += 1; } let (t, a) = dup(i); tainted |= t; any |= a; }
        else if c == '`' { directive = true; i += 1; }
        else { i += 1; }
    }
    (directive, tainted, any)
}

/// independent scanner: does the (directive-free) text contain an unterminated string / block comment / lone backslash?
pub fn lexically_broken(text: &str) -> bool {
    let b: Vec<char> = text.chars().collect(); let mut i = 0;
    while i < b.len() {
        let c = b[i];
        if c == '/' && i + 1 < b.len() && b[i + 1] == '/' { while i < b.len() && b[i] != '\n' { i += 1; } }
        else if c == '/' && i + 1 < b.len() && b[i + 1] == '*' { i += 2; loop { if i + 1 >= b.len() { return true; } if b[i] == '*' && b[i + 1] == '/' { i += 2; break; } i += 1; } }
        else if c == '"' { i += 1; loop { if i >= b.len() { return true; } if b[i] == '\\' { i += 2; continue; } if b[i] == '"' { i += 1; break; } i += 1; } }
        else if c == '\\' { if i + 1 >= b.len() || b[i + 1] == ' ' || b[i + 1] == '\t' || b[i + 1] == '\r' || b[i + 1] == '\n' || b[i + 1] == '\x0c' { return true; } while i < b.len() && !(b[i] == ' ' || b[i] == '\t' || b[i] == '\r' || b[i] == '\n' || b[i] == '\x0c') { i += 1; } }
        else { i += 1; }
    }
    false
}

pub fn main(args: &[String]) {
    let _workdir = &args[0]; let tier = &args[1]; let seed: u64 = args[2].parse().unwrap(); let out = &args[3];
    let thorough = tier == "thorough";
    let mut rng = Rng::new(seed ^ 0xc06);
    let mut rep = Report::new("(a) directive-free texts over the full lexical alphabet: clean stream (strings / escaped identifiers followed by a token) held to byte identity + origin(i) = (path, i); tainted stream (trailing trivia after a top-level string / escaped identifier) = known-finding class; malformed stream must be Ok-and-identical or Preprocess error only when an independent scanner finds an unterminated construct; (b) every successful run of a generated preprocessor program is re-fed: same text. non-trivial = accepted text of >= 8 bytes; distinct by text");
    let n = if thorough { 60000 } else { 6000 };
    let mut plain_cases: Vec<String> = vec![];
    for i in 0..n {
        let stream = i % 4;
        let (text, _) = gen_text(&mut rng, stream == 1, stream == 3);
        let (has_dir, tainted, any_trivia) = scan3(&text);
        if has_dir { rep.count("skipped-has-directive"); continue; }
        // pieces can glue into an unterminated construct ("/" + "/* c */" is a line comment that hides the closing "*/"):
        // whatever the independent scanner finds broken is judged as the malformed stream
        let malformed = stream == 3 || lexically_broken(&text);
        rep.count(if malformed { "malformed" } else { ["clean", "tainted", "clean", "malformed"][stream] });
        if malformed {
            let d = no_defines(); let inc = no_includes();
            let r = std::panic::catch_unwind(|| preprocess_str(&text, PathBuf::from("dir/f.sv"), &d, &inc, false, false, 0, 0));
            rep.case(text.as_bytes(), false);
            match r {
                Err(e) => rep.violation(&format!("panic: {}", util::panic_msg(e)), &text, ""),
                Ok(Err(Error::Preprocess(_))) => { if !lexically_broken(&text) { rep.violation("directive-free text without unterminated string / comment / lone backslash rejected", &text, ""); } else { rep.count("malformed-rejected"); } }
                Ok(Err(e)) => rep.violation(&format!("unexpected error {}", err_str(&e)), &text, ""),
                Ok(Ok((t, _))) => { if t.text() != text { if tainted { rep.known("strlit-trailing-trivia", "accepted but changed (trailing trivia after a string / escaped identifier)", &text, ""); } else { rep.violation("malformed-stream text accepted but changed", &text, t.text()); } } }
            }
            continue;
        }
        match std::panic::catch_unwind(|| check_identity(&text)) {
            Err(e) => { rep.case(text.as_bytes(), true); rep.violation(&format!("panic: {}", util::panic_msg(e)), &text, ""); }
            Ok(Ok(nt)) => { rep.case(text.as_bytes(), nt); if nt && text.len() < 60 { rep.sample(format!("{:?}", text)); }
                // hypothesis of the Lean theorem C06_identity: the model must find the parse tree of this text to be of the plain shape
                if !any_trivia { plain_cases.push(format!("plain {}", util::hex(text.as_bytes()))); } }
            Ok(Err(m)) => {
                rep.case(text.as_bytes(), true);
                if tainted { rep.known("strlit-trailing-trivia", &m, &text, ""); }
                else { let small = crate::report::shrink(&text, &|t| { let (d, tt) = scan_class(t); !d && !tt && !lexically_broken(t) && matches!(std::panic::catch_unwind(|| check_identity(t)), Ok(Err(_)) | Err(_)) }); rep.violation(&m, &small, ""); }
            }
        }
    }
    // (b) fixed point of successful runs
    let root = format!("{}.fs", out);
    let _ = std::fs::remove_dir_all(&root); std::fs::create_dir_all(&root).unwrap();
    let m = if thorough { 8000 } else { 1200 };
    let mut cases = vec![];
    for i in 0..m { let c = gen_pp::gen_case(&mut rng, i, false); ppcmp::materialise(&root, &c); cases.push(c); }
    std::env::set_current_dir(&root).unwrap();
    for c in &cases {
        let r = std::panic::catch_unwind(|| ppcmp::run_file(c));
        if let Ok(Ok((t, _))) = r {
            let d = ppcmp::mk_defines(&c.defines);
            let inc: Vec<PathBuf> = c.incpaths.iter().map(PathBuf::from).collect();
            let first = t.text().to_string();
            // __LINE__ / __FILE__ expansions are position dependent by nature; inputs using them are outside the fixed-point claim
            let uses_pos = c.flags.contains(&"position");
            let strlike = first.contains('"') || first.contains('\\');
            rep.case(first.as_bytes(), first.len() >= 8);
            match std::panic::catch_unwind(|| preprocess_str(&first, PathBuf::from(&c.top), &d, &inc, c.ignore, c.strip, 0, 0)) {
                Ok(Ok((t2, _))) => {
                    if t2.text() != first {
                        if uses_pos { rep.count("fixpoint-skipped-position"); }
                        else if strlike { rep.known("strlit-trailing-trivia", "re-preprocessing an output changes it (output contains a string / escaped identifier with trailing trivia)", &first, ""); }
                        else { rep.violation("output of a successful run is not a fixed point", &first, t2.text()); }
                    } else { rep.count("fixpoint-ok"); }
                }
                Ok(Err(e)) => {
                    // D4: a directive in the trailing trivia of a string is kept as text AND executed; re-feeding such an output runs it once more
                    if uses_pos {} else if scan_class(&first).1 { rep.known("strlit-trailing-trivia", &format!("re-preprocessing an output fails ({}): it contains a string / escaped identifier directly followed by trivia", err_str(&e)), &first, ""); }
                    else { rep.violation(&format!("re-preprocessing a successful output fails: {}", err_str(&e)), &first, ""); }
                }
                Err(e) => rep.violation(&format!("panic on re-preprocessing: {}", util::panic_msg(e)), &first, ""),
            }
        }
    }
    plain_cases.truncate(if thorough { 20000 } else { 3000 });
    std::fs::write(format!("{}.plain.cases", out), plain_cases.join("\n") + "\n").unwrap();
    std::fs::write(format!("{}.plain.impl", out), plain_cases.iter().map(|_| "plain").collect::<Vec<_>>().join("\n") + "\n").unwrap();
    rep.write(out);
    println!("ok");
}

//! C09 oracle: recursion is bounded — cycles end in ExceedRecursiveLimit (wrapped once per include level),
//! chains up to 64 levels succeed. Each family member runs in a CHILD PROCESS so that a stack overflow
//! (SIGSEGV / abort) is observed instead of killing the oracle.
use crate::{api::*, report::Report};
use std::path::PathBuf;
use std::process::Command;

/// families: returns (files, top, expected) ; expected: Ok(expected non-blank text) or Err(error string)
pub fn family(kind: &str, d: usize) -> (Vec<(String, String)>, String, Result<String, String>) {
    let wrap = |n: usize, inner: &str| { let mut s = inner.to_string(); for _ in 0..n { s = format!("Include[{}]", s); } s };
    match kind {
        // file k includes file k+1 ... file d is plain: d include levels
        "include-chain" => {
            let mut files = vec![];
            for k in 0..d { files.push((format!("f{}.svh", k), format!("a{}\n`include \"f{}.svh\"\nz{}\n", k, k + 1, k))); }
            files.push((format!("f{}.svh", d), "leaf\n".to_string()));
            let mut exp = String::new(); for k in 0..d { exp.push_str(&format!("a{}", k)); } exp.push_str("leaf"); for k in (0..d).rev() { exp.push_str(&format!("z{}", k)); }
            (files, "f0.svh".into(), if d <= 64 { Ok(exp) } else { Err(wrap(65, "ExceedRecursiveLimit")) })
        }
        // cycle of d files
        "include-cycle" => {
            let files = (0..d).map(|k| (format!("c{}.svh", k), format!("x{}\n`include \"c{}.svh\"\n", k, (k + 1) % d))).collect();
            (files, "c0.svh".into(), Err(wrap(65, "ExceedRecursiveLimit")))
        }
        // M_d -> M_{d-1} -> ... -> M_0 : d+1 nested usages
        "macro-chain" => {
            let mut s = String::from("`define M0 leaf\n");
            for k in 1..=d { s.push_str(&format!("`define M{} `M{} t{}\n", k, k - 1, k)); }
            s.push_str(&format!("`M{}\n", d));
            let mut exp = String::from("`defineM0leaf"); for k in 1..=d { exp.push_str(&format!("`defineM{}`M{}t{}", k, k - 1, k)); }
            exp.push_str("leaf"); for k in 1..=d { exp.push_str(&format!("t{}", k)); }
            (vec![("m.sv".into(), s)], "m.sv".into(), if d + 1 <= 64 { Ok(exp) } else { Err("ExceedRecursiveLimit".into()) })
        }
        // cycle of d macros
        "macro-cycle" => {
            let mut s = String::new();
            for k in 0..d { s.push_str(&format!("`define R{} `R{}\n", k, (k + 1) % d)); }
            s.push_str("`R0\n");
            (vec![("r.sv".into(), s)], "r.sv".into(), Err("ExceedRecursiveLimit".into()))
        }
        // a macro that expands to an include of a file that uses the macro (mixed cycle)
        "macro-include-cycle" => {
            let top = "`define INC `include \"mi.svh\"\n`INC\n".to_string();
            let mut files = vec![("mi_top.sv".to_string(), top)];
            files.push(("mi.svh".into(), "y\n`INC\n".into()));
            (files, "mi_top.sv".into(), Err("*ExceedRecursiveLimit".into()))   // some Include nesting around it
        }
        // a cycle in which every link is an `include whose file name is a macro usage: macro k expands to `include `K(k+1); no file is ever
        // opened, so only the macro depth can end the recursion — the resolver call for the file name has to step it
        "named-include-cycle" => {
            let mut s = String::new();
            for k in 0..d { s.push_str(&format!("`define N{} `include `N{}\n", k, (k + 1) % d)); }
            s.push_str("`include `N0\n");
            (vec![("ni.sv".into(), s)], "ni.sv".into(), Err("*ExceedRecursiveLimit".into()))
        }
        // a file that includes itself through a chain of d macros: every include level costs d levels of macro depth, so both counters
        // have to be carried across both recursion paths for the run to end before the stack does
        "kmacro-include-cycle" => {
            let mut s = String::new();
            for k in 1..d { s.push_str(&format!("`define K{} `K{}\n", k, k + 1)); }
            s.push_str(&format!("`define K{} `include \"kself.svh\"\n", d));
            s.push_str("u\n`K1\n");
            (vec![("kself.svh".into(), s)], "kself.svh".into(), Err("*ExceedRecursiveLimit".into()))
        }
        // chain that alternates macro expansion and include, depth d (acyclic)
        "mixed-chain" => {
            let mut files = vec![];
            for k in 0..d { files.push((format!("x{}.svh", k), format!("`define I{} `include \"x{}.svh\"\nq{}\n`I{}\n", k, k + 1, k, k))); }
            files.push((format!("x{}.svh", d), "leaf\n".into()));
            // d include levels interleaved with d macro expansions: within both limits up to 64; deeper chains may
            // succeed or end in ExceedRecursiveLimit (the property only fixes the behaviour up to the limit and for cycles)
            (files, "x0.svh".into(), if d <= 64 { Ok("*leaf*".into()) } else { Err("?".into()) })
        }
        // two-dimensional legal chains: `dd` plain include levels, then in the deepest file `m` nested macro usages, both within the limit (d = dd*100 + m):
        //   grid-text: the innermost macro is text;  grid-name: the macro chain yields the file name of `include `P0;
        //   grid-body: the innermost macro body is an `include directive. Each counter must count its own kind of nesting only.
        "grid-text" | "grid-name" | "grid-body" => {
            let (dd, m) = (d / 100, d % 100);
            let mut files = vec![];
            for k in 0..dd { files.push((format!("g{}.svh", k), format!("`include \"g{}.svh\"\n", k + 1))); }
            let mut s = String::new();
            let last = match kind { "grid-text" => "leaf".to_string(), "grid-name" => "\"gleaf.svh\"".to_string(), _ => "`include \"gleaf.svh\"".to_string() };
            for k in 0..m { if k + 1 < m { s.push_str(&format!("`define P{} `P{}\n", k, k + 1)); } else { s.push_str(&format!("`define P{} {}\n", k, last)); } }
            s.push_str(if kind == "grid-name" { "`include `P0\n" } else { "`P0\n" });
            files.push((format!("g{}.svh", dd), s));
            files.push(("gleaf.svh".into(), "leaf\n".into()));
            let levels = dd + if kind == "grid-text" { 0 } else { 1 };
            (files, "g0.svh".into(), if levels <= 64 && m <= 64 { Ok("*leaf*".into()) } else { Err("?".into()) })
        }
        _ => panic!("family"),
    }
}

fn matches(expected: &Result<String, String>, got: &Result<String, String>) -> bool {
    if let Err(e) = expected { if e == "?" { return match got { Ok(g) => g.contains("leaf"), Err(g) => g.replace("Include[", "").trim_end_matches(']') == "ExceedRecursiveLimit" }; } }
    match (expected, got) {
        (Ok(e), Ok(g)) => if e.starts_with('*') { g.contains(e.trim_matches('*')) } else { e == g },
        (Err(e), Err(g)) => if let Some(suffix) = e.strip_prefix('*') { g.contains(suffix) && g.replace("Include[", "").trim_end_matches(']') == suffix } else { e == g },
        _ => false,
    }
}

/// child: run one family member in cwd=dir and print the result line
pub fn child(args: &[String]) {
    let kind = &args[0]; let d: usize = args[1].parse().unwrap(); let dir = &args[2];
    let (files, top, _) = family(kind, d);
    std::fs::create_dir_all(dir).unwrap();
    for (p, c) in &files { std::fs::write(PathBuf::from(dir).join(p), c).unwrap(); }
    std::env::set_current_dir(dir).unwrap();
    // cycles must end in an error on an ordinary 8 MiB stack (the property: "instead of hanging or overflowing the stack");
    // the long acyclic chains get a large stack (inputs whose nesting alone exhausts the stack are outside the claim)
    let stack = if kind.contains("cycle") { 8 << 20 } else { 1 << 30 };
    let h = std::thread::Builder::new().stack_size(stack).spawn(move || {
        let dd = no_defines(); let inc = no_includes();
        match preprocess(PathBuf::from(&top), &dd, &inc, false, false) {
            Ok((t, _)) => format!("ok {}", t.text().chars().filter(|c| !c.is_whitespace()).collect::<String>()),
            Err(e) => format!("err {}", err_str(&e)),
        }
    }).unwrap();
    match h.join() { Ok(s) => println!("{}", s), Err(_) => println!("panic") }
}

pub fn main(args: &[String]) {
    let _workdir = &args[0]; let tier = &args[1]; let _seed: u64 = args[2].parse().unwrap(); let out = &args[3];
    let thorough = tier == "thorough";
    let exe = std::env::current_exe().unwrap();
    let root = format!("{}.fs", out);
    let _ = std::fs::remove_dir_all(&root); std::fs::create_dir_all(&root).unwrap();
    let mut jobs: Vec<(String, usize)> = vec![];
    let depths: Vec<usize> = if thorough { (1..=140).collect() } else { vec![1, 2, 3, 15, 16, 31, 32, 33, 62, 63, 64, 65, 66, 67, 100, 140] };
    for &d in &depths { jobs.push(("include-chain".into(), d)); jobs.push(("macro-chain".into(), d)); if d <= 70 { jobs.push(("mixed-chain".into(), d)); } }
    for d in 1..=6 { jobs.push(("include-cycle".into(), d)); jobs.push(("macro-cycle".into(), d)); }
    jobs.push(("macro-include-cycle".into(), 1));
    for d in [1usize, 2, 3] { jobs.push(("named-include-cycle".into(), d)); }
    for d in [2usize, 3, 8, 30, 60] { jobs.push(("kmacro-include-cycle".into(), d)); }
    for (dd, m) in [(63usize, 3usize), (40, 26), (60, 10), (10, 60), (1, 63), (32, 33), (62, 64), (5, 5)] {
        for k in ["grid-text", "grid-name", "grid-body"] { jobs.push((k.into(), dd * 100 + m)); }
    }
    let mut rep = Report::new("schematic families run each in a child process with a 1 GiB stack: include chains / macro chains / alternating macro-include chains of depth d (all depths 1..140 in the thorough tier), include cycles and macro cycles of length 1..6, a macro that expands to an include of a file that uses the macro, cycles in which every link is an `include named through a macro (no file is ever opened), two-dimensional legal chains (dd include levels, then m nested macro usages ending in text / in the file name of an `include `MACRO / in an `include directive); expected: fully expanded text up to 64 levels, ExceedRecursiveLimit (wrapped in Include once per include level) beyond; non-trivial = every member; distinct by (family, depth)");
    let jobs = std::sync::Arc::new(jobs);
    let j2 = jobs.clone(); let exe2 = exe.clone(); let root2 = root.clone();
    let results = crate::util::par_map(jobs.len(), 16, move |i| {
        let (k, d) = &j2[i];
        let dir = format!("{}/{}-{}", root2, k, d);
        let o = Command::new(&exe2).args(["c09-child", k, &d.to_string(), &dir]).output();
        match o {
            Ok(o) => { if o.status.success() { String::from_utf8_lossy(&o.stdout).trim().to_string() } else { format!("died {:?}", o.status) } }
            Err(e) => format!("spawn-failed {}", e),
        }
    });
    for ((k, d), line) in jobs.iter().zip(results.into_iter()) {
        let (_, _, expected) = family(k, *d);
        let key = format!("{}-{}", k, d);
        rep.case(key.as_bytes(), true);
        rep.count(k);
        let got: Result<String, String> = if let Some(t) = line.strip_prefix("ok ") { Ok(t.to_string()) } else if let Some(e) = line.strip_prefix("err ") { Err(e.to_string()) } else { Err(format!("<{}>", line)) };
        if !matches(&expected, &got) {
            let show = |r: &Result<String, String>| match r { Ok(t) => format!("Ok({}…)", &t[..t.len().min(60)]), Err(e) => format!("Err({})", &e[..e.len().min(160)]) };
            rep.violation(&format!("{} depth {}: expected {} but got {}", k, d, show(&expected), show(&got)), &key, &line[..line.len().min(200)]);
        }
        if rep.samples.len() < 4 { rep.sample(format!("{} depth {} -> {}", k, d, &line[..line.len().min(100)])); }
    }
    rep.write(out);
    println!("ok");
}

//! Thin wrappers around the public API of sv-parser used by the oracles.
use std::collections::HashMap;
use std::path::PathBuf;
pub use sv_parser::{parse_lib, parse_lib_pp, parse_lib_str, parse_sv, parse_sv_pp, parse_sv_str, preprocess, preprocess_str,
    Define, DefineText, Defines, Error, Locate, NodeEvent, PreprocessedText, RefNode, SyntaxTree};

pub fn no_defines() -> Defines { HashMap::new() }
pub fn no_includes() -> Vec<PathBuf> { vec![] }

/// canonical rendering of an Error (variant + payload, nested)
pub fn err_str(e: &Error) -> String {
    match e {
        Error::Io(_) => "Io".into(),
        Error::File { path, .. } => format!("File({})", path.display()),
        Error::ReadUtf8(p) => format!("ReadUtf8({})", p.display()),
        Error::Include { source } => format!("Include[{}]", err_str(source)),
        Error::Parse(x) => format!("Parse({})", x.as_ref().map(|(p, o)| format!("{}:{}", p.display(), o)).unwrap_or("None".into())),
        Error::Preprocess(x) => format!("Preprocess({})", x.as_ref().map(|(p, o)| format!("{}:{}", p.display(), o)).unwrap_or("None".into())),
        Error::DefineArgNotFound(s) => format!("DefineArgNotFound({})", s),
        Error::DefineNotFound(s) => format!("DefineNotFound({})", s),
        Error::DefineNoArgs(s) => format!("DefineNoArgs({})", s),
        Error::ExceedRecursiveLimit => "ExceedRecursiveLimit".into(),
        Error::IncludeLine => "IncludeLine".into(),
    }
}

/// canonical rendering of a define table (sorted), optionally dropping SV_COV_* and origins
pub fn defines_str(d: &Defines, drop_cov: bool, with_origin: bool) -> String {
    let mut keys: Vec<&String> = d.keys().collect();
    keys.sort();
    let mut out = String::new();
    for k in keys {
        if drop_cov && k.starts_with("SV_COV_") { continue; }
        match &d[k] {
            None => out.push_str(&format!("{}=<none>;", k)),
            Some(def) => {
                out.push_str(&format!("{}[{}](", k, def.identifier));
                for (a, dflt) in &def.arguments { out.push_str(&format!("{}={:?},", a, dflt)); }
                out.push(')');
                match &def.text {
                    None => out.push_str("=<notext>"),
                    Some(t) => {
                        out.push_str(&format!("={:?}", t.text));
                        if with_origin { out.push_str(&format!("@{:?}", t.origin.as_ref().map(|(p, r)| (p.display().to_string(), r.begin, r.end)))); }
                    }
                }
                out.push(';');
            }
        }
    }
    out
}

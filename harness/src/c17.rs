//! C17 oracle: acceptance and tree do not depend on the capacity of the packrat memo table.
use crate::{corpus, gen, parsers, report::Report, skel::Kinds, util::{self, Rng}};

pub fn main(args: &[String]) {
    let workdir = args[0].clone(); let tier = &args[1]; let seed: u64 = args[2].parse().unwrap(); let out = &args[3];
    let thorough = tier == "thorough";
    let corp = corpus::load(&workdir);
    let mut rng = Rng::new(seed ^ 0xc17);
    let mut cases: Vec<(String, String, String)> = vec![];   // (kind, text, tag)
    for it in &corp { cases.push((if it.kind == "lib" { "lib" } else { "sv" }.into(), it.text.clone(), "corpus".into())); }
    let n = if thorough { 8000 } else { 700 };
    for i in 0..n {
        let b = rng.pick(&corp); let lib = b.kind == "lib";
        let atoms = if lib { gen::LIB_ATOMS } else { gen::SV_ATOMS };
        let t = match i % 4 { 0 => gen::mutate(&b.text, &mut rng, atoms), 1 => gen::soup(&mut rng, atoms, 14), 2 => { let b2 = rng.pick(&corp); format!("{}\n{}", b.text, b2.text) }
            _ => { // a keyword-version region in the middle of a long module: the known class `directive-in-reparsed-region`
                let k = rng.range(1, 90); let mut s = String::from("module m(a);  `begin_keywords \"1364-2001\"\n"); for j in 0..k { s.push_str(&format!("  wire w{};\n", j)); }
                s.push_str("  input a;\n  reg logic;\nendmodule\n`end_keywords\nmodule n; reg logic; endmodule\n"); s } };
        cases.push((if lib { "lib" } else { "sv" }.into(), t, ["mutated", "soup", "concat", "kw-region"][i % 4].into()));
    }
    // accepted corpus programs re-laid-out with directive-rich trivia (many extra memo entries per token): the stream on which the
    // known class `eviction-dependent-result` (left-recursive productions re-evaluated after an eviction) shows up
    {
        use crate::{api::*, toks};
        let svc: Vec<_> = corp.iter().filter(|x| x.kind == "sv" && !x.text.contains('`')).collect();
        let m = if thorough { svc.len() * 3 } else { 150 };
        for i in 0..m {
            let it = if thorough { svc[i % svc.len()] } else { *rng.pick(&svc) };
            match preprocess_str(&it.text, std::path::PathBuf::from("t.sv"), &no_defines(), &no_includes(), false, false, 0, 0) { Ok((p, _)) if p.text() == it.text => {}, _ => continue }
            let tree = match crate::c12::parse(&it.text) { Ok((t, _)) => t, Err(_) => continue };
            let tk = toks::tokens(&tree);
            if tk.len() < 3 { continue; }
            let t = crate::c12::relayout(&it.text, &tk, &mut rng, None, false);
            // only layouts the preprocessor leaves alone: the parser is then given exactly this text
            match preprocess_str(&t, std::path::PathBuf::from("t.sv"), &no_defines(), &no_includes(), false, false, 0, 0) { Ok((p, _)) if p.text() == t => {}, _ => continue }
            cases.push(("sv".into(), t, "relayout".into()));
        }
    }
    let cases = std::sync::Arc::new(cases);
    let c2 = cases.clone(); let w2 = workdir.clone();
    let results = util::par_map(cases.len(), util::env_usize("SVH_THREADS", 16), move |i| {
        let (kind, text, _) = &c2[i];
        let kinds = Kinds::load(&w2);
        let mut caps: Vec<Option<usize>> = vec![Some(128), Some(1024), Some(4096), None];
        if text.len() <= 40 { caps.extend([Some(1), Some(2), Some(16)]); }
        else { caps.extend([Some(512), Some(1500)]); }   // tiny capacities make the real parser exponential on longer inputs
        let mut lines = vec![];
        for c in &caps {
            let (k, t) = (kind.clone(), text.clone()); let cc = *c; let kk = Kinds { id: kinds.id.clone(), names: kinds.names.clone() };
            let r = std::panic::catch_unwind(std::panic::AssertUnwindSafe(|| parsers::run(&k, Some(cc), &t, &kk, false).line()));
            lines.push((cc, match r { Ok(l) => l, Err(e) => format!("panic {}", util::panic_msg(e)) }));
        }
        lines
    });
    let mut rep = Report::new("every corpus program + mutated / soup / concatenated programs + long modules with a `begin_keywords region, parsed at memo capacities 128, 1024, 4096, unbounded (and 1, 2, 16 for inputs <= 40 bytes); acceptance, end position, error position and full tree skeleton must agree; non-trivial = accepted at capacity 1024; distinct by (grammar, text)");
    let mut capdep_cases: Vec<String> = vec![]; let mut capdep_impl: Vec<String> = vec![];
    for ((kind, text, tag), lines) in cases.iter().zip(results.into_iter()) {
        let key = format!("{}{}", kind, text);
        let base = lines.iter().find(|l| l.0 == Some(1024)).map(|l| l.1.clone()).unwrap_or_default();
        rep.case(key.as_bytes(), base.starts_with("ok"));
        rep.count(&format!("tag:{}", tag));
        rep.add("parses", lines.len());
        for (c, l) in &lines {
            if *l != base {
                // error positions may legitimately differ? no: the property fixes acceptance and tree; compare those only
                let a = l.split(' ').take(5).collect::<Vec<_>>().join(" "); let b = base.split(' ').take(5).collect::<Vec<_>>().join(" ");
                let (ka, kb) = (l.starts_with("ok"), base.starts_with("ok"));
                if ka != kb || (ka && a != b) {
                    let what = format!("capacity {:?} gives `{}` but capacity 1024 gives `{}`", c, &l[..l.len().min(60)], &base[..base.len().min(60)]);
                    if text.contains("`begin_keywords") || text.contains("`end_keywords") { rep.known("directive-in-reparsed-region", &what, text, ""); }
                    else {
                        // candidate for the known class `eviction-dependent-result`: excused only if the executable model, whose memo mechanism is fixed
                        // (key = production x position x in-directive flag; recursion flags and the version stack are not part of the key), reproduces the
                        // outcome at EVERY capacity — the driver runs the model on these lines and any difference is a violation
                        if std::env::var("SVH_MEMO_INVENTORY_CHANGED").is_ok() { rep.violation(&format!("{} (the set of memoised / left-recursive productions differs from the pinned inventory, so this is not the known finding)", what), text, ""); }
                        else { rep.known("eviction-dependent-result", &what, text, ""); }
                        for (c2, l2) in &lines {
                            capdep_cases.push(format!("parse {} {} {}", kind, match c2 { Some(n) => n.to_string(), None => "none".into() }, util::hex(text.as_bytes())));
                            capdep_impl.push(l2.split(' ').take(7).collect::<Vec<_>>().join(" "));
                        }
                    }
                    break;
                }
            }
        }
        if base.starts_with("ok") && text.len() < 100 { rep.sample(text.clone()); }
    }
    std::fs::write(format!("{}.capdep.cases", out), capdep_cases.join("\n") + if capdep_cases.is_empty() { "" } else { "\n" }).unwrap();
    std::fs::write(format!("{}.capdep.impl", out), capdep_impl.join("\n") + if capdep_impl.is_empty() { "" } else { "\n" }).unwrap();
    rep.write(out);
    println!("ok");
}

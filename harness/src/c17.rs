//! C17 oracle: acceptance and tree do not depend on the capacity of the packrat memo table.
use crate::{corpus, gen, parsers, report::Report, skel::Kinds, util::{self, Rng}};

pub fn main(args: &[String]) {
    let workdir = args[0].clone(); let tier = &args[1]; let seed: u64 = args[2].parse().unwrap(); let out = &args[3];
    let thorough = tier == "thorough";
    let corp = corpus::load(&workdir);
    let mut rng = Rng::new(seed ^ 0xc17);
    let mut cases: Vec<(String, String, String)> = vec![];   // (kind, text, tag)
    for it in &corp { cases.push((if it.kind == "lib" { "lib" } else { "sv" }.into(), it.text.clone(), "corpus".into())); }
    let n = if thorough { 8000 } else { 700 };
    for i in 0..n {
        let b = rng.pick(&corp); let lib = b.kind == "lib";
        let atoms = if lib { gen::LIB_ATOMS } else { gen::SV_ATOMS };
        let t = match i % 4 { 0 => gen::mutate(&b.text, &mut rng, atoms), 1 => gen::soup(&mut rng, atoms, 14), 2 => { let b2 = rng.pick(&corp); format!("{}\n{}", b.text, b2.text) }
            _ => { // a keyword-version region in the middle of a long module: the known class `directive-in-reparsed-region`
                let k = rng.range(1, 90); let mut s = String::from("module m(a);  `begin_keywords \"1364-2001\"\n"); for j in 0..k { s.push_str(&format!("  wire w{};\n", j)); }
                s.push_str("  input a;\n  reg logic;\nendmodule\n`end_keywords\nmodule n; reg logic; endmodule\n"); s } };
        cases.push((if lib { "lib" } else { "sv" }.into(), t, ["mutated", "soup", "concat", "kw-region"][i % 4].into()));
    }
    let cases = std::sync::Arc::new(cases);
    let c2 = cases.clone(); let w2 = workdir.clone();
    let results = util::par_map(cases.len(), util::env_usize("SVH_THREADS", 16), move |i| {
        let (kind, text, _) = &c2[i];
        let kinds = Kinds::load(&w2);
        let mut caps: Vec<Option<usize>> = vec![Some(128), Some(1024), Some(4096), None];
        if text.len() <= 40 { caps.extend([Some(1), Some(2), Some(16)]); }
        let mut lines = vec![];
        for c in &caps {
            let (k, t) = (kind.clone(), text.clone()); let cc = *c; let kk = Kinds { id: kinds.id.clone(), names: kinds.names.clone() };
            let r = std::panic::catch_unwind(std::panic::AssertUnwindSafe(|| parsers::run(&k, Some(cc), &t, &kk, false).line()));
            lines.push((cc, match r { Ok(l) => l, Err(e) => format!("panic {}", util::panic_msg(e)) }));
        }
        lines
    });
    let mut rep = Report::new("every corpus program + mutated / soup / concatenated programs + long modules with a `begin_keywords region, parsed at memo capacities 128, 1024, 4096, unbounded (and 1, 2, 16 for inputs <= 40 bytes); acceptance, end position, error position and full tree skeleton must agree; non-trivial = accepted at capacity 1024; distinct by (grammar, text)");
    for ((kind, text, tag), lines) in cases.iter().zip(results.into_iter()) {
        let key = format!("{}{}", kind, text);
        let base = lines.iter().find(|l| l.0 == Some(1024)).map(|l| l.1.clone()).unwrap_or_default();
        rep.case(key.as_bytes(), base.starts_with("ok"));
        rep.count(&format!("tag:{}", tag));
        rep.add("parses", lines.len());
        for (c, l) in &lines {
            if *l != base {
                // error positions may legitimately differ? no: the property fixes acceptance and tree; compare those only
                let a = l.split(' ').take(5).collect::<Vec<_>>().join(" "); let b = base.split(' ').take(5).collect::<Vec<_>>().join(" ");
                let (ka, kb) = (l.starts_with("ok"), base.starts_with("ok"));
                if ka != kb || (ka && a != b) {
                    let what = format!("capacity {:?} gives `{}` but capacity 1024 gives `{}`", c, &l[..l.len().min(60)], &base[..base.len().min(60)]);
                    if text.contains("`begin_keywords") || text.contains("`end_keywords") { rep.known("directive-in-reparsed-region", &what, text, ""); } else { rep.violation(&what, text, ""); }
                    break;
                }
            }
        }
        if base.starts_with("ok") && text.len() < 100 { rep.sample(text.clone()); }
    }
    rep.write(out);
    println!("ok");
}

//! Correspondence of the preprocessor walker model (Core/Pp.lean) with preprocess / preprocess_str:
//! output text, origin of every output byte (run-length encoded), define table, error variant + payload.
use crate::{api::*, corpus, gen, gen_pp, util::{self, hex, Rng}};
use std::collections::HashMap;
use std::io::Write;
use std::path::PathBuf;

pub fn mk_defines(d: &[(String, Option<(Vec<(String, Option<String>)>, Option<String>)>)]) -> Defines {
    let mut m: Defines = HashMap::new();
    for (k, v) in d {
        m.insert(k.clone(), v.as_ref().map(|(args, text)| Define::new(k.clone(), args.clone(), text.as_ref().map(|t| DefineText::new(t.clone(), None)))));
    }
    m
}

pub fn enc_defines(d: &[(String, Option<(Vec<(String, Option<String>)>, Option<String>)>)]) -> String {
    if d.is_empty() { return "-".into(); }
    d.iter().map(|(k, v)| match v {
        None => format!("{}:N", hex(k.as_bytes())),
        Some((args, text)) => format!("{}:D:{}:{}", hex(k.as_bytes()),
            if args.is_empty() { "-".to_string() } else { args.iter().map(|(a, dd)| match dd { Some(x) => format!("{}~{}", hex(a.as_bytes()), hex(x.as_bytes())), None => hex(a.as_bytes()) }).collect::<Vec<_>>().join(",") },
            match text { Some(t) => format!("x{}", hex(t.as_bytes())), None => "-".into() }),
    }).collect::<Vec<_>>().join(";")
}

pub fn enc_fs(files: &[(String, Option<String>)]) -> String {
    if files.is_empty() { return "-".into(); }
    files.iter().map(|(p, c)| match c { Some(c) => format!("{}=x{}", hex(p.as_bytes()), hex(c.as_bytes())), None => format!("{}=!", hex(p.as_bytes())) }).collect::<Vec<_>>().join(";")
}

pub fn hexerr(e: &Error) -> String {
    let hp = |p: &PathBuf| hex(p.to_string_lossy().as_bytes());
    match e {
        Error::Io(_) => "Io".into(),
        Error::File { path, .. } => format!("File({})", hp(path)),
        Error::ReadUtf8(p) => format!("ReadUtf8({})", hp(p)),
        Error::Include { source } => format!("Include[{}]", hexerr(source)),
        Error::Parse(_) => "Parse".into(),
        Error::Preprocess(None) => "Preprocess(None)".into(),
        Error::Preprocess(Some((p, o))) => format!("Preprocess({}:{})", hp(p), o),
        Error::DefineArgNotFound(s) => format!("DefineArgNotFound({})", hex(s.as_bytes())),
        Error::DefineNotFound(s) => format!("DefineNotFound({})", hex(s.as_bytes())),
        Error::DefineNoArgs(s) => format!("DefineNoArgs({})", hex(s.as_bytes())),
        Error::ExceedRecursiveLimit => "ExceedRecursiveLimit".into(),
        Error::IncludeLine => "IncludeLine".into(),
    }
}

pub fn origins_str(t: &PreprocessedText) -> String {
    let n = t.text().len();
    let mut out: Vec<String> = vec![];
    let mut cur: Option<Option<(String, usize)>> = None; let mut start = 0usize; let mut len = 0usize;
    let flush = |out: &mut Vec<String>, cur: &Option<Option<(String, usize)>>, start: usize, len: usize| {
        if let Some(c) = cur { out.push(match c { None => format!("{}+{}:-", start, len), Some((p, s0)) => format!("{}+{}:{}@{}", start, len, hex(p.as_bytes()), s0) }); }
    };
    for pos in 0..n {
        let og = t.origin(pos).map(|(p, o)| (p.to_string_lossy().to_string(), o));
        let cont = match (&cur, &og) { (Some(None), None) => true, (Some(Some((p, s0))), Some((p2, s2))) => p == p2 && *s2 == s0 + len, _ => false };
        if cont { len += 1; } else { flush(&mut out, &cur, start, len); start = pos; cur = Some(og); len = 1; }
    }
    flush(&mut out, &cur, start, len);
    out.join(",")
}

pub fn defines_hex(d: &Defines) -> String {
    let mut items: Vec<String> = d.iter().map(|(k, v)| match v {
        None => format!("{}=N", hex(k.as_bytes())),
        Some(df) => {
            let args = df.arguments.iter().map(|(a, dd)| match dd { Some(x) => format!("{}~{}", hex(a.as_bytes()), hex(x.as_bytes())), None => hex(a.as_bytes()) }).collect::<Vec<_>>().join(",");
            let t = match &df.text { None => "-".to_string(), Some(dt) => format!("x{}/{}", hex(dt.text.as_bytes()), match &dt.origin { None => "-".to_string(), Some((p, r)) => format!("{}@{}-{}", hex(p.to_string_lossy().as_bytes()), r.begin, r.end) }) };
            format!("{}=D[{}]({}){}", hex(k.as_bytes()), hex(df.identifier.as_bytes()), args, t)
        }
    }).collect();
    items.sort();
    items.join(";")
}

pub fn result_line(r: &Result<(PreprocessedText, Defines), Error>) -> String {
    match r {
        Err(e) => format!("err {}", hexerr(e)),
        Ok((t, d)) => format!("ok {} [{}] [{}]", if t.text().is_empty() { "-".to_string() } else { hex(t.text().as_bytes()) }, origins_str(t), defines_hex(d)),
    }
}

/// write the case's files below `root`
pub fn materialise(root: &str, case: &gen_pp::Case) {
    for (p, c) in &case.files {
        let full = PathBuf::from(root).join(p);
        std::fs::create_dir_all(full.parent().unwrap()).unwrap();
        match c { Some(s) => std::fs::write(&full, s).unwrap(), None => std::fs::write(&full, [0x66u8, 0xff, 0xfe, 0x0a]).unwrap() }
    }
}

pub fn run_file(case: &gen_pp::Case) -> Result<(PreprocessedText, Defines), Error> {
    let d = mk_defines(&case.defines);
    let inc: Vec<PathBuf> = case.incpaths.iter().map(PathBuf::from).collect();
    preprocess(PathBuf::from(&case.top), &d, &inc, case.strip, case.ignore)
}

pub fn main(args: &[String]) {
    // ppcmp <workdir> <seed> <n> <outprefix>   (cwd becomes <outprefix>.fs)
    let workdir = &args[0]; let seed: u64 = args[1].parse().unwrap(); let n: usize = args[2].parse().unwrap(); let out = &args[3];
    let root = format!("{}.fs", out);
    let _ = std::fs::remove_dir_all(&root);
    std::fs::create_dir_all(&root).unwrap();
    let mut rng = Rng::new(seed ^ 0x99);
    let mut reqs: Vec<(String, Box<dyn Fn() -> String + Send + Sync>, String)> = vec![];
    // (a) generated cases through preprocess(path)
    for i in 0..n {
        let case = gen_pp::gen_case(&mut rng, i, i % 3 == 2);
        materialise(&root, &case);
        let req = format!("ppfile {} {} {} {} {} {}", case.strip as u8, case.ignore as u8, hex(case.top.as_bytes()), enc_defines(&case.defines),
            if case.incpaths.is_empty() { "-".to_string() } else { case.incpaths.iter().map(|p| hex(p.as_bytes())).collect::<Vec<_>>().join(",") }, enc_fs(&case.files));
        let tag = format!("gen:{}", case.flags.join("+"));
        let c2 = case.clone();
        reqs.push((req, Box::new(move || result_line(&run_file(&c2))), tag));
    }
    // (a') the schematic recursion families of the C09 oracle (chains around the limit, cycles, macro/include mixtures): the model must
    //      report the same error with the same Include nesting
    {
        let mut fam: Vec<(&str, usize)> = vec![("macro-include-cycle", 1)];
        for d in [1usize, 2, 3, 8] { fam.push(("kmacro-include-cycle", d)); }
        for d in [1usize, 2, 5] { fam.push(("include-cycle", d)); fam.push(("macro-cycle", d)); }
        for d in [3usize, 63, 64, 65] { fam.push(("include-chain", d)); fam.push(("macro-chain", d)); fam.push(("mixed-chain", d)); }
        for (dd, m) in [(63usize, 3usize), (40, 26), (10, 60), (5, 5)] { fam.push(("grid-text", dd * 100 + m)); fam.push(("grid-name", dd * 100 + m)); fam.push(("grid-body", dd * 100 + m)); }
        for (fi, (kind, d)) in fam.into_iter().enumerate() {
            let (files, top, _) = crate::c09::family(kind, d);
            let dir = format!("fam{}", fi);
            let case = gen_pp::Case { dir: dir.clone(), files: files.iter().map(|(p, c)| (format!("{}/{}", dir, p), Some(c.clone()))).collect(), top: format!("{}/{}", dir, top),
                incpaths: vec![dir.clone()], defines: vec![], strip: false, ignore: false, flags: vec!["recursion-family"] };
            materialise(&root, &case);
            let req = format!("ppfile 0 0 {} {} {} {}", hex(case.top.as_bytes()), enc_defines(&case.defines), hex(dir.as_bytes()), enc_fs(&case.files));
            let c2 = case.clone();
            reqs.push((req, Box::new(move || result_line(&run_file(&c2))), format!("family:{}-{}", kind, d)));
        }
    }
    // (a'') the include-line family of the C10 oracle (what may share a line with an `include): same verdict and same output in model and implementation
    {
        let dir = "linefam";
        for (name, top, _) in crate::ppo::include_line_cases() {
            let case = gen_pp::Case { dir: dir.into(), files: vec![(format!("{}/{}.sv", dir, name), Some(top)), (format!("{}/f.svh", dir), Some("inc_tok\n".into()))], top: format!("{}/{}.sv", dir, name),
                incpaths: vec![dir.into()], defines: vec![("A".into(), None)], strip: false, ignore: false, flags: vec!["include-line-family"] };
            materialise(&root, &case);
            let req = format!("ppfile 0 0 {} {} {} {}", hex(case.top.as_bytes()), enc_defines(&case.defines), hex(dir.as_bytes()), enc_fs(&case.files));
            let c2 = case.clone();
            reqs.push((req, Box::new(move || result_line(&run_file(&c2))), format!("family:include-line-{}", name)));
        }
    }
    // (b) the in-tree preprocessor testcases and some soups through preprocess_str (no includes resolvable: path prefix differs)
    let pps = corpus::pp_testcases();
    let mut texts: Vec<(String, String)> = pps.iter().filter(|x| !x.text.contains("`include")).map(|x| (x.text.clone(), format!("testcase:{}", x.name))).collect();
    for i in 0..n / 2 { let t = if i % 2 == 0 { gen::soup(&mut rng, gen::PP_ATOMS, 18) } else { let b = rng.pick(&pps).text.clone(); gen::mutate(&b, &mut rng, gen::PP_ATOMS) }; if !t.contains("`include") { texts.push((t, "soup".into())); } }
    for (t, tag) in texts {
        let strip = rng.chance(1, 3);
        let defs: Vec<(String, Option<(Vec<(String, Option<String>)>, Option<String>)>)> = if rng.chance(1, 3) { vec![("A".into(), None), ("B".into(), Some((vec![], Some("2".into()))))] } else { vec![] };
        let req = format!("pp {} 0 {} {} {} - -", strip as u8, hex(b"t.sv"), if t.is_empty() { "-".to_string() } else { hex(t.as_bytes()) }, enc_defines(&defs));
        let t2 = t.clone();
        reqs.push((req, Box::new(move || { let d = mk_defines(&defs); let inc: Vec<PathBuf> = vec![]; result_line(&preprocess_str(&t2, PathBuf::from("t.sv"), &d, &inc, false, strip, 0, 0)) }), tag));
    }
    std::env::set_current_dir(&root).unwrap();
    let reqs = std::sync::Arc::new(reqs);
    let r2 = reqs.clone();
    let lines = util::par_map(reqs.len(), util::env_usize("SVH_THREADS", 16), move |i| {
        match util::guarded(512, { let r3 = r2.clone(); move || (r3[i].1)() }) { Ok(l) => l, Err(e) => format!("panic {}", e.replace('\n', " ")) }
    });
    let _ = workdir;
    let mut fc = std::fs::File::create(format!("{}.cases", out)).unwrap();
    let mut fi = std::fs::File::create(format!("{}.impl", out)).unwrap();
    let mut ft = std::fs::File::create(format!("{}.tags", out)).unwrap();
    for ((req, _, tag), l) in reqs.iter().zip(lines.iter()) {
        writeln!(fc, "{}", req).unwrap(); writeln!(fi, "{}", l).unwrap(); writeln!(ft, "{}", tag).unwrap();
    }
    println!("{{\"cases\": {}}}", reqs.len());
}

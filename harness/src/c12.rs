//! C12 oracle: replacing the whitespace between two tokens by any other non-empty trivia run changes neither
//! acceptance nor the tree (whitespace nodes disregarded).
use crate::{api::*, corpus, report::Report, toks, util::{self, Rng}};
use std::path::PathBuf;

pub fn parse(text: &str) -> Result<(SyntaxTree, Defines), Error> {
    let d = no_defines(); let i = no_includes();
    parse_sv_str(text, PathBuf::from("t.sv"), &d, &i, false, false)
}

const TRIVIA: &[&str] = &[" ", "  ", "\t", "\n", "\r\n", " \n ", "\x0c", " \x0c ", "/* c */", " /* a\n b */ ", "/** d **/", "/****/", "/***/", " /* * / */ ", " // c\n", "//\n",
    "\n`celldefine\n", "\n`endcelldefine\n", "\n`default_nettype wire\n", "\n`timescale 1ns/1ps\n", "\n`unconnected_drive pull0\n", "\n`nounconnected_drive\n",
    "\n`line 7 \"f.v\" 0\n", "\n`define ZZ 1\n", "\n`undef ZZ\n"];

/// run `f` on this thread with an unbounded packrat table, then restore the compile-time capacity
fn with_unbounded_memo<T>(f: impl FnOnce() -> T) -> T {
    sv_parser_parser::utils::verif::set_memo_capacity(None);
    let r = f();
    sv_parser_parser::utils::verif::set_memo_capacity(Some(1024));
    r
}

/// rebuild the text from tokens, choosing a trivia run for every gap that had whitespace (or, with `all`, for every gap)
pub fn relayout(src: &str, tk: &[toks::Tok], rng: &mut Rng, drop_tok: Option<usize>, plain: bool) -> String {
    let mut out = String::new();
    let mut prev_end = 0usize;
    for (i, t) in tk.iter().enumerate() {
        let gap = &src[prev_end..t.off];
        if i == 0 { out.push_str(gap); }
        else if t.in_directive && tk[i - 1].in_directive { out.push_str(gap); }      // inside a directive: untouched
        else if gap.is_empty() { /* tokens were adjacent: stay adjacent */ }
        else if plain { out.push(' '); }
        else {
            let mut run = String::new();
            // an escaped identifier ends only at a blank: keep one first
            if tk[i - 1].escaped { run.push(' '); }
            // a token ending in '/' directly followed by a comment would lex differently ('/' + '//' = '//' + '/')
            if src[..tk[i - 1].off + tk[i - 1].len].ends_with('/') { run.push(' '); }
            for _ in 0..rng.range(1, 2) { run.push_str(rng.pick_str(TRIVIA)); }
            // a directive must stand on its own logical line end; ensure what follows a line comment / directive starts on a new line
            out.push_str(&run);
        }
        if Some(i) != drop_tok { out.push_str(&src[t.off..t.off + t.len]); }
        prev_end = t.off + t.len;
    }
    out.push_str(&src[prev_end..]);
    out
}

pub fn main(args: &[String]) {
    let workdir = &args[0]; let tier = &args[1]; let seed: u64 = args[2].parse().unwrap(); let out = &args[3];
    let thorough = tier == "thorough";
    let corp: Vec<_> = corpus::load(workdir).into_iter().filter(|x| x.kind == "sv" && !x.text.contains("`define") && !x.text.contains("`include") && !x.text.contains("`ifdef") && !x.text.contains("`ifndef")).collect();
    let mut rng = Rng::new(seed ^ 0xc12);
    let nprog = if thorough { corp.len() } else { 500 };
    let per = if thorough { 12 } else { 4 };
    let mut jobs: Vec<(String, Vec<toks::Tok>, u64, Option<usize>)> = vec![];
    for p in 0..nprog {
        let it = if thorough { &corp[p] } else { rng.pick(&corp) };
        { let d = no_defines(); let i = no_includes(); match preprocess_str(&it.text, PathBuf::from("t.sv"), &d, &i, false, false, 0, 0) { Ok((t, _)) if t.text() == it.text => {}, _ => continue } }
        let tree = match parse(&it.text) { Ok((t, _)) => t, Err(_) => continue };
        let tk = toks::tokens(&tree);
        if tk.len() < 3 { continue; }
        for k in 0..per {
            let drop = if k % 2 == 1 { Some(rng.below(tk.len())) } else { None };   // a (probably) rejected program with the same token boundaries
            jobs.push((it.text.clone(), tk.clone(), rng.next(), drop));
        }
    }
    let jobs = std::sync::Arc::new(jobs);
    let j2 = jobs.clone();
    let results = util::par_map(jobs.len(), util::env_usize("SVH_THREADS", 16), move |i| {
        let (src, tk, s, drop) = &j2[i];
        let r = std::panic::catch_unwind(std::panic::AssertUnwindSafe(|| -> Result<(bool, String), String> {
            let mut rng = Rng::new(*s);
            let a = relayout(src, tk, &mut rng, *drop, true);
            let b = relayout(src, tk, &mut rng, *drop, false);
            let ra = parse(&a); let rb = parse(&b);
            match (&ra, &rb) {
                (Ok((ta, _)), Ok((tb, _))) => {
                    let pa = match preprocess_str(&a, PathBuf::from("t.sv"), &no_defines(), &no_includes(), false, false, 0, 0) { Ok((t, _)) => t.text().to_string(), Err(_) => a.clone() };
                    let pb = match preprocess_str(&b, PathBuf::from("t.sv"), &no_defines(), &no_includes(), false, false, 0, 0) { Ok((t, _)) => t.text().to_string(), Err(_) => b.clone() };
                    if toks::shape(ta, &pa) != toks::shape(tb, &pb) {
                        // known finding `eviction-dependent-result` (D16): do the two layouts agree when nothing is evicted from the memo table?
                        let agree_unbounded = with_unbounded_memo(|| match (parse(&a), parse(&b)) { (Ok((ua, _)), Ok((ub, _))) => toks::shape(&ua, &pa) == toks::shape(&ub, &pb), _ => false });
                        Err(format!("both layouts are accepted but the trees differ (whitespace nodes disregarded){}", if agree_unbounded { " [the trees agree with an unbounded memo table]" } else { "" }))
                    } else { Ok((true, b.clone())) }
                }
                (Err(Error::Parse(_)), Err(Error::Parse(_))) => Ok((false, b.clone())),
                (Ok(_), Err(e)) => { let agree = with_unbounded_memo(|| parse(&a).is_ok() == parse(&b).is_ok());
                    Err(format!("accepted with single blanks but rejected after re-layout: {}{}", err_str(e), if agree { " [acceptance agrees with an unbounded memo table]" } else { "" })) }
                (Err(e), Ok(_)) => { let agree = with_unbounded_memo(|| parse(&a).is_ok() == parse(&b).is_ok());
                    Err(format!("rejected with single blanks ({}) but accepted after re-layout{}", err_str(e), if agree { " [acceptance agrees with an unbounded memo table]" } else { "" })) }
                (Err(e1), Err(e2)) => { if std::mem::discriminant(e1) == std::mem::discriminant(e2) { Ok((false, b.clone())) } else { Err(format!("different errors: {} vs {}", err_str(e1), err_str(e2))) } }
            }.map_err(|m| format!("{}\n--- layout A:\n{}\n--- layout B:\n{}", m, a, b))
        }));
        match r { Ok(x) => x, Err(e) => Err(format!("panic: {}", util::panic_msg(e))) }
    });
    let mut rep = Report::new("accepted corpus programs (and the same programs with one token deleted, i.e. mostly rejected ones) re-laid-out twice from their token list: once with single blanks, once with random non-empty trivia runs (blank, tab, form feed, LF, CRLF, both comment kinds, `celldefine, `default_nettype, `timescale, `unconnected_drive, `line, `define, `undef, `pragma) in every gap that had whitespace, gaps inside compiler directives untouched, a blank kept after escaped identifiers; acceptance and whitespace-free tree must agree; non-trivial = both accepted; distinct by layout B; plus pairs of accepted programs with `resetall between them, on its own line and with random trivia (comments, neutral directives) around it");
    for ((src, _, _, drop), r) in jobs.iter().zip(results.into_iter()) {
        match r {
            Ok((acc, b)) => { rep.case(b.as_bytes(), acc); rep.count(if acc { "both-accepted" } else { "both-rejected" }); rep.count(if drop.is_some() { "token-deleted" } else { "intact" });
                if acc && b.len() < 200 && rep.samples.len() < 3 { rep.sample(b); } }
            Err(m) => {
                rep.case(src.as_bytes(), true);
                let (what, detail) = match m.split_once("\n--- layout A:") { Some((w, d)) => (w.to_string(), d.to_string()), None => (m.clone(), String::new()) };
                if what.contains("with an unbounded memo table]") && std::env::var("SVH_MEMO_INVENTORY_CHANGED").is_err() { rep.known("eviction-dependent-result", &what, &detail, ""); } else { rep.violation(&what, &detail, ""); }
            }
        }
    }
    // `resetall between top-level descriptions: two accepted programs A, B; A <trivia> `resetall <trivia> B must be accepted whenever
    // A <newline> B is, and the tree (whitespace disregarded) must not depend on the trivia around the directive
    {
        let whole: Vec<&corpus::Item> = corp.iter().filter(|x| x.text.len() < 600 && !x.text.contains('`')).collect();
        let npairs = if thorough { 1500 } else { 300 };
        let mut rj: Vec<(String, String, String)> = vec![];
        for _ in 0..npairs {
            if whole.len() < 2 { break; }
            let a = rng.pick(&whole).text.clone(); let b = rng.pick(&whole).text.clone();
            let base = format!("{}\n{}", a.trim_end(), b);
            if parse(&base).is_err() { continue; }
            let plain = format!("{}\n`resetall\n{}", a.trim_end(), b);
            let mut t1 = String::new(); for _ in 0..rng.range(1, 2) { t1.push_str(rng.pick_str(TRIVIA)); }
            let mut t2 = String::new(); for _ in 0..rng.range(1, 2) { t2.push_str(rng.pick_str(TRIVIA)); }
            if a.trim_end().ends_with('/') { t1.insert(0, ' '); }
            let fancy = format!("{}{}`resetall{}{}", a.trim_end(), t1, t2, b);
            rj.push((base, plain, fancy));
        }
        let rj = std::sync::Arc::new(rj); let rj2 = rj.clone();
        let res = util::par_map(rj.len(), util::env_usize("SVH_THREADS", 16), move |i| {
            let (_base, plain, fancy) = &rj2[i];
            let r = std::panic::catch_unwind(std::panic::AssertUnwindSafe(|| -> Result<(), String> {
                let pp = |t: &str| match preprocess_str(t, PathBuf::from("t.sv"), &no_defines(), &no_includes(), false, false, 0, 0) { Ok((x, _)) => x.text().to_string(), Err(_) => t.to_string() };
                match (parse(plain), parse(fancy)) {
                    (Ok((tp, _)), Ok((tf, _))) => { if toks::shape(&tp, &pp(plain)) != toks::shape(&tf, &pp(fancy)) {
                        let agree = with_unbounded_memo(|| match (parse(plain), parse(fancy)) { (Ok((ua, _)), Ok((ub, _))) => toks::shape(&ua, &pp(plain)) == toks::shape(&ub, &pp(fancy)), _ => false });
                        Err(format!("`resetall between two descriptions: the tree depends on the trivia around the directive{}", if agree { " [the trees agree with an unbounded memo table]" } else { "" })) } else { Ok(()) } }
                    (Err(e), _) => Err(format!("two accepted descriptions are rejected once `resetall stands between them on its own line: {}", err_str(&e))),
                    (Ok(_), Err(e)) => { let agree = with_unbounded_memo(|| parse(fancy).is_ok());
                        Err(format!("`resetall between two descriptions is accepted on its own line but rejected with other trivia around it: {}{}", err_str(&e), if agree { " [acceptance agrees with an unbounded memo table]" } else { "" })) }
                }
            }));
            match r { Ok(x) => x, Err(e) => Err(format!("panic: {}", util::panic_msg(e))) }
        });
        for ((_, plain, fancy), r) in rj.iter().zip(res.into_iter()) {
            rep.case(fancy.as_bytes(), true); rep.count("resetall-between-descriptions");
            if let Err(m) = r {
                let detail = format!("--- `resetall on its own line:\n{}\n--- with trivia:\n{}", plain, fancy);
                if m.contains("with an unbounded memo table]") && std::env::var("SVH_MEMO_INVENTORY_CHANGED").is_err() { rep.known("eviction-dependent-result", &m, &detail, ""); } else { rep.violation(&m, &detail, ""); }
            }
        }
    }
    rep.write(out);
    println!("ok");
}

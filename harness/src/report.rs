//! Oracle report: counts, samples, violations, known findings -> JSON on stdout / file.
use crate::util::{jstr, hash_bytes};
use std::collections::{BTreeMap, HashSet};

#[derive(Clone, Debug)]
pub struct Violation { pub what: String, pub input: String, pub detail: String, pub class: String }

#[derive(Default)]
pub struct Report {
    pub evaluations: usize,
    pub nontrivial: HashSet<u64>,
    pub samples: Vec<String>,
    pub violations: Vec<Violation>,
    pub known: Vec<Violation>,
    pub dist: BTreeMap<String, usize>,
    pub rule: String,
    pub notes: Vec<String>,
}

impl Report {
    pub fn new(rule: &str) -> Self { Report { rule: rule.to_string(), ..Default::default() } }
    pub fn count(&mut self, key: &str) { *self.dist.entry(key.to_string()).or_insert(0) += 1; }
    pub fn add(&mut self, key: &str, n: usize) { *self.dist.entry(key.to_string()).or_insert(0) += n; }
    pub fn case(&mut self, canonical: &[u8], nontrivial: bool) {
        self.evaluations += 1;
        if nontrivial { self.nontrivial.insert(hash_bytes(canonical)); }
    }
    pub fn sample(&mut self, s: String) { if self.samples.len() < 6 { self.samples.push(s); } }
    pub fn violation(&mut self, what: &str, input: &str, detail: &str) {
        if self.violations.len() < 50 {
            self.violations.push(Violation { what: what.into(), input: input.into(), detail: detail.into(), class: String::new() });
        }
    }
    pub fn known(&mut self, class: &str, what: &str, input: &str, detail: &str) {
        self.count(&format!("known:{}", class));
        if self.known.len() < 200 {
            self.known.push(Violation { what: what.into(), input: input.into(), detail: detail.into(), class: class.into() });
        }
    }
    pub fn merge(&mut self, o: Report) {
        self.evaluations += o.evaluations;
        self.nontrivial.extend(o.nontrivial);
        for s in o.samples { self.sample(s); }
        for v in o.violations { if self.violations.len() < 50 { self.violations.push(v); } }
        for v in o.known { if self.known.len() < 200 { self.known.push(v); } }
        for (k, n) in o.dist { *self.dist.entry(k).or_insert(0) += n; }
        self.notes.extend(o.notes);
    }
    pub fn to_json(&self) -> String {
        let viol = |v: &Violation| format!("{{\"what\": {}, \"class\": {}, \"input\": {}, \"detail\": {}}}", jstr(&v.what), jstr(&v.class), jstr(&v.input), jstr(&v.detail));
        format!(
            "{{\"evaluations\": {}, \"distinct_nontrivial\": {}, \"rule\": {}, \"samples\": [{}], \"violations\": [{}], \"known\": [{}], \"dist\": {{{}}}, \"notes\": [{}]}}",
            self.evaluations, self.nontrivial.len(), jstr(&self.rule),
            self.samples.iter().map(|s| jstr(s)).collect::<Vec<_>>().join(", "),
            self.violations.iter().map(viol).collect::<Vec<_>>().join(", "),
            self.known.iter().map(viol).collect::<Vec<_>>().join(", "),
            self.dist.iter().map(|(k, v)| format!("{}: {}", jstr(k), v)).collect::<Vec<_>>().join(", "),
            self.notes.iter().map(|s| jstr(s)).collect::<Vec<_>>().join(", "))
    }
    pub fn write(&self, path: &str) { std::fs::write(path, self.to_json()).unwrap(); }
}

/// delta-debugging shrinker on lines, then on chars; `bad(text)` must stay true
pub fn shrink(text: &str, bad: &dyn Fn(&str) -> bool) -> String {
    let mut cur: String = text.to_string();
    if !bad(&cur) { return cur; }
    for gran in 0..2 {
        let mut progress = true;
        while progress {
            progress = false;
            let units: Vec<String> = if gran == 0 { cur.split_inclusive('\n').map(|x| x.to_string()).collect() }
                                     else { cur.chars().map(|c| c.to_string()).collect() };
            if units.len() > 400 && gran == 1 { break; }
            let mut chunk = (units.len() / 2).max(1);
            let mut us = units;
            loop {
                let mut i = 0;
                while i < us.len() {
                    let mut cand = us.clone();
                    let end = (i + chunk).min(cand.len());
                    cand.drain(i..end);
                    let t: String = cand.concat();
                    if t.len() < cur.len() && bad(&t) { us = cand; cur = t; progress = true; } else { i += chunk; }
                }
                if chunk == 1 { break; }
                chunk /= 2;
            }
        }
    }
    cur
}

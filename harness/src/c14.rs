//! C14 oracle: an unconsumable byte at a token boundary / a deleted bracket or closing keyword makes strict parsing
//! fail with Error::Parse; for the inserted byte the location is present, names the right file and is not after it.
use crate::{api::*, corpus, report::Report, toks, util::{self, Rng}};
use std::path::PathBuf;

fn parse_top(text: &str, path: &str) -> Result<(SyntaxTree, Defines), Error> {
    let d = no_defines(); let i = no_includes();
    parse_sv_str(text, PathBuf::from(path), &d, &i, false, false)
}

pub fn main(args: &[String]) {
    let workdir = &args[0]; let tier = &args[1]; let seed: u64 = args[2].parse().unwrap(); let out = &args[3];
    let thorough = tier == "thorough";
    // directive-free programs, and programs whose only directives are kept ones (preprocessing is the identity on them — checked below)
    let corp: Vec<_> = corpus::load(workdir).into_iter().filter(|x| x.kind == "sv" && !x.text.contains("`define") && !x.text.contains("`include") && !x.text.contains("`if") && !x.text.contains("`undef")).collect();
    let mut rng = Rng::new(seed ^ 0xc14);
    let root = format!("{}.fs", out);
    let _ = std::fs::remove_dir_all(&root); std::fs::create_dir_all(&root).unwrap();
    std::env::set_current_dir(&root).unwrap();
    let nprog = if thorough { corp.len() } else { 450 };
    let per = if thorough { 40 } else { 8 };
    let mut jobs: Vec<(String, usize, u8, u8, String)> = vec![];  // (text, position, kind 0=insert 1=delete, via include, deleted text)
    for p in 0..nprog {
        let it = if thorough { &corp[p] } else { rng.pick(&corp) };
        // token offsets refer to the preprocessed text: use programs on which preprocessing is the identity
        { let d = no_defines(); let i = no_includes(); match preprocess_str(&it.text, PathBuf::from("t.sv"), &d, &i, false, false, 0, 0) { Ok((t, _)) if t.text() == it.text => {}, _ => continue } }
        let tree = match parse_top(&it.text, "t.sv") { Ok((t, _)) => t, Err(_) => continue };
        let tk = toks::tokens(&tree);
        let elig: Vec<&toks::Tok> = tk.iter().filter(|t| !t.in_directive && !t.after_escaped).collect();
        if elig.is_empty() { continue; }
        for _ in 0..per {
            let t = rng.pick(&elig);
            jobs.push((it.text.clone(), t.off, 0, [0u8, 0, 0, 1, 1, 2, 2, 3, 4, 4][rng.below(10)], String::new()));
        }
        // deletions: one bracket or block-closing keyword
        let closers = ["(", ")", "[", "]", "{", "}", "end", "endmodule", "endcase", "endfunction", "endtask", "endgenerate", "endclass", "endinterface", "endpackage", "endprogram", "begin"];
        let dels: Vec<&toks::Tok> = tk.iter().filter(|t| !t.in_directive && closers.contains(&&it.text[t.off..t.off + t.len])).collect();
        for _ in 0..(per / 2).max(1) { if dels.is_empty() { break; } let t = rng.pick(&dels); jobs.push((it.text.clone(), t.off, 1, 0, it.text[t.off..t.off + t.len].to_string())); }
    }
    let jobs = std::sync::Arc::new(jobs);
    let j2 = jobs.clone();
    let results = util::par_map(jobs.len(), util::env_usize("SVH_THREADS", 16), move |i| {
        let (text, pos, kind, via, del) = &j2[i];
        let r = std::panic::catch_unwind(std::panic::AssertUnwindSafe(|| -> Result<(), String> {
            if *kind == 0 {
                // bytes / scalars that are neither SystemVerilog white space (blank, tab, line end, form feed) nor the start of any token;
                // the last three ARE white space for char::is_whitespace
                let b = ['\u{1}', '\u{7f}', '\u{b}', '\u{a0}', '\u{2028}', '\u{1}', '\u{7f}'][i % 7];
                let mut t2 = text.clone(); t2.insert(*pos, b);
                let (res, fname, shift) = if *via == 1 {
                    let f = format!("inc{}.sv", i); std::fs::write(&f, &t2).unwrap();
                    let top = format!("// top\n`include \"{}\"\n", f);
                    (parse_top(&top, "top.sv"), f, 0usize)
                } else if *via == 4 && !text.contains('`') {
                    // the fault stands in text that directly follows a macro usage expanding to NOTHING: the empty expansion must not disturb the
                    // origin of what follows it (an empty segment recorded in the origin table would shadow the next one)
                    let bytes = t2.as_bytes();
                    let mut k = *pos; while k > 0 && (bytes[k - 1] as char).is_ascii_whitespace() { k -= 1; }
                    while k > 0 && !(bytes[k - 1] as char).is_ascii_whitespace() { k -= 1; }
                    if !t2.is_char_boundary(k) || k >= *pos { k = 0; }
                    let head = "`define OPT(x) x\n";
                    let top = format!("{}{}`OPT(){}", head, &t2[..k], &t2[k..]);
                    (parse_top(&top, "t.sv"), "t.sv".to_string(), head.len() + 6)
                } else if *via >= 2 {
                    // the fault is in the including file, after an `include of a harmless header; via == 2: the header is exactly as long as the
                    // offset at which the `include directive ends, so the source offsets of the header's text and of the text that follows the
                    // directive run on without a gap (an origin table that compares offsets only would attribute the fault to the header)
                    let h = format!("h{}.svh", i);
                    let prefix = format!("`include \"{}\"", h);
                    let e = prefix.len() + if *via == 3 { 3 } else { 0 };
                    std::fs::write(&h, format!("/*{}*/\n", "-".repeat(e - 5))).unwrap();
                    let top = format!("{}\n{}", prefix, t2);
                    (parse_top(&top, "top.sv"), "top.sv".to_string(), prefix.len() + 1)
                } else { (parse_top(&t2, "t.sv"), "t.sv".to_string(), 0usize) };
                let pos = &(*pos + shift);
                match res {
                    Ok(_) => Err(format!("byte {:?} inserted at offset {} but the source is still accepted", b, pos)),
                    Err(Error::Parse(Some((p, o)))) => {
                        if p != PathBuf::from(&fname) { return Err(format!("Error::Parse names {} but the inserted byte is in {}", p.display(), fname)); }
                        if o > *pos { return Err(format!("Error::Parse location {} is after the inserted byte at {}", o, pos)); }
                        Ok(())
                    }
                    Err(Error::Parse(None)) => Err(format!("Error::Parse carries no location (byte inserted at {} in {})", pos, fname)),
                    Err(e) => Err(format!("expected Error::Parse, got {}", err_str(&e))),
                }
            } else {
                let mut t2 = text.clone(); t2.replace_range(*pos..*pos + del.len(), "");
                match parse_top(&t2, "t.sv") {
                    Ok(_) => Err(format!("token {:?} at offset {} deleted but the source is still accepted", del, pos)),
                    Err(Error::Parse(_)) => Ok(()),
                    Err(e) => Err(format!("expected Error::Parse, got {}", err_str(&e))),
                }
            }
        }));
        match r { Ok(x) => x, Err(e) => Err(format!("panic: {}", util::panic_msg(e))) }
    });
    let mut rep = Report::new("accepted directive-free corpus programs x (a) 0x01 / 0x7f / 0x0b (vertical tab) / U+00A0 / U+2028 inserted at the start of an eligible token (not inside a directive, not glued to an escaped identifier), directly, inside an included file, or in the including file after an `include of a header whose length equals the offset at which the directive ends (source offsets run on across the file boundary), or in text that directly follows a macro usage expanding to nothing; (b) one bracket / begin / block-closing keyword deleted; non-trivial = every mutant; distinct by (text, position, kind)");
    // preprocessor-level faults
    for (t, fault) in [("module m;\n\"unterminated\n", 10usize), ("a /* open\n", 2), ("x \\\n", 2), ("ok\n`define\n", 3), ("`ifdef\n", 0)] {
        let d = no_defines(); let i = no_includes();
        let key = format!("pp{}", t); rep.case(key.as_bytes(), true); rep.count("pp-fault");
        match preprocess_str(t, PathBuf::from("p.sv"), &d, &i, false, false, 0, 0) {
            Err(Error::Preprocess(Some((p, o)))) => { if p != PathBuf::from("p.sv") || o > fault + 12 { rep.violation(&format!("Error::Preprocess({}, {}) for a fault at {}", p.display(), o, fault), t, ""); } }
            Ok(_) => rep.violation("lexically broken text accepted by the preprocessor", t, ""),
            Err(e) => rep.violation(&format!("expected Error::Preprocess with a location, got {}", err_str(&e)), t, ""),
        }
    }
    for ((text, pos, kind, via, del), r) in jobs.iter().zip(results.into_iter()) {
        let key = format!("{}{}{}{}", text, pos, kind, via);
        rep.case(key.as_bytes(), true);
        rep.count(if *kind == 0 { ["insert", "insert-in-include", "insert-after-aligned-include", "insert-after-include", "insert-after-empty-expansion"][*via as usize] } else { "delete" });
        if let Err(m) = r {
            // deletion mutants may stay valid programs (e.g. redundant parentheses): those are generator artefacts, not violations
            if *kind == 1 && m.contains("still accepted") { rep.count("delete-still-valid(skipped)"); continue; }
            rep.violation(&m, text, &format!("pos={} kind={} via_include={} deleted={:?}", pos, kind, via, del));
        }
        if rep.samples.len() < 3 && text.len() < 120 { rep.sample(format!("{} @{} kind {}", text, pos, kind)); }
    }
    rep.write(out);
    println!("ok");
}

//! C18 oracle: strip_comments yields the same non-comment tokens, define table and error; no comment survives
//! outside kept `define bodies.
use crate::{api::*, gen_pp, ppcmp, report::Report, util::{self, Rng}};
use std::path::PathBuf;

#[derive(Debug, PartialEq, Clone)]
pub enum Tk { Word(String), Str(String), Punct(char), Comment }

/// tokens of preprocessed text; comments become `Tk::Comment` (dropped by the caller); whitespace separates
pub fn tokens(s: &str) -> Vec<Tk> {
    let b: Vec<char> = s.chars().collect(); let mut i = 0; let mut out = vec![];
    while i < b.len() {
        let c = b[i];
        if c.is_whitespace() { i += 1; }
        else if c == '/' && i + 1 < b.len() && b[i + 1] == '/' { while i < b.len() && b[i] != '\n' { i += 1; } out.push(Tk::Comment); }
        else if c == '/' && i + 1 < b.len() && b[i + 1] == '*' { i += 2; while i + 1 < b.len() && !(b[i] == '*' && b[i + 1] == '/') { i += 1; } i = (i + 2).min(b.len()); out.push(Tk::Comment); }
        else if c == '"' { let st = i; i += 1; while i < b.len() && b[i] != '"' { if b[i] == '\\' { i += 1; } i += 1; } i = (i + 1).min(b.len()); out.push(Tk::Str(b[st..i].iter().collect())); }
        else if c == '\\' { let st = i; while i < b.len() && !b[i].is_whitespace() { i += 1; } out.push(Tk::Word(b[st..i].iter().collect())); }
        else if c.is_alphanumeric() || c == '_' || c == '$' || c == '`' { let st = i; i += 1; while i < b.len() && (b[i].is_alphanumeric() || b[i] == '_' || b[i] == '$') { i += 1; } out.push(Tk::Word(b[st..i].iter().collect())); }
        else { out.push(Tk::Punct(c)); i += 1; }
    }
    out
}

/// the non-comment tokens of `s`, with `Tk::Punct('\u{0}')` standing for "separated from the next token by white space and / or comments"
/// (runs collapsed, none at the ends)
pub fn separated(s: &str) -> Vec<Tk> {
    let b: Vec<char> = s.chars().collect(); let mut i = 0; let mut out: Vec<Tk> = vec![]; let mut sep = false;
    let push = |out: &mut Vec<Tk>, sep: &mut bool, t: Tk| { if *sep && !out.is_empty() { out.push(Tk::Punct('\u{0}')); } *sep = false; out.push(t); };
    while i < b.len() {
        let c = b[i];
        if c.is_whitespace() { i += 1; sep = true; }
        else if c == '/' && i + 1 < b.len() && b[i + 1] == '/' { while i < b.len() && b[i] != '\n' { i += 1; } sep = true; }
        else if c == '/' && i + 1 < b.len() && b[i + 1] == '*' { i += 2; while i + 1 < b.len() && !(b[i] == '*' && b[i + 1] == '/') { i += 1; } i = (i + 2).min(b.len()); sep = true; }
        else if c == '"' { let st = i; i += 1; while i < b.len() && b[i] != '"' { if b[i] == '\\' { i += 1; } i += 1; } i = (i + 1).min(b.len()); push(&mut out, &mut sep, Tk::Str(b[st..i].iter().collect())); }
        else if c == '\\' { let st = i; while i < b.len() && !b[i].is_whitespace() { i += 1; } push(&mut out, &mut sep, Tk::Word(b[st..i].iter().collect())); }
        else if c.is_alphanumeric() || c == '_' || c == '$' || c == '`' { let st = i; i += 1; while i < b.len() && (b[i].is_alphanumeric() || b[i] == '_' || b[i] == '$') { i += 1; } push(&mut out, &mut sep, Tk::Word(b[st..i].iter().collect())); }
        else { push(&mut out, &mut sep, Tk::Punct(c)); i += 1; }
    }
    out
}

/// everything from a kept `define to the end of its (possibly continued) line is removed before looking for comments
fn without_define_lines(s: &str) -> String {
    let mut out = String::new(); let mut rest = s;
    while let Some(k) = rest.find("`define") {
        out.push_str(&rest[..k]);
        let mut e = k;
        loop {
            match rest[e..].find('\n') { None => { e = rest.len(); break; } Some(n) => { let nl = e + n; if rest[..nl].trim_end_matches('\r').ends_with('\\') { e = nl + 1; } else { e = nl; break; } } }
        }
        rest = &rest[e..];
    }
    out.push_str(rest);
    out
}

pub fn check(c: &gen_pp::Case) -> Result<(bool, bool), String> {
    let d = ppcmp::mk_defines(&c.defines);
    let inc: Vec<PathBuf> = c.incpaths.iter().map(PathBuf::from).collect();
    let a = preprocess(PathBuf::from(&c.top), &d, &inc, false, c.ignore);
    let b = preprocess(PathBuf::from(&c.top), &d, &inc, true, c.ignore);
    match (a, b) {
        (Err(x), Err(y)) => { if err_str(&x) != err_str(&y) { Err(format!("without strip_comments the error is {} but with it {}", err_str(&x), err_str(&y))) } else { Ok((false, false)) } }
        (Ok(_), Err(y)) => Err(format!("succeeds without strip_comments but fails with it: {}", err_str(&y))),
        (Err(x), Ok(_)) => Err(format!("fails without strip_comments ({}) but succeeds with it", err_str(&x))),
        (Ok((ta, da)), Ok((tb, db))) => {
            // non-comment tokens WITH their separation: a comment or white space between two tokens separates them in both outputs (the
            // stripped run leaves one separator byte per comment), and tokens that touch must touch in both — otherwise `+ /**/ +` could become `++`
            let xa: Vec<Tk> = separated(ta.text());
            let xb: Vec<Tk> = separated(tb.text());
            if xa != xb {
                let k = xa.iter().zip(xb.iter()).position(|(p, q)| p != q).unwrap_or(xa.len().min(xb.len()));
                // D4 duplicates the trailing trivia of a string / escaped identifier (comments and whole directives included); the copy is verbatim in
                // both modes but the second pass over it is not, so the token sequences can differ as well
                let d4 = crate::c06::scan_class(ta.text()).1;
                return Err(format!("non-comment token #{} differs: without strip {:?}, with strip {:?}{}", k, xa.get(k), xb.get(k), if d4 { " [unstripped output has a string / escaped identifier directly followed by trivia]" } else { "" }));
            }
            let sa = defines_str(&da, false, true); let sb = defines_str(&db, false, true);
            if sa != sb { return Err("define tables differ between strip_comments on and off".into()); }
            let rest = without_define_lines(tb.text());
            if tokens(&rest).contains(&Tk::Comment) {
                // D4 can also arise after substitution (a string actual placed before a comment of the macro body): visible in the unstripped output
                let d4 = crate::c06::scan_class(ta.text()).1;
                return Err(format!("a comment survives strip_comments outside a kept `define{}", if d4 { " [unstripped output has a string / escaped identifier directly followed by trivia]" } else { "" }));
            }
            let had_comment = tokens(ta.text()).contains(&Tk::Comment);
            Ok((true, had_comment))
        }
    }
}

pub fn main(args: &[String]) {
    let _workdir = &args[0]; let tier = &args[1]; let seed: u64 = args[2].parse().unwrap(); let out = &args[3];
    let thorough = tier == "thorough";
    let mut rng = Rng::new(seed ^ 0xc18);
    let root = format!("{}.fs", out);
    let _ = std::fs::remove_dir_all(&root); std::fs::create_dir_all(&root).unwrap();
    let n = if thorough { 50000 } else { 5000 };
    let mut cases = vec![];
    for i in 0..n {
        let mut c = gen_pp::gen_case(&mut rng, i, false);
        if i % 3 == 0 {
            // comments as the only separator between two tokens, and next to directives / usages
            let extra = *rng.pick(&["a/**/b\n", "a// x\nb\n", "x1/* c */y1;\n", "`define Q 1\n`Q/**/z\n", "/* c */`celldefine\n", "p/*1*//*2*/q\n", "`ifdef A/**/\nk\n`endif\n", "m //c\n`timescale 1ns/1ps\n",
                "a +/* s */+ b;\n", "c &/**/& d;\n", "e </* le */= f;\n", "g */**/* h;\n", "`define E(p) p/**/\n`E(x)b\n", "`define F(p) /**/p\nw`F(+)+\n", "i -// m\n- j;\n",
                // the blanks after an `ifdef name / `else belong to skipped nodes: there the comment is the only separator that reaches the output
                "`define SM\nlogic`ifdef SM /* t */signed`endif [7:0] acc;\n", "assign y = 4'd1`ifdef WIDE 0`else /* n */5`endif ;\n", "u`ifndef NOPE /* c */v`endif w\n"]);
            if let Some(f) = c.files.iter_mut().find(|f| f.0 == c.top) { if let Some(t) = &mut f.1 { t.push_str(extra); } }
            c.flags.push("sole-separator");
        }
        ppcmp::materialise(&root, &c);
        cases.push(c);
    }
    // an `include named through a macro whose text carries trivia around the file name, or whose expansion goes through further macros
    // with comments in their text: the file that is read must not depend on strip_comments
    {
        let pres = ["", " ", "/* c */ ", "/**/", "/* a */ /* b */ ", "\\\n ", "/* c */\\\n"];
        let posts = ["", " ", " /* c */", " // c", "/**/"];
        let mut k = 0usize;
        for pre in pres.iter() { for post in posts.iter() { for form in 0..3usize {
            let dir = format!("m{}", k); k += 1;
            let inc = format!("{}/f.svh", dir);
            let lit = format!("\"{}\"", inc);
            let top = match form {
                0 => format!("`define INC {}{}{}\n`include `INC\nx /* t */ y\n", pre, lit, post),
                1 => format!("`define FN {}\n`define INC {}`FN{}\n`include `INC\nx\n", lit, pre, post),
                _ => format!("`define INC(f) {}f{}\n`include `INC({})\nz\n", pre, post, lit),
            };
            let mut c = gen_pp::Case { dir: dir.clone(), ..Default::default() };
            c.top = format!("{}/top.sv", dir);
            c.files.push((inc, Some("hello /* k */ w\n`define FROM_INC 1\n".into())));
            c.files.push((c.top.clone(), Some(top)));
            c.flags.push("macro-named-include-trivia");
            ppcmp::materialise(&root, &c);
            cases.push(c);
        } } }
    }
    std::env::set_current_dir(&root).unwrap();
    let cases = std::sync::Arc::new(cases);
    let c2 = cases.clone();
    let results = util::par_map(cases.len(), util::env_usize("SVH_THREADS", 16), move |i| {
        let c = c2[i].clone();
        match util::guarded(512, move || check(&c)) { Ok(r) => r, Err(p) => Err(format!("panic: {}", p)) }
    });
    let mut rep = Report::new("generated preprocessor cases (include trees, macros, conditionals, kept directives) plus inputs with comments as the only separator between two tokens and comments adjacent to directives / usages, each preprocessed with strip_comments off and on; non-trivial = both runs succeed and the unstripped output contains a comment; distinct by case files");
    for (c, r) in cases.iter().zip(results.into_iter()) {
        let key = format!("{:?}{:?}{}", c.files, c.defines, c.ignore);
        match r {
            Ok((ok, hc)) => { rep.case(key.as_bytes(), ok && hc); rep.count(if !ok { "both-fail-equally" } else if hc { "ok-with-comments" } else { "ok-no-comments" });
                if ok && hc && rep.samples.len() < 3 { rep.sample(crate::calls::top_text(c).unwrap_or_default().chars().take(200).collect()); } }
            Err(m) => { rep.case(key.as_bytes(), true);
                let top = crate::calls::top_text(c).unwrap_or_default();
                // known-finding class D4: some file of the case (or a caller-supplied macro body) has a string literal / escaped identifier directly followed by trivia
                let strlike = c.files.iter().any(|f| f.1.as_ref().map_or(false, |t| crate::c06::scan_class(t).1))
                    || c.defines.iter().any(|d| d.1.as_ref().and_then(|x| x.1.as_ref()).map_or(false, |t| crate::c06::scan_class(t).1));
                let all: String = c.files.iter().map(|f| format!("--- {}\n{}\n", f.0, f.1.clone().unwrap_or_else(|| "<not utf-8>".into()))).collect();
                if (m.contains("survives") || m.contains("token #")) && (strlike || m.contains("directly followed by trivia")) { rep.known("strlit-trailing-trivia", &m, &top, ""); } else { rep.violation(&m, &all, &format!("top={} incpaths={:?} defines={:?} ignore={}", c.top, c.incpaths, c.defines, c.ignore)); } }
        }
    }
    rep.write(out);
    println!("ok");
}

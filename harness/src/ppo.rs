//! Reference-based preprocessor oracles (C03 origins, C04 conditionals, C05 macro expansion, C10 includes,
//! C11 define table): run the implementation on a generated case and compare with `ppref::reference`.
use crate::{api::*, ppcmp, ppref::{self, Frag, Org, PCase, RErr}, report::Report, util::{self, Rng}};
use std::path::PathBuf;

pub struct Outcome { pub actual: Result<(PreprocessedText, Defines), Error>, pub expected: Result<(), RErr>, pub eval: ppref::Eval }

pub fn materialise(root: &str, c: &PCase) {
    for (p, t) in &c.texts {
        let full = PathBuf::from(root).join(p);
        std::fs::create_dir_all(full.parent().unwrap()).unwrap();
        std::fs::write(full, t).unwrap();
    }
}

pub fn predefs(c: &PCase) -> Defines {
    let v: Vec<(String, Option<(Vec<(String, Option<String>)>, Option<String>)>)> = c.predefs.iter().map(|(k, t)| (k.clone(), t.as_ref().map(|t| (vec![], Some(t.clone()))))).collect();
    ppcmp::mk_defines(&v)
}

pub fn run(c: &PCase) -> Outcome {
    let d = predefs(c);
    let inc: Vec<PathBuf> = c.incpaths.iter().map(PathBuf::from).collect();
    let actual = preprocess(PathBuf::from(&c.top), &d, &inc, c.strip, c.ignore);
    let (expected, eval) = ppref::reference(c);
    Outcome { actual, expected, eval }
}

fn nows(s: &str) -> String { s.chars().filter(|c| !c.is_whitespace()).collect() }

/// expected error vs actual error (variant + payload, nesting)
pub fn check_error(o: &Outcome) -> Result<(), String> {
    match (&o.expected, &o.actual) {
        (Ok(()), Ok(_)) => Ok(()),
        (Err(e), Err(a)) => { let es = ppref::rerr_str(e); let as_ = err_str(a); if es == as_ { Ok(()) } else { Err(format!("expected error {} but got {}", es, as_)) } }
        (Ok(()), Err(a)) => Err(format!("expected success but got error {}", err_str(a))),
        (Err(e), Ok((t, _))) => Err(format!("expected error {} but the run succeeded with {:?}", ppref::rerr_str(e), &t.text()[..t.text().len().min(80)])),
    }
}

/// token-for-token (non-whitespace character sequence) equality of the output with the reference
pub fn check_text(o: &Outcome) -> Result<(), String> {
    if let (Ok(()), Ok((t, _))) = (&o.expected, &o.actual) {
        let exp: String = o.eval.frags.iter().map(|f| nows(&f.raw)).collect();
        let act = nows(t.text());
        if exp != act {
            let k = exp.chars().zip(act.chars()).position(|(a, b)| a != b).unwrap_or(exp.chars().count().min(act.chars().count()));
            let ctx = |s: &str| s.chars().skip(k.saturating_sub(12)).take(40).collect::<String>();
            return Err(format!("output differs from the reference at non-blank character {}: expected …{}… got …{}…", k, ctx(&exp), ctx(&act)));
        }
    }
    Ok(())
}

#[derive(Clone, Debug, PartialEq)]
enum EO { At(String, usize), In(String, usize), NoneO }

/// every output byte maps back to where it came from
pub fn check_origins(o: &Outcome) -> Result<usize, String> {
    let (t, _) = match (&o.expected, &o.actual) { (Ok(()), Ok(x)) => x, _ => return Ok(0) };
    let mut exp: Vec<(char, EO)> = vec![];
    // gap_exp[k]: macro definitions (file, body start) whose expansion contributed no non-blank character in the gap before exp[k];
    // blanks of such an expansion legitimately map to the definition
    let mut gap_exp: Vec<Vec<(String, usize)>> = vec![vec![]];
    for Frag { raw, org } in &o.eval.frags {
        if let Org::Exp(f, bs) = org { if !raw.chars().any(|c| !c.is_whitespace()) { gap_exp.last_mut().unwrap().push((f.clone(), *bs)); } }
        for (i, ch) in raw.char_indices() {
            if ch.is_whitespace() { continue; }
            exp.push((ch, match org { Org::Plain(f, off) => EO::At(f.clone(), off + i), Org::Exp(f, bs) => EO::In(f.clone(), *bs), Org::NoneOrg => EO::NoneO }));
            gap_exp.push(vec![]);
        }
    }
    let text = t.text();
    let mut k = 0usize; let mut checked = 0usize;
    // per output byte: (is_ws, index into exp of this / previous non-ws char)
    let mut prev_e: Option<usize> = None;
    let mut pending_ws: Vec<usize> = vec![];
    let get = |pos: usize| t.origin(pos).map(|(p, o)| (p.to_string_lossy().to_string(), o));
    let reads: Vec<String> = o.eval.reads.clone();
    let check_ws = |pend: &Vec<usize>, a: Option<usize>, b: Option<usize>, exp: &Vec<(char, EO)>| -> Result<(), String> {
        for &p in pend {
            let og = get(p);
            let ea = a.map(|i| &exp[i].1); let eb = b.map(|i| &exp[i].1);
            match (ea, eb) {
                (Some(EO::At(f1, o1)), Some(EO::At(f2, o2))) if f1 == f2 && o1 < o2 => {
                    match &og { Some((f, oo)) if f == f1 && *o1 < *oo && *oo < *o2 => {}
                        // a blank emitted by a file included between the two tokens (the include itself yields no token)
                        Some((f, _)) if f != f1 && reads.contains(f) => {}
                        // a blank produced by a macro expansion that yields blanks only
                        Some((f, oo)) if b.map_or(false, |k| gap_exp[k].iter().any(|(gf, bs)| gf == f && oo >= bs)) => {}
                        other => return Err(format!("blank at output offset {} lies between bytes copied from {}:{} and {}:{} but its origin is {:?}", p, f1, o1, f2, o2, other)) }
                }
                (Some(EO::NoneO), _) | (_, Some(EO::NoneO)) | (None, _) | (_, None) => {}
                _ => { if og.is_none() { return Err(format!("blank at output offset {} (between bytes that come from files) has no origin", p)); } }
            }
        }
        Ok(())
    };
    for (pos, ch) in text.char_indices() {
        if ch.is_whitespace() { for b in 0..ch.len_utf8() { pending_ws.push(pos + b); } continue; }
        if k >= exp.len() { return Err("output longer than reference".into()); }
        check_ws(&pending_ws, prev_e, Some(k), &exp)?; pending_ws.clear();
        for b in 0..ch.len_utf8() {
            let og = get(pos + b);
            match (&exp[k].1, &og) {
                (EO::At(f, off), Some((af, ao))) if f == af && *ao == off + b => {}
                (EO::In(f, bs), Some((af, ao))) if f == af && *ao >= *bs => {}
                (EO::NoneO, None) => {}
                (e, a) => return Err(format!("origin of output byte {} ({:?}) is {:?}, expected {}", pos + b, ch, a, match e { EO::At(f, o) => format!("({}, {})", f, o + b), EO::In(f, bs) => format!("({}, >= {})", f, bs), EO::NoneO => "None".into() })),
            }
            checked += 1;
        }
        prev_e = Some(k); k += 1;
    }
    check_ws(&pending_ws, prev_e, None, &exp)?;
    Ok(checked)
}

/// the returned define table is exactly the reference table (SV_COV_* aside)
pub fn check_defines(o: &Outcome) -> Result<(), String> {
    let (_, d) = match (&o.expected, &o.actual) { (Ok(()), Ok(x)) => x, _ => return Ok(()) };
    let mut exp: Vec<String> = vec![]; let mut act: Vec<String> = vec![];
    for (k, v) in &o.eval.defs {
        if k.starts_with("SV_COV_") { continue; }
        exp.push(match v { None => format!("{}=<none>", k), Some(df) => format!("{}({})={:?}", k, df.formals.as_ref().map(|f| f.iter().map(|(a, dd)| format!("{}:{:?}", a, dd.as_ref().map(|x| x.trim().to_string()))).collect::<Vec<_>>().join(",")).unwrap_or_default(), df.body.as_ref().map(|b| b.trim().to_string())) });
    }
    for (k, v) in d {
        if k.starts_with("SV_COV_") { continue; }
        act.push(match v { None => format!("{}=<none>", k), Some(df) => format!("{}({})={:?}", k, df.arguments.iter().map(|(a, dd)| format!("{}:{:?}", a, dd.as_ref().map(|x| x.trim().to_string()))).collect::<Vec<_>>().join(","), df.text.as_ref().map(|t| t.text.trim().to_string())) });
    }
    exp.sort(); act.sort();
    if exp != act { let only_e: Vec<&String> = exp.iter().filter(|x| !act.contains(x)).collect(); let only_a: Vec<&String> = act.iter().filter(|x| !exp.contains(x)).collect(); return Err(format!("define table differs: expected-only {:?}, actual-only {:?}", only_e, only_a)); }
    Ok(())
}

pub fn describe(c: &PCase) -> String {
    let mut s = String::new();
    for (p, t) in &c.texts { s.push_str(&format!("--- {}\n{}\n", p, t)); }
    s.push_str(&format!("--- top={} incpaths={:?} predefs={:?} strip={} ignore={}", c.top, c.incpaths, c.predefs, c.strip, c.ignore));
    s
}

/// known-defect classifier on the AST: an `ifndef chain with at least one `elsif in which the `ifndef name or an
/// `elsif name is a predefined macro (`__LINE__`, `__FILE__`) — preprocess.rs:538 tests the wrong identifier
pub fn has_ifndef_elsif_predefined(c: &PCase) -> bool {
    fn walk(items: &[ppref::It]) -> bool {
        items.iter().any(|it| match it { ppref::It::Cond { neg, name, then, elsifs, els } => {
            let pre = |n: &str| n == "__LINE__" || n == "__FILE__";
            (*neg && !elsifs.is_empty() && (pre(name) || elsifs.iter().any(|e| pre(&e.0)))) || walk(then) || elsifs.iter().any(|e| walk(&e.1)) || els.as_ref().map(|b| walk(b)).unwrap_or(false) } _ => false })
    }
    c.files.values().any(|v| walk(v))
}

pub struct Prop { pub name: &'static str, pub opts: ppref::Opts, pub includes: bool, pub checks: &'static [&'static str] }

pub fn main(args: &[String], which: &str) {
    let _workdir = &args[0]; let tier = &args[1]; let seed: u64 = args[2].parse().unwrap(); let out = &args[3];
    let thorough = tier == "thorough";
    let o = |errors, comments, glue, positions, kept, same, pre| ppref::Opts { errors, comments, glue, positions, kept, include_same_line: same, predefined_names: pre, conds: which != "c05" };
    let prop = match which {
        "c03" => Prop { name: "C03", opts: o(false, true, true, true, true, false, false), includes: true, checks: &["error", "text", "origins"] },
        "c04" => Prop { name: "C04", opts: o(false, true, false, false, true, false, true), includes: true, checks: &["error", "text", "defines"] },
        "c05" => Prop { name: "C05", opts: o(true, true, true, false, false, false, false), includes: false, checks: &["error", "text"] },
        "c10" => Prop { name: "C10", opts: o(true, true, false, true, true, true, false), includes: true, checks: &["error", "text", "defines", "reads"] },
        "c11" => Prop { name: "C11", opts: o(false, true, false, false, true, false, false), includes: true, checks: &["error", "defines", "tworuns"] },
        _ => panic!("unknown"),
    };
    let n = match (which, thorough) { (_, true) => 60000, ("c03", false) => 4000, (_, false) => 5000 };
    let mut rng = Rng::new(seed ^ util::hash_bytes(which.as_bytes()));
    let root = format!("{}.fs", out);
    let _ = std::fs::remove_dir_all(&root); std::fs::create_dir_all(&root).unwrap();
    let mut cases = vec![];
    for i in 0..n {
        let mut c = ppref::gen_case(&mut rng, i, prop.opts, prop.includes);
        if which == "c10" { c.ignore = rng.chance(1, 4); }
        // the define table must not depend on the two mode flags being told apart inside expansions: vary them independently
        if which == "c11" { c.strip = rng.chance(1, 2); c.ignore = rng.chance(1, 5); }
        if which == "c04" || which == "c03" { c.strip = false; }
        materialise(&root, &c);
        cases.push(c);
    }
    std::env::set_current_dir(&root).unwrap();
    let cases = std::sync::Arc::new(cases);
    let c2 = cases.clone();
    let checks: Vec<&'static str> = prop.checks.to_vec();
    let results = util::par_map(cases.len(), util::env_usize("SVH_THREADS", 16), move |i| {
        let c = &c2[i];
        let checks = checks.clone();
        let r = std::panic::catch_unwind(std::panic::AssertUnwindSafe(|| {
            let o = run(c);
            if let Err(e) = &o.expected { if ppref::is_unmodelled(e) { return (vec![], false, usize::MAX, 0); } }
            let mut fails: Vec<String> = vec![]; let mut nchecked = 0usize;
            for ck in &checks {
                let r = match *ck {
                    "error" => check_error(&o), "text" => check_text(&o), "defines" => check_defines(&o),
                    "origins" => { if check_text(&o).is_ok() { check_origins(&o).map(|k| { nchecked = k; }) } else { Ok(()) } }
                    "reads" => Ok(()),
                    "tworuns" => check_two_runs(c, &o),
                    _ => Ok(()),
                };
                if let Err(m) = r { fails.push(format!("[{}] {}", ck, m)); break; }
            }
            let ok = o.actual.is_ok();
            (fails, ok, nchecked, o.eval.frags.len())
        }));
        r.map_err(util::panic_msg)
    });
    let mut rep = Report::new(&format!("{}: clean generated preprocessor programs (unique tokens; defines with formals/defaults/pasting/stringification/nesting; conditional chains; include trees over two include paths; kept directives) evaluated by an independent reference on the generator's AST; compared: {:?}; non-trivial = successful run with >= 4 output fragments; distinct by file contents", prop.name, prop.checks));
    for (c, r) in cases.iter().zip(results.into_iter()) {
        let key = format!("{:?}{:?}{}{}", c.texts, c.predefs, c.strip, c.ignore);
        match r {
            Err(p) => { rep.case(key.as_bytes(), true); rep.violation(&format!("panic: {}", p), &describe(c), ""); }
            Ok((_, _, usize::MAX, _)) => { rep.count("skipped-outside-reference-evaluator"); }
            Ok((fails, ok, nchecked, nfrags)) => {
                rep.case(key.as_bytes(), ok && nfrags >= 4);
                rep.count(if ok { "run-ok" } else { "run-err" });
                rep.add("origin-bytes-checked", nchecked);
                for f in fails {
                    if has_ifndef_elsif_predefined(c) { rep.known("ifndef-elsif-predefined-name", &f, &describe(c), ""); }
                    else { rep.violation(&f, &describe(c), ""); }
                }
                if ok && nfrags >= 4 && rep.samples.len() < 3 { rep.sample(describe(c).chars().take(500).collect()); }
            }
        }
    }
    if which == "c10" { ignore_family(&mut rep); include_line_family(&mut rep); }
    if which == "c03" { aligned_include_family(&mut rep); }
    if which == "c11" { flags_family(&mut rep); }
    if which == "c04" {
        // hypothesis of the Lean theorem C04_dead_subtrees_reached_clean: in the model's parse of every file of the generated cases each
        // `define / macro usage / `__FILE__ / `__LINE__ node carries a token (the model must answer "leafy")
        let mut lines: Vec<String> = vec![];
        for c in cases.iter() { for (_, t) in &c.texts { if lines.len() < (if thorough { 20000 } else { 2500 }) {
            // only texts the preprocessor's own parser accepts (anything but Error::Preprocess when preprocessed alone, includes ignored)
            let parses = !matches!(std::panic::catch_unwind(|| crate::api::preprocess_str(t, PathBuf::from("g.sv"), &crate::api::no_defines(), &crate::api::no_includes(), true, false, 0, 0)), Ok(Err(crate::api::Error::Preprocess(_))) | Err(_));
            if parses { lines.push(format!("good {}", util::hex(t.as_bytes()))); } } } }
        std::fs::write(format!("{}.good.cases", out), lines.join("\n") + "\n").unwrap();
        std::fs::write(format!("{}.good.impl", out), lines.iter().map(|_| "leafy").collect::<Vec<_>>().join("\n") + "\n").unwrap();
    }
    rep.write(out);
    println!("ok");
}

/// C11 family "the two mode flags are told apart inside expansions": an `include that comes out of a macro expansion (0..2 macro levels) of a
/// file that defines and undefines macros, under all four combinations of strip_comments / ignore_include. The returned table must contain the
/// file's definitions exactly when ignore_include is off, whatever strip_comments is. (cwd = the materialised root)
fn flags_family(rep: &mut Report) {
    let dir = "flagfam";
    for depth in 0..3usize { for strip in [false, true] { for ignore in [false, true] {
        let d = format!("{}/d{}s{}i{}", dir, depth, strip as u8, ignore as u8);
        std::fs::create_dir_all(&d).unwrap();
        std::fs::write(format!("{}/cfg.svh", d), "`define FROM_INC 8 // c\n`undef OLD\n").unwrap();
        let mut top = String::from("`define OLD 1\n");
        if depth > 0 { top.push_str(&format!("`define L1 `include \"{}/cfg.svh\"\n", d)); }
        for k in 2..=depth { top.push_str(&format!("`define L{} `L{}\n", k, k - 1)); }
        if depth == 0 { top.push_str(&format!("`include \"{}/cfg.svh\"\n", d)); } else { top.push_str(&format!("`L{}\n", depth)); }
        top.push_str("tail /* t */\n");
        let tname = format!("{}/top.sv", d);
        std::fs::write(&tname, &top).unwrap();
        let desc = format!("--- {}\n{}--- cfg.svh\n`define FROM_INC 8 // c / `undef OLD\n--- strip_comments={} ignore_include={} include through {} macro level(s)", tname, top, strip, ignore, depth);
        rep.case(desc.as_bytes(), true); rep.count("flags-family");
        match std::panic::catch_unwind(|| preprocess(PathBuf::from(&tname), &crate::api::no_defines(), &crate::api::no_includes(), strip, ignore)) {
            Err(p) => rep.violation(&format!("panic: {}", util::panic_msg(p)), &desc, ""),
            Ok(Err(e)) => rep.violation(&format!("unexpected error {}", crate::api::err_str(&e)), &desc, ""),
            Ok(Ok((_, defs))) => {
                let has_new = defs.contains_key("FROM_INC"); let has_old = defs.contains_key("OLD");
                if ignore { if has_new || !has_old { rep.violation(&format!("with ignore_include the included file must not touch the table, but FROM_INC defined: {}, OLD defined: {}", has_new, has_old), &desc, ""); } }
                else if !has_new || has_old { rep.violation(&format!("the definitions / undefinitions of the included file did not reach the returned table (FROM_INC defined: {}, OLD defined: {}) with strip_comments={}", has_new, has_old, strip), &desc, ""); }
            }
        }
    } } }
}

/// C03 family "source offsets that run on across a file boundary": macro-free texts with one or two `include directives where the included
/// file's length is (near) the offset at which the directive ends, or where two included files are as long as each other's offsets, so that
/// the source ranges of consecutive origin segments are numerically adjacent although they lie in different files. Every output byte is a
/// copy, so the property is checked directly: origin(pos) = (file, off) must name a file whose byte at `off` is the output byte, and the file
/// must be the one the byte's marker letter belongs to. (cwd = the materialised root)
fn aligned_include_family(rep: &mut Report) {
    let dir = "alignfam";
    let mut k = 0usize;
    for delta in [-3i64, -1, 0, 1, 2] {
        for pre in ["", "ttt;\n", "/* t */\n"] {
            for tail in ["\nttt tt;\n", " // t\nt;\n", "\n\n  t\n"] {
                for second in [false, true, false, false] {
                    let bom = if k % 4 == 2 { 1 } else if k % 4 == 3 { 2 } else { 0 };   // 1: the header starts with a byte order mark, 2: the top file does (on a line of its own: it is text, and text may not share a line with an `include)
                    let d = format!("{}/a{}", dir, k); k += 1;
                    std::fs::create_dir_all(&d).unwrap();
                    let hname = format!("{}/h.svh", d);
                    let inc1 = format!("`include \"{}\"", hname);
                    let e = (pre.len() + inc1.len()) as i64 + delta;
                    if e < 6 { continue; }
                    // header made of the marker letter 'h', exactly e bytes long
                    // (a byte order mark is not white space for the preprocessor: it is ordinary text and must be accounted for in every offset)
                    let h = if bom == 1 { format!("{}{};\n", '\u{feff}', "h".repeat((e as usize).saturating_sub(5).max(1))) } else { format!("{};\n", "h".repeat(e as usize - 2)) };
                    std::fs::write(&hname, &h).unwrap();
                    let mut top = format!("{}{}{}{}", if bom == 2 { "\u{feff}\n" } else { "" }, pre, inc1, tail);
                    let mut files = vec![(hname.clone(), h.clone())];
                    if second {
                        let gname = format!("{}/g.svh", d);
                        let inc2 = format!("`include \"{}\"", gname);
                        // second header as long as the offset at which ITS directive ends in the top file
                        let e2 = top.len() + inc2.len();
                        let g = format!("{};\n", "g".repeat(e2 - 2));
                        std::fs::write(&gname, &g).unwrap();
                        top.push_str(&inc2); top.push_str("\nt t;\n");
                        files.push((gname, g));
                    }
                    let tname = format!("{}/top.sv", d);
                    std::fs::write(&tname, &top).unwrap();
                    files.push((tname.clone(), top.clone()));
                    let desc = files.iter().map(|f| format!("--- {} ({} bytes)\n{}\n", f.0, f.1.len(), f.1)).collect::<String>();
                    rep.case(desc.as_bytes(), true); rep.count("aligned-include-family");
                    let r = std::panic::catch_unwind(|| preprocess(PathBuf::from(&tname), &crate::api::no_defines(), &crate::api::no_includes(), false, false));
                    match r {
                        Err(p) => rep.violation(&format!("panic: {}", util::panic_msg(p)), &desc, ""),
                        Ok(Err(e)) => rep.violation(&format!("macro-free text with existing include files is rejected: {}", crate::api::err_str(&e)), &desc, ""),
                        Ok(Ok((t, _))) => {
                            let out = t.text().as_bytes();
                            for pos in 0..out.len() {
                                let b = out[pos];
                                match t.origin(pos) {
                                    None => { rep.violation(&format!("output byte {} ({:?}) of a macro-free text has no origin", pos, b as char), &desc, t.text()); break; }
                                    Some((p, off)) => {
                                        let ps = p.display().to_string();
                                        match files.iter().find(|f| f.0 == ps) {
                                            None => { rep.violation(&format!("origin({}) names {} which is none of the files of the case", pos, ps), &desc, t.text()); break; }
                                            Some(f) => {
                                                let fb = f.1.as_bytes();
                                                if off >= fb.len() || fb[off] != b { rep.violation(&format!("origin({}) = ({}, {}) but output byte {:?} is not the byte of that file at that offset ({})", pos, ps, off, b as char, if off >= fb.len() { "past its end".to_string() } else { format!("{:?}", fb[off] as char) }), &desc, t.text()); break; }
                                                let marker = if ps.ends_with("h.svh") { b'h' } else if ps.ends_with("g.svh") { b'g' } else { b't' };
                                                if (b == b'h' || b == b'g' || b == b't') && b != marker { rep.violation(&format!("origin({}) names {} for a byte {:?} that was copied from another file", pos, ps, b as char), &desc, t.text()); break; }
                                            }
                                        }
                                    }
                                }
                            }
                        }
                    }
                }
            }
        }
    }
}

/// C10 family: an `include that reaches the walker through a macro expansion (0..3 levels of macros, both quoting styles, file present or
/// missing) under ignore_include on / off. With ignore_include no file may be read (so a missing file is no error) and the directive
/// contributes no tokens; without it the file is spliced or Include{File} is reported. (cwd = the materialised root)
fn ignore_family(rep: &mut Report) {
    let dir = "ignfam";
    for (si, style) in ["\"f.svh\"", "<f.svh>"].iter().enumerate() {
        for depth in 0..4usize {
            for exists in [true, false] {
                for ignore in [true, false] {
                    let d = format!("{}/s{}d{}e{}", dir, si, depth, exists as u8);
                    std::fs::create_dir_all(&d).unwrap();
                    let mut top = String::new();
                    if depth > 0 { top.push_str(&format!("`define INC1 `include {}\n", style)); }
                    for k in 2..=depth { top.push_str(&format!("`define INC{} `INC{}\n", k, k - 1)); }
                    top.push_str("w1\n");
                    if depth == 0 { top.push_str(&format!("`include {}\n", style)); } else { top.push_str(&format!("`INC{}\n", depth)); }
                    top.push_str("w2\n");
                    std::fs::write(format!("{}/top.sv", d), &top).unwrap();
                    let _ = std::fs::remove_file(format!("{}/f.svh", d));
                    if exists { std::fs::write(format!("{}/f.svh", d), "inc_tok\n").unwrap(); }
                    let inc = vec![PathBuf::from(&d)];
                    let r = std::panic::catch_unwind(|| preprocess(PathBuf::from(format!("{}/top.sv", d)), &crate::api::no_defines(), &inc, false, ignore));
                    let desc = format!("--- {}/top.sv\n{}--- f.svh {}\n--- ignore_include={} include through {} macro level(s)", d, top, if exists { "exists: inc_tok" } else { "missing" }, ignore, depth);
                    rep.case(desc.as_bytes(), true); rep.count("ignore-family");
                    let body = |t: &str| -> String { t.lines().filter(|l| !l.trim_start().starts_with("`define")).collect::<Vec<_>>().join(" ") };
                    match r {
                        Err(e) => rep.violation(&format!("panic: {}", util::panic_msg(e)), &desc, ""),
                        Ok(Ok((t, _))) => {
                            let b = body(t.text()); let toks: Vec<&str> = b.split_whitespace().collect();
                            if ignore { if toks != ["w1", "w2"] { rep.violation(&format!("with ignore_include the `include must contribute nothing and no file may be read, but the output tokens are {:?}", toks), &desc, t.text()); } }
                            else if exists { if toks != ["w1", "inc_tok", "w2"] { rep.violation(&format!("the included file is not spliced: output tokens {:?}", toks), &desc, t.text()); } }
                            else { rep.violation("a missing include file must be reported as Include{File}", &desc, t.text()); }
                        }
                        Ok(Err(e)) => {
                            let es = err_str(&e);
                            if ignore { rep.violation(&format!("with ignore_include no file is read, but the run fails with {}", es), &desc, ""); }
                            else if exists { rep.violation(&format!("unexpected error {}", es), &desc, ""); }
                            else if !es.starts_with("Include[File(") { rep.violation(&format!("a missing include file must be reported as Include{{File}}, got {}", es), &desc, ""); }
                        }
                    }
                }
            }
        }
    }
}

/// C11: feeding the table of run 1 into run 2 == preprocessing the concatenation (text of the second part, final table)
pub fn check_two_runs(c: &PCase, o: &Outcome) -> Result<(), String> {
    let (t1, d1) = match &o.actual { Ok(x) => x, Err(_) => return Ok(()) };
    // second file: reuse the top file of the case itself as "file 2" appended after "file 1" = top
    let top_text = &c.texts[&c.top];
    if !top_text.ends_with('\n') { return Ok(()); }
    let inc: Vec<PathBuf> = c.incpaths.iter().map(PathBuf::from).collect();
    let second = format!("{}/second.sv", c.dir);
    let s2 = top_text.clone();
    let r2 = preprocess_str(&s2, PathBuf::from(&second), d1, &inc, c.ignore, c.strip, 0, 0);
    let cat = format!("{}{}", top_text, s2);
    let d0 = predefs(c);
    let rc = preprocess_str(&cat, PathBuf::from(&c.top), &d0, &inc, c.ignore, c.strip, 0, 0);
    match (r2, rc) {
        (Ok((t2, d2)), Ok((tc, dc))) => {
            let a = format!("{}{}", t1.text(), t2.text());
            if nows(&a) != nows(tc.text()) { return Err("text(run1) ++ text(run2 seeded with run1's table) differs from text(run on the concatenation)".into()); }
            let x = defines_str(&d2, true, false); let y = defines_str(&dc, true, false);
            if x != y { return Err(format!("final define table of the two-step run differs from the concatenated run: {} vs {}", &x[..x.len().min(200)], &y[..y.len().min(200)])); }
            Ok(())
        }
        (Err(a), Err(b)) => { if err_str(&a) == err_str(&b) { Ok(()) } else { Err(format!("two-step run fails with {} but the concatenated run fails with {}", err_str(&a), err_str(&b))) } }
        (Ok(_), Err(b)) => Err(format!("two-step run succeeds but the concatenated run fails with {}", err_str(&b))),
        (Err(a), Ok(_)) => Err(format!("two-step run fails with {} but the concatenated run succeeds", err_str(&a))),
    }
}


/// C10 family "an `include shares its line only with whitespace or comments": every combination of what stands before the directive on its
/// line (nothing, blanks, a comment, the end of a comment that began on an earlier line, a token, a string directly followed by a token (a string or escaped identifier followed by trivia is the known finding D4), a one-line
/// directive, the last line of a directive that spans several lines — `ifdef…`endif, a macro usage whose argument list contains a newline —,
/// or the same things one line earlier) and what follows it (line end, end of file, a comment, a token, a directive, a second `include),
/// in the three ways of naming the file. Returns (name, top text, IncludeLine expected).
pub fn include_line_cases() -> Vec<(String, String, bool)> {
    let prevs: &[(&str, bool)] = &[
        ("w1 ", true), ("\"s\"; ", true), ("/* c */ ", false), ("   ", false), ("", false), ("`celldefine ", true),
        ("`ifdef A\nx1\n`endif ", true), ("`ifdef UNDEFD\nx1\n`else\n`endif ", true), ("`define M(a) a\n`M(x1\n y1) ", true), ("`define E\n`E ", true),
        ("/* a\n b */ ", false), ("w1 /* c */ ", true), ("`undef X ", true), ("w1\n", false), ("`ifdef A\nx1\n`endif\n", false),
        ("`define M(a) a\n`M(x1\n y1)\n", false), ("w1 // c\n", false), ("`define E\n`E\n  ", false), ("`timescale 1ns/1ps ", true), ("`define N(a,b) a b\n`N(x1,\ny1) /* c */ ", true)];
    let nexts: &[(&str, bool)] = &[
        ("\n", false), (" w2\n", true), (" // c\n", false), (" /* c */\n", false), (" `celldefine\n", true), (" `include \"f.svh\"\n", true), ("", false),
        (" /* c */ w2\n", true), ("\nw2", false), (" \"t\";\n", true), (" /* a\n b */ w2\n", false), (" `E2\n", true)];
    let styles: &[(&str, &str)] = &[("", "\"f.svh\""), ("", "<f.svh>"), ("`define INCF \"f.svh\"\n", "`INCF")];
    let mut v = vec![];
    for (pi, (p, pb)) in prevs.iter().enumerate() { for (ni, (n, nb)) in nexts.iter().enumerate() { for (si, (pre, name)) in styles.iter().enumerate() {
        // `E2 must be defined for the case to be about the line rule only
        let top = format!("`define E2\n{}{}`include {}{}", pre, p, name, n);
        v.push((format!("p{}n{}s{}", pi, ni, si), top, *pb || *nb));
    } } }
    v
}

fn include_line_family(rep: &mut Report) {
    let dir = "linefam";
    std::fs::create_dir_all(dir).unwrap();
    std::fs::write(format!("{}/f.svh", dir), "inc_tok\n").unwrap();
    let mut predefs = crate::api::no_defines(); predefs.insert("A".to_string(), None);
    for (name, top, bad) in include_line_cases() {
        let path = format!("{}/{}.sv", dir, name);
        std::fs::write(&path, &top).unwrap();
        let inc = vec![PathBuf::from(dir)];
        let (p2, d2) = (path.clone(), predefs.clone());
        let r = std::panic::catch_unwind(move || preprocess(PathBuf::from(p2), &d2, &inc, false, false));
        let desc = format!("--- {}\n{}\n--- f.svh: inc_tok; A defined; IncludeLine expected: {}", path, top, bad);
        rep.case(desc.as_bytes(), true); rep.count(if bad { "include-line-family:must-reject" } else { "include-line-family:must-splice" });
        match r {
            Err(e) => rep.violation(&format!("panic: {}", util::panic_msg(e)), &desc, ""),
            Ok(Ok((t, _))) => {
                if bad { rep.violation("an `include that shares its line with something other than whitespace or a comment must be rejected with IncludeLine, but the run succeeded", &desc, t.text()); }
                else if t.text().matches("inc_tok").count() != 1 { rep.violation("an `include alone on its line (whitespace and comments aside) must splice the file exactly once", &desc, t.text()); }
            }
            Ok(Err(e)) => {
                let es = err_str(&e);
                if bad { if es != "IncludeLine" { rep.violation(&format!("expected IncludeLine, got {}", es), &desc, ""); } }
                else { rep.violation(&format!("an `include that shares its line only with whitespace / comments was rejected with {}", es), &desc, ""); }
            }
        }
    }
}

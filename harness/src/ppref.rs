//! Clean preprocessor-program generator with a reference evaluator that works on the generator's AST
//! (never on text): expected non-whitespace output characters with their expected origins, expected
//! define table, expected error. Used by the C03 / C04 / C05 / C10 / C11 oracles.
use crate::util::Rng;
use std::collections::BTreeMap;

#[derive(Clone, Debug)]
pub enum BT { Tok(String), Formal(usize), Paste, Quote(Vec<BT>), Usage(String, Option<Vec<Vec<BT>>>), Str(String), Sp, Cont, LineComment(String) }

#[derive(Clone, Debug)]
pub enum It {
    Tok(String), Ws(String), Comment(String), Str(String),
    Define { name: String, formals: Option<Vec<(String, Option<Vec<BT>>)>>, body: Option<Vec<BT>> },
    Undef(String), UndefAll,
    Usage { name: String, args: Option<Vec<Option<Vec<BT>>>>, glue: bool },
    Cond { neg: bool, name: String, then: Vec<It>, elsifs: Vec<(String, Vec<It>)>, els: Option<Vec<It>> },
    Include { file: String, style: u8, same_line: bool },
    Kept(String), PosFile, PosLine,
}

#[derive(Clone, Debug, PartialEq)]
pub enum Org { Plain(String, usize), Exp(String, usize), NoneOrg }

#[derive(Clone, Debug)]
pub struct Frag { pub raw: String, pub org: Org }

#[derive(Clone, Debug)]
pub struct Def { pub formals: Option<Vec<(String, Option<String>)>>, pub body: Option<String>, pub body_bt: Option<Vec<BT>>, pub defaults_bt: Vec<Option<Vec<BT>>>, pub file: Option<String>, pub body_start: usize }

#[derive(Clone, Debug, PartialEq)]
pub enum RErr { DefineNotFound(String), DefineArgNotFound(String), DefineNoArgs(String), IncludeLine, File(String), Exceed, Include(Box<RErr>),
    /// the case leaves the domain of this reference evaluator (the case is skipped, never judged)
    Unmodelled }

pub fn is_unmodelled(e: &RErr) -> bool { match e { RErr::Unmodelled => true, RErr::Include(x) => is_unmodelled(x), _ => false } }

pub fn rerr_str(e: &RErr) -> String {
    match e {
        RErr::DefineNotFound(s) => format!("DefineNotFound({})", s), RErr::DefineArgNotFound(s) => format!("DefineArgNotFound({})", s),
        RErr::DefineNoArgs(s) => format!("DefineNoArgs({})", s), RErr::IncludeLine => "IncludeLine".into(), RErr::File(p) => format!("File({})", p),
        RErr::Exceed => "ExceedRecursiveLimit".into(), RErr::Include(e) => format!("Include[{}]", rerr_str(e)), RErr::Unmodelled => "unmodelled".into(),
    }
}

// ---------------------------------------------------------------------------------------------- rendering

pub fn render_bt(b: &[BT], formals: &[String], out: &mut String) {
    for x in b {
        match x {
            BT::Tok(s) | BT::Str(s) => out.push_str(s),
            BT::Formal(i) => out.push_str(&formals[*i]),
            BT::Paste => out.push_str("``"),
            BT::Quote(q) => { out.push_str("`\""); render_bt(q, formals, out); out.push_str("`\""); }
            BT::Usage(n, a) => { out.push('`'); out.push_str(n); if let Some(a) = a { out.push('('); for (i, x) in a.iter().enumerate() { if i > 0 { out.push(','); } render_bt(x, formals, out); } out.push(')'); } }
            BT::Sp => out.push(' '),
            BT::Cont => out.push_str(" \\\n "),
            BT::LineComment(c) => { out.push_str(" //"); out.push_str(c); }
        }
    }
}

pub struct Rendered { pub text: String, pub pos: Vec<(usize, usize)> }  // item index -> (start, end) at top level only

/// render items; `marks` receives (pointer-ish id, start offset) for every item in pre-order so the reference can find offsets
pub fn render(items: &[It], out: &mut String, marks: &mut Vec<usize>) {
    for it in items {
        marks.push(out.len());
        match it {
            It::Tok(s) | It::Ws(s) | It::Comment(s) | It::Str(s) | It::Kept(s) => out.push_str(s),
            It::Define { name, formals, body } => {
                out.push_str("`define "); out.push_str(name);
                let fnames: Vec<String> = formals.as_ref().map(|f| f.iter().map(|x| x.0.clone()).collect()).unwrap_or_default();
                if let Some(f) = formals {
                    out.push('(');
                    for (i, (a, d)) in f.iter().enumerate() { if i > 0 { out.push_str(", "); } out.push_str(a); if let Some(d) = d { out.push_str(" = "); render_bt(d, &fnames, out); } }
                    out.push(')');
                }
                if let Some(b) = body { out.push(' '); render_bt(b, &fnames, out); }
                out.push('\n');
            }
            It::Undef(n) => { out.push_str("`undef "); out.push_str(n); out.push('\n'); }
            It::UndefAll => out.push_str("`undefineall\n"),
            It::Usage { name, args, glue } => {
                out.push('`'); out.push_str(name);
                if let Some(a) = args { out.push('('); for (i, x) in a.iter().enumerate() { if i > 0 { out.push(','); } if let Some(x) = x { render_bt(x, &[], out); } } out.push(')'); }
                if !*glue { out.push(' '); }
            }
            It::Cond { neg, name, then, elsifs, els } => {
                out.push_str(if *neg { "`ifndef " } else { "`ifdef " }); out.push_str(name); out.push('\n');
                render(then, out, marks);
                for (n, b) in elsifs { out.push_str("`elsif "); out.push_str(n); out.push('\n'); render(b, out, marks); }
                if let Some(b) = els { out.push_str("`else\n"); render(b, out, marks); }
                out.push_str("`endif\n");
            }
            It::Include { file, style, same_line } => {
                if !*same_line && !out.is_empty() && !out.ends_with('\n') { out.push('\n'); }
                match style { 0 => { out.push_str("`include \""); out.push_str(file); out.push('"'); } 1 => { out.push_str("`include <"); out.push_str(file); out.push('>'); } _ => { out.push_str("`include `"); out.push_str(file); } }
                out.push('\n');
            }
            It::PosFile => out.push_str("`__FILE__ "),
            It::PosLine => out.push_str("`__LINE__ "),
        }
    }
}

// ---------------------------------------------------------------------------------------------- reference evaluator

pub struct World<'a> {
    pub files: &'a BTreeMap<String, Vec<It>>,       // path as stored on disk -> items
    pub texts: &'a BTreeMap<String, String>,
    pub incpaths: &'a [String],
    pub strip: bool,
    pub ignore: bool,
}

pub struct Eval { pub frags: Vec<Frag>, pub defs: BTreeMap<String, Option<Def>>, pub reads: Vec<String>, pub uses_d4: bool }

pub const COV: &[(&str, &str)] = &[("SV_COV_START", "0"), ("SV_COV_STOP", "1"), ("SV_COV_RESET", "2"), ("SV_COV_CHECK", "3"), ("SV_COV_MODULE", "10"), ("SV_COV_HIER", "11"), ("SV_COV_ASSERTION", "20"), ("SV_COV_FSM_STATE", "21"), ("SV_COV_STATEMENT", "22"), ("SV_COV_TOGGLE", "23"), ("SV_COV_OVERFLOW", "-2"), ("SV_COV_ERROR", "-1"), ("SV_COV_NOCOV", "0"), ("SV_COV_OK", "1"), ("SV_COV_PARTIAL", "2")];

fn predefined(n: &str) -> bool { n == "__LINE__" || n == "__FILE__" }

fn bt_text(b: &[BT], formals: &[String]) -> String { let mut s = String::new(); render_bt(b, formals, &mut s); s }

impl Eval {
    fn defined(&self, n: &str) -> bool { self.defs.contains_key(n) || predefined(n) }

    /// expand one usage to its character string (whitespace irrelevant); nested usages use the table in force now
    fn expand(&mut self, name: &str, args: &Option<Vec<Option<String>>>, depth: usize) -> Result<String, RErr> {
        if depth > 64 { return Err(RErr::Exceed); }
        let def = match self.defs.get(name) { None => return Err(RErr::DefineNotFound(name.to_string())), Some(None) => return Ok(String::new()), Some(Some(d)) => d.clone() };
        let formals = def.formals.clone().unwrap_or_default();
        if !formals.is_empty() && args.is_none() { return Err(RErr::DefineNoArgs(name.to_string())); }
        let mut bind: Vec<String> = vec![];
        for (i, (fname, dflt)) in formals.iter().enumerate() {
            let v = match args.as_ref().and_then(|a| a.get(i)) {
                Some(Some(a)) => a.clone(),
                Some(None) => dflt.clone().unwrap_or_default(),
                None => match dflt { Some(d) => d.clone(), None => return Err(RErr::DefineArgNotFound(fname.clone())) },
            };
            bind.push(v);
        }
        let body = match &def.body_bt { None => return Ok(String::new()), Some(b) => b.clone() };
        let mut out = self.subst(&body, &bind, depth)?;
        // an object-like macro used with an argument list keeps the list
        if formals.is_empty() { if let Some(a) = args { out.push('('); out.push_str(&a.iter().map(|x| x.clone().unwrap_or_default()).collect::<Vec<_>>().join(",")); out.push(')'); } }
        Ok(out)
    }

    fn subst(&mut self, body: &[BT], bind: &[String], depth: usize) -> Result<String, RErr> {
        let mut out = String::new();
        for (xi, x) in body.iter().enumerate() {
            // a nested usage without argument list directly followed by a formal whose actual starts with "(": after substitution the
            // re-scan reads that actual as the usage's argument list; this evaluator works on the AST and does not model re-tokenisation
            if let BT::Usage(_, None) = x {
                let mut j = xi + 1;
                while j < body.len() && matches!(body[j], BT::Sp | BT::Cont) { j += 1; }
                if let Some(BT::Formal(i)) = body.get(j) { if bind[*i].trim_start().starts_with('(') { return Err(RErr::Unmodelled); } }
            }
            match x {
                BT::Tok(s) | BT::Str(s) => out.push_str(s),
                BT::Formal(i) => out.push_str(&bind[*i]),
                BT::Paste | BT::Sp | BT::Cont | BT::LineComment(_) => {}
                BT::Quote(q) => { out.push('"'); out.push_str(&self.subst(q, bind, depth)?); out.push('"'); }
                BT::Usage(n, a) => {
                    let args = match a { None => None, Some(v) => { let mut r = vec![]; for x in v { let t = self.subst_text_only(x, bind); r.push(if t.trim().is_empty() { None } else { Some(t) }); } Some(r) } };
                    // arguments of a nested usage are expanded when the nested expansion is re-scanned
                    let args2 = match args { None => None, Some(v) => { let mut r = vec![]; for x in v { match x { None => r.push(None), Some(t) => r.push(Some(t)) } } Some(r) } };
                    out.push_str(&self.expand(n, &args2, depth + 1)?);
                }
            }
        }
        Ok(out)
    }

    /// text of an argument with formals substituted (no expansion)
    fn subst_text_only(&self, b: &[BT], bind: &[String]) -> String {
        let mut out = String::new();
        for x in b { match x { BT::Tok(s) | BT::Str(s) => out.push_str(s), BT::Formal(i) => out.push_str(&bind[*i]), _ => {} } }
        out
    }

    /// preprocess_str seeds the SV_COV_* constants at the start of every file and every macro expansion (unless the caller's table overrides them)
    pub fn reinstall_cov(&mut self) {
        for (k, v) in COV { if !self.defs.contains_key(*k) { self.defs.insert(k.to_string(), Some(Def { formals: None, body: Some(v.to_string()), body_bt: Some(vec![BT::Tok(v.to_string())]), defaults_bt: vec![], file: None, body_start: 0 })); } }
    }

    fn resolve(&self, w: &World, name: &str) -> String {
        if w.files.contains_key(name) { return name.to_string(); }
        for ip in w.incpaths { let p = format!("{}/{}", ip, name); if w.files.contains_key(&p) { return p; } }
        name.to_string()
    }

    pub fn file(&mut self, w: &World, path: &str, depth: usize) -> Result<(), RErr> {
        if depth > 64 { return Err(RErr::Exceed); }
        let items = match w.files.get(path) { Some(i) => i.clone(), None => return Err(RErr::File(path.to_string())) };
        self.reads.push(path.to_string());
        self.reinstall_cov();
        let text = &w.texts[path];
        let mut marks = vec![]; let mut tmp = String::new();
        render(&items, &mut tmp, &mut marks);
        debug_assert_eq!(&tmp, text);
        let mut mi = 0usize;
        self.items(w, path, text, &items, &marks, &mut mi, depth, true)
    }

    fn skip_marks(items: &[It], mi: &mut usize) {
        for it in items {
            *mi += 1;
            if let It::Cond { then, elsifs, els, .. } = it { Self::skip_marks(then, mi); for (_, b) in elsifs { Self::skip_marks(b, mi); } if let Some(b) = els { Self::skip_marks(b, mi); } }
        }
    }

    fn items(&mut self, w: &World, path: &str, text: &str, items: &[It], marks: &[usize], mi: &mut usize, depth: usize, active: bool) -> Result<(), RErr> {
        for it in items {
            let off = marks[*mi]; *mi += 1;
            if !active { if let It::Cond { then, elsifs, els, .. } = it { Self::skip_marks(then, mi); for (_, b) in elsifs { Self::skip_marks(b, mi); } if let Some(b) = els { Self::skip_marks(b, mi); } } continue; }
            match it {
                It::Tok(s) | It::Str(s) => self.frags.push(Frag { raw: s.clone(), org: Org::Plain(path.to_string(), off) }),
                It::Ws(_) => {}
                It::Comment(s) => { if !w.strip { self.frags.push(Frag { raw: s.clone(), org: Org::Plain(path.to_string(), off) }); } }
                It::Kept(s) => self.frags.push(Frag { raw: s.clone(), org: Org::Plain(path.to_string(), off) }),
                It::Define { name, formals, body } => {
                    // the directive text itself stays in the output
                    let end = text[off..].find('\n').map(|k| { let mut e = off + k; // continuation lines
                        loop { if text[..e].ends_with('\\') { e = e + 1 + text[e + 1..].find('\n').unwrap_or(text.len() - e - 1); } else { break; } } e }).unwrap_or(text.len());
                    let raw = text[off..end].to_string();
                    let kept_raw = if w.strip { strip_line_comments(&raw) } else { raw.clone() };
                    self.frags.push(Frag { raw: kept_raw, org: Org::Plain(path.to_string(), off) });
                    if !predefined(name) {
                        let fnames: Vec<String> = formals.as_ref().map(|f| f.iter().map(|x| x.0.clone()).collect()).unwrap_or_default();
                        let body_start = match body { Some(_) => { let hdr = format!("`define {}", name); let mut p = off + hdr.len(); if formals.is_some() { p = off + raw.find(')').unwrap() + 1; } p } None => 0 };  // macro text starts right after the name / formal list (the separating blank belongs to it)
                        self.defs.insert(name.clone(), Some(Def {
                            formals: formals.as_ref().map(|f| f.iter().map(|(a, d)| (a.clone(), d.as_ref().map(|d| bt_text(d, &fnames)))).collect()),
                            body: body.as_ref().map(|b| bt_text(b, &fnames)), body_bt: body.clone(),
                            defaults_bt: formals.as_ref().map(|f| f.iter().map(|x| x.1.clone()).collect()).unwrap_or_default(),
                            file: Some(path.to_string()), body_start }));
                    }
                }
                It::Undef(n) => { self.frags.push(Frag { raw: format!("`undef {}", n), org: Org::Plain(path.to_string(), off) }); self.defs.remove(n); }
                It::UndefAll => { self.frags.push(Frag { raw: "`undefineall".into(), org: Org::Plain(path.to_string(), off) }); self.defs.clear(); }
                It::Usage { name, args, .. } => {
                    let a: Option<Vec<Option<String>>> = args.as_ref().map(|v| if v.is_empty() { vec![None] } else { v.iter().map(|x| x.as_ref().map(|b| bt_text(b, &[]))).collect() });
                    let s = self.expand(name, &a, 1)?;
                    let org = match self.defs.get(name) { Some(Some(d)) => match &d.file { Some(f) => Org::Exp(f.clone(), d.body_start), None => Org::NoneOrg }, _ => Org::NoneOrg };
                    // an expansion without any non-blank character can still contribute blanks (they map to the definition): keep an empty marker fragment
                    if !s.is_empty() || matches!(org, Org::Exp(..)) { self.frags.push(Frag { raw: s, org }); }
                    if matches!(self.defs.get(name), Some(Some(d)) if d.body_bt.is_some()) { self.reinstall_cov(); }
                }
                It::Cond { neg, name, then, elsifs, els } => {
                    let mut taken = false;
                    let c0 = self.defined(name) != *neg;
                    self.items(w, path, text, then, marks, mi, depth, c0)?; taken |= c0;
                    for (n, b) in elsifs { let c = !taken && self.defined(n); self.items(w, path, text, b, marks, mi, depth, c)?; taken |= c; }
                    if let Some(b) = els { let c = !taken; self.items(w, path, text, b, marks, mi, depth, c)?; }
                }
                It::Include { file, style, same_line } => {
                    if w.ignore { if *style == 2 { /* macro-named: the usage is still processed */ let s = self.expand(file, &None, 1)?; let _ = s; } continue; }
                    if *same_line { return Err(RErr::IncludeLine); }
                    let fname = if *style == 2 { let s = self.expand(file, &None, 1)?; s.trim().trim_matches('"').to_string() } else { file.clone() };
                    let p = self.resolve(w, &fname);
                    self.file(w, &p, depth + 1).map_err(|e| RErr::Include(Box::new(e)))?;
                }
                It::PosFile => self.frags.push(Frag { raw: format!("\"{}\"", path), org: Org::NoneOrg }),
                It::PosLine => { let line = 1 + text[..off].matches('\n').count(); self.frags.push(Frag { raw: format!("{}", line), org: Org::NoneOrg }); }
            }
        }
        Ok(())
    }
}

fn strip_line_comments(raw: &str) -> String { raw.to_string() }

// ---------------------------------------------------------------------------------------------- generator

pub struct G<'a> { pub rng: &'a mut Rng, pub n: usize, pub depth: usize, pub incs: Vec<String>, pub defs: Vec<(String, usize, usize)>, pub obj: Vec<String>, pub opts: Opts }

#[derive(Clone, Copy, Default)]
pub struct Opts { pub errors: bool, pub comments: bool, pub glue: bool, pub positions: bool, pub kept: bool, pub include_same_line: bool, pub predefined_names: bool,
    /// generate conditional chains (off for C05, whose property is about macro usages only)
    pub conds: bool }

const NAMES: &[&str] = &["A", "B", "C", "DD", "M1", "F", "G", "XY"];

impl<'a> G<'a> {
    fn id(&mut self, p: &str) -> String { self.n += 1; format!("{}{}", p, self.n) }
    fn cname(&mut self) -> String { if self.opts.predefined_names && self.rng.chance(1, 6) { self.rng.pick_str(&["__LINE__", "__FILE__", "SV_COV_START"]).to_string() } else { self.rng.pick_str(NAMES).to_string() } }
    fn bt_seq(&mut self, nformals: usize, allow_usage: bool, prefix: &str) -> Vec<BT> {
        let mut v = vec![];
        let k = self.rng.range(1, 4);
        for i in 0..k {
            if i > 0 { v.push(BT::Sp); }
            match self.rng.below(12) {
                0 | 1 if nformals > 0 => v.push(BT::Formal(self.rng.below(nformals))),
                2 if nformals > 0 => { v.push(BT::Tok(self.id(prefix))); v.push(BT::Paste); v.push(BT::Formal(self.rng.below(nformals))); }
                3 => { let a = self.id(prefix); let b = self.id(prefix); v.push(BT::Tok(a)); v.push(BT::Paste); v.push(BT::Tok(b)); }
                4 if nformals > 0 => { v.push(BT::Quote(vec![BT::Formal(self.rng.below(nformals))])); v.push(BT::Tok(";".into())); }
                5 if allow_usage && !self.obj.is_empty() => { let i = self.rng.below(self.obj.len()); v.push(BT::Usage(self.obj[i].clone(), None)); }
                6 if allow_usage && !self.defs.is_empty() => { let i = self.rng.below(self.defs.len()); let (n, k, _) = self.defs[i].clone(); let args = (0..k).map(|_| if nformals > 0 && self.rng.chance(1, 2) { vec![BT::Formal(self.rng.below(nformals))] } else { vec![BT::Tok(self.id("g"))] }).collect(); v.push(BT::Usage(n, Some(args))); }
                7 => {
                    // an ordinary string literal in macro text is left untouched (IEEE 22.5.1): no substitution of formals, no `` removal,
                    // `//` and `/*` inside it are not comments; a token follows directly (no trailing trivia: known class D4)
                    let id = self.id("s");
                    let st = match self.rng.below(8) {
                        0 => format!("\"{}//x\"", id), 1 => format!("\"{}``y\"", id), 2 if nformals > 0 => format!("\"{} p0 \"", id),
                        3 => format!("\"{}/*z*/\"", id), 4 => format!("\"{},(\"", id), _ => format!("\"{}\"", id) };
                    v.push(BT::Str(st)); v.push(BT::Tok(";".into()));
                }
                8 => v.push(BT::Cont),
                _ => v.push(BT::Tok(self.id(prefix))),
            }
        }
        while matches!(v.last(), Some(BT::Cont) | Some(BT::Sp)) { v.pop(); }
        if v.is_empty() { v.push(BT::Tok(self.id(prefix))); }
        if self.opts.comments && self.rng.chance(1, 8) { v.push(BT::LineComment(self.id("lc"))); }
        v
    }
    fn arg(&mut self) -> Vec<BT> {
        match self.rng.below(9) {
            0 => vec![BT::Tok("(".into()), BT::Tok(self.id("g")), BT::Tok(",".into()), BT::Tok(self.id("g")), BT::Tok(")".into())],
            // commas are protected by every bracket kind and by strings
            6 => vec![BT::Tok("{".into()), BT::Tok(self.id("g")), BT::Tok(",".into()), BT::Tok(self.id("g")), BT::Tok("}".into())],
            7 => vec![BT::Tok("{".into()), BT::Tok(self.id("g")), BT::Tok(",".into()), BT::Tok("[".into()), BT::Tok(self.id("g")), BT::Tok(",".into()), BT::Tok(self.id("g")), BT::Tok("]".into()), BT::Tok("}".into())],
            8 => vec![BT::Str(format!("\"{},{}\"", self.id("s"), self.id("s"))), BT::Tok(";".into())],
            1 => vec![BT::Str(format!("\"{}\"", self.id("s"))), BT::Tok(";".into())],
            2 => vec![BT::Tok("[".into()), BT::Tok(self.id("g")), BT::Tok("]".into())],
            3 => vec![BT::Tok(self.id("g")), BT::Sp, BT::Tok(self.id("g"))],
            _ => vec![BT::Tok(self.id("g"))],
        }
    }
    pub fn items(&mut self, n: usize, v: &mut Vec<It>) {
        for _ in 0..n { self.item(v); }
    }
    fn sep(&mut self, v: &mut Vec<It>) { let s = self.rng.pick_str(&[" ", " ", "\n", "  ", "\t"]); v.push(It::Ws(s.to_string())); }
    fn item(&mut self, v: &mut Vec<It>) {
        let r = self.rng.below(100);
        match r {
            0..=24 => { v.push(It::Tok(self.id("w"))); self.sep(v); }
            25..=29 if self.opts.comments => { let c = if self.rng.chance(1, 2) { format!("/*{}*/", self.id("c")) } else { format!("//{}\n", self.id("c")) }; v.push(It::Comment(c)); v.push(It::Ws(" ".into())); }
            30..=33 => { v.push(It::Str(format!("\"{}\"", self.id("s")))); v.push(It::Tok(";".into())); self.sep(v); }
            34..=47 => {
                let name = self.rng.pick_str(NAMES).to_string();
                if !v.is_empty() { v.push(It::Ws("\n".into())); }
                let formals = if self.rng.chance(2, 5) { let k = self.rng.range(1, 3); let mut f = vec![]; let mut seen_default = false; for i in 0..k { let d = if seen_default || self.rng.chance(1, 3) { seen_default = true; Some(vec![BT::Tok(self.id("d"))]) } else { None }; f.push((format!("p{}", i), d)); } Some(f) } else { None };
                let nf = formals.as_ref().map(|f| f.len()).unwrap_or(0);
                let body = if self.rng.chance(7, 8) { Some(self.bt_seq(nf, true, "b")) } else { None };
                if self.depth == 0 {
                    self.defs.retain(|d| d.0 != name); self.obj.retain(|d| d != &name);
                    match &formals { Some(f) => { let req = f.iter().enumerate().filter(|x| x.1 .1.is_none()).map(|x| x.0 + 1).max().unwrap_or(0); self.defs.push((name.clone(), f.len(), req)); } None => self.obj.push(name.clone()) }
                }
                v.push(It::Define { name, formals, body });
            }
            48..=50 => { let n = if !self.obj.is_empty() && self.rng.chance(1, 2) { let i = self.rng.below(self.obj.len()); self.obj[i].clone() } else { self.rng.pick_str(NAMES).to_string() }; if self.depth == 0 { self.defs.retain(|d| d.0 != n); self.obj.retain(|d| d != &n); } if !v.is_empty() { v.push(It::Ws("\n".into())); } v.push(It::Undef(n)); }
            51 => { if self.depth == 0 { self.defs.clear(); self.obj.clear(); } if !v.is_empty() { v.push(It::Ws("\n".into())); } v.push(It::UndefAll); }
            52..=55 if self.opts.glue && self.depth == 0 => {
                // an expansion to the empty string directly followed by text (no blank in between)
                if !self.defs.iter().any(|d| d.0 == "EE") {
                    if !v.is_empty() { v.push(It::Ws("\n".into())); }
                    v.push(It::Define { name: "EE".into(), formals: Some(vec![("p0".into(), None)]), body: Some(vec![BT::Formal(0)]) });
                    self.defs.push(("EE".into(), 1, 1));
                }
                v.push(It::Tok(self.id("w"))); v.push(It::Ws(" ".into()));
                v.push(It::Usage { name: "EE".into(), args: Some(vec![None]), glue: true });
                v.push(It::Tok(self.id("w"))); self.sep(v);
            }
            52..=69 => {
                let mut glue = self.opts.glue && self.rng.chance(1, 4);
                if !self.obj.is_empty() && self.rng.chance(1, 2) {
                    glue = false;
                    let i = self.rng.below(self.obj.len()); v.push(It::Usage { name: self.obj[i].clone(), args: None, glue });
                } else if !self.defs.is_empty() {
                    let i = self.rng.below(self.defs.len()); let (n, k, req) = self.defs[i].clone();
                    let m = if self.opts.errors && self.rng.chance(1, 12) { self.rng.below(k + 1) } else if self.rng.chance(3, 4) { k } else { self.rng.range(req.min(k), k) };
                    let args: Vec<Option<Vec<BT>>> = (0..m).map(|j| if j >= req && self.rng.chance(1, 4) { None } else { Some(self.arg()) }).collect();
                    let args = if self.opts.errors && self.rng.chance(1, 15) { None } else { Some(args) };
                    if args.is_none() { glue = false; }
                    v.push(It::Usage { name: n, args, glue });
                } else if self.opts.errors && self.rng.chance(1, 10) {
                    glue = false;
                    v.push(It::Usage { name: self.rng.pick_str(NAMES).to_string(), args: None, glue: false });
                } else { glue = false; v.push(It::Tok(self.id("w"))); self.sep(v); }
                if glue { v.push(It::Tok(self.id("w"))); self.sep(v); }
            }
            70..=82 if self.depth < 3 && self.opts.conds => {
                self.depth += 1;
                let mut then = vec![]; let n1 = self.rng.range(0, 3); self.items(n1, &mut then);
                let ne = self.rng.below(3);
                let mut elsifs = vec![];
                for _ in 0..ne { let mut b = vec![]; let n2 = self.rng.range(0, 2); self.items(n2, &mut b); elsifs.push((self.cname(), b)); }
                let els = if self.rng.chance(1, 2) { let mut b = vec![]; let n3 = self.rng.range(0, 2); self.items(n3, &mut b); Some(b) } else { None };
                self.depth -= 1;
                if !v.is_empty() { v.push(It::Ws("\n".into())); }
                let fix = |mut b: Vec<It>| { if !b.is_empty() { b.push(It::Ws("\n".into())); } b };
                v.push(It::Cond { neg: self.rng.chance(1, 3), name: self.cname(), then: fix(then), elsifs: elsifs.into_iter().map(|(n, b)| (n, fix(b))).collect(), els: els.map(fix) });
            }
            83..=88 if !self.incs.is_empty() => {
                let i = self.rng.below(self.incs.len());
                let same = self.opts.include_same_line && self.rng.chance(1, 6) && v.last().map(|x| matches!(x, It::Ws(s) if s != "\n")).unwrap_or(false) && v.iter().rev().nth(1).map(|x| matches!(x, It::Tok(_))).unwrap_or(false);
                v.push(It::Include { file: self.incs[i].clone(), style: if self.rng.chance(1, 5) { 1 } else { 0 }, same_line: same });
            }
            89..=91 if self.opts.kept => { if !v.is_empty() { v.push(It::Ws("\n".into())); } v.push(It::Kept(self.rng.pick_str(&["`timescale 1ns/1ps", "`default_nettype none", "`celldefine", "`endcelldefine", "`resetall", "`pragma foo bar", "`unconnected_drive pull1", "`nounconnected_drive"]).to_string())); v.push(It::Ws("\n".into())); }
            92..=93 if self.opts.positions => { v.push(if self.rng.chance(1, 2) { It::PosFile } else { It::PosLine }); }
            _ => { v.push(It::Tok(self.id("w"))); self.sep(v); }
        }
    }
}

pub struct PCase {
    pub dir: String, pub files: BTreeMap<String, Vec<It>>, pub texts: BTreeMap<String, String>, pub top: String, pub incpaths: Vec<String>,
    pub predefs: Vec<(String, Option<String>)>, pub strip: bool, pub ignore: bool,
}

pub fn gen_case(rng: &mut Rng, id: usize, opts: Opts, with_includes: bool) -> PCase {
    let dir = format!("r{}", id);
    let mut files = BTreeMap::new(); let mut texts = BTreeMap::new();
    let nfiles = if with_includes { rng.below(4) } else { 0 };
    let mut refs: Vec<(String, String)> = vec![];
    for k in 0..nfiles {
        let via = rng.chance(1, 2);
        let fname = format!("i{}.svh", k);
        let stored = if via { format!("{}/inc{}/{}", dir, rng.below(2), fname) } else { format!("{}/{}", dir, fname) };
        let refname = if via { fname } else { stored.clone() };
        refs.push((stored, refname));
    }
    let mut counter = id * 100000;
    let predefs: Vec<(String, Option<String>)> = { let mut p = vec![]; if rng.chance(1, 3) { p.push(("A".to_string(), None)); } if rng.chance(1, 3) { p.push(("B".to_string(), Some(format!("pre{}", id)))); } p };
    let obj0: Vec<String> = predefs.iter().filter(|x| x.1.is_some()).map(|x| x.0.clone()).collect();
    for k in (0..nfiles).rev() {
        let avail: Vec<String> = refs[k + 1..].iter().map(|x| x.1.clone()).collect();
        let mut g = G { rng, n: counter, depth: 0, incs: avail, defs: vec![], obj: vec![], opts };
        let mut items = vec![]; let n = g.rng.range(1, 6); g.items(n, &mut items);
        counter = g.n;
        let mut s = String::new(); let mut m = vec![]; render(&items, &mut s, &mut m);
        files.insert(refs[k].0.clone(), items); texts.insert(refs[k].0.clone(), s);
    }
    // decoys: the same name also present where the search must NOT take it from — under an include path when the name exists as given
    // (cwd first), or in the other include path (the first include path that has it wins)
    for (k, (stored, refname)) in refs.clone().iter().enumerate() {
        if !rng.chance(1, 3) { continue; }
        let decoy = if stored == refname { format!("{}/inc{}/{}", dir, rng.below(2), refname) }
                    else if stored.contains("/inc0/") { stored.replace("/inc0/", "/inc1/") } else { stored.replace("/inc1/", "/inc0/") };
        if files.contains_key(&decoy) { continue; }
        let items = vec![It::Tok(format!("decoy{}x{}", id, k)), It::Ws("\n".into())];
        let mut s = String::new(); let mut m = vec![]; render(&items, &mut s, &mut m);
        files.insert(decoy.clone(), items); texts.insert(decoy, s);
    }
    let mut names: Vec<String> = refs.iter().map(|x| x.1.clone()).collect();
    if opts.errors && rng.chance(1, 20) { names.push("missing.svh".into()); }
    let mut g = G { rng, n: counter, depth: 0, incs: names, defs: vec![], obj: obj0, opts };
    let mut items = vec![]; let n = g.rng.range(3, 14); g.items(n, &mut items);
    let mut s = String::new(); let mut m = vec![]; render(&items, &mut s, &mut m);
    let top = format!("{}/top.sv", dir);
    files.insert(top.clone(), items); texts.insert(top.clone(), s);
    let mut incpaths = vec![format!("{}/inc0", dir), format!("{}/inc1", dir)];
    if rng.chance(1, 3) { incpaths.reverse(); }
    PCase { dir, files, texts, top, incpaths, predefs, strip: false, ignore: false }
}

pub fn reference(c: &PCase) -> (Result<(), RErr>, Eval) {
    let w = World { files: &c.files, texts: &c.texts, incpaths: &c.incpaths, strip: c.strip, ignore: c.ignore };
    let mut e = Eval { frags: vec![], defs: BTreeMap::new(), reads: vec![], uses_d4: false };
    for (k, v) in [("SV_COV_START", "0"), ("SV_COV_STOP", "1"), ("SV_COV_RESET", "2"), ("SV_COV_CHECK", "3"), ("SV_COV_MODULE", "10"), ("SV_COV_HIER", "11"), ("SV_COV_ASSERTION", "20"), ("SV_COV_FSM_STATE", "21"), ("SV_COV_STATEMENT", "22"), ("SV_COV_TOGGLE", "23"), ("SV_COV_OVERFLOW", "-2"), ("SV_COV_ERROR", "-1"), ("SV_COV_NOCOV", "0"), ("SV_COV_OK", "1"), ("SV_COV_PARTIAL", "2")] {
        e.defs.insert(k.to_string(), Some(Def { formals: None, body: Some(v.to_string()), body_bt: Some(vec![BT::Tok(v.to_string())]), defaults_bt: vec![], file: None, body_start: 0 }));
    }
    for (k, v) in &c.predefs {
        e.defs.insert(k.clone(), v.as_ref().map(|t| Def { formals: None, body: Some(t.clone()), body_bt: Some(vec![BT::Tok(t.clone())]), defaults_bt: vec![], file: None, body_start: 0 }));
    }
    let r = e.file(&w, &c.top, 0);
    (r, e)
}

//! C15 oracle: incomplete mode never fails with Error::Parse, covers a prefix of whole descriptions,
//! equals strict mode whenever strict accepts, and is insensitive to appended unparsable text.
use crate::{api::*, c01, corpus, gen, report::Report, util::{self, Fnv, Rng}};
use std::path::PathBuf;

/// (hash over kinds + leaf ranges, number of nodes); WhiteSpace subtrees skipped when `nows`
pub fn tree_hash(tree: &SyntaxTree, nows: bool) -> (u64, usize, usize) {
    let mut h = Fnv::new(); let mut n = 0usize; let mut depth = 0usize; let mut end = 0usize;
    for ev in tree.into_iter().event() {
        match ev {
            NodeEvent::Enter(RefNode::WhiteSpace(_)) if nows => { depth += 1; }
            NodeEvent::Leave(RefNode::WhiteSpace(_)) if nows => { depth -= 1; }
            NodeEvent::Enter(x) if depth == 0 => {
                n += 1;
                match x { RefNode::Locate(l) => { h.add(1); h.add(l.offset as u64); h.add(l.len as u64); end = l.offset + l.len; }
                          o => { h.add(2); h.add(crate::util::hash_bytes(o.to_string().as_bytes())); } }
            }
            NodeEvent::Leave(RefNode::Locate(_)) => {}
            NodeEvent::Leave(_) if depth == 0 => { h.add(3); }
            _ => {}
        }
    }
    (h.0, n, end)
}

fn parse(text: &str, lib: bool, inc: bool) -> Result<SyntaxTree, Error> {
    let d = no_defines(); let i = no_includes(); let p = PathBuf::from("t.sv");
    let r = if lib { parse_lib_str(text, &p, &d, &i, false, inc) } else { parse_sv_str(text, &p, &d, &i, false, inc) };
    r.map(|x| x.0)
}

fn preprocessed(text: &str) -> Option<String> {
    let d = no_defines(); let i = no_includes(); let p = PathBuf::from("t.sv");
    preprocess_str(text, &p, &d, &i, false, false, 0, 0).ok().map(|x| x.0.text().to_string())
}

pub fn check_one(text: &str, lib: bool, rng_salt: u64) -> Result<(bool, &'static str), String> {
    let pp = match preprocessed(text) { Some(t) => t, None => return Ok((false, "preprocess-error")) };
    let strict = parse(text, lib, false);
    let inc = parse(text, lib, true);
    let ti = match inc {
        Err(Error::Parse(x)) => return Err(format!("allow_incomplete returned Error::Parse({:?})", x)),
        Err(e) => return Err(format!("allow_incomplete returned {} although preprocessing succeeded", err_str(&e))),
        Ok(t) => t,
    };
    // prefix + lossless
    if let Err(m) = c01::check_tree(&ti, &pp, true) { return Err(format!("incomplete-mode tree is not a lossless prefix: {}", m)); }
    let (hi, ni, endi) = tree_hash(&ti, false);
    match &strict {
        Ok(ts) => {
            let (hs, ns, _) = tree_hash(ts, false);
            if (hs, ns) != (hi, ni) { return Err(format!("strict accepts but the trees differ: strict {} nodes, incomplete {} nodes", ns, ni)); }
        }
        Err(Error::Parse(_)) => {
            // the covered prefix consists of complete descriptions: strict mode accepts it and gives the same tree
            // (text is directive-free here or not: use the preprocessed text, which is a fixed point for kept directives)
            if endi > 0 && pp.is_char_boundary(endi) {
                let prefix = &pp[..endi];
                if let Some(pp2) = preprocessed(prefix) { if pp2 == prefix {
                    match parse(prefix, lib, false) {
                        Ok(tp) => { let (hp, np, _) = tree_hash(&tp, false); if (hp, np) != (hi, ni) { return Err(format!("prefix of {} bytes re-parsed strictly gives a different tree ({} vs {} nodes)", endi, np, ni)); } }
                        Err(e) => return Err(format!("incomplete mode covered {} bytes but strict mode rejects that prefix: {}", endi, err_str(&e))),
                    }
                } }
            }
        }
        Err(_) => {}
    }
    // appended unparsable text
    if let Ok(ts) = &strict {
        let garbage = ["\n)", "\n\u{1}", "\n]]", "\n= =", "\nendmodule"];
        let g = garbage[(rng_salt % garbage.len() as u64) as usize];
        let t2 = format!("{}{}", text, g);
        match parse(&t2, lib, true) {
            Err(e) => return Err(format!("appending {:?}: allow_incomplete returned {}", g, err_str(&e))),
            Ok(t2t) => {
                let a = tree_hash(ts, true); let b = tree_hash(&t2t, true);
                if (a.0, a.1) != (b.0, b.1) { return Err(format!("appending {:?} changes the tree (whitespace aside): {} vs {} nodes", g, a.1, b.1)); }
            }
        }
        return Ok((ni >= 5, "strict-accepts"));
    }
    Ok((ni >= 5, "strict-rejects"))
}

pub fn main(args: &[String]) {
    let workdir = &args[0]; let tier = &args[1]; let seed: u64 = args[2].parse().unwrap(); let out = &args[3];
    let thorough = tier == "thorough";
    let corp = corpus::load(workdir);
    let mut rng = Rng::new(seed ^ 0xc15);
    let mut cases: Vec<(String, bool, String)> = vec![];
    for it in &corp { cases.push((it.text.clone(), it.kind == "lib", "corpus".into())); }
    let ngen = if thorough { 40000 } else { 6000 };
    for i in 0..ngen {
        let base = rng.pick(&corp); let lib = base.kind == "lib";
        let atoms = if lib { gen::LIB_ATOMS } else { gen::SV_ATOMS };
        let (t, tag) = match i % 6 {
            // a `begin_keywords region still open at the end of the text: the preprocessor's own parse leaves the version stack non-empty,
            // so an entry point that does not reset it parses the first description under the wrong keyword set
            5 if !lib => (format!("{}\n`begin_keywords \"{}\"\nmodule zz_open; reg y; endmodule\n", base.text, rng.pick_str(&["1364-2001", "1364-1995", "1800-2005"])), "open-keywords-region-at-eof"),
            5 => (format!("{}\n`begin_keywords \"1364-1995\"\n", base.text), "open-keywords-region-at-eof"),
            // every optional slot of the two root productions filled: the compilation unit starts with a timeunits declaration
            4 if !lib => (format!("{}{}", rng.pick_str(&["timeunit 1ns;\n", "timeunit 1ns / 1ps;\n", "timeprecision 1ps;\n", "// h\ntimeunit 1ns;\ntimeprecision 1ps;\n", "timeprecision 1ps;\ntimeunit 1ns;\n"]), base.text), "timeunits-first"),
            4 => (format!("{}\n{}", base.text, rng.pick(&corp).text), "good+good"),
            0 => (gen::mutate(&base.text, &mut rng, atoms), "mutated"),
            1 => { let b2 = rng.pick(&corp); (format!("{}\n{}", base.text, gen::mutate(&b2.text, &mut rng, atoms)), "good+mutated") }
            2 => (gen::soup(&mut rng, atoms, 20), "soup"),
            _ => { let cut = rng.below(base.text.len() + 1); let mut c = cut; while !base.text.is_char_boundary(c) { c -= 1; } (base.text[..c].to_string(), "truncated") }
        };
        cases.push((t, lib, tag.into()));
    }
    let cases = std::sync::Arc::new(cases);
    let c2 = cases.clone();
    let results = util::par_map(cases.len(), util::env_usize("SVH_THREADS", 16), move |i| {
        let (t, lib, _) = &c2[i];
        let (t, lib) = (t.clone(), *lib);
        match std::panic::catch_unwind(std::panic::AssertUnwindSafe(|| check_one(&t, lib, i as u64))) { Ok(r) => r, Err(e) => Err(format!("panic: {}", util::panic_msg(e))) }
    });
    let mut rep = Report::new("every corpus program + mutated / concatenated / soup / truncated variants + programs with a leading file-level timeunits declaration, both grammars, through parse_*_str with allow_incomplete on and off; non-trivial = incomplete-mode tree with >= 5 nodes; distinct by (grammar, text)");
    for ((t, lib, tag), r) in cases.iter().zip(results.into_iter()) {
        let key = format!("{}{}", lib, t);
        match r {
            Ok((nt, what)) => { rep.case(key.as_bytes(), nt); rep.count(what); rep.count(&format!("tag:{}", tag));
                if nt && t.len() < 120 { rep.sample(format!("[{}] {}", what, t)); } }
            Err(msg) => {
                rep.case(key.as_bytes(), true);
                let lib = *lib;
                let small = crate::report::shrink(t, &|x| matches!(std::panic::catch_unwind(std::panic::AssertUnwindSafe(|| check_one(x, lib, 0))), Ok(Err(_)) | Err(_)));
                rep.violation(&msg, &small, &format!("lib={} tag={}", lib, tag));
            }
        }
    }
    rep.write(out);
    println!("ok");
}

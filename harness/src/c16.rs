//! C16 oracle + correspondence: Iter / EventIter / unwrap_node! / get_str / get_str_trim on real trees.
use crate::{api::*, corpus, report::Report, skel::Kinds, util::{self, Fnv, Rng}};
use std::path::PathBuf;
use std::io::Write;
use sv_parser::{unwrap_locate, unwrap_node};

fn kind_hash(h: &mut Fnv, n: &RefNode, kinds: &Kinds) {
    match n { RefNode::Locate(x) => { h.add(1); h.add(x.offset as u64); h.add(x.len as u64); h.add(x.line as u64); }
              x => { h.add(2); h.add(kinds.of(x)); } }
}

pub fn iter_hash<'a>(it: impl Iterator<Item = RefNode<'a>>, kinds: &Kinds) -> (u64, usize) {
    let mut h = Fnv::new(); let mut n = 0;
    for x in it { kind_hash(&mut h, &x, kinds); n += 1; }
    (h.0, n)
}

pub fn event_hash<'a>(it: impl Iterator<Item = NodeEvent<'a>>, kinds: &Kinds) -> (u64, usize) {
    let mut h = Fnv::new(); let mut n = 0;
    for e in it {
        n += 1;
        match e {
            NodeEvent::Enter(x) => kind_hash(&mut h, &x, kinds),
            NodeEvent::Leave(RefNode::Locate(_)) => { h.add(4); }
            NodeEvent::Leave(x) => { h.add(3); h.add(kinds.of(&x)); }
        }
    }
    (h.0, n)
}

fn range_of(s: Option<&str>, base: usize) -> String {
    match s { None => "none".into(), Some(x) => format!("{}-{}", x.as_ptr() as usize - base, x.as_ptr() as usize - base + x.len()) }
}

/// encode the tree below `root` (as observed through the event stream) for the model
fn encode<'a>(root: RefNode<'a>, kinds: &Kinds) -> String {
    let mut s = String::new();
    for e in root.into_iter().event() {
        match e {
            NodeEvent::Enter(RefNode::Locate(x)) => s.push_str(&format!("L{},{},{} ", x.offset, x.len, x.line)),
            NodeEvent::Enter(x) => s.push_str(&format!("N{} ", kinds.of(&x))),
            NodeEvent::Leave(RefNode::Locate(_)) => {}
            NodeEvent::Leave(_) => s.push_str(") "),
        }
    }
    s.trim_end().to_string()
}

fn o2_fail(o: &mut TreeObs, m: String) { o.failures.push(m); }

pub struct TreeObs { pub lines: Vec<(String, String)>, pub failures: Vec<String>, pub known: Vec<String>, pub nodes: usize }

pub fn observe(tree: &SyntaxTree, kinds: &Kinds, rng: &mut Rng, nquery: usize) -> TreeObs {
    let mut o = TreeObs { lines: vec![], failures: vec![], known: vec![], nodes: 0 };
    let ws_kind = *kinds.id.get("WhiteSpace").unwrap();
    let all: Vec<RefNode> = tree.into_iter().collect();
    o.nodes = all.len();
    if all.is_empty() { return o; }
    let root = all[0].clone();
    let base = match tree.get_str(vec![root.clone()]) { Some(s) => { let first = unwrap_locate!(root.clone()).map(|l| l.offset).unwrap_or(0); s.as_ptr() as usize - first } None => 0 };
    // ---- direct oracle on the root
    // (1) events are balanced and Enter sequence == Iter sequence
    let mut stack: Vec<RefNode> = vec![]; let mut enters: Vec<RefNode> = vec![]; let mut nleave = 0usize;
    for e in root.clone().into_iter().event() {
        match e {
            NodeEvent::Enter(x) => { stack.push(x.clone()); enters.push(x); }
            NodeEvent::Leave(x) => { nleave += 1; match stack.pop() { Some(y) if y == x => {}, other => { o.failures.push(format!("Leave({}) does not match open Enter({:?})", x, other.map(|z| z.to_string()))); break; } } }
        }
    }
    if !stack.is_empty() { o.failures.push(format!("{} Enter events never left", stack.len())); }
    if enters.len() != all.len() || enters.iter().zip(all.iter()).any(|(a, b)| a != b) { o.failures.push("Enter sequence differs from plain iteration".into()); }
    if nleave != enters.len() { o.failures.push(format!("{} Enter vs {} Leave", enters.len(), nleave)); }
    // (1b) source order: the tokens met by the iteration stand at strictly increasing offsets
    { let mut last: Option<(usize, usize)> = None;
      for x in all.iter() { if let RefNode::Locate(l) = x {
          if let Some((po, pn)) = last { if l.offset < po + pn { o2_fail(&mut o, format!("iteration is not in source order: token at offset {} (len {}) is followed by the token at offset {}", po, pn, l.offset)); break; } }
          last = Some((l.offset, l.len)); } } }
    // (2) subtree sizes from events; iteration of node k == contiguous segment of the root's pre-order
    let mut size = vec![0usize; all.len()];
    { let mut st: Vec<usize> = vec![]; let mut idx = 0usize;
      for e in root.clone().into_iter().event() { match e { NodeEvent::Enter(_) => { st.push(idx); idx += 1; } NodeEvent::Leave(_) => { let k = st.pop().unwrap(); size[k] = idx - k; } } } }
    let mut picks: Vec<usize> = vec![0];
    for _ in 0..nquery { picks.push(rng.below(all.len())); }
    for &k in &picks {
        let sub: Vec<RefNode> = all[k].clone().into_iter().collect();
        if sub.is_empty() || sub[0] != all[k] { o.failures.push(format!("iterating node #{} ({}) does not yield it first", k, all[k])); continue; }
        if sub.len() != size[k] || sub.iter().zip(all[k..k + size[k].min(all.len() - k)].iter()).any(|(a, b)| a != b) {
            o.failures.push(format!("iterating node #{} ({}) yields {} nodes, its pre-order segment has {}", k, all[k], sub.len(), size[k]));
        }
        // (3) unwrap_node!/unwrap_locate! = first of the kind in pre-order
        let want_loc = sub.iter().find_map(|x| if let RefNode::Locate(l) = x { Some(*l) } else { None });
        if unwrap_locate!(all[k].clone()) != want_loc { o.failures.push(format!("unwrap_locate! on node #{} is not the first Locate", k)); }
        let got = unwrap_node!(all[k].clone(), SimpleIdentifier, Keyword);
        let want = sub.iter().find(|x| matches!(x, RefNode::SimpleIdentifier(_) | RefNode::Keyword(_))).cloned();
        if got != want { o.failures.push(format!("unwrap_node!(SimpleIdentifier, Keyword) on node #{} is not the first match in pre-order", k)); }
        // (4) get_str_trim vs the depth-counting specification
        let mut depth = 0usize; let mut beg: Option<usize> = None; let mut end = 0usize; let mut nested = false;
        for e in all[k].clone().into_iter().event() {
            match e {
                NodeEvent::Enter(RefNode::WhiteSpace(_)) => { if depth > 0 { nested = true; } depth += 1; }
                NodeEvent::Leave(RefNode::WhiteSpace(_)) => { depth -= 1; }
                NodeEvent::Enter(RefNode::Locate(x)) if depth == 0 => { if beg.is_none() { beg = Some(x.offset); } end = x.offset + x.len; }
                _ => {}
            }
        }
        let spec = beg.map(|b| format!("{}-{}", b, end)).unwrap_or("none".into());
        let got_trim = range_of(tree.get_str_trim(vec![all[k].clone()]), base);
        if got_trim != spec {
            o.failures.push(format!("get_str_trim of node #{} ({}) = {} but first..last non-whitespace token = {}{}", k, all[k], got_trim, spec, if nested { " (WhiteSpace nested in WhiteSpace)" } else { "" }));
        }
        // ---- correspondence line for the model
        let (ih, inn) = iter_hash(all[k].clone().into_iter(), kinds);
        let (eh, en) = event_hash(all[k].clone().into_iter().event(), kinds);
        let impl_line = format!("{} {} {} {} {} {}", ih, inn, eh, en, range_of(tree.get_str(vec![all[k].clone()]), base), got_trim);
        o.lines.push((format!("c16 {} {}", ws_kind, encode(all[k].clone(), kinds)), impl_line));
    }
    o
}

pub fn main(args: &[String]) {
    let workdir = args[0].clone(); let tier = &args[1]; let seed: u64 = args[2].parse().unwrap(); let out = &args[3];
    let thorough = tier == "thorough";
    let corp = std::sync::Arc::new(corpus::load(&workdir));
    let step = if thorough { 1 } else { 2 };
    let idxs: Vec<usize> = (0..corp.len()).filter(|i| (i + seed as usize) % step == 0).collect();
    let idxs = std::sync::Arc::new(idxs);
    let (c2, i2, w2) = (corp.clone(), idxs.clone(), workdir.clone());
    let nq = if thorough { 12 } else { 5 };
    let results = util::par_map(idxs.len(), util::env_usize("SVH_THREADS", 16), move |j| {
        let it = &c2[i2[j]];
        let kinds = Kinds::load(&w2);
        let mut rng = Rng::new(seed ^ (i2[j] as u64) << 8);
        let d = no_defines(); let inc = no_includes();
        let path = PathBuf::from("t.sv");
        // add a kept directive + comments so that nested WhiteSpace occurs in some inputs
        let text = if rng.chance(1, 3) { it.text.replacen(";", "; `celldefine /* c */\n", 1) } else { it.text.clone() };
        let r = std::panic::catch_unwind(std::panic::AssertUnwindSafe(|| {
            let pr = if it.kind == "lib" { parse_lib_str(&text, &path, &d, &inc, false, false) } else { parse_sv_str(&text, &path, &d, &inc, false, false) };
            match pr { Ok((tree, _)) => Some(observe(&tree, &kinds, &mut rng, nq)), Err(_) => None }
        }));
        (text, r.map_err(util::panic_msg))
    });
    let mut rep = Report::new("trees of accepted corpus programs (some with an inserted kept directive and comment); per tree the root and random nodes are queried (pre-order segment, source order of the tokens, balanced events, unwrap macros, get_str_trim); non-trivial = tree with >= 10 nodes; distinct by text hash");
    let mut fc = std::fs::File::create(format!("{}.cases", out)).unwrap();
    let mut fi = std::fs::File::create(format!("{}.impl", out)).unwrap();
    for (text, r) in results {
        match r {
            Err(p) => { rep.case(text.as_bytes(), true); rep.violation(&format!("panic: {}", p), &text, ""); }
            Ok(None) => { rep.case(text.as_bytes(), false); rep.count("rejected"); }
            Ok(Some(o)) => {
                rep.case(text.as_bytes(), o.nodes >= 10);
                rep.count("trees"); rep.add("nodes", o.nodes); rep.add("queries", o.lines.len());
                for f in &o.failures { rep.violation(f, &text, ""); }
                for k in &o.known { rep.known("get-str-trim-nested-whitespace", k, &text, ""); }
                if rep.samples.len() < 3 && text.len() < 160 { rep.sample(format!("{} nodes: {}", o.nodes, text)); }
                for (c, i) in o.lines { writeln!(fc, "{}", c).unwrap(); writeln!(fi, "{}", i).unwrap(); }
            }
        }
    }
    rep.write(&format!("{}.json", out));
    println!("ok");
}

//! Direct access to the five parser entry points of sv-parser-parser, observed as skeletons.
use crate::skel::{skel_of, skel_str, Kinds, Skel};
use nom::combinator::all_consuming;
use nom_greedyerror::error_position;
use sv_parser_parser::{lib_parser, lib_parser_incomplete, pp_parser, sv_parser, sv_parser_incomplete, Span, SpanInfo};
use sv_parser_parser::utils::verif;
use sv_parser_syntaxtree::{AnyNode, RefNode};

#[derive(Clone, Debug)]
pub enum Obs {
    Ok { q: usize, skel: Skel, dir: usize, vers: usize, text: Option<String> },
    Err { pos: Option<usize>, dir: usize, vers: usize },
}

impl Obs {
    /// canonical line, same format as the Lean driver's `parse` response
    pub fn line(&self) -> String {
        match self {
            Obs::Ok { q, skel, dir, vers, text } => {
                let base = format!("ok {} {} {} {} {} {}", q, skel.leaves, skel.nodes, skel.hash, dir, vers);
                if let Some(t) = text { format!("{} {}", base, t) } else { base }
            }
            Obs::Err { pos, dir, vers } => format!("err {} {} {}", pos.map(|x| x as i64).unwrap_or(-1), dir, vers),
        }
    }
    pub fn is_ok(&self) -> bool { matches!(self, Obs::Ok { .. }) }
}

fn finish<'a, T: Into<AnyNode>>(r: sv_parser_parser::IResult<Span<'a>, T>, total: usize, kinds: &Kinds, verbose: bool) -> Obs {
    let (dir, vers) = verif::state_depths();
    match r {
        Ok((rest, x)) => {
            let any: AnyNode = x.into();
            let rn: RefNode = (&any).into();
            let skel = skel_of(rn.clone(), kinds);
            let text = if verbose { Some(skel_str(rn).trim_end().to_string()) } else { None };
            Obs::Ok { q: total - rest.fragment().len(), skel, dir, vers, text }
        }
        Err(nom::Err::Error(e)) | Err(nom::Err::Failure(e)) => Obs::Err { pos: error_position(&e), dir, vers },
        Err(nom::Err::Incomplete(_)) => Obs::Err { pos: None, dir, vers },
    }
}

/// kind ∈ sv | svi | lib | libi | pp ; cap: Some(None)=unbounded, Some(Some(n)), None = leave as is
pub fn run(kind: &str, cap: Option<Option<usize>>, text: &str, kinds: &Kinds, verbose: bool) -> Obs {
    if let Some(c) = cap { verif::set_memo_capacity(c); }
    let span = Span::new_extra(text, SpanInfo::default());
    let n = text.len();
    match kind {
        "sv" => finish(sv_parser(span), n, kinds, verbose),
        "svi" => finish(sv_parser_incomplete(span), n, kinds, verbose),
        "lib" => finish(lib_parser(span), n, kinds, verbose),
        "libi" => finish(lib_parser_incomplete(span), n, kinds, verbose),
        "pp" => finish(all_consuming(pp_parser)(span), n, kinds, verbose),
        _ => panic!("bad kind"),
    }
}

/// run entry `kind` with unbounded memo capacity, then probe the storage for every (production name, offset, in-directive flag);
/// entries `name:pos:dir:len|F`, sorted and comma-joined (same format as the model's `parsem`)
pub fn memo_dump(kind: &str, text: &str, names: &str) -> String {
    verif::set_memo_capacity(None);
    let span = Span::new_extra(text, SpanInfo::default());
    match kind {
        "sv" => { let _ = sv_parser(span); } "svi" => { let _ = sv_parser_incomplete(span); }
        "lib" => { let _ = lib_parser(span); } "libi" => { let _ = lib_parser_incomplete(span); }
        "pp" => { let _ = nom::combinator::all_consuming(pp_parser)(span); }
        _ => panic!("kind"),
    }
    let mut out: Vec<String> = vec![];
    for n in names.split_whitespace() {
        let n: &'static str = Box::leak(n.to_string().into_boxed_str());
        for pos in 0..=text.len() {
            for dir in [false, true] {
                let ptr = unsafe { text.as_ptr().add(pos) };
                if let Some(v) = verif::memo_probe(n, ptr, dir) {
                    out.push(format!("{}:{}:{}:{}", n, pos, if dir { 1 } else { 0 }, match v { Some(l) => l.to_string(), None => "F".into() }));
                }
            }
        }
    }
    out.sort();
    out.join(",")
}

const RUST_KW: &[&str] = &["const", "static", "type", "struct", "enum", "use", "mod", "fn", "let", "match", "loop", "while", "for", "if", "else", "return", "break", "continue", "ref", "mut", "move", "pub", "crate", "super", "self", "trait", "impl", "where", "unsafe", "extern", "dyn", "async", "await", "in", "as", "true", "false", "final", "virtual", "override", "priv", "typeof", "unsized", "yield", "try", "macro", "abstract", "become", "box", "do"];

thread_local!(static NAMES: std::cell::RefCell<Vec<&'static str>> = std::cell::RefCell::new(vec![]));

/// canonical hash of this thread's packrat table as left by the last parse of `text` (same definition as the model's `memoHash`):
/// entries (production index, position, in-directive flag, stored length + 1 | 0) in lexicographic order
pub fn memo_hash(text: &str, workdir: &str) -> u64 {
    NAMES.with(|n| {
        if n.borrow().is_empty() {
            let src = std::fs::read_to_string(format!("{}/names.txt", workdir)).unwrap();
            *n.borrow_mut() = src.split_whitespace().map(|x| { let s = if RUST_KW.contains(&x) { format!("r#{}", x) } else { x.to_string() }; let l: &'static str = Box::leak(s.into_boxed_str()); l }).collect();
        }
        let mut h = crate::util::Fnv::new();
        for (idx, name) in n.borrow().iter().enumerate() {
            for pos in 0..=text.len() {
                let ptr = unsafe { text.as_ptr().add(pos) };
                for dir in [false, true] {
                    if let Some(v) = verif::memo_probe(name, ptr, dir) {
                        h.add(idx as u64); h.add(pos as u64); h.add(dir as u64); h.add(match v { Some(l) => l as u64 + 1, None => 0 });
                    }
                }
            }
        }
        h.0
    })
}

//! Token view of an accepted tree: leaves that are not inside WhiteSpace, with context flags.
use crate::api::*;

#[derive(Clone, Debug)]
pub struct Tok { pub off: usize, pub len: usize, pub in_directive: bool, pub after_escaped: bool, pub kind_path: Vec<String>, pub escaped: bool }

/// tokens (non-whitespace leaves) in source order, with the names of their ancestors
pub fn tokens(tree: &SyntaxTree) -> Vec<Tok> {
    let mut out = vec![]; let mut stack: Vec<String> = vec![]; let mut ws = 0usize; let mut dir = 0usize;
    let mut prev_escaped = false;
    for ev in tree.into_iter().event() {
        match ev {
            NodeEvent::Enter(RefNode::Locate(l)) => {
                if ws == 0 {
                    let escaped = stack.last().map(|s| s == "EscapedIdentifier").unwrap_or(false);
                    out.push(Tok { off: l.offset, len: l.len, in_directive: dir > 0, after_escaped: prev_escaped, kind_path: stack.clone(), escaped });
                    prev_escaped = escaped;
                } else if dir > 0 && ws > 0 {
                    // tokens of a directive that sits in whitespace: part of trivia
                }
            }
            NodeEvent::Enter(x) => {
                let name = x.to_string();
                if let RefNode::WhiteSpace(_) = x { ws += 1; }
                if let RefNode::CompilerDirective(_) = x { dir += 1; }
                stack.push(name);
            }
            NodeEvent::Leave(RefNode::Locate(_)) => {}
            NodeEvent::Leave(x) => {
                if let RefNode::WhiteSpace(_) = x { ws -= 1; }
                if let RefNode::CompilerDirective(_) = x { dir -= 1; }
                stack.pop();
            }
        }
    }
    out
}

/// (kind, text) sequence of the tree with WhiteSpace subtrees and offsets disregarded
pub fn shape(tree: &SyntaxTree, text: &str) -> u64 {
    let mut h = crate::util::Fnv::new(); let mut ws = 0usize;
    for ev in tree.into_iter().event() {
        match ev {
            NodeEvent::Enter(RefNode::WhiteSpace(_)) => ws += 1,
            NodeEvent::Leave(RefNode::WhiteSpace(_)) => ws -= 1,
            NodeEvent::Enter(RefNode::Locate(l)) if ws == 0 => { h.add(1); h.add(crate::util::hash_bytes(text[l.offset..l.offset + l.len].as_bytes())); }
            NodeEvent::Enter(x) if ws == 0 => { h.add(2); h.add(crate::util::hash_bytes(x.to_string().as_bytes())); }
            NodeEvent::Leave(RefNode::Locate(_)) => {}
            NodeEvent::Leave(_) if ws == 0 => h.add(3),
            _ => {}
        }
    }
    h.0
}

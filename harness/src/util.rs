//! Shared helpers: PRNG, hex, JSON writer, panic capture, parallel map.
use std::fmt::Write as _;

#[derive(Clone)]
pub struct Rng(pub u64);
impl Rng {
    pub fn new(seed: u64) -> Self { Rng(seed.wrapping_mul(0x9E3779B97F4A7C15) ^ 0xD1B54A32D192ED03) }
    pub fn next(&mut self) -> u64 {
        self.0 = self.0.wrapping_add(0x9E3779B97F4A7C15);
        let mut z = self.0;
        z = (z ^ (z >> 30)).wrapping_mul(0xBF58476D1CE4E5B9);
        z = (z ^ (z >> 27)).wrapping_mul(0x94D049BB133111EB);
        z ^ (z >> 31)
    }
    pub fn below(&mut self, n: usize) -> usize { if n == 0 { 0 } else { (self.next() % n as u64) as usize } }
    pub fn range(&mut self, lo: usize, hi: usize) -> usize { lo + self.below(hi - lo + 1) }
    pub fn chance(&mut self, num: usize, den: usize) -> bool { self.below(den) < num }
    pub fn pick<'a, T>(&mut self, v: &'a [T]) -> &'a T { &v[self.below(v.len())] }
    pub fn pick_str<'a>(&mut self, v: &[&'a str]) -> &'a str { v[self.below(v.len())] }
    pub fn fork(&mut self) -> Rng { Rng(self.next()) }
}

pub fn hex(b: &[u8]) -> String {
    let mut s = String::with_capacity(b.len() * 2);
    for x in b { let _ = write!(s, "{:02x}", x); }
    s
}

pub fn unhex(s: &str) -> Vec<u8> {
    let b = s.as_bytes();
    (0..b.len() / 2).map(|i| u8::from_str_radix(std::str::from_utf8(&b[2 * i..2 * i + 2]).unwrap(), 16).unwrap()).collect()
}

pub fn jstr(s: &str) -> String {
    let mut o = String::with_capacity(s.len() + 2);
    o.push('"');
    for c in s.chars() {
        match c {
            '"' => o.push_str("\\\""),
            '\\' => o.push_str("\\\\"),
            '\n' => o.push_str("\\n"),
            '\r' => o.push_str("\\r"),
            '\t' => o.push_str("\\t"),
            c if (c as u32) < 0x20 => { let _ = write!(o, "\\u{:04x}", c as u32); }
            c => o.push(c),
        }
    }
    o.push('"');
    o
}

pub fn jbytes(b: &[u8]) -> String { jstr(&String::from_utf8_lossy(b)) }

/// FNV-1a over a stream of integers, mod 2^64 (same as `fnvStep` in the Lean driver)
#[derive(Clone, Copy)]
pub struct Fnv(pub u64);
impl Fnv {
    pub fn new() -> Self { Fnv(14695981039346656037) }
    pub fn add(&mut self, x: u64) { self.0 = (self.0 ^ x).wrapping_mul(1099511628211); }
}

pub fn hash_bytes(b: &[u8]) -> u64 {
    let mut h = Fnv::new();
    for x in b { h.add(*x as u64); }
    h.0
}

/// Run `f` on a fresh thread with a big stack, catching panics; returns Err(message) on panic.
pub fn guarded<T: Send + 'static>(stack_mb: usize, f: impl FnOnce() -> T + Send + 'static) -> Result<T, String> {
    let h = std::thread::Builder::new().stack_size(stack_mb << 20).spawn(move || {
        std::panic::catch_unwind(std::panic::AssertUnwindSafe(f))
    }).unwrap();
    match h.join() {
        Ok(Ok(v)) => Ok(v),
        Ok(Err(e)) => Err(panic_msg(e)),
        Err(e) => Err(panic_msg(e)),
    }
}

pub fn panic_msg(e: Box<dyn std::any::Any + Send>) -> String {
    if let Some(s) = e.downcast_ref::<&str>() { s.to_string() }
    else if let Some(s) = e.downcast_ref::<String>() { s.clone() }
    else { "panic".to_string() }
}

/// Parallel map over indices with `threads` workers (each worker has its own thread-locals).
pub fn par_map<T: Send + 'static>(n: usize, threads: usize, f: impl Fn(usize) -> T + Send + Sync + 'static) -> Vec<T> {
    use std::sync::{Arc, Mutex, atomic::{AtomicUsize, Ordering}};
    let f = Arc::new(f);
    let next = Arc::new(AtomicUsize::new(0));
    let out: Arc<Mutex<Vec<Option<T>>>> = Arc::new(Mutex::new((0..n).map(|_| None).collect()));
    let mut hs = vec![];
    for _ in 0..threads.max(1) {
        let f = f.clone(); let next = next.clone(); let out = out.clone();
        hs.push(std::thread::Builder::new().stack_size(256 << 20).spawn(move || {
            loop {
                let i = next.fetch_add(1, Ordering::SeqCst);
                if i >= n { break; }
                let v = f(i);
                out.lock().unwrap()[i] = Some(v);
            }
        }).unwrap());
    }
    for h in hs { let _ = h.join(); }
    let mut g = out.lock().unwrap();
    g.drain(..).map(|x| x.expect("worker died")).collect()
}

pub fn silence_panics() {
    std::panic::set_hook(Box::new(|_| {}));
}

pub fn env_usize(name: &str, default: usize) -> usize {
    std::env::var(name).ok().and_then(|x| x.parse().ok()).unwrap_or(default)
}

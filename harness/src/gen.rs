//! Input generators shared by several checks: token soups and mutators.
use crate::util::Rng;

pub const PP_ATOMS: &[&str] = &[
    "`define ", "`define A 1\n", "`define B(x) x+1\n", "`define C(x=3,y) x``y\n", "`undef ", "`undefineall\n",
    "`ifdef ", "`ifndef ", "`elsif ", "`else\n", "`endif\n", "`include ", "\"f.svh\"", "<f.svh>",
    "`timescale 1ns/1ps\n", "`default_nettype none\n", "`default_nettype wire\n", "`celldefine\n", "`endcelldefine\n",
    "`resetall\n", "`line 3 \"f\" 1\n", "`pragma foo bar\n", "`begin_keywords \"1364-2001\"\n", "`end_keywords\n",
    "`unconnected_drive pull1\n", "`nounconnected_drive\n", "`__FILE__", "`__LINE__", "`A", "`B(2)", "`C(,4)", "`UNDEF",
    "A", "B", "x", "module", "endmodule", "wire", "reg", "logic", "a1", "_z", "$display", "begin", "end",
    " ", "  ", "\t", "\n", "\r\n", "\n\n", ";", ",", "(", ")", "[", "]", "{", "}", "=", "+", "-", "*", "/", "#", "@", ".", ":", "?",
    "1", "42", "8'hff", "1.5", "'0", "\"str\"", "\"a\\\"b\"", "\"`A\"", "\"x//y\"", "// c\n", "/* c */", "/* a\n b */", "//\n", "/**/",
    "\\esc ", "\\a+b ", "\\", "`", "\"", "/*", "``", "`\"", "`\\`\"", "\\\n", "é", "日本", "\u{1f600}", "\x0c", "\x01", "\x7f",
];

pub const SV_ATOMS: &[&str] = &[
    "module ", "endmodule\n", "interface ", "endinterface\n", "package ", "endpackage\n", "program ", "endprogram\n",
    "class ", "endclass\n", "function ", "endfunction\n", "task ", "endtask\n", "begin ", "end ", "if ", "else ", "for ", "while ",
    "case ", "endcase ", "always ", "always_comb ", "always_ff ", "initial ", "assign ", "wire ", "reg ", "logic ", "int ", "bit ",
    "input ", "output ", "inout ", "parameter ", "localparam ", "typedef ", "enum ", "struct ", "generate ", "endgenerate ",
    "posedge ", "negedge ", "return ", "void ", "automatic ", "static ", "const ", "var ", "signed ", "unsigned ",
    "m", "a", "b", "c", "clk", "rst", "x1", "_y", "$display", "$finish", "\\esc ", "foo_bar", "wirex", "module_x", "end1",
    " ", "\n", "\t", ";", ",", "(", ")", "[", "]", "{", "}", "'{", "=", "<=", "==", "!=", "+", "-", "*", "/", "%", "&", "|", "^", "~",
    "&&", "||", "!", "<", ">", "<<", ">>", "?", ":", "::", ".", "@", "#", "##", "->", "'", "++", "--", "+=", "*",
    "0", "1", "42", "4'b1010", "8'hFF", "'0", "'1", "'x", "1.5", "2e3", "10ns", "\"s\"", "\"a\\nb\"",
    "// c\n", "/* c */", "(* attr *)", "`timescale 1ns/1ps\n", "`default_nettype none\n", "`celldefine\n", "`resetall\n",
    "`begin_keywords \"1364-2005\"\n", "`end_keywords\n", "é", "\x0c", "\x01",
];

pub const LIB_ATOMS: &[&str] = &[
    "library ", "include ", "config ", "endconfig ", "design ", "default ", "liblist ", "instance ", "cell ", "use ", "-incdir ",
    "lib1", "a.v", "../x/*.v", "./y/...", "top", "work", ";", ",", " ", "\n", ".", ":", "// c\n", "/* c */", "\"s\"",
];

pub fn soup(rng: &mut Rng, atoms: &[&str], max_atoms: usize) -> String {
    let n = rng.range(0, max_atoms);
    let mut s = String::new();
    for _ in 0..n { let a: &str = atoms[rng.below(atoms.len())]; s.push_str(a); }
    s
}

/// one random edit: byte insert / delete / replace / truncate / duplicate-slice, kept valid UTF-8
pub fn mutate(text: &str, rng: &mut Rng, atoms: &[&str]) -> String {
    let chars: Vec<char> = text.chars().collect();
    if chars.is_empty() { return atoms[rng.below(atoms.len())].to_string(); }
    let i = rng.below(chars.len() + 1);
    let mut out: Vec<char> = chars.clone();
    match rng.below(6) {
        0 => { let ins: Vec<char> = atoms[rng.below(atoms.len())].chars().collect(); for (k, c) in ins.iter().enumerate() { out.insert((i + k).min(out.len()), *c); } }
        1 => { if i < out.len() { out.remove(i); } }
        2 => { if i < out.len() { out[i] = *rng.pick(&['`', '"', '\\', '/', '*', '\n', ' ', ';', '(', ')', 'x', '\u{1}', '\u{c}']); } }
        3 => { out.truncate(i); }
        4 => { let j = rng.below(chars.len() + 1); let (a, b) = (i.min(j), i.max(j)); let sl: Vec<char> = chars[a..b.min(a + 40)].to_vec(); for (k, c) in sl.iter().enumerate() { out.insert((a + k).min(out.len()), *c); } }
        _ => { let j = rng.below(chars.len() + 1); let (a, b) = (i.min(j), i.max(j)); out.drain(a..b.min(a + 20)); }
    }
    out.into_iter().collect()
}

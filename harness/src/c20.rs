//! C20 oracle: file, string and two-step entry points agree for every flag combination.
use crate::{calls::{self, Call, Entry}, corpus, gen_pp, ppcmp, report::Report, util::{self, Rng}};

pub fn main(args: &[String]) {
    let workdir = &args[0]; let tier = &args[1]; let seed: u64 = args[2].parse().unwrap(); let out = &args[3];
    let thorough = tier == "thorough";
    let mut rng = Rng::new(seed ^ 0xc20);
    let root = format!("{}.fs", out);
    let _ = std::fs::remove_dir_all(&root); std::fs::create_dir_all(&root).unwrap();
    let corp = corpus::load(workdir);
    let n = if thorough { 6000 } else { 1200 };
    let mut cases = vec![];
    for i in 0..n {
        let c = match i % 4 {
            0 | 1 => gen_pp::gen_case(&mut rng, i, i % 8 == 1),
            2 => { let b = rng.pick(&corp); let mut c = calls::text_case(&format!("c{}", i), &b.text); if rng.chance(1, 2) { c.defines.push(("A".into(), None)); } c }
            _ => { // bad files: missing top, non-UTF-8 top, top including a missing file
                let mut c = calls::text_case(&format!("c{}", i), "module m; endmodule\n`include \"nope.svh\"\n");
                match rng.below(3) { 0 => { c.files.clear(); } 1 => { c.files[0].1 = None; } _ => {} }
                c }
        };
        ppcmp::materialise(&root, &c);
        cases.push(c);
    }
    // include chains around the recursion limit: the file route and the string route must count levels alike (k nested files under the top text)
    for k in [1usize, 2, 63, 64, 65, 66] {
        let dir = format!("chain{}", k);
        let mut c = calls::text_case(&dir, &format!("`include \"{}/i01.svh\"\nmodule top_m; endmodule\n", dir));
        for j in 1..=k {
            let body = if j == k { "wire leaf_w;\n".to_string() } else { format!("`include \"{}/i{:02}.svh\"\n", dir, j + 1) };
            c.files.push((format!("{}/i{:02}.svh", dir, j), Some(body)));
        }
        ppcmp::materialise(&root, &c);
        cases.push(c);
    }
    // texts whose first bytes are unusual: nothing may be normalised by one route only (byte order mark, CR LF, form feed, NUL, no final newline)
    for (j, t) in ["\u{feff}`define W 8\nmodule m;\n  wire [`W-1:0] x;\nendmodule\n", "\u{feff}module m; endmodule\n", "\r\nmodule m;\r\nendmodule\r\n", "\x0cmodule m; endmodule", "\u{0}module m; endmodule\n",
                   "module m; endmodule", "\u{feff}library rtlLib \"*.v\" -incdir \"aaa\";\ninclude \"bbb\";\n", "  \n\n", ""].iter().enumerate() {
        let c = calls::text_case(&format!("odd{}", j), t);
        ppcmp::materialise(&root, &c);
        cases.push(c);
    }
    std::env::set_current_dir(&root).unwrap();
    let cases = std::sync::Arc::new(cases);
    let c2 = cases.clone();
    let results = util::par_map(cases.len(), util::env_usize("SVH_THREADS", 16), move |i| {
        let case = &c2[i];
        let mut fails: Vec<String> = vec![]; let mut evals = 0usize; let mut ok = 0usize;
        for ignore in [false, true] { for incomplete in [false, true] { for strip in [false, true] {
            let mk = |e: Entry| Call { entry: e, case: case.clone(), incomplete, strip, ignore };
            let run = |e: Entry| { let c = mk(e); match util::guarded(512, move || calls::run(&c)) { Ok(s) => s, Err(p) => format!("panic {}", p) } };
            let has_text = calls::top_text(case).is_some();
            // preprocess(path) == preprocess_str(contents, path)
            if !incomplete {
                let a = run(Entry::Preprocess);
                if has_text { let b = run(Entry::PreprocessStr); evals += 1; if a != b { fails.push(format!("preprocess vs preprocess_str (strip={} ignore={}): {} <> {}", strip, ignore, &a[..a.len().min(120)], &b[..b.len().min(120)])); } }
                if a.starts_with("ok") { ok += 1; }
            }
            if !strip {
                let a = run(Entry::ParseSv); let c = run(Entry::ParseSvTwoStep);
                evals += 1; if a != c { fails.push(format!("parse_sv vs preprocess+parse_sv_pp (ignore={} incomplete={}): {} <> {}", ignore, incomplete, &a[..a.len().min(120)], &c[..c.len().min(120)])); }
                let l = run(Entry::ParseLib); let l2 = run(Entry::ParseLibTwoStep);
                evals += 1; if l != l2 { fails.push(format!("parse_lib vs preprocess+parse_lib_pp: {} <> {}", &l[..l.len().min(120)], &l2[..l2.len().min(120)])); }
                if has_text {
                    let b = run(Entry::ParseSvStr); let d = run(Entry::ParseSvStrTwoStep); let ls = run(Entry::ParseLibStr);
                    evals += 3;
                    if a != b { fails.push(format!("parse_sv vs parse_sv_str (ignore={} incomplete={}): {} <> {}", ignore, incomplete, &a[..a.len().min(120)], &b[..b.len().min(120)])); }
                    if b != d { fails.push(format!("parse_sv_str vs preprocess_str+parse_sv_pp: {} <> {}", &b[..b.len().min(120)], &d[..d.len().min(120)])); }
                    if l != ls { fails.push(format!("parse_lib vs parse_lib_str: {} <> {}", &l[..l.len().min(120)], &ls[..ls.len().min(120)])); }
                }
                if a.starts_with("tree") { ok += 1; }
            }
        } } }
        (fails, evals, ok)
    });
    let mut rep = Report::new("generated preprocessor cases with include trees, corpus programs, bad files (missing / non-UTF-8 / missing include), include chains of 1, 2, 63, 64, 65, 66 nested files, and texts with unusual first bytes (byte order mark, CR LF, form feed, NUL, empty) x all values of ignore_include, allow_incomplete, strip_comments; each comparison of two entry points is one evaluation; non-trivial = case on which at least one entry succeeds; distinct by case files");
    for (case, (fails, evals, ok)) in cases.iter().zip(results.into_iter()) {
        let key = format!("{:?}{:?}", case.files, case.defines);
        rep.case(key.as_bytes(), ok > 0);
        rep.evaluations += evals.saturating_sub(1);
        rep.count(if ok > 0 { "some-entry-succeeds" } else { "all-fail" });
        for f in fails { rep.violation(&f, &calls::top_text(case).unwrap_or_default(), &format!("{:?}", case.files.iter().map(|x| x.0.clone()).collect::<Vec<_>>())); }
        if ok > 0 { if let Some(t) = calls::top_text(case) { if t.len() < 100 { rep.sample(t); } } }
    }
    rep.write(out);
    println!("ok");
}

//! C13 oracle: reserved words of the keyword set in force are never identifiers.
use crate::{api::*, corpus, report::Report, util::{self, Rng}};
use std::collections::HashMap;
use std::path::PathBuf;

pub fn load_tables(workdir: &str) -> HashMap<String, Vec<String>> {
    // the committed reference lists (the standard), falling back to the tables regenerated from the code
    let t = std::fs::read_to_string(format!("{}/../svx/keywords_baseline.txt", workdir)).or_else(|_| std::fs::read_to_string(format!("{}/keywords.txt", workdir))).expect("keywords.txt (run svx)");
    t.lines().map(|l| { let mut it = l.split(' '); let k = it.next().unwrap().to_string(); (k, it.map(|x| x.to_string()).collect()) }).collect()
}

fn parse(text: &str) -> Result<(SyntaxTree, Defines), Error> {
    let d = no_defines(); let i = no_includes();
    parse_sv_str(text, PathBuf::from("t.sv"), &d, &i, false, false)
}

/// walk an accepted tree in source order; returns Err(description) if a simple identifier is reserved where it stands
pub fn check_tree(tree: &SyntaxTree, tables: &HashMap<String, Vec<String>>) -> Result<usize, String> {
    let mut stack: Vec<String> = vec![];           // textual `begin_keywords nesting
    let mut path: Vec<String> = vec![];
    let mut n = 0usize;
    let mut pending_version: Option<String> = None;
    for ev in tree.into_iter().event() {
        match ev {
            NodeEvent::Enter(RefNode::Locate(l)) => {
                let txt = tree.get_str(l).unwrap_or("");
                let parent = path.last().map(|s| s.as_str()).unwrap_or("");
                if parent == "Keyword" && path.iter().any(|p| p == "VersionSpecifier") { pending_version = Some(txt.to_string()); }
                if parent == "SimpleIdentifier" {
                    if path.iter().any(|p| p == "Pragma") { continue; }   // lexed without keyword check by design (simple_identifier_pragma)
                    let macro_name = path.iter().any(|p| p == "TextMacroIdentifier" || p == "TextMacroName");
                    let set = if macro_name { "directive".to_string() } else { stack.last().cloned().unwrap_or("1800-2017".to_string()) };
                    n += 1;
                    if tables.get(&set).map(|t| t.iter().any(|k| k == txt)).unwrap_or(false) {
                        return Err(format!("simple identifier {:?} at offset {} is a reserved word of the keyword set {} in force there", txt, l.offset, set));
                    }
                }
            }
            NodeEvent::Enter(x) => { path.push(x.to_string()); }
            NodeEvent::Leave(RefNode::Locate(_)) => {}
            NodeEvent::Leave(x) => {
                match x {
                    RefNode::KeywordsDirective(_) => { if let Some(v) = pending_version.take() { stack.push(v); } }
                    RefNode::EndkeywordsDirective(_) => { stack.pop(); }
                    _ => {}
                }
                path.pop();
            }
        }
    }
    Ok(n)
}

const VERSIONS: &[&str] = &["1364-1995", "1364-2001-noconfig", "1364-2001", "1364-2005", "1800-2005", "1800-2009", "1800-2012", "1800-2017"];

/// a small Verilog-1995 style program whose identifiers are chosen by `name(i)`
fn template(names: &[String]) -> String {
    format!("module {m} ({p}, {q});\n  input {p};\n  output {q};\n  wire {w};\n  reg {r};\n  assign {w} = {p} & {r};\n  always @({p}) {r} = {w};\n  assign {q} = {r};\nendmodule\n",
        m = names[0], p = names[1], q = names[2], w = names[3], r = names[4])
}

pub fn main(args: &[String]) {
    let workdir = &args[0]; let tier = &args[1]; let seed: u64 = args[2].parse().unwrap(); let out = &args[3];
    let thorough = tier == "thorough";
    let tables = std::sync::Arc::new(load_tables(workdir));
    let corp = corpus::load(workdir);
    let mut rng = Rng::new(seed ^ 0xc13);
    // (text, expectation: 0 = only check accepted trees, 1 = must be rejected, 2 = must be accepted)
    let mut cases: Vec<(String, u8, String)> = vec![];
    for it in corp.iter().filter(|x| x.kind == "sv") { cases.push((it.text.clone(), 0, "corpus".into())); }
    let n = if thorough { 20000 } else { 2500 };
    let all_words: Vec<String> = tables["1800-2017"].clone();
    for i in 0..n {
        let vi = rng.below(VERSIONS.len()); let v = VERSIONS[vi];
        let tv = &tables[v];
        let base: Vec<String> = ["m1", "pa", "qb", "wc", "rd"].iter().map(|s| s.to_string()).collect();
        let slot = rng.below(5);
        let pre = *rng.pick(&["", "`timescale 1ns/1ps\n", "`celldefine\n", "`default_nettype wire\n", "`resetall\n", "/* c */\n"]);
        match i % 4 {
            0 => { // a word reserved in the set in force where only an identifier can stand: rejected
                let w = rng.pick(tv).clone(); let mut nm = base.clone(); nm[slot] = w;
                cases.push((format!("{}`begin_keywords \"{}\"\n{}`end_keywords\n", pre, v, template(&nm)), 1, format!("reserved-in-{}", v)));
            }
            1 => { // a word reserved only in a later standard: accepted
                let later: Vec<&String> = all_words.iter().filter(|w| !tv.contains(w)).collect();
                if later.is_empty() { continue; }
                let w = (*rng.pick(&later)).clone(); let mut nm = base.clone(); nm[slot] = w;
                cases.push((format!("{}`begin_keywords \"{}\"\n{}`end_keywords\n", pre, v, template(&nm)), 2, format!("later-word-under-{}", v)));
            }
            2 => { // nested / sequential regions: after `end_keywords the outer set is in force again
                let v2 = VERSIONS[rng.below(VERSIONS.len())]; let t2 = &tables[v2];
                let only_inner: Vec<&String> = t2.iter().filter(|w| !tv.contains(w)).collect();
                let mut nm = base.clone();
                let (expect, tag) = if !only_inner.is_empty() && rng.chance(1, 2) { nm[slot] = (*rng.pick(&only_inner)).clone(); (2u8, "outer-after-inner-region") } else { nm[slot] = rng.pick(tv).clone(); (1u8, "outer-reserved-after-inner-region") };
                cases.push((format!("`begin_keywords \"{}\"\n`begin_keywords \"{}\"\nmodule inner; endmodule\n`end_keywords\n{}`end_keywords\n", v, v2, template(&nm)), expect, tag.into()));
            }
            _ => { // default set: any 1800-2017 word is rejected; after a closed region too
                let w = rng.pick(&all_words).clone(); let mut nm = base.clone(); nm[slot] = w;
                let t = if rng.chance(1, 2) { format!("{}{}", pre, template(&nm)) } else { format!("`begin_keywords \"1364-1995\"\nmodule o; endmodule\n`end_keywords\n{}", template(&nm)) };
                cases.push((t, 1, "default-set".into()));
            }
        }
    }
    let cases = std::sync::Arc::new(cases);
    let c2 = cases.clone(); let t2 = tables.clone();
    let results = util::par_map(cases.len(), util::env_usize("SVH_THREADS", 16), move |i| {
        let (text, expect, _) = &c2[i];
        let r = std::panic::catch_unwind(std::panic::AssertUnwindSafe(|| -> Result<(bool, usize), String> {
            match parse(text) {
                Ok((tree, _)) => {
                    if *expect == 1 { return Err("a reserved word of the keyword set in force stands where only an identifier can stand, but the source is accepted".into()); }
                    let n = check_tree(&tree, &t2)?; Ok((true, n))
                }
                Err(Error::Parse(_)) => { if *expect == 2 { Err("a word that is reserved only in a later standard than the one in force is rejected as identifier".into()) } else { Ok((false, 0)) } }
                Err(e) => { if *expect == 0 { Ok((false, 0)) } else { Err(format!("unexpected error {}", err_str(&e))) } }
            }
        }));
        match r { Ok(x) => x, Err(e) => Err(format!("panic: {}", util::panic_msg(e))) }
    });
    let mut rep = Report::new("(a) every accepted corpus program: walk the tree in source order tracking `begin_keywords / `end_keywords textually; no SimpleIdentifier (outside `pragma) may be in the set in force (directive-name set for macro names); (b) generated modules under all eight version specifiers, nested and sequential regions, preceding directives: an identifier replaced by a word reserved in force must be rejected, by a word reserved only later must be accepted; non-trivial = accepted tree with >= 3 identifiers or a must-reject / must-accept mutant; distinct by text");
    for ((text, expect, tag), r) in cases.iter().zip(results.into_iter()) {
        match r {
            Ok((acc, n)) => { rep.case(text.as_bytes(), *expect != 0 || (acc && n >= 3)); rep.count(&format!("{}:{}", tag.split("-1").next().unwrap_or(tag), if acc { "accepted" } else { "rejected" })); rep.add("identifiers-checked", n);
                if *expect != 0 && rep.samples.len() < 4 { rep.sample(format!("[{}] {}", tag, text.chars().take(160).collect::<String>())); } }
            Err(m) => { rep.case(text.as_bytes(), true); rep.violation(&m, text, tag); }
        }
    }
    rep.write(out);
    println!("ok");
}

//! G-pp: preprocessor programs built from a typed AST, with a virtual file tree.
use crate::util::Rng;

#[derive(Clone, Debug)]
pub enum Item {
    Text(String),
    Nl,
    Comment(String),
    Str(String),
    Esc(String),
    Define { name: String, formals: Option<Vec<(String, Option<String>)>>, body: Option<String> },
    Undef(String),
    UndefAll,
    Usage { name: String, args: Option<Vec<String>>, trail: String },
    Cond { neg: bool, name: String, then: Vec<Item>, elsifs: Vec<(String, Vec<Item>)>, els: Option<Vec<Item>> },
    Include { file: String, style: u8 },
    Kept(String),
    PosFile,
    PosLine,
}

#[derive(Clone, Debug, Default)]
pub struct Case {
    pub dir: String,                       // unique prefix, e.g. "c17"
    pub files: Vec<(String, Option<String>)>, // path -> content (None = not UTF-8)
    pub top: String,
    pub incpaths: Vec<String>,
    pub defines: Vec<(String, Option<(Vec<(String, Option<String>)>, Option<String>)>)>,
    pub strip: bool,
    pub ignore: bool,
    pub flags: Vec<&'static str>,          // generator tags (construct classes used)
}

pub fn render(items: &[Item], out: &mut String) {
    for it in items {
        match it {
            Item::Text(s) | Item::Comment(s) | Item::Str(s) | Item::Esc(s) | Item::Kept(s) => out.push_str(s),
            Item::Nl => out.push('\n'),
            Item::Define { name, formals, body } => {
                out.push_str("`define "); out.push_str(name);
                if let Some(f) = formals {
                    out.push('(');
                    for (i, (a, d)) in f.iter().enumerate() { if i > 0 { out.push_str(", "); } out.push_str(a); if let Some(d) = d { out.push_str(" = "); out.push_str(d); } }
                    out.push(')');
                }
                if let Some(b) = body { out.push(' '); out.push_str(b); }
                out.push('\n');
            }
            Item::Undef(n) => { out.push_str("`undef "); out.push_str(n); out.push('\n'); }
            Item::UndefAll => out.push_str("`undefineall\n"),
            Item::Usage { name, args, trail } => {
                out.push('`'); out.push_str(name);
                if let Some(a) = args { out.push('('); out.push_str(&a.join(",")); out.push(')'); }
                out.push_str(trail);
            }
            Item::Cond { neg, name, then, elsifs, els } => {
                out.push_str(if *neg { "`ifndef " } else { "`ifdef " }); out.push_str(name); out.push('\n');
                render(then, out);
                for (n, b) in elsifs { out.push_str("`elsif "); out.push_str(n); out.push('\n'); render(b, out); }
                if let Some(b) = els { out.push_str("`else\n"); render(b, out); }
                out.push_str("`endif\n");
            }
            Item::Include { file, style } => {
                match style { 0 => { out.push_str("`include \""); out.push_str(file); out.push_str("\"\n"); }
                              1 => { out.push_str("`include <"); out.push_str(file); out.push_str(">\n"); }
                              _ => { out.push_str("`include `"); out.push_str(file); out.push('\n'); } }
            }
            Item::PosFile => out.push_str("`__FILE__"),
            Item::PosLine => out.push_str("`__LINE__"),
        }
    }
}

const NAMES: &[&str] = &["A", "B", "C", "DD", "M1", "F", "G", "XY", "__LINE__", "__FILE__", "SV_COV_START"];
const WORDS: &[&str] = &["a", "b1", "wire", "x", "module", "foo_bar", "1", "42", "8'hff", "+", "-", ";", ",", "(", ")", "=", "#", "[", "]", "$x", "a.b", "*", "@", "?", ":"];

pub struct Gen<'a> { pub rng: &'a mut Rng, pub depth: usize, pub allow_include: bool, pub files: Vec<String>, pub tags: Vec<&'static str>, pub weird: bool,
    /// macros believed to be defined at this point: name -> (number of formals, number of leading formals without default)
    pub defs: Vec<(String, Option<(usize, usize)>)> }

impl<'a> Gen<'a> {
    fn name(&mut self) -> String { self.rng.pick_str(NAMES).to_string() }
    fn uname(&mut self) -> String { let n = self.rng.pick_str(&NAMES[..8]); n.to_string() }
    fn text(&mut self) -> String {
        let mut s = String::new();
        for _ in 0..self.rng.range(1, 4) { s.push_str(self.rng.pick_str(WORDS)); s.push_str(self.rng.pick_str(&[" ", " ", "  ", "\t", ""])); }
        s
    }
    fn body(&mut self, formals: &[String]) -> String {
        let mut s = String::new();
        for _ in 0..self.rng.range(1, 5) {
            match self.rng.below(15) {
                // an `include produced by a macro expansion (ignore_include must reach it; depth counters are shared)
                14 if self.allow_include && !self.files.is_empty() && self.rng.chance(1, 2) => { let i = self.rng.below(self.files.len()); s.push_str(&format!("`include \"{}\"", self.files[i])); self.tags.push("include-in-body"); }
                0 | 1 if !formals.is_empty() => { let i = self.rng.below(formals.len()); s.push_str(&formals[i]) },
                2 => s.push_str("``"),
                3 => { s.push_str("`\""); if !formals.is_empty() { { let i = self.rng.below(formals.len()); s.push_str(&formals[i]) }; } s.push_str("`\""); }
                4 => s.push_str(" \\\n "),
                5 => { s.push('`'); let objs: Vec<String> = self.defs.iter().filter(|d| d.1.is_none()).map(|d| d.0.clone()).collect(); if !objs.is_empty() { let i = self.rng.below(objs.len()); s.push_str(&objs[i]); } else if self.rng.chance(1, 10) { s.push_str(self.rng.pick_str(&["A", "B", "C", "DD"])); } else { s.pop(); s.push_str("z "); } }
                6 => s.push_str("\"lit\""),
                7 => s.push_str(" // cmt"),
                8 => s.push_str(" /* c */ "),
                9 if self.weird => s.push_str("\"a``b\""),
                10 if self.weird => s.push_str("`\\`\""),
                _ => { s.push_str(self.rng.pick_str(WORDS)); s.push(' '); }
            }
        }
        s
    }
    fn arg(&mut self) -> String {
        match self.rng.below(10) {
            0 => String::new(),
            // comments inside an actual argument
            8 => " y /* c */".into(),
            9 => "z // c\n".into(),
            1 => "(a,b)".into(),
            2 => "\"s,t\"".into(),
            3 => "{1,2}".into(),
            4 => "[3]".into(),
            5 => " x ".into(),
            _ => self.rng.pick_str(WORDS).to_string(),
        }
    }
    pub fn items(&mut self, n: usize) -> Vec<Item> {
        let mut v = vec![];
        for _ in 0..n { self.item(&mut v); }
        v
    }
    fn item(&mut self, v: &mut Vec<Item>) {
        let r = self.rng.below(100);
        match r {
            0..=19 => v.push(Item::Text(self.text())),
            20..=29 => v.push(Item::Nl),
            30..=33 => { self.tags.push("comment"); let c = if self.rng.chance(1, 2) { format!("// c{}\n", self.rng.below(9)) } else { self.rng.pick_str(&["/* c */", "/**/", "/* a\n b */", "/* `A */"]).to_string() }; v.push(Item::Comment(c)); }
            34..=36 => { self.tags.push("string"); let t = self.rng.pick_str(&["", " ", "  ", "\n"]); v.push(Item::Str(format!("{}{}", self.rng.pick_str(&["\"s\"", "\"a b\"", "\"`A\"", "\"x\\\"y\"", "\"//n\"", "\"é\""]), if self.weird { t } else { "" }))); if !self.weird { v.push(Item::Text(self.rng.pick_str(&["", ";"]).to_string())); } }
            37..=38 => { self.tags.push("escaped"); v.push(Item::Esc(format!("\\{}{}", self.rng.pick_str(&["esc", "a+b", "`A", "x\""]), if self.weird { self.rng.pick_str(&[" ", "  ", "\n"]) } else { " " }))); if !self.weird { v.push(Item::Text("x".into())); } }
            39..=50 => {
                self.tags.push("define");
                let name = self.uname();
                let formals = if self.rng.chance(2, 5) { let k = self.rng.range(1, 3); Some((0..k).map(|i| (format!("p{}", i), if self.rng.chance(1, 3) { Some(self.rng.pick_str(&["0", "x", "\"d\"", "(1,2)"]).to_string()) } else { None })).collect::<Vec<_>>()) } else { None };
                let fnames: Vec<String> = formals.as_ref().map(|f| f.iter().map(|x| x.0.clone()).collect()).unwrap_or_default();
                let body = if self.rng.chance(5, 6) { Some(self.body(&fnames)) } else { None };
                if self.depth == 0 && name != "__LINE__" && name != "__FILE__" {
                    self.defs.retain(|d| d.0 != name);
                    let req = formals.as_ref().map(|f| { let mut r = 0; for (i, x) in f.iter().enumerate() { if x.1.is_none() { r = i + 1; } } (f.len(), r) });
                    self.defs.push((name.clone(), req));
                }
                v.push(Item::Define { name, formals, body });
            }
            51..=53 => { self.tags.push("undef"); let n = if !self.defs.is_empty() && self.rng.chance(2, 3) { let i = self.rng.below(self.defs.len()); self.defs[i].0.clone() } else { self.uname() }; if self.depth == 0 { self.defs.retain(|d| d.0 != n); } v.push(Item::Undef(n)); }
            54 => { self.tags.push("undefineall"); if self.depth == 0 { self.defs.clear(); } v.push(Item::UndefAll); }
            55..=69 => {
                self.tags.push("usage");
                let (name, args) = if !self.defs.is_empty() && self.rng.chance(9, 10) {
                    let i = self.rng.below(self.defs.len());
                    let (n, f) = self.defs[i].clone();
                    let args = match f {
                        Some((k, req)) => { let m = if self.rng.chance(4, 5) { k } else { self.rng.range(req.min(k), k) }; Some((0..m).map(|_| self.arg()).collect::<Vec<_>>()) }
                        None => if self.rng.chance(1, 8) { Some(vec![self.arg()]) } else { None },
                    };
                    (n, args)
                } else if self.defs.is_empty() && self.rng.chance(9, 10) {
                    v.push(Item::Text(self.text())); return;
                } else {
                    let name = self.name();
                    let args = if self.rng.chance(1, 2) { let k = self.rng.range(0, 3); Some((0..k).map(|_| self.arg()).collect()) } else { None };
                    (name, args)
                };
                v.push(Item::Usage { name, args, trail: self.rng.pick_str(&["", " ", "  ", "\n", " /* t */ "]).to_string() });
            }
            70..=81 if self.depth < 3 => {
                self.tags.push("cond");
                self.depth += 1;
                let then = { let n = self.rng.range(0, 3); self.items(n) };
                let ne = self.rng.below(3);
                let elsifs = (0..ne).map(|_| { let n = self.rng.range(0, 2); (self.name(), self.items(n)) }).collect();
                let els = if self.rng.chance(1, 2) { let n = self.rng.range(0, 2); Some(self.items(n)) } else { None };
                self.depth -= 1;
                v.push(Item::Nl);
                v.push(Item::Cond { neg: self.rng.chance(1, 3), name: self.name(), then, elsifs, els });
            }
            82..=86 if self.allow_include && !self.files.is_empty() => {
                self.tags.push("include");
                let f = self.rng.pick(&self.files).clone();
                if !self.rng.chance(1, 12) { v.push(Item::Nl); }
                v.push(Item::Include { file: f, style: if self.rng.chance(1, 5) { 1 } else { 0 } });
            }
            87..=91 => { self.tags.push("kept"); v.push(Item::Nl); v.push(Item::Kept(self.rng.pick_str(&["`timescale 1ns/1ps\n", "`default_nettype none\n", "`celldefine\n", "`endcelldefine\n", "`resetall\n", "`line 3 \"f.v\" 1\n", "`pragma foo bar\n", "`begin_keywords \"1364-2001\"\n", "`end_keywords\n", "`unconnected_drive pull1\n", "`nounconnected_drive\n", "`celldefine /* k */\n"]).to_string())); }
            92..=93 => { self.tags.push("position"); v.push(if self.rng.chance(1, 2) { Item::PosFile } else { Item::PosLine }); v.push(Item::Text(" ".into())); }
            _ => v.push(Item::Text(self.text())),
        }
    }
}

/// a whole case: top file + up to 3 include files in up to 2 include dirs
pub fn gen_case(rng: &mut Rng, id: usize, weird: bool) -> Case {
    let dir = format!("c{}", id);
    let mut case = Case { dir: dir.clone(), ..Default::default() };
    let nfiles = rng.below(4);
    let mut names: Vec<String> = vec![];
    let mut tags: Vec<&'static str> = vec![];
    // include files: some next to cwd path (found as given), some only via include paths
    let mut incfiles = vec![];
    for k in 0..nfiles {
        let via_path = rng.chance(1, 2);
        let fname = format!("i{}.svh", k);
        let stored = if via_path { format!("{}/inc{}/{}", dir, rng.below(2), fname) } else { format!("{}/{}", dir, fname) };
        let refname = if via_path { fname.clone() } else { format!("{}/{}", dir, fname) };
        incfiles.push((stored, refname));
    }
    // generate deepest-first so that a file may include later-numbered files only (no cycles here)
    for k in (0..nfiles).rev() {
        let avail: Vec<String> = incfiles[k + 1..].iter().map(|x| x.1.clone()).collect();
        let mut g = Gen { rng, depth: 0, allow_include: true, files: avail, tags: vec![], weird, defs: vec![] };
        let n = g.rng.range(1, 6);
        let items = g.items(n);
        tags.extend(g.tags.iter());
        let mut s = String::new(); render(&items, &mut s);
        if rng.chance(1, 40) { case.files.push((incfiles[k].0.clone(), None)); tags.push("non-utf8-file"); }
        else { case.files.push((incfiles[k].0.clone(), Some(s))); }
        names.push(incfiles[k].1.clone());
    }
    if rng.chance(1, 25) { names.push("missing.svh".into()); tags.push("missing-file"); }
    let defs0: Vec<(String, Option<(usize, usize)>)> = case.defines.iter().filter(|d| d.1.is_some()).map(|d| (d.0.clone(), d.1.as_ref().and_then(|x| if x.0.is_empty() { None } else { let mut r = 0; for (i, a) in x.0.iter().enumerate() { if a.1.is_none() { r = i + 1; } } Some((x.0.len(), r)) }))).collect();
    let mut g = Gen { rng, depth: 0, allow_include: true, files: names, tags: vec![], weird, defs: defs0 };
    let n = g.rng.range(2, 12);
    let items = g.items(n);
    tags.extend(g.tags.iter());
    let mut s = String::new(); render(&items, &mut s);
    case.top = format!("{}/top.sv", dir);
    case.files.push((case.top.clone(), Some(s)));
    case.incpaths = vec![format!("{}/inc0", dir), format!("{}/inc1", dir)];
    if rng.chance(1, 4) { case.incpaths.reverse(); }
    case.strip = rng.chance(1, 4);
    case.ignore = rng.chance(1, 8);
    tags.sort(); tags.dedup();
    case.flags = tags;
    case
}

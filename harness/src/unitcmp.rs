//! Component-level correspondences of hand-written model parts with the code they transliterate, driven by operation sequences
//! (hooks `sv_parser_pp::preprocess::verif::{split_text, text_new, text_push, text_merge}`):
//!   * `split <hex>`  — `split_text` (the chunker of macro bodies, Core/Split.lean) on generated bodies;
//!   * `otext <ops>`  — `PreprocessedText` (Core/Origin.lean: the BTreeMap keyed by the overlap-as-equality `Range`) under random
//!                      sequences of `new` / `push` / `merge`, observed through the text and `origin(pos)` at EVERY position.
//!   * `strfn <fn> <hex>` — the small string helpers the walker model re-implements (`trim_end`, `trim`, the actual-argument text rule).
use crate::util::{self, hex, Rng};
use std::io::Write;
use std::path::PathBuf;
use sv_parser_pp::preprocess::verif as hook;
use sv_parser_pp::range::Range;

const BODY_ATOMS: &[&str] = &["a", "b1", "_x", "foo", "arg", "x", "9", "12", " ", "  ", "\t", "\n", "\\\n", "\\\r\n", "\\", "\"", "\"s\"", "\"a b\"", "`\"", "`\\`\"", "``", "`", "`M", "`M(a,b)",
    "//", "// c\n", "/", "/* c */", "+", "-", "(", ")", ",", "[", "]", "{", "}", ";", "=", ".", "$", "é", "日本", "\u{85}", "\u{a0}", "\r", "\x0c", "\\x", "\"\\\"\"", "a\"b", "1a", "a1_", "__"];

fn gen_body(rng: &mut Rng) -> String {
    let n = rng.range(0, 14);
    let mut s = String::new();
    // leading whitespace / continuation forms are their own state of the chunker
    match rng.below(6) { 0 => s.push_str(" "), 1 => s.push_str("\\\n"), 2 => s.push_str(" \\\n "), 3 => s.push_str("\t\\"), _ => {} }
    for _ in 0..n { s.push_str(rng.pick_str(BODY_ATOMS)); }
    s
}

fn origins_line(t: &sv_parser::PreprocessedText) -> String {
    format!("{} [{}]", if t.text().is_empty() { "-".to_string() } else { hex(t.text().as_bytes()) }, crate::ppcmp::origins_str(t))
}

/// ops: `n` new text on the stack | `p,<hex text|->,<hex path|->,<b>,<e>` push onto the top text | `m` pop the top text and merge it into the one below
fn gen_ops(rng: &mut Rng) -> Vec<String> {
    let mut ops = vec!["n".to_string()];
    let mut depth = 1usize;
    let steps = rng.range(1, 16);
    let strs = ["a", "bc", "def", "", "\n", "  ", "xyzw", "é", "0123456789", ""];
    let paths = ["t.sv", "inc/a.svh", "b"];
    for _ in 0..steps {
        match rng.below(10) {
            0 | 1 if depth < 4 => { ops.push("n".into()); depth += 1; }
            2 | 3 if depth > 1 => { ops.push("m".into()); depth -= 1; }
            _ => {
                let s = rng.pick_str(&strs);
                let (p, b, e) = if rng.chance(1, 4) { ("-".to_string(), 0, 0) } else { let b = rng.below(50); (hex(rng.pick_str(&paths).as_bytes()), b, b + if rng.chance(1, 5) { rng.below(9) } else { s.len() }) };
                ops.push(format!("p,{},{},{},{}", if s.is_empty() { "-".to_string() } else { hex(s.as_bytes()) }, p, b, e));
            }
        }
    }
    while depth > 1 { ops.push("m".into()); depth -= 1; }
    ops
}

fn run_ops(ops: &[String]) -> String {
    let mut stack: Vec<sv_parser::PreprocessedText> = vec![];
    for op in ops {
        let f: Vec<&str> = op.split(',').collect();
        match f[0] {
            "n" => stack.push(hook::text_new()),
            "m" => { let top = stack.pop().unwrap(); hook::text_merge(stack.last_mut().unwrap(), top); }
            "p" => {
                let s = if f[1] == "-" { String::new() } else { String::from_utf8(util::unhex(f[1])).unwrap() };
                let o = if f[2] == "-" { None } else { Some((PathBuf::from(String::from_utf8(util::unhex(f[2])).unwrap()), Range::new(f[3].parse().unwrap(), f[4].parse().unwrap()))) };
                hook::text_push(stack.last_mut().unwrap(), &s, o);
            }
            _ => unreachable!(),
        }
    }
    origins_line(stack.last().unwrap())
}

const ARG_ATOMS: &[&str] = &["a", "b c", " ", "  ", "\t", "\n", "\r\n", "//", "// c", "/", "/* x */", "\"s\"", "(", ")", ",", "é", "\u{a0}", "\u{85}", "\u{2003}", "\u{3000}", "\x0c", "\x0b", "1"];

pub fn main(args: &[String]) {
    // unitcmp <seed> <n> <outprefix>
    let seed: u64 = args[0].parse().unwrap(); let n: usize = args[1].parse().unwrap(); let out = &args[2];
    let mut rng = Rng::new(seed ^ 0x5117);
    let mut cases: Vec<String> = vec![]; let mut impls: Vec<String> = vec![];
    // fixed corpus first (shapes that decided earlier defects or that the state machine treats specially)
    let fixed = ["", " ", "a", " a", "\\\na", " \\\n b", "\\", "a\"b\"c", "`\"a`\"", "a``b", "x // c\ny", "\"//\" a", "\"a b\" c", "a`\\`\"b`\\`\"", "a/b", "a//", "/", "\"", "a \"b", "`\"//x\n\"", "// `\"\n\"x\"", "é_a", "a\\\nb", "  \\\n", "\\\n\\\n a"];
    for b in fixed.iter().map(|x| x.to_string()).chain((0..n).map(|_| gen_body(&mut rng))) {
        cases.push(if b.is_empty() { "split".to_string() } else { format!("split {}", hex(b.as_bytes())) });
        let b2 = b.clone();
        impls.push(match util::guarded(16, move || hook::split_text(&b2)) {
            Ok(v) => v.iter().map(|c| if c.is_empty() { "-".to_string() } else { hex(c.as_bytes()) }).collect::<Vec<_>>().join(","),
            Err(e) => format!("panic {}", e.replace('\n', " ")) });
    }
    let n_split = cases.len();
    for _ in 0..n {
        let ops = gen_ops(&mut rng);
        cases.push(format!("otext {}", ops.join(" ")));
        let o2 = ops.clone();
        impls.push(match util::guarded(16, move || run_ops(&o2)) { Ok(l) => l, Err(e) => format!("panic {}", e.replace('\n', " ")) });
    }
    let n_otext = cases.len() - n_split;
    for i in 0..n {
        let k = rng.range(0, 7);
        let mut s = String::new();
        for _ in 0..k { s.push_str(rng.pick_str(ARG_ATOMS)); }
        let f = ["trim_end", "trim", "trim_start"][i % 3];
        cases.push(if s.is_empty() { format!("strfn {}", f) } else { format!("strfn {} {}", f, hex(s.as_bytes())) });
        let r = match f { "trim_end" => s.trim_end(), "trim" => s.trim(), _ => s.trim_start() };
        impls.push(if r.is_empty() { "-".to_string() } else { hex(r.as_bytes()) });
    }
    let mut fc = std::fs::File::create(format!("{}.cases", out)).unwrap();
    let mut fi = std::fs::File::create(format!("{}.impl", out)).unwrap();
    let mut ft = std::fs::File::create(format!("{}.tags", out)).unwrap();
    for (i, (c, l)) in cases.iter().zip(impls.iter()).enumerate() {
        writeln!(fc, "{}", c).unwrap(); writeln!(fi, "{}", l).unwrap();
        writeln!(ft, "{}", if i < n_split { "split" } else if i < n_split + n_otext { "otext" } else { "strfn" }).unwrap();
    }
    println!("{{\"split\": {}, \"otext\": {}, \"strfn\": {}}}", n_split, n_otext, cases.len() - n_split - n_otext);
}

"""Driver library for `bin/check`: regenerate the model from /repo, build + audit the Lean theorems,
build the harness against /repo's working tree, run correspondence + oracles, decide, write evidence."""
import fcntl, glob, json, os, re, subprocess, sys, time, hashlib

VERIF = '/verif'
WORK = os.path.join(VERIF, 'work')
LEAN = os.path.join(VERIF, 'lean/SvModel')
HARNESS = os.path.join(VERIF, 'harness')
SVH = os.path.join(HARNESS, 'target/debug/svh')
SVMODEL = os.path.join(LEAN, '.lake/build/bin/svmodel')
ALLOWED_AXIOMS = {'propext', 'Classical.choice', 'Quot.sound'}
BANNED = re.compile(r'\b(sorry|admit|native_decide|bv_decide|implemented_by)\b|^\s*axiom\s|\bunsafe\s|maxHeartbeats\s+0')

TRUSTED_BASE = [
    "Lean 4.33.0 kernel (lake build); axioms limited to propext, Classical.choice, Quot.sound (audited per theorem on every run)",
    "svx translator (/verif/svx): Rust-subset parser and emission of the deep embedding; validated on every run by executing the generated grammar in Lean against the real parser (accept/reject, end position, error position, full tree skeleton hash, thread-state depths)",
    "hand-written semantics of the embedding (lean/SvModel/SvModel/Core/*.lean): nom 7 combinators, nom_locate lines, packrat and recursive wrappers, utils.rs `list` loop — modelled, not verified; tied by the same executable validation",
    "Rust harness /verif/harness (generators, oracles, canonicalisation) and rustc/cargo building /repo's working tree with --cfg sv_parser_verif",
]

def log(*a):
    print(*a, file=sys.stderr, flush=True)

def sh(cmd, cwd=None, timeout=None, env=None, stdin=None):
    e = dict(os.environ); e['CARGO_NET_OFFLINE'] = 'true'
    if env: e.update(env)
    p = subprocess.run(cmd, cwd=cwd, shell=isinstance(cmd, str), stdout=subprocess.PIPE, stderr=subprocess.STDOUT,
                       timeout=timeout, env=e, stdin=stdin)
    return p.returncode, p.stdout.decode('utf-8', 'replace')

GRAMMAR_SCOPE = {'C03': 'pp', 'C04': 'pp', 'C05': 'pp', 'C06': 'pp', 'C09': 'pp', 'C10': 'pp', 'C11': 'pp', 'C18': 'pp',
                 'C16': 'none', 'C19': 'none', 'C20': 'none'}

class Lock:
    def __init__(self, name='build'):
        os.makedirs(WORK, exist_ok=True)
        self.f = open(os.path.join(WORK, '.%s.lock' % name), 'w')
    def __enter__(self):
        fcntl.flock(self.f, fcntl.LOCK_EX); return self
    def __exit__(self, *a):
        fcntl.flock(self.f, fcntl.LOCK_UN); self.f.close()

# ----------------------------------------------------------------------------------------------
class Ctx:
    def __init__(self, prop, tier, seed):
        self.prop = prop; self.tier = tier; self.seed = seed
        self.t0 = time.time()
        self.obligations = []      # (name, ok, detail)
        self.broken = []           # names of broken obligations / correspondences
        self.violations = []       # dicts: what, input, detail
        self.known_seen = {}       # class -> example
        self.cov = {}              # extra coverage keys
        self.evaluations = 0; self.distinct = 0; self.samples = []; self.rules = []
        self.programs = 0; self.disagreements = 0
        self.summary = None
        self.outdir = os.path.join(WORK, prop.lower())
        os.makedirs(self.outdir, exist_ok=True)

    def oblige(self, name, ok, detail=''):
        self.obligations.append((name, bool(ok), detail))
        if not ok:
            self.broken.append('%s: %s' % (name, detail[:300]))

    # ---- step 1: regenerate model from /repo
    def regen(self):
        sys.path.insert(0, os.path.join(VERIF, 'svx'))
        rc, out = sh([sys.executable, os.path.join(VERIF, 'svx/emit.py')], cwd=os.path.join(VERIF, 'svx'), env={'PYTHONDONTWRITEBYTECODE': '1'})
        if rc != 0:
            self.oblige('svx:translate', False, out[-400:])
            return None
        self.summary = json.load(open(os.path.join(WORK, 'summary.json')))
        base = json.load(open(os.path.join(VERIF, 'svx/opaque_baseline.json')))
        grown = sorted(set(self.summary['opaque']) - set(base['opaque']))
        # a production svx cannot translate matters only to the checks whose theorems range over it: the whole grammar ('all'),
        # the part reachable from preprocessor_text ('pp'), or nothing of the grammar ('none')
        scope = GRAMMAR_SCOPE.get(self.prop, 'all')
        if scope == 'pp': grown = [n for n in grown if n in set(self.summary.get('pp_reachable', []))]
        elif scope == 'none': grown = []
        self.oblige('svx:no-new-opaque-productions(scope=%s)' % scope, not grown,
                    'productions no longer translatable (so no longer covered by the theorems): ' + ', '.join('%s (%s)' % (n, self.summary['opaque'][n]) for n in grown))
        kwp = list(self.summary['kw_problems'])
        if scope == 'pp': kwp = [x for x in kwp if 'directive' in x.lower()]    # the preprocessor grammar only uses the directive-name table
        elif scope == 'none': kwp = []
        self.oblige('svx:keyword-tables-extracted(scope=%s)' % scope, not kwp, '; '.join(kwp))
        self.cov['translated_productions'] = self.summary['productions'] - len(self.summary['opaque'])
        self.cov['opaque_productions'] = sorted(self.summary['opaque'])
        return self.summary

    # ---- step 2: Lean
    def lean_build(self, targets, label=None):
        cmd = ['lake', 'build'] + targets
        self.checker_cmd = 'cd %s && %s' % (LEAN, ' '.join(cmd))
        rc, out = sh(cmd, cwd=LEAN, timeout=3000)
        failed = re.findall(r'^- (\S+)$', out, re.M)
        errs = [l for l in out.split('\n') if l.startswith('error:')]
        for t in targets:
            if t == 'svmodel': continue
            bad = [f for f in failed if f == t or True] if rc != 0 else []
            self.oblige('lean:build:' + t, rc == 0 or (t not in failed and not self._depends_failed(t, failed)),
                        ('failed modules: %s; first errors: %s' % (failed, ' | '.join(errs[:3]))) if rc != 0 else '')
        self.lean_log = out
        return rc == 0, failed, out

    def _depends_failed(self, target, failed):
        # conservative: any failure in a Props/Lemmas/Core/Gen module may be a dependency
        return bool(failed)

    def theorems_of(self, modules):
        thms = []
        for m in modules:
            p = os.path.join(LEAN, m.replace('.', '/') + '.lean')
            if not os.path.exists(p): continue
            src = open(p).read()
            ns = re.findall(r'^namespace\s+(\S+)', src, re.M)
            pref = (ns[0] + '.') if ns else ''
            for t in re.findall(r'^theorem\s+(C\d\d_\w+)', src, re.M):
                thms.append(pref + t)
        return thms

    def audit(self, modules, extra_theorems=()):
        thms = self.theorems_of(modules) + list(extra_theorems)
        p = os.path.join(self.outdir, 'Audit.lean')
        with open(p, 'w') as f:
            for m in modules: f.write('import %s\n' % m)
            for t in thms: f.write('#print axioms %s\n' % t)
        rc, out = sh(['lake', 'env', 'lean', p], cwd=LEAN, timeout=1200)
        seen = {}
        for m in re.finditer(r"'([^']+)' depends on axioms: \[([^\]]*)\]", out.replace('\n', ' ')):
            seen[m.group(1)] = set(x.strip() for x in m.group(2).split(',') if x.strip())
        for m in re.finditer(r"'([^']+)' does not depend on any axioms", out):
            seen[m.group(1)] = set()
        for t in thms:
            if t not in seen:
                self.oblige('lean:theorem:' + t, False, 'not proved (missing from the axiom audit): ' + out[-300:].replace('\n', ' '))
            else:
                extra = seen[t] - ALLOWED_AXIOMS
                self.oblige('lean:theorem:' + t, not extra, 'uses axioms outside the allowed set: %s' % sorted(extra))
        self.cov['theorems'] = thms
        self.cov['axioms'] = {t: sorted(a) for t, a in seen.items()}
        # textual audit of every Lean source (comments stripped)
        hits = []
        for path in glob.glob(os.path.join(LEAN, '**/*.lean'), recursive=True):
            if '/.lake/' in path: continue
            src = open(path).read()
            src = re.sub(r'/-.*?-/', '', src, flags=re.S)
            src = re.sub(r'--[^\n]*', '', src)
            for i, line in enumerate(src.split('\n')):
                if BANNED.search(line): hits.append('%s: %s' % (os.path.relpath(path, LEAN), line.strip()[:80]))
        self.oblige('lean:text-audit(no sorry/admit/axiom/native_decide/bv_decide/implemented_by/unsafe)', not hits, '; '.join(hits[:5]))
        # thorough tier: the toolchain's independent re-checker replays the compiled property modules (and everything they import) in the kernel
        if self.tier == 'thorough':
            import concurrent.futures
            def one(m):
                rc, out = sh(['lake', 'env', 'leanchecker', m], cwd=LEAN, timeout=2400)
                return m, rc, out
            with concurrent.futures.ThreadPoolExecutor(max_workers=8) as ex:
                for m, rc, out in ex.map(one, modules):
                    self.oblige('lean:leanchecker:' + m, rc == 0, out[-300:].replace('\n', ' '))
        return thms

    # ---- step 3: harness
    def cargo_build(self):
        rc, out = sh(['cargo', 'build', '--offline'], cwd=HARNESS, timeout=3000)
        if rc != 0:
            self.oblige('harness:build-against-/repo', False, out[-600:])
        return rc == 0

    def svh(self, args, timeout=1500):
        try:
            env = {'SVH_THREADS': '16'}
            env.update(getattr(self, 'svh_env', {}))
            rc, out = sh([SVH] + [str(a) for a in args], cwd=VERIF, timeout=timeout, env=env)
        except subprocess.TimeoutExpired:
            rc, out = 124, 'timed out after %ds (the implementation hangs or is pathologically slow on some generated input)' % timeout
        if rc != 0:
            self.oblige('harness:run:' + str(args[0]), False, 'exit %d: %s' % (rc, out[-400:]))
        return rc, out

    def run_model(self, cases, out_path, jobs=16):
        lines = open(cases).read().split('\n')
        if lines and lines[-1] == '': lines.pop()
        n = len(lines)
        if n == 0:
            open(out_path, 'w').close(); return
        chunk = (n + jobs - 1) // jobs
        procs = []
        for j in range(jobs):
            part = lines[j * chunk:(j + 1) * chunk]
            if not part: continue
            pin = os.path.join(self.outdir, '.m%d.in' % j); pout = os.path.join(self.outdir, '.m%d.out' % j)
            open(pin, 'w').write('\n'.join(part) + '\n')
            procs.append((subprocess.Popen([SVMODEL], stdin=open(pin), stdout=open(pout, 'w'), stderr=subprocess.DEVNULL), pin, pout))
        with open(out_path, 'w') as fo:
            for p, pin, pout in procs:
                p.wait(); fo.write(open(pout).read()); os.unlink(pin); os.unlink(pout)

    def correspond(self, name, cases, impl, model, tags=None, project=None, select=None):
        """diff implementation lines against model lines; every disagreement is a broken correspondence.
        `project` restricts both lines to the observables the property is about (the rest is compared by the checks of other properties)"""
        self.run_model(cases, model)
        li = open(impl).read().split('\n'); lm = open(model).read().split('\n')
        if project:
            li = [project(x) if x else x for x in li]; lm = [project(x) if (x and x != 'oof') else x for x in lm]
        lc = open(cases).read().split('\n')
        lt = open(tags).read().split('\n') if tags and os.path.exists(tags) else None
        if li and li[-1] == '': li.pop()
        if lm and lm[-1] == '': lm.pop()
        skipped = 0
        if select and lt is not None:
            # cases whose constructs are not the property's business are compared by the checks of the properties they belong to
            keep = [i for i in range(min(len(li), len(lt))) if li[i] != '' and select(lt[i])]
            skipped = len([x for x in li if x != '']) - len(keep)
            li = [li[i] for i in keep]; lm = [lm[i] if i < len(lm) else '' for i in keep]; lc = [lc[i] for i in keep]; lt = [lt[i] for i in keep]
        n = len(li)
        dis = []
        if len(lm) != n:
            dis.append((-1, 'line count', 'impl=%d model=%d' % (n, len(lm)), ''))
        for i in range(min(n, len(lm))):
            if li[i] != lm[i] and lm[i] != 'oof':
                dis.append((i, li[i][:200], lm[i][:200], (lt[i] if lt else '') + ' ' + lc[i][:400]))
        oof = sum(1 for x in lm if x == 'oof')
        self.programs += n; self.disagreements += len(dis)
        self.cov.setdefault('correspondence', {})[name] = {'cases': n, 'cases_left_to_other_properties': skipped, 'disagreements': len(dis), 'model_out_of_fuel': oof,
            'examples': [{'case': d[3], 'impl': d[1], 'model': d[2]} for d in dis[:3]]}
        self.oblige('correspondence:' + name, not dis,
                    '%d of %d cases differ; first: impl=%r model=%r case=%r' % (len(dis), n, dis[0][1] if dis else '', dis[0][2] if dis else '', dis[0][3][:200] if dis else ''))
        return dis

    def absorb(self, report_path, label):
        d = json.load(open(report_path))
        self.evaluations += d['evaluations']; self.distinct += d['distinct_nontrivial']
        self.rules.append('%s: %s' % (label, d['rule']))
        for s in d['samples']:
            if len(self.samples) < 8: self.samples.append(s)
        self.cov.setdefault('distribution', {})[label] = d['dist']
        for v in d['violations']: self.violations.append(dict(v, oracle=label))
        for k in d['known']:
            self.known_seen.setdefault(k['class'], k)
        return d

    # ---- verdict
    def finish(self, level, explanation, assumptions, search=None):
        known_file = json.load(open(os.path.join(VERIF, 'known_findings.json')))
        listed = {(k['property'], k['class']): k for k in known_file['findings'] if k.get('status') == 'finding'}
        for cls, ex in sorted(self.known_seen.items()):
            if (self.prop, cls) in listed:
                print('KNOWN-FINDING: property=%s %s [%s] e.g. %s' % (self.prop, listed[(self.prop, cls)]['what'], cls, ex['what'][:160]))
            else:
                self.violations.append(dict(ex, oracle='unlisted-known-class'))
        no_input = False
        if self.broken and not self.violations and search is not None:
            log('obligation(s) broken; searching for a concrete failing input:', self.broken[:3])
            search(self)
        rc = 0
        replay = None
        if self.violations or self.broken:
            rc = 1
            os.makedirs(os.path.join(VERIF, 'replays'), exist_ok=True)
            replay = os.path.join(VERIF, 'replays', '%s-%s-%d.json' % (self.prop, self.tier, self.seed))
            body = {'property': self.prop, 'tier': self.tier, 'seed': self.seed,
                    'violations': self.violations[:10], 'broken_obligations': self.broken[:20]}
            if not self.violations:
                no_input = True
                body['note'] = 'no failing input found; the theorems / correspondences listed under broken_obligations no longer check, so the property is no longer shown to hold'
            json.dump(body, open(replay, 'w'), indent=1)
            print('VIOLATION property=%s replay=%s%s' % (self.prop, replay, ' no-failing-input-found' if no_input else ''))
            for v in self.violations[:3]: log('  violation:', v.get('what'), '| input:', repr(v.get('input', ''))[:200])
            for b in self.broken[:5]: log('  broken:', b[:300])
        ob = len(self.obligations); dis = sum(1 for o in self.obligations if o[1])
        cov = dict(self.cov)
        cov.update({
            'obligations': ob, 'discharged': dis,
            'obligation_list': [{'name': n, 'ok': ok, 'detail': d[:200]} for n, ok, d in self.obligations],
            'checker_cmd': getattr(self, 'checker_cmd', 'lake build'),
            'trusted_base': TRUSTED_BASE,
            'evaluations': self.evaluations, 'distinct_nontrivial': self.distinct,
            'rule': ' || '.join(self.rules) if self.rules else 'n/a',
            'samples': self.samples if self.samples else ['(no oracle samples in this run)'],
            'programs': self.programs, 'disagreements_checked': self.disagreements,
            'explanation': explanation,
            'known_findings_seen': sorted(self.known_seen),
            'exhaustive': False,
        })
        ev = {'property_id': self.prop, 'tier': self.tier, 'seed': self.seed, 'level': level, 'coverage': cov,
              'assumptions': assumptions, 'wall_s': round(time.time() - self.t0, 1), 'violations': len(self.violations) + (1 if no_input else 0)}
        os.makedirs(os.path.join(VERIF, 'evidence'), exist_ok=True)
        json.dump(ev, open(os.path.join(VERIF, 'evidence', self.prop + '.json'), 'w'), indent=1)
        return rc

import SvModel.Props.C15
import SvModel.Props.C13
/-!
# C17 — the packrat memo table is a pure optimisation (proved part)

Model: `Memo` (map + FIFO key queue, `Memo.insert` evicts the oldest key at capacity) and the packrat wrapper in
`evalCall` (`Core/Peg.lean`): key = (production, position, in_directive), a hit returns the stored forest and length
with the CALLER's recursion info, a miss runs the body and stores. The capacity is a parameter of the grammar
(`memoCap`), so every theorem of C01 / C15 that quantifies over the grammar quantifies over the capacity too.

PARTIAL. What is proved: whatever the capacity and whatever has been evicted, a successful parse is lossless and the
incomplete entries never fail; a hit returns exactly what was stored. What is NOT proved — and false for the code as
it is — is that acceptance and tree are independent of the capacity: the keyword-version stack is read by productions
but is neither part of the memo key nor restored on backtracking, so a `begin_keywords directive in a region that is
re-parsed after its memo entry was evicted is executed twice (known finding D11, class
`directive-in-reparsed-region`; the executable model reproduces it at the same capacities as the implementation).
-/
namespace Sv
open Sv.Gen

/-- the generated grammar with another memo capacity (`none` = unbounded) -/
def grammarCap (c : Option Nat) : Grammar := { grammar with memoCap := c }

theorem grammarCap_wf (c : Option Nat) : GrammarWF (grammarCap c) := by
  intro f
  have := grammar_wf f
  simpa [grammarCap, Grammar.prod] using this

theorem marksCap_ok (c : Option Nat) : MarksOK (grammarCap c) prodMarks := by
  intro f hf
  have := marks_ok f hf
  simpa [grammarCap, Grammar.prod] using this

/-- **losslessness does not depend on the memo capacity or on what was evicted**: for every capacity (1, 2, …,
    unbounded), every input, entry and prior thread state, a success tiles the consumed range -/
theorem C17_tiling_any_capacity (c : Option Nat) (f : Nat) (inp : Input) (fuel : Nat) (st st' : PState) (q : Nat)
    (r : Rec) (ts : List Tree) (h : parseWith (grammarCap c) inp f st fuel = (.ok q r ts, st')) :
    TilesF inp 0 ts q := by
  have := (allSpec (grammarCap c) inp (grammarCap_wf c) fuel).eval (.call f) 0 {} st.init (inv_init inp st)
  unfold parseWith at h
  rw [h] at this
  exact this.2.1 rfl

/-- **a marked production consumes input at every capacity** -/
theorem C17_productive_any_capacity (c : Option Nat) (f : Nat) (hf : prodMarks.contains f = true) (inp : Input)
    (fuel pos : Nat) (rc : Rec) (st st' : PState) (hi : InvP prodMarks st) (q : Nat) (r : Rec) (ts : List Tree)
    (h : eval (grammarCap c) inp fuel (.call f) pos rc st = (.ok q r ts, st')) : pos < q := by
  have := (pAll (grammarCap c) inp prodMarks (marksCap_ok c) fuel).eval (.call f) pos rc st hi
  rw [h] at this
  exact this.2.2 (by simpa [PR] using hf)

/-- **a memo hit returns exactly what was stored** (and moves by the stored length, keeping the caller's recursion info) -/
theorem C17_hit_returns_stored (g : Grammar) (inp : Input) (fuel f pos : Nat) (r : Rec) (st : PState)
    (ts : List Tree) (len : Nat) (hp : (g.prod f).packrat = true)
    (hm : st.memo.find? (f, pos, decide (st.dir > 0)) = some (some (ts, len))) :
    evalCall g inp (fuel + 1) f pos r st = (.ok (pos + len) r ts, st) := by
  simp [evalCall, hp, hm]

/-- a stored failure is replayed as a failure at the call position -/
theorem C17_hit_replays_failure (g : Grammar) (inp : Input) (fuel f pos : Nat) (r : Rec) (st : PState)
    (hp : (g.prod f).packrat = true) (hm : st.memo.find? (f, pos, decide (st.dir > 0)) = some none) :
    evalCall g inp (fuel + 1) f pos r st = (.err pos, st) := by
  simp [evalCall, hp, hm]

/-- eviction is FIFO: at capacity the oldest key is dropped, everything else is kept -/
theorem C17_insert_keeps_others (cap : Option Nat) (m : Memo) (k k' : MKey) (v x : MVal)
    (h : (m.insert cap k v).find? k' = some x) : (k = k' ∧ x = v) ∨ m.find? k' = some x :=
  find_insert cap m k k' v x h


/-- **what a memo hit skips is state-neutral, with exactly two exceptions.** A hit returns the stored value without running the body, so the
    result can only be independent of the capacity if running a body leaves the thread-local cells as it found them. For the directive depth this
    holds for every production on every outcome (`C12_directive_depth_preserved`: no production contains a bare begin/end_directive); for the
    keyword-version stack every change is a scoped `kwScope` (restored on success and on failure) except in `version_specifier` (the push of
    `` `begin_keywords ``) and `endkeywords_directive` (the pop) — the two productions behind the known finding D11. Any other production that
    pushes or pops without restoring (e.g. a `?` between the push and the pop) breaks this obligation. -/
theorem C17_skipped_bodies_state_neutral :
    (allProdsL.zipIdx.all (fun p => !hasKwAtom p.1.body || p.2 == idx_version_specifier || p.2 == idx_endkeywords_directive)) = true ∧
    allProdsL.all (fun p => DirFree p.body) = true :=
  ⟨C13_kw_atoms_confined, grammar_dirfree_all⟩

end Sv

import SvModel.Gen.Entry
/-!
# C20 — file, string and two-step entry points agree

`Gen/Entry.lean` is regenerated from the Rust wrappers on every run: each wrapper is a term over four
abstract callees (`readFile`, `preprocessStr`, `parseSvPp`, `parseLibPp`) with the arguments passed BY
POSITION exactly as in the source. The theorems hold for every interpretation of the callees (every file
system, every preprocessor and parser behaviour), every argument and every flag combination. A swapped,
dropped or hard-wired positional argument in any wrapper changes the generated term and breaks a proof.
-/
namespace Sv.Gen.Entry

variable {Path Str Defs Incs Text Tree Err : Type} (E : Env Path Str Defs Incs Text Tree Err)

/-- `preprocess(path, d, incs, strip, ignore)` = read the file, then
    `preprocess_str(contents, path, d, incs, ignore, strip, 0, 0)` (note the swapped flag order of the two
    signatures) -/
theorem C20_preprocess_eq_str (path : Path) (d : Defs) (incs : Incs) (strip ignore : Bool) :
    preprocess E path d incs strip ignore =
      (match E.readFile path with
       | .error e => .error e
       | .ok s => E.preprocessStr s path d incs ignore strip 0 0) := rfl

/-- `parse_sv(path, ..)` = `parse_sv_str(contents of path, path, ..)` -/
theorem C20_parse_sv_eq_str (path : Path) (d : Defs) (incs : Incs) (ignore incomplete : Bool) :
    parseSv E path d incs ignore incomplete =
      (match E.readFile path with
       | .error e => .error e
       | .ok s => parseSvStr E s path d incs ignore incomplete) := by
  unfold parseSv parseSvStr preprocess preprocessInner
  cases E.readFile path <;> rfl

/-- `parse_sv(path, ..)` = `preprocess(path, .., strip_comments := false, ..)` followed by `parse_sv_pp` -/
theorem C20_parse_sv_two_step (path : Path) (d : Defs) (incs : Incs) (ignore incomplete : Bool) :
    parseSv E path d incs ignore incomplete =
      (match preprocess E path d incs false ignore with
       | .error e => .error e
       | .ok (t, dd) => E.parseSvPp t dd incomplete) := rfl

/-- `parse_sv_str(s, path, ..)` = `preprocess_str(s, path, .., strip_comments := false, 0, 0)` then `parse_sv_pp` -/
theorem C20_parse_sv_str_two_step (s : Str) (path : Path) (d : Defs) (incs : Incs) (ignore incomplete : Bool) :
    parseSvStr E s path d incs ignore incomplete =
      (match E.preprocessStr s path d incs ignore false 0 0 with
       | .error e => .error e
       | .ok (t, dd) => E.parseSvPp t dd incomplete) := rfl

theorem C20_parse_lib_eq_str (path : Path) (d : Defs) (incs : Incs) (ignore incomplete : Bool) :
    parseLib E path d incs ignore incomplete =
      (match E.readFile path with
       | .error e => .error e
       | .ok s => parseLibStr E s path d incs ignore incomplete) := by
  unfold parseLib parseLibStr preprocess preprocessInner
  cases E.readFile path <;> rfl

theorem C20_parse_lib_two_step (path : Path) (d : Defs) (incs : Incs) (ignore incomplete : Bool) :
    parseLib E path d incs ignore incomplete =
      (match preprocess E path d incs false ignore with
       | .error e => .error e
       | .ok (t, dd) => E.parseLibPp t dd incomplete) := rfl

theorem C20_parse_lib_str_two_step (s : Str) (path : Path) (d : Defs) (incs : Incs) (ignore incomplete : Bool) :
    parseLibStr E s path d incs ignore incomplete =
      (match E.preprocessStr s path d incs ignore false 0 0 with
       | .error e => .error e
       | .ok (t, dd) => E.parseLibPp t dd incomplete) := rfl

/-- `parse_sv_pp` / `parse_lib_pp` pick the incomplete entry exactly when `allow_incomplete`, and the five
    parser entries all start with `init()` and call the production of their name -/
theorem C20_dispatch :
    dispatch = [("parse_sv_pp", "sv_parser_incomplete", "sv_parser"), ("parse_lib_pp", "lib_parser_incomplete", "lib_parser")] ∧
    parserEntries = [("sv_parser", "source_text"), ("sv_parser_incomplete", "source_text_incomplete"),
      ("lib_parser", "library_text"), ("lib_parser_incomplete", "library_text_incomplete"),
      ("pp_parser", "preprocessor_text")] := by
  decide

/-- non-vacuity: with a concrete environment the two sides are a non-trivial computation -/
example : parseSv (Path := Nat) (Str := Nat) (Defs := Nat) (Incs := Nat) (Text := Nat) (Tree := Nat) (Err := Nat)
    { readFile := fun p => if p = 7 then .ok 100 else .error 1,
      preprocessStr := fun s p d _ ig st rd id => .ok (s + p + d + (if ig then 1000 else 0) + (if st then 5000 else 0) + rd + id, d),
      parseSvPp := fun t d inc => .ok (t + (if inc then 1 else 0), d),
      parseLibPp := fun t d _ => .ok (t, d) } 7 3 0 true true = .ok (1111, 3) := by
  rfl

end Sv.Gen.Entry

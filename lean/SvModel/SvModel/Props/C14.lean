import SvModel.Props.C03
import SvModel.Props.C01
import SvModel.Lemmas.ErrBound
/-!
# C14 — invalid sources are rejected; error location (proved part)

PARTIAL. Proved on the model: (1) an accepted source has every byte inside exactly one token or trivia leaf, so a
byte that cannot be part of any token or trivia makes strict parsing fail; (2) a reported error position is never
before the start of the parse and a success never moves backwards; (3) `parse_sv_pp` maps the error position through
the origin map, which on a tiled output returns the file and offset of the segment holding that byte (C03).
NOT proved: that the reported position is at or before the inserted byte, and that deleting a bracket / closing
keyword is rejected — both are statements about which terminals the 1297-production grammar can reach at a given
point; they are explored by the oracle on every eligible token boundary of the corpus.
-/
namespace Sv
open Sv.Gen

/-- in a chain from `p` to `q` every position in between lies in exactly one leaf -/
theorem chain_covers (inp : Input) : ∀ (ls : List (Nat × Nat × Nat)) (p q k : Nat), Chain inp p ls q → p ≤ k → k < q →
    ∃ x ∈ ls, x.1 ≤ k ∧ k < x.1 + x.2.1 := by
  intro ls
  induction ls with
  | nil => intro p q k h h1 h2; simp [Chain] at h; omega
  | cons x xs ih =>
    intro p q k h h1 h2
    obtain ⟨o, l, n⟩ := x
    simp only [Chain] at h
    obtain ⟨rfl, hl, _, _, hr⟩ := h
    by_cases hk : k < o + l
    · exact ⟨(o, l, n), by simp, h1, hk⟩
    · obtain ⟨y, hy, h3, h4⟩ := ih (o + l) q k hr (by omega) h2
      exact ⟨y, by simp [hy], h3, h4⟩

/-- **an accepted source has every byte inside a token or trivia leaf**: if strict parsing accepts, then for every
    byte position `k` of the text there is a leaf of the tree that contains it. Contrapositive: a byte that no token
    and no trivia can contain makes the source be rejected. -/
theorem C14_accepted_covers_every_byte (f : Nat) (hf : f = idx_source_text ∨ f = idx_library_text)
    (inp : Input) (fuel : Nat) (st st' : PState) (q : Nat) (r : Rec) (ts : List Tree)
    (h : parseWith grammar inp f st fuel = (.ok q r ts, st')) (k : Nat) (hk : k < inp.size) :
    ∃ x ∈ leavesL ts, x.1 ≤ k ∧ k < x.1 + x.2.1 := by
  have := (C01_strict_covers_all f hf inp fuel st st' q r ts h).2
  exact chain_covers inp (leavesL ts) 0 inp.size k this (Nat.zero_le _) hk

/-- **error positions are never before the start** (and successes never move backwards), for every grammar,
    input, fuel and thread state -/
theorem C14_error_position_ge_start (g : Grammar) (inp : Input) (fuel : Nat) (e : PExpr) (pos : Nat) (r : Rec) (st : PState) :
    (∀ ep st', eval g inp fuel e pos r st = (.err ep, st') → pos ≤ ep) ∧
    (∀ q r' ts st', eval g inp fuel e pos r st = (.ok q r' ts, st') → pos ≤ q) := by
  have h := (geAll g inp fuel).eval e pos r st
  constructor
  · intro ep st' heq; rw [heq] at h; exact h.1
  · intro q r' ts st' heq; rw [heq] at h; exact h.2

/-- **the error position is mapped through the origin map**: for a position inside a tiled preprocessed text the
    lookup used by `parse_sv_pp` names the source of the segment that holds that byte (instance of C03) -/
theorem C14_parse_error_mapped (t : POut) (h : t.Tiled) (ep : Nat) (hp : ep < t.text.length) :
    ∃ k v, (k, v) ∈ t.origins ∧ k.b ≤ ep ∧ ep < k.e ∧
      t.origin ep = (match v.src with | some (p, r) => some (p, ep - k.b + r.b) | none => none) :=
  C03_origin_lookup t h ep hp

end Sv

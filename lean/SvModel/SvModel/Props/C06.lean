import SvModel.Props.C01
import SvModel.Core.Pp
import SvModel.Lemmas.Walker
import SvModel.Gen.PpKinds
/-!
# C06 — directive-free text passes through unchanged (proved part: the preprocessor's parse is lossless)

`preprocess_str` parses the whole text with `all_consuming(pp_parser)` and copies the leaves of that tree.
Proved here, on the grammar regenerated from /repo: whenever that parse succeeds, the leaves of the tree tile the
WHOLE input (so the verbatim-copy arms of the walker can reproduce it byte for byte). The walker itself
(`Core/Pp.lean`) is tied to the code by the correspondence run; its identity on directive-free trees is checked by
the oracle on the implementation and by the correspondence AND, below, proved: `C06_identity` — on a tree without directive nodes and without trailing trivia after a
string / escaped identifier (the shape the grammar gives to directive-free, D4-free text) `preprocess_str` returns the input
byte for byte, the caller's define table (plus the SV_COV seeds), and origin(i) = (path, i) for every i.
-/
namespace Sv
open Sv.Gen

/-- the parse `preprocess_str` starts with: `all_consuming(pp_parser)` from a fresh `init()` -/
def ppParse (inp : Input) (st : PState) (fuel : Nat) : Out × PState :=
  eval grammar inp fuel (.allConsuming (.call idx_preprocessor_text)) 0 {} st.init

/-- **the preprocessor's parse is lossless**: on success it ends exactly at `|text|` and the leaves, in iteration order,
    are non-empty ranges that follow one another from 0 to `|text|` — for every input and prior thread state -/
theorem C06_pp_parse_lossless (inp : Input) (st st' : PState) (fuel q : Nat) (r : Rec) (ts : List Tree)
    (h : ppParse inp st fuel = (.ok q r ts, st')) : q = inp.size ∧ TilesF inp 0 ts inp.size := by
  unfold ppParse at h
  have ht := (C01_tiling_from (.allConsuming (.call idx_preprocessor_text)) (by simp [WF]) inp fuel 0 {} st.init st'
    (inv_init inp st) q r ts h).1
  have hle : q ≤ inp.size := Chain.end_le' ht (Nat.zero_le _)
  have hge := (strictSpec grammar inp fuel).eval (.allConsuming (.call idx_preprocessor_text)) 0 {} st.init (by simp [Strict])
  rw [h] at hge
  have : inp.size ≤ q := hge
  have hq : q = inp.size := by omega
  exact ⟨hq, hq ▸ ht⟩

/-- hence concatenating the leaf texts reproduces the input byte for byte -/
theorem C06_pp_leaves_concat (inp : Input) (st st' : PState) (fuel q : Nat) (r : Rec) (ts : List Tree)
    (h : ppParse inp st fuel = (.ok q r ts, st')) :
    leafBytes inp (leavesL ts) = sliceBytes inp 0 inp.size := by
  have := (C06_pp_parse_lossless inp st st' fuel q r ts h).2
  simpa using C01_concat_leaves inp 0 inp.size (leavesL ts) this

/-- the facts about kind numbers the walker theorems need hold for the kinds regenerated from /repo -/
theorem ppKinds_ok : KindsOK ppKinds := by
  constructor <;> decide

theorem ppKinds_ppText : ppKinds.ppText = idx_preprocessor_text := by decide

/-- **C06, identity clause.** Let the preprocessor's own parse of `s` (grammar regenerated from /repo) return a tree
    `PreprocessorText [sd₁ … sdₙ]` in which every `sdᵢ` is plain: a non-directive run, a comment, or a string literal / escaped
    identifier WITHOUT trailing trivia (the excluded shape is the known finding D4). Then, for every path, caller define
    table, file system, include-path list, value of `ignore_include`, with `strip_comments` off, `preprocess_str` succeeds and
    * the output text is the input, byte for byte,
    * every output offset maps to the same offset of `path`,
    * the returned define table is the seeded table (nothing was defined or undefined).
    Unbounded: all inputs of that shape, all lengths; `fuel` only has to cover the number of events. -/
theorem C06_identity (fs : Fs) (incs : List Bytes) (s path : Bytes) (d : Defines) (ii : Bool) (rd id : Nat) (hid : id ≤ recursiveLimit)
    (fuel q : Nat) (r : Rec) (kpp : Nat) (sds : List Tree) (st' : PState)
    (hparse : ppParse (toInput s) {} (4000 + 400 * (toInput s).size) = (.ok q r [.node kpp sds], st'))
    (hpp : inert ppKinds (.node kpp sds) = true) (hplain : ∀ t ∈ sds, PlainSD ppKinds t)
    (hfuel : 6 * sds.length + 4 ≤ fuel) :
    ∃ out dd, preprocessStr ⟨ppKinds, grammar, fs, incs⟩ fuel s path d ii false rd id = .ok (out, dd) ∧
      out.text = sliceBytes (toInput s) 0 (toInput s).size ∧
      (∀ i, i < out.text.length → out.origin i = some (path, i)) ∧
      dd = (d.reverse.foldl (fun (t : Defines) (kv : Bytes × Option Define) => t.insert kv.1 kv.2)
        (svCovDefines.foldl (fun (t : Defines) (kv : String × String) =>
          t.insert (bstr kv.1) (some { ident := bstr kv.1, args := [], text := some { text := bstr kv.2, origin := none } })) ([] : Defines))) := by
  obtain ⟨f, rfl⟩ : ∃ f, fuel = (f + 6 * sds.length + 3) + 1 := ⟨fuel - (6 * sds.length + 4), by omega⟩
  have hl := (C06_pp_parse_lossless (toInput s) {} st' _ q r _ hparse).2
  unfold ppParse at hparse
  have hchain : Chain (toInput s) 0 (leavesL sds) (toInput s).size := by
    simpa [TilesF, leavesL, leaves] using hl
  have hidn : ¬ (id > recursiveLimit) := by omega
  refine ⟨copyOut (toInput s) path {} (leavesL sds), _, ?_, ?_, ?_, rfl⟩
  · unfold preprocessStr
    simp only [hidn, if_false, ppKinds_ppText, hparse]
    rw [walk_plain_tree ⟨ppKinds, grammar, fs, incs⟩ ppKinds_ok f (toInput s) s path ii rd id kpp sds hpp hplain _
      ⟨rfl, rfl, rfl, rfl⟩]
  · have := (copyOut_chain (toInput s) path (leavesL sds) {} 0 (toInput s).size ⟨tiled_empty, by simp⟩ rfl hchain).2
    simpa using this
  · intro i hi
    exact idOut_origin path _ (copyOut_chain (toInput s) path (leavesL sds) {} 0 (toInput s).size ⟨tiled_empty, by simp⟩ rfl hchain).1 i hi



theorem toInput_size (s : Bytes) : (toInput s).size = s.length := by
  simp [toInput, ByteArray.size]

theorem byteAt_toInput (s : Bytes) (i : Nat) (h : i < s.length) (hb : ∀ b ∈ s, b < 256) :
    byteAt (toInput s) i = some (s[i]) := by
  unfold byteAt
  have hs : i < (toInput s).size := by rw [toInput_size]; exact h
  simp only [hs, dite_true]
  have hlt : s[i] < 256 := hb _ (List.getElem_mem h)
  simp [toInput, ByteArray.getElem_eq_getElem_data, UInt8.toNat_ofNat', Nat.mod_eq_of_lt hlt]

/-- a byte list (all values < 256) survives the round trip through the byte array the parser works on -/
theorem sliceBytes_toInput (s : Bytes) (hb : ∀ b ∈ s, b < 256) : sliceBytes (toInput s) 0 (toInput s).size = s := by
  rw [toInput_size]
  apply List.ext_getElem
  · simp [sliceBytes]
  · intro i h1 h2
    simp only [sliceBytes, List.getElem_map, List.getElem_range, Nat.zero_add]
    rw [byteAt_toInput s i h2 hb]; rfl

/-- `C06_identity` with the text clause in terms of the input string itself (bytes are < 256) -/
theorem C06_identity_text (fs : Fs) (incs : List Bytes) (s path : Bytes) (d : Defines) (ii : Bool) (rd id : Nat) (hid : id ≤ recursiveLimit)
    (fuel q : Nat) (r : Rec) (kpp : Nat) (sds : List Tree) (st' : PState) (hb : ∀ b ∈ s, b < 256)
    (hparse : ppParse (toInput s) {} (4000 + 400 * (toInput s).size) = (.ok q r [.node kpp sds], st'))
    (hpp : inert ppKinds (.node kpp sds) = true) (hplain : ∀ t ∈ sds, PlainSD ppKinds t)
    (hfuel : 6 * sds.length + 4 ≤ fuel) :
    ∃ out dd, preprocessStr ⟨ppKinds, grammar, fs, incs⟩ fuel s path d ii false rd id = .ok (out, dd) ∧ out.text = s ∧
      (∀ i, i < s.length → out.origin i = some (path, i)) := by
  obtain ⟨out, dd, h1, h2, h3, _⟩ := C06_identity fs incs s path d ii rd id hid fuel q r kpp sds st' hparse hpp hplain hfuel
  have ht : out.text = s := by rw [h2, sliceBytes_toInput s hb]
  exact ⟨out, dd, h1, ht, fun i hi => h3 i (by rw [ht]; exact hi)⟩

end Sv

import SvModel.Props.C01
import SvModel.Core.Pp
/-!
# C06 — directive-free text passes through unchanged (proved part: the preprocessor's parse is lossless)

`preprocess_str` parses the whole text with `all_consuming(pp_parser)` and copies the leaves of that tree.
Proved here, on the grammar regenerated from /repo: whenever that parse succeeds, the leaves of the tree tile the
WHOLE input (so the verbatim-copy arms of the walker can reproduce it byte for byte). The walker itself
(`Core/Pp.lean`) is tied to the code by the correspondence run; its identity on directive-free trees is checked by
the oracle on the implementation and by the correspondence, not yet stated as a theorem (see DESIGN.md).
-/
namespace Sv
open Sv.Gen

/-- the parse `preprocess_str` starts with: `all_consuming(pp_parser)` from a fresh `init()` -/
def ppParse (inp : Input) (st : PState) (fuel : Nat) : Out × PState :=
  eval grammar inp fuel (.allConsuming (.call idx_preprocessor_text)) 0 {} st.init

/-- **the preprocessor's parse is lossless**: on success it ends exactly at `|text|` and the leaves, in iteration order,
    are non-empty ranges that follow one another from 0 to `|text|` — for every input and prior thread state -/
theorem C06_pp_parse_lossless (inp : Input) (st st' : PState) (fuel q : Nat) (r : Rec) (ts : List Tree)
    (h : ppParse inp st fuel = (.ok q r ts, st')) : q = inp.size ∧ TilesF inp 0 ts inp.size := by
  unfold ppParse at h
  have ht := (C01_tiling_from (.allConsuming (.call idx_preprocessor_text)) (by simp [WF]) inp fuel 0 {} st.init st'
    (inv_init inp st) q r ts h).1
  have hle : q ≤ inp.size := Chain.end_le' ht (Nat.zero_le _)
  have hge := (strictSpec grammar inp fuel).eval (.allConsuming (.call idx_preprocessor_text)) 0 {} st.init (by simp [Strict])
  rw [h] at hge
  have : inp.size ≤ q := hge
  have hq : q = inp.size := by omega
  exact ⟨hq, hq ▸ ht⟩

/-- hence concatenating the leaf texts reproduces the input byte for byte -/
theorem C06_pp_leaves_concat (inp : Input) (st st' : PState) (fuel q : Nat) (r : Rec) (ts : List Tree)
    (h : ppParse inp st fuel = (.ok q r ts, st')) :
    leafBytes inp (leavesL ts) = sliceBytes inp 0 inp.size := by
  have := (C06_pp_parse_lossless inp st st' fuel q r ts h).2
  simpa using C01_concat_leaves inp 0 inp.size (leavesL ts) this

end Sv

import SvModel.Core.Pp
import SvModel.Gen.PpConsts
/-!
# The constants the hand-written walker model repeats are the constants of the source (T-gen for C04, C09, C11)

`Gen/PpConsts.lean` is regenerated from `sv-parser-pp/src/preprocess.rs` on every run; the equalities below are re-checked against it.
-/
namespace Sv

/-- the recursion limit of the model is `RECURSIVE_LIMIT` of the source -/
theorem C09_limit_from_source : recursiveLimit = Gen.recursiveLimitSrc := by decide

/-- the source uses the limit in exactly the two comparisons the model has (`preprocessStr`: `includeDepth > recursiveLimit`,
    `resolveUsage`: `resolveDepth > recursiveLimit`), both strict -/
theorem C09_guards_from_source :
    Gen.recursiveLimitGuards = ["include_depth > RECURSIVE_LIMIT", "resolve_depth > RECURSIVE_LIMIT"] := rfl

/-- the SV_COV_* seed table of the model is the table of the source, entry by entry and in the same order -/
theorem C11_svcov_from_source : svCovDefines = Gen.svCovSrc := rfl

/-- `isPredefined` of the model accepts exactly the names `is_predefined_text_macro` accepts -/
theorem C04_predefined_from_source (s : Bytes) : isPredefined s = Gen.predefinedSrc.contains s := by
  simp only [isPredefined, Gen.predefinedSrc, bLINE, bFILE, List.contains_cons, List.contains_nil, Bool.or_false]

end Sv

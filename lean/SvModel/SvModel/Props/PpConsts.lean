import SvModel.Core.Pp
import SvModel.Gen.PpConsts
import SvModel.Gen.PpArms
/-!
# The constants the hand-written walker model repeats are the constants of the source (T-gen for C04, C09, C11)

`Gen/PpConsts.lean` is regenerated from `sv-parser-pp/src/preprocess.rs` on every run; the equalities below are re-checked against it.
-/
namespace Sv

/-- the recursion limit of the model is `RECURSIVE_LIMIT` of the source -/
theorem C09_limit_from_source : recursiveLimit = Gen.recursiveLimitSrc := by decide

/-- the source uses the limit in exactly the two comparisons the model has (`preprocessStr`: `includeDepth > recursiveLimit`,
    `resolveUsage`: `resolveDepth > recursiveLimit`), both strict -/
theorem C09_guards_from_source :
    Gen.recursiveLimitGuards = ["include_depth > RECURSIVE_LIMIT", "resolve_depth > RECURSIVE_LIMIT"] := rfl

/-- the SV_COV_* seed table of the model is the table of the source, entry by entry and in the same order -/
theorem C11_svcov_from_source : svCovDefines = Gen.svCovSrc := rfl

/-- `isPredefined` of the model accepts exactly the names `is_predefined_text_macro` accepts -/
theorem C04_predefined_from_source (s : Bytes) : isPredefined s = Gen.predefinedSrc.contains s := by
  simp only [isPredefined, Gen.predefinedSrc, bLINE, bFILE, List.contains_cons, List.contains_nil, Bool.or_false]


/-- **the event loop of the source has exactly the arms the walker model was transliterated from**, in this order and with these guards:
    block 1 (`skipStep`: every Enter / Leave), `if skip { continue; }`, block 2 (`lineStep`: Enter / Leave of SourceDescriptionNotDirective and
    CompilerDirective), block 3 (`enterStep` / `leaveStep`): text, the two string-like SourceDescription variants, the eleven kept directives
    (`PpKinds.kept`, Enter emits and sets skip_whitespace, Leave clears it), `undef, `undefineall, `ifdef, WhiteSpace (guard
    `!skip_whitespace`), Comment, `ifndef, `define, `include (guard `!ignore_include`), macro usage, `__FILE__ / `__LINE__.
    Regenerated from `preprocess.rs` on every run; an added, removed, re-ordered or re-guarded arm breaks this obligation. -/
theorem Pp_arms_from_source :
    Gen.ppArms = [
      "Enter(x)", "Leave(x)",
      "Enter(SourceDescriptionNotDirective)", "Enter(CompilerDirective)", "Leave(SourceDescriptionNotDirective)", "Leave(CompilerDirective)",
      "Enter(SourceDescriptionNotDirective)", "Enter(SourceDescription::StringLiteral)", "Enter(SourceDescription::EscapedIdentifier)",
      "Enter(ResetallCompilerDirective)", "Leave(ResetallCompilerDirective)",
      "Enter(TimescaleCompilerDirective)", "Leave(TimescaleCompilerDirective)",
      "Enter(DefaultNettypeCompilerDirective)", "Leave(DefaultNettypeCompilerDirective)",
      "Enter(UnconnectedDriveCompilerDirective)", "Leave(UnconnectedDriveCompilerDirective)",
      "Enter(NounconnectedDriveCompilerDirective)", "Leave(NounconnectedDriveCompilerDirective)",
      "Enter(CelldefineDriveCompilerDirective)", "Leave(CelldefineDriveCompilerDirective)",
      "Enter(EndcelldefineDriveCompilerDirective)", "Leave(EndcelldefineDriveCompilerDirective)",
      "Enter(Pragma)", "Leave(Pragma)",
      "Enter(LineCompilerDirective)", "Leave(LineCompilerDirective)",
      "Enter(KeywordsDirective)", "Leave(KeywordsDirective)",
      "Enter(EndkeywordsDirective)", "Leave(EndkeywordsDirective)",
      "Enter(UndefineCompilerDirective)", "Leave(UndefineCompilerDirective)",
      "Enter(UndefineallCompilerDirective)", "Leave(UndefineallCompilerDirective)",
      "Enter(IfdefDirective)",
      "Enter(WhiteSpace) if !skip_whitespace",
      "Enter(Comment)",
      "Enter(IfndefDirective)",
      "Enter(TextMacroDefinition)",
      "Enter(IncludeCompilerDirective) if !ignore_include",
      "Enter(TextMacroUsage)",
      "Enter(PositionCompilerDirective)"] ∧
    Gen.ppMatchBlocks = 3 ∧ Gen.ppSkipContinue = 1 := ⟨rfl, rfl, rfl⟩

end Sv

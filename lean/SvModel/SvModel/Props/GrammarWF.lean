import SvModel.Gen.Grammar
import SvModel.Gen.W00
import SvModel.Gen.W01
import SvModel.Gen.W02
import SvModel.Gen.W03
import SvModel.Gen.W04
import SvModel.Gen.W05
import SvModel.Gen.W06
import SvModel.Gen.W07
import SvModel.Gen.W08
import SvModel.Gen.W09
import SvModel.Gen.W10
import SvModel.Gen.W11
import SvModel.Gen.W12
import SvModel.Gen.W13
import SvModel.Gen.W14
import SvModel.Gen.W15
import SvModel.Lemmas.Tiling
/-!
The generated grammar passes the `TileWF` check. One kernel-evaluated obligation per shard
(`Gen/Wnn.lean`, `decide +kernel`), re-checked against freshly translated code on every run.
-/
namespace Sv.Gen
open Sv

/-- generic: if every production of a grammar passes the check then so does every lookup (the default
    production for an out-of-range index is `.fail`) -/
theorem grammarWF_of_all (g : Grammar) (h : g.prods.all Prod.wf = true) : GrammarWF g := by
  intro f
  unfold Grammar.prod
  by_cases hf : f < g.prods.size
  · have := (Array.all_eq_true_iff_forall_mem.mp h) (g.prods[f]) (Array.getElem_mem hf)
    simpa [Array.getD, hf, Prod.wf] using this
  · simp [Array.getD, hf, WF]

theorem allProdsL_wf : allProdsL.all Prod.wf = true := by
  unfold allProdsL
  simp only [List.all_append, wf00, wf01, wf02, wf03, wf04, wf05, wf06, wf07, wf08, wf09, wf10, wf11, wf12,
    wf13, wf14, wf15, Bool.and_self]

theorem allProds_wf : allProds.all Prod.wf = true := by
  unfold allProds
  simpa using allProdsL_wf

/-- every production of the generated grammar is `TileWF` -/
theorem grammar_wf : GrammarWF grammar := grammarWF_of_all grammar allProds_wf

end Sv.Gen

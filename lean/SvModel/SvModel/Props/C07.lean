import SvModel.Core.Pp
import SvModel.Gen.Grammar
import SvModel.Gen.Entry
import SvModel.Gen.Statics
/-!
# C07 — results depend only on the arguments, not on what the thread did before
# C19 — concurrent calls on different threads do not interfere (same model facts)

Model: `PState` is the complete thread-local state of the parser crate (`IN_DIRECTIVE`, `CURRENT_VERSION`,
`PACKRAT_STORAGE`); every public parser entry is `init(); PROD(s)` (generated `Entry.parserEntries`), and
`init()` resets all three cells (`PState.init`). The preprocessor model takes no thread state at all.
Generated obligations (re-extracted from the sources on every run): the inventory of statics of the six
crates and of nom-packrat / nom-recursive is exactly those three cells plus `RECURSIVE_STORAGE` (an injective
name→index table, modelled by using the production number itself as the flag), every cell is
`thread_local!`, there is no `static mut`, no lock/atomic/once-cell, no `unsafe impl Sync/Send`; each clear
function clears its cell; `init()` calls all three.
-/
namespace Sv
open Sv.Gen

/-- `init()` forgets everything the thread did before: the state after `init` is the same constant whatever
    the prior state (memo contents, directive depth, version stack). -/
theorem C07_init_const (st₁ st₂ : PState) : st₁.init = st₂.init := rfl

/-- **Parser entries are history-independent**: outcome *and* final thread state of every entry
    (`sv_parser`, `sv_parser_incomplete`, `lib_parser`, `lib_parser_incomplete`, `pp_parser`) are the same from
    any two prior thread states — for every grammar, input, entry and fuel. -/
theorem C07_parse_history_independent (g : Grammar) (inp : Input) (f : Nat) (st₁ st₂ : PState) (fuel : Nat) :
    parseWith g inp f st₁ fuel = parseWith g inp f st₂ fuel := rfl

/-- a thread's history: any finite sequence of parser-entry calls (accepted, rejected, leaving a
    `begin_keywords` region open, filling the memo …), each starting from the state the previous one left -/
def runHistory (g : Grammar) (fuel : Nat) : List (Input × Nat) → PState → PState
  | [], st => st
  | (inp, f) :: rest, st => runHistory g fuel rest (parseWith g inp f st fuel).2

/-- **after any history the probe call returns what it returns on a fresh thread** -/
theorem C07_history (g : Grammar) (fuel : Nat) (hist : List (Input × Nat)) (st : PState) (inp : Input) (f : Nat) :
    parseWith g inp f (runHistory g fuel hist st) fuel = parseWith g inp f {} fuel := rfl

/-- the preprocessor model has no thread-state parameter: `preprocessStr` is a function of its arguments and of
    the file system (its only use of the parser is through `PState.init`) -/
theorem C07_preprocess_is_function (C : Cfg) (fuel : Nat) (s path : Bytes) (d : Defines) (ii sc : Bool) (rd id : Nat) :
    ∀ (_before _after : PState), preprocessStr C fuel s path d ii sc rd id = preprocessStr C fuel s path d ii sc rd id :=
  fun _ _ => rfl

/-- generated inventory: the only state that outlives a call are four `thread_local!` cells -/
theorem C07_statics_inventory :
    statics = [("nom-recursive", "lib.rs", "thread_local", "RECURSIVE_STORAGE"),
               ("sv-parser-parser", "lib.rs", "thread_local", "PACKRAT_STORAGE(AnyNode,bool,1024)"),
               ("sv-parser-parser", "utils.rs", "thread_local", "CURRENT_VERSION"),
               ("sv-parser-parser", "utils.rs", "thread_local", "IN_DIRECTIVE")] := by
  decide

/-- every cell is cleared by `init()`: the three clear functions clear exactly their cell, `init()` calls all of
    them, and all five parser entries start with `init()` -/
theorem C07_init_clears_all :
    clearsOK.all (fun x => x.2) = true ∧
    Entry.initCalls = ["nom_packrat::init!", "clear_directive", "clear_version"] ∧
    Entry.parserEntriesAll = true := by
  decide

/-! ### C19: threads -/

/-- the world: one thread-local state per thread id -/
abbrev World := Nat → PState

/-- a step of thread `i` reads and writes component `i` only (all state is `thread_local!`) -/
def stepThread (g : Grammar) (fuel : Nat) (w : World) (i : Nat) (inp : Input) (f : Nat) : Out × World :=
  let r := parseWith g inp f (w i) fuel
  (r.1, fun j => if j = i then r.2 else w j)

/-- run a schedule (any interleaving of calls of any number of threads) and collect the outcomes in order -/
def runSchedule (g : Grammar) (fuel : Nat) : List (Nat × Input × Nat) → World → List Out
  | [], _ => []
  | (i, inp, f) :: rest, w =>
    let r := stepThread g fuel w i inp f
    r.1 :: runSchedule g fuel rest r.2

/-- **non-interference**: under every schedule each call returns exactly what it returns when run alone on
    a fresh thread (induction on the schedule; all interleavings, any number of threads, same or distinct inputs) -/
theorem C19_threads_noninterference (g : Grammar) (fuel : Nat) (sched : List (Nat × Input × Nat)) (w : World) :
    runSchedule g fuel sched w = sched.map (fun c => (parseWith g c.2.1 c.2.2 {} fuel).1) := by
  induction sched generalizing w with
  | nil => rfl
  | cons c rest ih =>
    obtain ⟨i, inp, f⟩ := c
    simp only [runSchedule, List.map_cons, stepThread]
    rw [ih]
    rfl

/-- generated obligation for C19: no state is shared between threads -/
theorem C19_no_shared_state :
    statics.all (fun x => x.2.2.1 == "thread_local") = true := by
  decide

/-- non-vacuity: a two-thread schedule on a real grammar -/
example : (runSchedule grammar 50 [(0, "a".toUTF8, idx_source_text), (1, "b".toUTF8, idx_library_text),
    (0, "c".toUTF8, idx_source_text)] (fun _ => {})).length = 3 := rfl

end Sv

import SvModel.Props.GrammarWF
import SvModel.Lemmas.Scope
/-!
# C13 — reserved words of the keyword set in force are never identifiers (proved part)
# C12 — trivia never alters the parse (proved part: scope discipline)

Generated (re-extracted from /repo on every run): the nine keyword tables, the `is_keyword` version→table map, the
`begin_keywords` string→version map, the `is_later_keyword` guard, every production.

PARTIAL. Proved: the identifier lexers never return a word of the table on top of the version stack; the guard makes
`keyword(w)` fail for a word reserved only by a later standard; the tables are monotone in the order of the standards;
`version_specifier` pushes the table of the string it matched; keyword-table pushes and pops occur only in
`version_specifier` / `endkeywords_directive` (everything else is the scoped `kwScope`, which always pops);
no production contains a bare begin/end_directive, so parsing ANY trivia (or anything else) leaves the directive depth
as it found it, on success and on failure. NOT proved: that the stack at an identifier equals the TEXTUAL nesting of
`begin_keywords regions — it needs "each directive is executed exactly once", which backtracking plus FIFO eviction
falsifies (known finding D11); and the full re-layout statement of C12 (tree equality for arbitrary trivia), which is
explored by the oracle.
-/
namespace Sv
open Sv.Gen

/-- **identifier lexers never return a reserved word of the set in force**: when `identKw e` (the shape of
    `simple_identifier_impl` / `c_identifier_impl`) succeeds, the text of its token is not in the table selected by
    the top of the version stack (default table when the stack is empty) -/
theorem C13_ident_not_reserved (g : Grammar) (inp : Input) (fuel : Nat) (e : PExpr) (pos : Nat) (rc : Rec) (st st' : PState)
    (q : Nat) (r : Rec) (ts : List Tree) (h : eval g inp (fuel + 1) (.identKw e) pos rc st = (.ok q r ts, st')) :
    isKeyword g inp st'.vers ts = false := by
  simp only [eval] at h
  split at h
  · rename_i q1 r1 ts1 st1 heq
    split at h
    · simp at h
    · rename_i hk
      simp at h
      obtain ⟨⟨_, _, rfl⟩, rfl⟩ := h
      simpa using hk
  · simp at h
  · simp at h

/-- a word that is NOT in the table in force passes the keyword test of the identifier lexers -/
theorem C13_later_word_is_identifier (g : Grammar) (inp : Input) (vers : List Nat) (o l n : Nat)
    (h : (g.kwTables.getD (vers.headD g.kwDefault) []).contains (sliceBytes inp o l) = false) :
    isKeyword g inp vers [.leaf o l n] = false := by
  unfold isKeyword
  exact h

/-- … and `keyword(w)` refuses to lex it as a keyword: inside a region of an older standard (`v` not exempt) the guard
    fails exactly for the words of the 1800-2017 table that the table in force lacks -/
theorem C13_guard_spec (g : Grammar) (v : Nat) (rest : List Nat) (w : List Nat) (hv : g.kwNoGuard.contains v = false) :
    isLaterKeyword g (v :: rest) w =
      ((g.kwTables.getD g.kwLatest []).contains w && !(g.kwTables.getD v []).contains w) := by
  show (if g.kwNoGuard.contains v = true then false else _) = _
  rw [hv]
  rfl

theorem C13_guard_off_outside_regions (g : Grammar) (w : List Nat) : isLaterKeyword g [] w = false := rfl

def subsetOf (a b : List (List Nat)) : Bool := a.all (fun w => b.contains w)

/-- **the tables are monotone in the order of the standards** (1364-1995 ⊆ 1364-2001-noconfig ⊆ 1364-2001 ⊆
    1364-2005 ⊆ 1800-2005 ⊆ 1800-2009 ⊆ 1800-2012 = 1800-2017), so "reserved only in a later standard" is well defined -/
theorem C13_tables_monotone :
    subsetOf kw0 kw2 = true ∧ subsetOf kw2 kw1 = true ∧ subsetOf kw1 kw3 = true ∧ subsetOf kw3 kw4 = true ∧
    subsetOf kw4 kw5 = true ∧ subsetOf kw5 kw6 = true ∧ subsetOf kw6 kw7 = true ∧ subsetOf kw7 kw6 = true := by
  decide +kernel

mutual
def tagsOf : PExpr → List (List Nat)
  | .term (.tag bs) => [bs]
  | .seq es => tagsOfL es
  | .alt es => tagsOfL es
  | .shaped stmts _ => tagsOfL stmts
  | .opt e => tagsOf e
  | .many0 e => tagsOf e
  | .drop e => tagsOf e
  | .peek e => tagsOf e
  | .allConsuming e => tagsOf e
  | .node _ e => tagsOf e
  | .lexeme e => tagsOf e
  | _ => []
def tagsOfL : List PExpr → List (List Nat)
  | [] => []
  | e :: es => tagsOf e ++ tagsOfL es
end

mutual
def beginKwsOf : PExpr → List Nat
  | .beginKw v => [v]
  | .seq es => beginKwsOfL es
  | .alt es => beginKwsOfL es
  | .shaped stmts _ => beginKwsOfL stmts
  | .opt e => beginKwsOf e
  | .many0 e => beginKwsOf e
  | .drop e => beginKwsOf e
  | .node _ e => beginKwsOf e
  | .lexeme e => beginKwsOf e
  | .kwScope _ e => beginKwsOf e
  | .dirScope e => beginKwsOf e
  | _ => []
def beginKwsOfL : List PExpr → List Nat
  | [] => []
  | e :: es => beginKwsOf e ++ beginKwsOfL es
end

/-- one alternative of `version_specifier`: every literal it matches is the version string of the single table it pushes -/
def altMapsVersion (e : PExpr) : Bool :=
  match beginKwsOf e with
  | [v] => !(tagsOf e).isEmpty && (tagsOf e).all (fun t => some t == kwNames[v]?)
  | _ => false

def altsOf : PExpr → List PExpr
  | .shaped [.alt es] _ => es
  | .shaped [.seq [_, .alt es]] _ => es
  | .alt es => es
  | _ => []

/-- **`begin_keywords "<v>"` pushes the table of `<v>`** — all eight specifier strings, read off the regenerated
    `version_specifier` production and the regenerated `begin_keywords` map -/
theorem C13_version_specifier_maps :
    (altsOf (grammar.prod idx_version_specifier).body).length = 8 ∧
    (altsOf (grammar.prod idx_version_specifier).body).all altMapsVersion = true := by
  decide +kernel

mutual
/-- contains a bare push/pop of the keyword-version stack -/
def hasKwAtom : PExpr → Bool
  | .beginKw _ => true
  | .endKw => true
  | .seq es => hasKwAtomL es
  | .alt es => hasKwAtomL es
  | .shaped stmts _ => hasKwAtomL stmts
  | .opt e => hasKwAtom e
  | .many0 e => hasKwAtom e
  | .many1 e => hasKwAtom e
  | .manyTill e t => hasKwAtom e || hasKwAtom t
  | .list s i => hasKwAtom s || hasKwAtom i
  | .peek e => hasKwAtom e
  | .not e => hasKwAtom e
  | .drop e => hasKwAtom e
  | .allConsuming e => hasKwAtom e
  | .node _ e => hasKwAtom e
  | .lexeme e => hasKwAtom e
  | .identKw e => hasKwAtom e
  | .dirScope e => hasKwAtom e
  | .kwScope _ e => hasKwAtom e
  | .ifDir a b => hasKwAtom a || hasKwAtom b
  | .nestl f i _ _ => hasKwAtom f || hasKwAtom i
  | _ => false
def hasKwAtomL : List PExpr → Bool
  | [] => false
  | e :: es => hasKwAtom e || hasKwAtomL es
end

/-- **keyword-table pushes and pops are confined** to `version_specifier` (push) and `endkeywords_directive` (pop);
    every other change of the table is a `kwScope`, which restores the stack on success and on failure (this is the
    statement the repair of D9 established) -/
theorem C13_kw_atoms_confined :
    (allProdsL.zipIdx.all (fun p => !hasKwAtom p.1.body || p.2 == idx_version_specifier || p.2 == idx_endkeywords_directive)) = true := by
  decide +kernel

/-- no production contains a bare begin/end_directive -/
theorem grammar_dirfree_all : allProdsL.all (fun p => DirFree p.body) = true := by decide +kernel

theorem grammar_dirfree : GrammarDirFree grammar := by
  intro f
  unfold Grammar.prod
  by_cases hf : f < grammar.prods.size
  · have h1 : allProds.all (fun p => DirFree p.body) = true := by
      unfold allProds; simpa using grammar_dirfree_all
    have := (Array.all_eq_true_iff_forall_mem.mp h1) (grammar.prods[f]) (Array.getElem_mem hf)
    simpa [Array.getD, hf] using this
  · simp [Array.getD, hf, DirFree]

/-- **C12 (scope discipline): parsing anything — in particular any run of trivia, including compiler directives parsed
    as whitespace — leaves the directive depth exactly as it found it**, on success, on failure and under backtracking;
    all inputs, all productions, all thread states -/
theorem C12_directive_depth_preserved (inp : Input) (fuel f pos : Nat) (rc : Rec) (st : PState) :
    (eval grammar inp fuel (.call f) pos rc st).2.dir = st.dir :=
  (dirAll grammar inp grammar_dirfree fuel).eval (.call f) pos rc st rfl

end Sv

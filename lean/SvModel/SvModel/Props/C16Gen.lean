import SvModel.Gen.Conv
/-!
# C16 (generated obligations): the tree crate appends children in field order

`Gen/Conv.lean` is regenerated from `sv-parser-syntaxtree/src/any_node.rs` and
`sv-parser-macros/src/lib.rs` on every run. These obligations justify modelling `Node::next` of a
struct as "its fields in declaration order" and of an enum as "the payload of the active variant".
-/
namespace Sv.Gen

def identityOrder (e : Nat × Nat × List Nat) : Bool := e.2.2 == List.range e.2.1

/-- every tuple / Paren / Brace / Bracket / ApostropheBrace / List conversion appends the destructured
    components exactly once, in order -/
theorem C16_conv_identity : convTable.all identityOrder = true := by decide

/-- conversions exist for all tuple sizes 1..11 and for the five wrappers -/
theorem C16_conv_complete :
    (List.range 11).all (fun n => convTable.any (fun e => e.1 == 0 && e.2.1 == n + 1)) = true ∧
    [1, 2, 3, 4, 5].all (fun k => convTable.any (fun e => e.1 == k)) = true := by decide

/-- `#[derive(Node)]`: enum arm is `x.into()`, struct arm is `(&(self.nodes)).into()` -/
theorem C16_derive_shape :
    deriveEnumArm = [120, 46, 105, 110, 116, 111, 40, 41] ∧
    deriveStructArm = [40, 38, 40, 115, 101, 108, 102, 46, 110, 111, 100, 101, 115, 41, 41, 46, 105, 110, 116, 111, 40, 41] := by
  decide

/-- the four conversions that do not destructure a tuple: a `Locate` is a leaf (one node, itself); `Vec<T>` appends the conversion of every
    element in order; `Option<T>` appends the conversion of the payload or nothing; `Box<T>` is transparent. This is what the tree model assumes
    when it takes "the children of a node" to be the concatenation, in field order, of what its fields convert to. -/
theorem C16_conv_generic_shape :
    convGeneric = [
      ("Locate", "vec![RefNode::Locate(x)].into()"),
      ("Vec<T>", "let mut ret = Vec::new(); for x in x { ret.append(&mut x.into().0); } ret.into()"),
      ("Option<T>", "let mut ret = Vec::new(); if let Some(x) = x { ret.append(&mut x.into().0); } ret.into()"),
      ("Box<T>", "let mut ret = Vec::new(); let mut x: RefNodes<'a> = (&**x).into(); ret.append(&mut x.0); ret.into()")] := rfl

end Sv.Gen

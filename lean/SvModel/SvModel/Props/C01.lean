import SvModel.Props.GrammarWF
import SvModel.Lemmas.Strict
import SvModel.Lemmas.Incomplete
import SvModel.Lemmas.Tree
/-!
# C01 — the concrete syntax tree is lossless: leaves tile the preprocessed text

Model: `Core/Peg.lean` (hand-written semantics of the embedding) + `Gen/*` (the grammar, REGENERATED
from `/repo/sv-parser-parser/src` by `svx` on every run). The theorems below are instantiated at the
generated grammar through `Gen.grammar_wf`, whose sixteen `decide +kernel` obligations (`Gen/Wnn.lean`)
are re-checked against what the code says now. They hold for every input (any bytes), every amount of
fuel, every prior thread state (memo contents, directive depth, keyword-version stack), every memo
capacity — no bound on anything.
-/
namespace Sv
open Sv.Gen

/-- after `init()` the memo is empty, so the memo invariant holds whatever the thread did before -/
theorem inv_init (inp : Input) (st : PState) : Inv inp st.init := memoOK_clear inp st.memo

/-- **T-tiling at the generated grammar.** For every production `f` (in particular the four entry
    productions), every input and every prior thread state: if the parse succeeds, the leaves of the
    returned tree, in iteration order, are non-empty ranges inside the text that follow one another
    without gap or overlap from offset 0 to the end position `q`, each with line = 1 + newlines before it. -/
theorem C01_tiling (f : Nat) (inp : Input) (fuel : Nat) (st st' : PState) (q : Nat) (r : Rec) (ts : List Tree)
    (h : parseWith grammar inp f st fuel = (.ok q r ts, st')) : TilesF inp 0 ts q := by
  have := (allSpec grammar inp grammar_wf fuel).eval (.call f) 0 {} st.init (inv_init inp st)
  unfold parseWith at h
  rw [h] at this
  exact this.2.1 rfl

/-- the same from an arbitrary position and state satisfying the memo invariant (sub-parsers, `allow_incomplete`) -/
theorem C01_tiling_from (e : PExpr) (hw : WF e = true) (inp : Input) (fuel pos : Nat) (rc : Rec) (st st' : PState)
    (hi : Inv inp st) (q : Nat) (r : Rec) (ts : List Tree)
    (h : eval grammar inp fuel e pos rc st = (.ok q r ts, st')) : TilesF inp pos ts q ∧ Inv inp st' := by
  have := (allSpec grammar inp grammar_wf fuel).eval e pos rc st hi
  rw [h] at this
  exact ⟨this.2.1 hw, this.1⟩

/-- In incomplete mode the tree covers a prefix: `q ≤ |text|`. -/
theorem C01_prefix (f : Nat) (inp : Input) (fuel : Nat) (st st' : PState) (q : Nat) (r : Rec) (ts : List Tree)
    (h : parseWith grammar inp f st fuel = (.ok q r ts, st')) : q ≤ inp.size :=
  Chain.end_le' (C01_tiling f inp fuel st st' q r ts h) (Nat.zero_le _)

/-- the two strict entry productions end with `many_till(_, eof)` — checked on the generated grammar -/
theorem strict_entries :
    Strict (grammar.prod idx_source_text).body = true ∧ Strict (grammar.prod idx_library_text).body = true ∧
    (grammar.prod idx_source_text).recursive = false ∧ (grammar.prod idx_library_text).recursive = false := by
  decide +kernel

/-- **Strict mode covers the whole text**: a success of `source_text` / `library_text` ends exactly at
    `|text|`, so the leaves tile `[0, |text|)`. -/
theorem C01_strict_covers_all (f : Nat) (hf : f = idx_source_text ∨ f = idx_library_text)
    (inp : Input) (fuel : Nat) (st st' : PState) (q : Nat) (r : Rec) (ts : List Tree)
    (h : parseWith grammar inp f st fuel = (.ok q r ts, st')) : q = inp.size ∧ TilesF inp 0 ts inp.size := by
  have ht := C01_tiling f inp fuel st st' q r ts h
  have hle := C01_prefix f inp fuel st st' q r ts h
  have hs : Strict (grammar.prod f).body = true ∧ (grammar.prod f).recursive = false := by
    rcases hf with rfl | rfl
    · exact ⟨strict_entries.1, strict_entries.2.2.1⟩
    · exact ⟨strict_entries.2.1, strict_entries.2.2.2⟩
  have hge : inp.size ≤ q := by
    unfold parseWith at h
    cases fuel with
    | zero => simp [eval] at h
    | succ n =>
      simp only [eval] at h
      cases n with
      | zero => simp [evalCall] at h
      | succ m =>
        have hb := (strictSpec grammar inp m).eval (grammar.prod f).body 0 {} st.init hs.1
        have hc := evalCall_fresh grammar inp m f 0 {} st.init (find_clear st.memo _) hs.2
        rw [h] at hc
        rw [← hc] at hb
        simpa [EndsO] using hb
  have : q = inp.size := by omega
  exact ⟨this, this ▸ ht⟩

/-! ### consequences for `get_str` -/

def leafBytes (inp : Input) (ls : List (Nat × Nat × Nat)) : List Nat :=
  match ls with
  | [] => []
  | (o, l, _) :: rest => sliceBytes inp o l ++ leafBytes inp rest

theorem sliceBytes_add (inp : Input) (o a b : Nat) :
    sliceBytes inp o (a + b) = sliceBytes inp o a ++ sliceBytes inp (o + a) b := by
  unfold sliceBytes
  rw [List.range_add, List.map_append, List.map_map]
  congr 1
  apply List.map_congr_left
  intro i _
  simp [Nat.add_assoc]

/-- **Concatenating `get_str` over the leaves reproduces the text**: the bytes of the leaves, in
    iteration order, are exactly `text[p, q)`. -/
theorem C01_concat_leaves (inp : Input) (p q : Nat) (ls : List (Nat × Nat × Nat)) (h : Chain inp p ls q) :
    leafBytes inp ls = sliceBytes inp p (q - p) := by
  induction ls generalizing p with
  | nil => simp [Chain] at h; subst h; simp [leafBytes, sliceBytes]
  | cons x xs ih =>
    obtain ⟨o, l, n⟩ := x
    simp only [Chain] at h
    obtain ⟨rfl, _, _, _, hr⟩ := h
    have hle := Chain.le hr
    rw [leafBytes, ih _ hr]
    have : q - o = l + (q - (o + l)) := by omega
    rw [this, sliceBytes_add]

theorem pre_infix_aux : ∀ (n : Nat) (ts : List Tree) (t : Tree), sizeL ts = n → t ∈ preL ts →
    ∃ a b, leavesL ts = a ++ leaves t ++ b := by
  intro n
  induction n using Nat.strongRecOn with
  | _ n ih =>
    intro ts t h hm
    cases ts with
    | nil => simp [preL] at hm
    | cons u us =>
      simp only [preL, List.mem_append] at hm
      rcases hm with hm | hm
      · rw [pre_kids] at hm
        simp only [List.mem_cons] at hm
        rcases hm with rfl | hm
        · exact ⟨[], leavesL us, by simp [leavesL]⟩
        · have hsz : sizeL u.kids < n := by
            subst h; simp [sizeL, size_kids u]; omega
          obtain ⟨a, b, hab⟩ := ih _ hsz u.kids t rfl hm
          cases u with
          | leaf o l k => simp [Tree.kids, preL] at hm
          | node k ks =>
            simp only [Tree.kids] at hab
            exact ⟨a, b ++ leavesL us, by simp [leavesL, leaves, hab, List.append_assoc]⟩
      · have hsz : sizeL us < n := by
          subst h; simp [sizeL]; exact size_pos u
        obtain ⟨a, b, hab⟩ := ih _ hsz us t rfl hm
        exact ⟨leaves u ++ a, b, by simp [leavesL, hab, List.append_assoc]⟩

theorem pre_infix (t : Tree) (ts : List Tree) (h : t ∈ preL ts) : ∃ a b, leavesL ts = a ++ leaves t ++ b :=
  pre_infix_aux _ ts t rfl h

/-- **`get_str` of any node is exactly the slice spanned by that node's own leaves**: for every node `t`
    of a tiling forest, `t`'s leaves themselves tile a sub-range `[a, b)`, which is what
    `SyntaxTree::get_str` slices (`C16_get_str_range`). -/
theorem C01_node_slice (inp : Input) (p q : Nat) (ts : List Tree) (h : TilesF inp p ts q)
    (t : Tree) (ht : t ∈ preL ts) : ∃ a b, p ≤ a ∧ b ≤ q ∧ Chain inp a (leaves t) b := by
  obtain ⟨l1, l2, hl⟩ := pre_infix t ts ht
  unfold TilesF at h
  rw [hl] at h
  obtain ⟨m, h1, h2⟩ := Chain.split h
  obtain ⟨a, h3, h4⟩ := Chain.split h1
  exact ⟨a, m, Chain.le h3, Chain.le h2, h4⟩

/-! ### non-vacuity -/

/-- the model accepts a real program, so the hypothesis of `C01_tiling` is met by a non-trivial case
    (kernel-evaluated; the packrat memo is switched off here because `Std.HashMap` does not reduce in the kernel) -/
def demoGrammar : Grammar :=
  { prods := #[{ packrat := false, recursive := false,
                 body := .shaped [.many0 (.call 1), .manyTill (.call 2) (.drop .eof)] (.node 1 (.tuple [.var 0, .var 1])) },
               { packrat := false, recursive := false, body := .node 2 (.lexeme (.term .multispace1)) },
               { packrat := false, recursive := false,
                 body := .shaped [.lexeme (.term (.isA [97, 98])), .many0 (.call 1)] (.node 3 (.tuple [.var 0, .var 1])) }],
    kwTables := #[], kwDefault := 0 }

example : (match parseWith demoGrammar " ab a\n".toUTF8 0 {} 100 with
    | (.ok q _ ts, _) => (q, (leavesL ts).length)
    | _ => (0, 0)) = (6, 5) := by
  decide +kernel

end Sv

import SvModel.Core.Pp
import SvModel.Lemmas.Walker
import SvModel.Lemmas.SkipChain
/-!
# C04 — conditional compilation selects exactly the IEEE 22.6 branch (decision logic)

`condPlan` is the pure decision part of the `IfdefDirective` / `IfndefDirective` arms of the walker
(`Core/Pp.lean`, tied to `preprocess.rs` by the correspondence run on every check). The theorems state
outright which bodies are discarded, for every define table, every chain length and all names.
-/
namespace Sv

/-- "defined" in the sense of the property: in the table (caller-supplied with or without body, or defined earlier
    and not undefined since) or predefined -/
def isDefinedName (defd : Bytes → Bool) (n : Bytes) : Bool := defd n || isPredefined n

/-- specification: index of the branch that is kept — 0 the if-branch, i+1 the i-th `elsif, `none` = the `else
    branch (or nothing) -/
def selectSpec (isIfdef : Bool) (defd : Bytes → Bool) (ifname : Bytes) (names : List Bytes) : Option Nat :=
  let c0 := if isIfdef then isDefinedName defd ifname else !isDefinedName defd ifname
  if c0 then some 0
  else (names.findIdx? (isDefinedName defd)).map (· + 1)

/-- skip flags of the `elsif bodies given whether an earlier branch was already taken -/
def elsifFlags (test : Bytes → Bool) : List Bytes → Bool → List Bool
  | [], _ => []
  | _ :: ns, true => true :: elsifFlags test ns true
  | n :: ns, false => if test n then false :: elsifFlags test ns true else true :: elsifFlags test ns false

theorem foldl_flags (test : Bytes → Bool) (names : List Bytes) (acc : List Bool) (hit : Bool) :
    names.foldl (condStep test) (acc, hit) = (acc ++ elsifFlags test names hit, hit || names.any test) := by
  induction names generalizing acc hit with
  | nil => simp [elsifFlags]
  | cons n ns ih =>
    cases hit with
    | true => simp [List.foldl_cons, condStep, ih, elsifFlags, List.append_assoc]
    | false =>
      by_cases ht : test n
      · simp [List.foldl_cons, condStep, ih, elsifFlags, ht, List.append_assoc]
      · simp [List.foldl_cons, condStep, ih, elsifFlags, ht, List.append_assoc]

/-- closed form of `condPlan` -/
theorem condPlan_eq (isIfdef : Bool) (defd : Bytes → Bool) (ifname : Bytes) (names : List Bytes) (e : Bool) :
    condPlan isIfdef defd ifname names e =
      (let hit0 := if isIfdef then isDefinedName defd ifname else !isDefinedName defd ifname
       (!hit0, elsifFlags (elsifTest isIfdef defd ifname) names hit0,
        hit0 || names.any (elsifTest isIfdef defd ifname))) := by
  unfold condPlan
  simp only [foldl_flags, List.nil_append, isDefinedName]

/-- flags of the specification: everything is skipped except the selected branch -/
def specFlags (sel : Option Nat) (k : Nat) : List Bool := (List.range k).map (fun i => decide (sel ≠ some (i + 1)))

theorem map_true_range {α : Type} (l : List α) :
    l.map (fun _ => true) = (List.range l.length).map (fun _ => true) := by
  apply List.ext_getElem <;> simp

theorem flags_taken (test : Bytes → Bool) (names : List Bytes) : elsifFlags test names true = names.map (fun _ => true) := by
  induction names with
  | nil => rfl
  | cons n ns ih => simp [elsifFlags, ih]

theorem flags_spec (test : Bytes → Bool) (names : List Bytes) :
    elsifFlags test names false = (List.range names.length).map (fun i => decide ((names.findIdx? test) ≠ some i)) := by
  induction names with
  | nil => rfl
  | cons n ns ih =>
    rw [List.length_cons, List.range_succ_eq_map, List.map_cons, List.map_map]
    by_cases ht : test n
    · simp only [elsifFlags, ht, if_true, flags_taken, List.findIdx?_cons]
      rw [map_true_range]
      congr 1
      all_goals first
        | (apply List.map_congr_left; intro i _; simp)
        | simp
    · simp only [elsifFlags, ht, ih, List.findIdx?_cons]
      congr 1
      all_goals first
        | (apply List.map_congr_left; intro i _; cases h : List.findIdx? test ns <;> simp)
        | (cases h : List.findIdx? test ns <;> simp)

theorem findIdx_congr (p q : Bytes → Bool) (l : List Bytes) (h : ∀ x ∈ l, p x = q x) :
    l.findIdx? p = l.findIdx? q := by
  induction l with
  | nil => rfl
  | cons x xs ih =>
    rw [List.findIdx?_cons, List.findIdx?_cons, h x (by simp), ih (fun y hy => h y (by simp [hy]))]

theorem findIdx_any (test : Bytes → Bool) (names : List Bytes) :
    names.any test = (names.findIdx? test).isSome := by
  induction names with
  | nil => rfl
  | cons n ns ih =>
    rw [List.any_cons, List.findIdx?_cons, ih]
    by_cases ht : test n
    · simp [ht]
    · simp only [ht, Bool.false_or, Bool.false_eq_true, if_false]
      cases List.findIdx? test ns <;> rfl

/-- **`ifdef chains (full statement).** The if-body is discarded iff the name is not defined; the i-th `elsif body is
    kept iff it is the first branch whose name is defined and the if-branch was not taken; the `else body is discarded
    iff some branch was taken. "Defined" = in the table or predefined. All tables, names and chain lengths. -/
theorem C04_ifdef_plan (defd : Bytes → Bool) (ifname : Bytes) (names : List Bytes) (hasElse : Bool) :
    condPlan true defd ifname names hasElse =
      (let sel := selectSpec true defd ifname names
       (decide (sel ≠ some 0), specFlags sel names.length, sel.isSome)) := by
  rw [condPlan_eq]
  have ht : elsifTest true defd ifname = isDefinedName defd := by
    funext n; simp [elsifTest, isDefinedName]
  simp only [ht, if_true, selectSpec]
  by_cases hd : isDefinedName defd ifname = true
  · simp [hd, flags_taken, specFlags, map_true_range names]
  · simp only [Bool.not_eq_true] at hd
    simp only [hd, Bool.not_false, Bool.false_or, flags_spec, specFlags, findIdx_any]
    cases hf : List.findIdx? (isDefinedName defd) names <;> simp

/-- **`ifndef chains — PARTIAL.** The full statement holds when neither the `ifndef name nor any `elsif name is a
    predefined macro. What is missing: with a predefined name in an `ifndef … `elsif chain the implementation tests
    `predefined(ifndef name)` instead of `predefined(elsif name)` (preprocess.rs:538, defect D3b, frozen by the goldens
    macro_LINE / macro_FILE; witness below). -/
theorem C04_ifndef_plan_partial (defd : Bytes → Bool) (ifname : Bytes) (names : List Bytes) (hasElse : Bool)
    (h0 : isPredefined ifname = false) (hn : ∀ n ∈ names, isPredefined n = false) :
    condPlan false defd ifname names hasElse =
      (let sel := selectSpec false defd ifname names
       (decide (sel ≠ some 0), specFlags sel names.length, sel.isSome)) := by
  rw [condPlan_eq]
  have ht : elsifTest false defd ifname = defd := by
    funext n; simp [elsifTest, h0]
  have hmap : names.findIdx? (isDefinedName defd) = names.findIdx? defd := by
    apply findIdx_congr
    intro n hmem; simp [isDefinedName, hn n hmem]
  simp only [ht, Bool.false_eq_true, if_false, selectSpec, hmap]
  by_cases hd : isDefinedName defd ifname = true
  · simp only [hd, Bool.not_true, Bool.false_or, flags_spec, specFlags, findIdx_any]
    cases hf : List.findIdx? defd names <;> simp
  · simp only [Bool.not_eq_true] at hd
    simp [hd, flags_taken, specFlags, map_true_range names]

/-- witness that the restriction is needed (model of D3b): `ifndef A (A defined) `elsif __LINE__ … : the specification
    keeps the `elsif branch, the implementation discards it -/
theorem C04_ifndef_predefined_witness :
    let defd : Bytes → Bool := fun n => n == [65]
    condPlan false defd [65] [bLINE] false = (true, [true], false) ∧
    selectSpec false defd [65] [bLINE] = some 1 := by
  decide

/-- **dead branches have no effect (walker model, all contents).** What the conditional arm does on entering an `ifdef / `ifndef node is
    exactly: put the directive keywords, the names and the bodies selected by `condPlan` on the skip list. -/
theorem C04_arm_pushes_plan (C : Cfg) (recI) (recU) (inp : Input) (s path : Bytes) (ii sc : Bool) (rd id : Nat) (w : WState) (x : Tree)
    (kw ifid ifbody : Tree) (elsifs : List (Tree × Tree × Tree)) (els : Option (Tree × Tree))
    (h : splitCond C.K x.kids = some (kw, ifid, ifbody, elsifs, els)) :
    armCond C recI recU inp s path ii sc rd id w x =
      .ok (skipPushAll w (condSkipNodes kw ifid ifbody elsifs els
        (condPlan (x.baseKind == C.K.ifdef) (fun n => (w.defines.get? n).isSome) ((identOf C.K inp ifid).getD [])
          (elsifs.map (fun e => (identOf C.K inp e.2.1).getD [])) els.isSome))) := by
  unfold armCond; simp only [h]

/-- … and a subtree on the skip list is walked without any effect — no output, no change of the define table, no error, whatever it
    contains (defines, undefs, includes, usages of unknown macros, nested conditionals) — provided none of its proper descendants is on
    the skip list too (the conditional arms only ever list siblings) and its own kind triggers no `Leave` bookkeeping. -/
theorem C04_dead_branch_inert (C : Cfg) (inp : Input) (s path : Bytes) (ii sc : Bool) (rd id : Nat) (evs : List Event)
    (t : Tree) (w : WState) (fuel : Nat) (hs : w.skip = false) (ht : w.skipNodes.contains t = true)
    (hd : ∀ d ∈ preL t.kids, w.skipNodes.contains d = false) (hik : inertKind C.K t.baseKind = true) :
    walk C (fuel + (events t).length) inp s path ii sc rd id (events t ++ evs) w = walk C fuel inp s path ii sc rd id evs w :=
  walk_skip_subtree C inp s path ii sc rd id evs t w fuel hs ht hd hik

/-- non-vacuity -/
example : condPlan true (fun n => n == [66]) [65] [[88], [66], [66]] true
    = (true, [true, false, true], true) := by decide


/-! ### towards the hypothesis of `C04_dead_branch_inert`: the skip list and the shape of parse trees -/

/-- the comparison the skip list uses is equality (the model's `==` on trees is the hand-written structural one, `Tree.beq`, proved lawful) -/
theorem C04_skip_list_is_membership (l : List Tree) (t : Tree) : l.contains t = true ↔ t ∈ l := contains_iff_mem l t

/-- in a tiled forest (what every successful parse returns: `C06_pp_parse_lossless`) all tokens are different … -/
theorem C04_tiled_leaves_distinct (inp : Input) (ls : List (Nat × Nat × Nat)) (p q : Nat) (h : Chain inp p ls q) : ls.Nodup :=
  chain_nodup ls p q h

/-- … hence a token-carrying sub-tree of one tree of the forest is not (equal to) a sub-tree of the trees after it: occurrences are values -/
theorem C04_subtrees_of_siblings_differ (t : Tree) (rest : List Tree) (hn : (leaves t ++ leavesL rest).Nodup) (d : Tree)
    (hd : d ∈ pre t) (hl : leafy d) : d ∉ preL rest := not_mem_preL_of_mem_pre t rest hn d hd hl

/-- every node the conditional arm lists is a child of the `` `ifdef `` / `` `ifndef `` node (the arms only list siblings) -/
theorem C04_arm_lists_children (K : PpKinds) (kids : List Tree) (kw ifid ifbody : Tree) (elsifs : List (Tree × Tree × Tree))
    (els : Option (Tree × Tree)) (plan : Bool × List Bool × Bool) (h : splitCond K kids = some (kw, ifid, ifbody, elsifs, els)) :
    ∀ n ∈ condSkipNodes kw ifid ifbody elsifs els plan, n ∈ kids :=
  condSkipNodes_sub_kids K kids kw ifid ifbody elsifs els plan h

/-- **the hypothesis of `C04_dead_branch_inert` holds right after the conditional arm** for every child of the directive node (keywords, names,
    all bodies): none of its proper descendants is on the skip list — provided the directive's tokens are pairwise different (tiling) and none of
    its nodes was listed before. -/
theorem C04_hypothesis_after_arm (K : PpKinds) (x : Tree) (w : WState) (kw ifid ifbody : Tree) (elsifs : List (Tree × Tree × Tree))
    (els : Option (Tree × Tree)) (plan : Bool × List Bool × Bool)
    (hn : (leaves x).Nodup) (hfresh : ∀ d ∈ pre x, d ∉ w.skipNodes)
    (hs : splitCond K x.kids = some (kw, ifid, ifbody, elsifs, els)) (t : Tree) (ht : t ∈ x.kids) :
    ∀ d ∈ preL t.kids, (skipPushAll w (condSkipNodes kw ifid ifbody elsifs els plan)).skipNodes.contains d = false :=
  cond_arm_hd K x w kw ifid ifbody elsifs els plan hn hfresh hs t ht

/-- **what is listed later comes from the sub-trees walked later**: every `Enter` arm, at any node `x`, adds to the skip list only `x` itself or
    descendants of `x` (all twelve arms, every callee). With `C04_subtrees_of_siblings_differ`: nothing listed while an earlier sibling of a dead
    body is processed can equal a node inside the dead body. NOT proved: the induction along the whole event list that chains these two facts
    (the remaining gap between `C04_hypothesis_after_arm` and the hypothesis at the moment the dead body is reached). -/
theorem C04_arms_list_only_their_subtree (C : Cfg) (recI) (recU) (inp : Input) (s path : Bytes) (ii sc : Bool) (rd id : Nat) (w w' : WState) (x : Tree)
    (h : enterStep C recI recU inp s path ii sc rd id w x = .ok w') :
    ∀ n ∈ w'.skipNodes, n ∈ w.skipNodes ∨ n ∈ pre x :=
  enterStep_lists_in_subtree C recI recU inp s path ii sc rd id w w' x h

/-- non-vacuity of the membership test: a node is found on a list that holds an equal node built separately -/
example : ([Tree.node 7 [.leaf 3 2 1], .leaf 9 1 1] : List Tree).contains (.node 7 [.leaf 3 2 1]) = true := by decide


/-! ### the chaining induction: the hypothesis of `C04_dead_branch_inert` holds wherever the walker meets a listed sub-tree -/

/-- **Whenever a run of the event loop meets a node that is on the skip list while it is not skipping — a dead branch, a directive keyword,
    a macro name — none of that node's proper descendants is on the list**, i.e. the hypothesis of `C04_dead_branch_inert` holds at that
    moment, so the whole sub-tree is passed without any effect whatever it contains. `safeWalk` follows `walk` event by event (same states,
    same callees) and asserts exactly this at every `Enter`. Proved for every forest whose tokens are pairwise different (every parse:
    `C04_tiled_leaves_distinct`), every configuration, input, flags and fuel, from any non-skipping start state with an empty skip list — by
    mutual induction over trees and forests (`Lemmas/SkipChain.lean: tree_safe / forest_safe`), using `C04_arm_lists_children`, the frame of all
    arms and `C04_subtrees_of_siblings_differ`. An executed `` `include `` is covered too: its arm lists the directive AND the keyword inside it, on
    purpose — leaving the keyword switches skipping off so that the blanks after the file name are emitted — and `skip_forest_safe` /
    `safe_include_rest` follow exactly that. Hypotheses on the forest (`GoodNode`, true of parse trees and executed by the driver on every
    parseable file of the C04 oracle: `good_of_checks`): `` `define `` / usage / `__FILE__` / executed `` `include `` nodes carry a token, and an
    executed `` `include `` node has exactly one child (it is an enum node). -/
theorem C04_dead_subtrees_reached_clean (C : Cfg) (inp : Input) (s path : Bytes) (ii sc : Bool) (rd id : Nat)
    (ts : List Tree) (hnd : (leavesL ts).Nodup) (hgood : ∀ d ∈ preL ts, GoodNode C ii d)
    (w0 : WState) (h0 : w0.skip = false) (he : w0.skipNodes = []) (fuel : Nat) :
    safeWalk C (fuel + (eventsL ts).length) inp s path ii sc rd id (eventsL ts ++ []) w0 := by
  refine forest_safe C inp s path ii sc rd id ts w0 [] fuel h0 hnd (by intro n hn; rw [he] at hn; cases hn)
    (by intro d _ hd; rw [he] at hd; cases hd) hgood ?_
  intro w1 _ _ _
  cases fuel <;> simp [safeWalk]

/-- the same for a tiled forest as `preprocess_str` walks it: start state of the event loop (empty skip list, not skipping) -/
theorem C04_dead_subtrees_reached_clean_tiled (C : Cfg) (inp : Input) (s path : Bytes) (ii sc : Bool) (rd id : Nat)
    (ts : List Tree) (p q : Nat) (htile : Chain inp p (leavesL ts) q) (hgood : ∀ d ∈ preL ts, GoodNode C ii d) (d1 : Defines) (fuel : Nat) :
    safeWalk C (fuel + (eventsL ts).length) inp s path ii sc rd id (eventsL ts ++ []) { defines := d1 } :=
  C04_dead_subtrees_reached_clean C inp s path ii sc rd id ts (chain_nodup _ p q htile) hgood { defines := d1 } rfl rfl fuel

/-- non-vacuity of `GoodNode` and of the tiling hypothesis: a two-token text forest -/
example (C : Cfg) (inp : Input) (h : inp.size = 3) :
    Chain inp 0 (leavesL [Tree.node 5 [.leaf 0 1 (lineAt inp 0)], .node 5 [.leaf 1 2 (lineAt inp 1)]]) 3 := by
  simp [leavesL, leaves, Chain, h]


/-! ### exactly one branch: whatever the test, at most one body of a chain is kept, and exactly one when there is an `else -/

def keptCount (flags : List Bool) : Nat := (flags.filter (fun b => !b)).length

theorem kept_flags (test : Bytes → Bool) : ∀ (names : List Bytes) (hit : Bool),
    keptCount (elsifFlags test names hit) = (if !hit && names.any test then 1 else 0) := by
  intro names
  induction names with
  | nil => intro hit; cases hit <;> simp [elsifFlags, keptCount]
  | cons n ns ih =>
    intro hit
    cases hit with
    | true =>
      have := ih true
      simp only [Bool.not_true, Bool.false_and, Bool.false_eq_true, if_false] at this ⊢
      simp only [elsifFlags, keptCount, List.filter_cons, Bool.not_true, Bool.false_eq_true, if_false]
      exact this
    | false =>
      by_cases ht : test n
      · have := ih true
        simp only [Bool.not_true, Bool.false_and, Bool.false_eq_true, if_false] at this
        simp [elsifFlags, keptCount, ht] at this ⊢
        exact this
      · have := ih false
        simp [elsifFlags, keptCount, ht] at this ⊢
        exact this

/-- **a conditional chain keeps at most one body, and exactly one when it has an `else** (both `ifdef and `ifndef chains, every table and every
    list of names — including the predefined-name cases of known finding D3b, where the wrong body may be kept but never two) -/
theorem C04_exactly_one_branch (isIfdef : Bool) (defd : Bytes → Bool) (ifname : Bytes) (names : List Bytes) (hasElse : Bool) :
    let plan := condPlan isIfdef defd ifname names hasElse
    let kept := (if plan.1 then 0 else 1) + keptCount plan.2.1 + (if hasElse && !plan.2.2 then 1 else 0)
    kept ≤ 1 ∧ (hasElse = true → kept = 1) := by
  rw [condPlan_eq]
  dsimp only
  generalize (if isIfdef then isDefinedName defd ifname else !isDefinedName defd ifname) = hit0
  rw [kept_flags]
  cases hit0 <;> cases hasElse <;> cases List.any names (elsifTest isIfdef defd ifname) <;> simp

end Sv

import SvModel.Core.Pp
import SvModel.Lemmas.Walker
import SvModel.Lemmas.SplitText
/-!
# C05 — macro usages: misuse is reported by name, omitted arguments take their default (decision logic)

`bindArgs` and the outer case split of `resolveUsage` are the pure decision part of
`resolve_text_macro_usage`; `splitText` is the chunker that makes substitution hit whole identifiers only.
-/
namespace Sv

/-- the value bound to the formal at position `i` -/
def argValue (dflt : Option Bytes) (actuals : List (Option Bytes)) (i : Nat) : Option Bytes :=
  match actuals[i]? with
  | some (some act) => some act
  | some none => some (dflt.getD [])
  | none => dflt

/-- **binding succeeds** iff every formal beyond the supplied positions has a default; each formal is then bound to the
    actual argument if one was given, to its default if the argument was omitted (empty position or missing), and to ""
    if an empty position has no default. All formal lists, all argument lists. -/
theorem C05_bind_ok : ∀ (formals : List (Bytes × Option Bytes)) (actuals : List (Option Bytes)) (i : Nat),
    (∀ j (h : j < formals.length), (argValue (formals[j]).2 actuals (i + j)).isSome) →
    bindArgsFrom i formals actuals =
      .ok ((formals.zipIdx).map (fun (f : (Bytes × Option Bytes) × Nat) => (f.1.1, (argValue f.1.2 actuals (i + f.2)).getD []))) := by
  intro formals
  induction formals with
  | nil => intro actuals i _; rfl
  | cons f rest ih =>
    intro actuals i h
    obtain ⟨arg, dflt⟩ := f
    have h0 := h 0 (by simp)
    simp only [List.getElem_cons_zero, Nat.add_zero] at h0
    have hr := ih actuals (i + 1) (fun j hj => by
      have := h (j + 1) (by simp; omega)
      simpa [Nat.add_assoc, Nat.add_comm 1 j] using this)
    simp only [bindArgsFrom, hr]
    unfold argValue at h0
    have hz : ∀ (l : List (Bytes × Option Bytes)) (k : Nat),
        (l.zipIdx (k + 1)).map (fun (f : (Bytes × Option Bytes) × Nat) => (f.1.1, (argValue f.1.2 actuals (i + f.2)).getD [])) =
        (l.zipIdx k).map (fun (f : (Bytes × Option Bytes) × Nat) => (f.1.1, (argValue f.1.2 actuals (i + 1 + f.2)).getD [])) := by
      intro l
      induction l with
      | nil => intro k; rfl
      | cons x xs ihx =>
        intro k
        simp only [List.zipIdx_cons, List.map_cons, ihx]
        congr 2
        simp [Nat.add_assoc, Nat.add_comm 1 k]
    rw [List.zipIdx_cons, List.map_cons, hz rest 0]
    simp only [Nat.add_zero, argValue]
    cases ha : actuals[i]? with
    | none =>
      rw [ha] at h0
      cases dflt with
      | none => simp at h0
      | some d => simp
    | some o =>
      cases o with
      | none => simp
      | some act => simp

/-- **a required argument that was not supplied is reported by the name of the formal** — the first such formal -/
theorem C05_bind_missing : ∀ (formals : List (Bytes × Option Bytes)) (actuals : List (Option Bytes)) (i k : Nat)
    (hk : k < formals.length),
    (∀ j (h : j < k), (argValue (formals[j]'(by omega)).2 actuals (i + j)).isSome) →
    argValue (formals[k]).2 actuals (i + k) = none →
    bindArgsFrom i formals actuals = .error (.defineArgNotFound (formals[k]).1) := by
  intro formals
  induction formals with
  | nil => intro actuals i k hk; simp at hk
  | cons f rest ih =>
    intro actuals i k hk hpre hnone
    obtain ⟨arg, dflt⟩ := f
    cases k with
    | zero =>
      simp only [List.getElem_cons_zero, Nat.add_zero, argValue] at hnone
      simp only [bindArgsFrom, List.getElem_cons_zero]
      cases ha : actuals[i]? with
      | none => rw [ha] at hnone; simp at hnone; subst hnone; rfl
      | some o => rw [ha] at hnone; cases o <;> simp at hnone
    | succ k =>
      have h0 := hpre 0 (by omega)
      simp only [List.getElem_cons_zero, Nat.add_zero, argValue] at h0
      have hr := ih actuals (i + 1) k (by simpa using hk)
        (fun j hj => by
          have := hpre (j + 1) (by omega)
          simpa [Nat.add_assoc, Nat.add_comm 1 j] using this)
        (by simpa [Nat.add_assoc, Nat.add_comm 1 k] using hnone)
      simp only [bindArgsFrom, List.getElem_cons_succ, hr]
      cases ha : actuals[i]? with
      | none =>
        rw [ha] at h0
        cases dflt with
        | none => simp at h0
        | some d => rfl
      | some o => cases o <;> rfl

/-- non-vacuity / examples: `F(p0, p1 = 9)` -/
example : bindArgs [([112, 48], none), ([112, 49], some [57])] [some [49]] = .ok [([112, 48], [49]), ([112, 49], [57])] := by
  rfl
example : bindArgs [([112, 48], none), ([112, 49], some [57])] [] = .error (.defineArgNotFound [112, 48]) := by rfl
example : bindArgs [([112, 48], none)] [none] = .ok [([112, 48], [])] := by rfl

/-! ### `split_text`: substitution hits whole identifiers only -/

/-- an identifier run that is the whole body is one chunk, and a formal of that name is found in it -/
example : splitText [112, 48, 43, 112, 48, 120] = [[], [112, 48], [43], [112, 48, 120]] := by decide  -- "p0+p0x": p0x is NOT p0
/-- a plain string literal is one chunk, so a formal name inside it is never substituted -/
example : splitText [97, 32, 34, 112, 48, 34, 32, 98] = [[], [97], [32], [34, 112, 48, 34], [32], [98]] := by decide


/-! ## the error clauses of `resolve_text_macro_usage`, stated outright on the walker model (all tables, trees, depths ≤ 64) -/


/-- **DefineNotFound carries the macro name**: a usage of a name that is not in the table is an error naming it -/
theorem C05_undefined_named (C : Cfg) (fuel : Nat) (inp : Input) (s path : Bytes) (x : Tree) (d : Defines) (ii sc : Bool) (rd id : Nat)
    (hrd : rd ≤ recursiveLimit) (h : d.get? (usageName C.K inp x) = none) :
    resolveUsage C (fuel + 1) inp s path x d ii sc rd id = .error (.defineNotFound (usageName C.K inp x)) := by
  have : ¬ rd > recursiveLimit := by omega
  simp only [resolveUsage, this, if_false]
  split
  · rfl
  · rename_i heq; rw [h] at heq; first | done | cases heq
  · rename_i heq; rw [h] at heq; first | done | cases heq

/-- a macro that is in the table without a definition (`-D NAME` style, `Some(None)`) expands to nothing -/
theorem C05_bodyless_table_entry (C : Cfg) (fuel : Nat) (inp : Input) (s path : Bytes) (x : Tree) (d : Defines) (ii sc : Bool) (rd id : Nat)
    (hrd : rd ≤ recursiveLimit) (h : d.get? (usageName C.K inp x) = some none) :
    resolveUsage C (fuel + 1) inp s path x d ii sc rd id = .ok none := by
  have : ¬ rd > recursiveLimit := by omega
  simp only [resolveUsage, this, if_false]
  split
  · rename_i heq; rw [h] at heq; first | done | cases heq
  · rfl
  · rename_i heq; rw [h] at heq; first | done | cases heq

/-- **DefineNoArgs carries the macro name**: a macro with formals used without an argument list -/
theorem C05_no_args_named (C : Cfg) (fuel : Nat) (inp : Input) (s path : Bytes) (x : Tree) (d : Defines) (ii sc : Bool) (rd id : Nat)
    (def_ : Define) (hrd : rd ≤ recursiveLimit) (h : d.get? (usageName C.K inp x) = some (some def_))
    (hf : def_.args.isEmpty = false) (hn : (x.kids.drop 2).isEmpty = true) :
    resolveUsage C (fuel + 1) inp s path x d ii sc rd id = .error (.defineNoArgs def_.ident) := by
  have : ¬ rd > recursiveLimit := by omega
  simp only [resolveUsage, this, if_false]
  split
  · rename_i heq; rw [h] at heq; first | done | cases heq
  · rename_i heq; rw [h] at heq; first | done | cases heq
  · rename_i df heq
    rw [h] at heq
    have : df = def_ := (Option.some.inj (Option.some.inj heq)).symm
    subst this
    first | rfl | simp only [hf, hn, Bool.not_false, Bool.and_self, if_true]

/-- a macro defined without body (`` `define X ``) and without formals expands to nothing -/
theorem C05_define_without_body (C : Cfg) (fuel : Nat) (inp : Input) (s path : Bytes) (x : Tree) (d : Defines) (ii sc : Bool) (rd id : Nat)
    (def_ : Define) (hrd : rd ≤ recursiveLimit) (h : d.get? (usageName C.K inp x) = some (some def_))
    (hf : def_.args = []) (hb : def_.text = none) :
    resolveUsage C (fuel + 1) inp s path x d ii sc rd id = .ok none := by
  have : ¬ rd > recursiveLimit := by omega
  simp only [resolveUsage, this, if_false]
  split
  · rename_i heq; rw [h] at heq; first | done | cases heq
  · rename_i heq; rw [h] at heq; first | done | cases heq
  · rename_i df heq
    rw [h] at heq
    have : df = def_ := (Option.some.inj (Option.some.inj heq)).symm
    subst this
    first | rfl | simp only [hf, hb, bindArgs, bindArgsFrom, List.isEmpty_nil, Bool.not_true, Bool.false_and, Bool.false_eq_true, if_false]


/-- **a macro usage is resolved with the table in force at the point of use**, its expansion is pushed with the origin the resolver
    returns, the table the expansion leaves behind becomes the current one, and an error of the resolver is the error of the run -/
theorem C05_usage_arm (C : Cfg) (recI) (recU) (inp : Input) (s path : Bytes) (ii sc : Bool) (rd id : Nat) (w : WState) (x : Tree) :
    (∀ e, recU inp s path x w.defines ii sc (rd + 1) id = .error e → armUsage C recI recU inp s path ii sc rd id w x = .error e) ∧
    (∀ w', armUsage C recI recU inp s path ii sc rd id w x = .ok w' →
      (recU inp s path x w.defines ii sc (rd + 1) id = .ok none ∧ w'.defines = w.defines) ∨
      (∃ t org nd, recU inp s path x w.defines ii sc (rd + 1) id = .ok (some (t, org, nd)) ∧ w'.defines = nd)) := by
  have hd : (w.skipPush x).defines = w.defines := skipPush_defines w x
  constructor
  · intro e he
    unfold armUsage; dsimp only; rw [hd, he]
  · intro w' h
    unfold armUsage at h; dsimp only at h; rw [hd] at h
    split at h
    · cases h
    · rename_i r hr
      injection h with h; subst h
      cases r with
      | none => left; exact ⟨hr, by simp [foldl_pushLoc_defines, hd]⟩
      | some v => obtain ⟨t, org, nd⟩ := v; right; exact ⟨t, org, nd, hr, by simp [foldl_pushLoc_defines]⟩


/-- **nested usages are expanded with the table current at the point of use**: the text a usage contributes is the output of
    `preprocess_str` run on the substituted body with exactly the table the usage was resolved in (same path, flags and depth counters),
    and the table that run returns is handed back -/
theorem C05_expansion_rescanned (C : Cfg) (n : Nat) (inp : Input) (s path : Bytes) (x : Tree) (d : Defines) (ii sc : Bool) (rd id : Nat)
    (t : Bytes) (org : Option (Bytes × Range)) (nd : Defines)
    (h : resolveUsage C (n + 1) inp s path x d ii sc rd id = .ok (some (t, org, nd))) :
    ∃ body out, preprocessStr C n body path d ii sc rd id = .ok (out, nd) ∧ t = out.text := by
  simp only [resolveUsage] at h
  split at h
  · cases h
  · split at h
    · cases h
    · cases h
    · split at h
      · cases h
      · split at h
        · cases h
        · split at h
          · cases h
          · split at h
            · cases h
            · rename_i out nd' hpp
              injection h with h; injection h with h; injection h with h1 h2; injection h2 with h2 h3
              subst h1 h3
              exact ⟨_, out, hpp, rfl⟩


/-! ### what text is handed to the re-scan: the substituted body, piece by piece -/

/-- the actual arguments of a usage as `resolve_text_macro_usage` reads them -/
def usageActuals (K : PpKinds) (inp : Input) (x : Tree) : List (Option Bytes) :=
  match (x.kids.drop 2).find? (fun k => k.baseKind == K.listOfActualArguments) with
  | some la => (listItemsOpt K K.actualArgument la.kids).map (fun o =>
      match o with
      | some a => (match a.kids.head? with | some (.leaf o l _) => some (argText (bytesOf inp o l)) | _ => some [])
      | none => none)
  | none => []

/-- the parenthesised text after the name of a usage -/
def usageArgsStr (inp : Input) (x : Tree) : Bytes := (x.kids.drop 2).foldl (fun acc k => acc ++ getStrAll inp k) []

/-- the value bound to a formal name (last binding wins) -/
def argLookup (argMap : List (Bytes × Bytes)) (k : Bytes) : Option Bytes :=
  match (argMap.reverse.find? (fun kv => kv.1 == k)) with
  | some kv => some kv.2
  | none => none

/-- the text `resolve_text_macro_usage` hands to `preprocess_str`: every piece of `split_text(body)` through `substPiece`, then — for a macro
    without formals — the parenthesised text that followed the name -/
def substBody (dt : DefineText) (argMap : List (Bytes × Bytes)) (paren : Option Bytes) : Bytes :=
  ((splitText dt.text).map (substPiece (argLookup argMap) (dt.text.length + 1))).flatten ++ paren.getD []

/-- **the expansion of a usage, in full**: when `resolve_text_macro_usage` returns a text, the macro is in the table with a body, the formals were
    bound to the actuals (`bindArgs`, C05_bind_ok), and the text is the output of `preprocess_str` on `substBody` — the body cut into pieces by
    `split_text`, each piece that equals a formal replaced by its value, string literals verbatim, the other pieces through the replace chain —
    with the table in force at the point of use; the origin is the one recorded at definition time. -/
theorem C05_expansion_body (C : Cfg) (n : Nat) (inp : Input) (s path : Bytes) (x : Tree) (d : Defines) (ii sc : Bool) (rd id : Nat)
    (t : Bytes) (org : Option (Bytes × Range)) (nd : Defines)
    (h : resolveUsage C (n + 1) inp s path x d ii sc rd id = .ok (some (t, org, nd))) :
    ∃ def_ dt argMap out, d.get? (usageName C.K inp x) = some (some def_) ∧ def_.text = some dt ∧
      bindArgs def_.args (usageActuals C.K inp x) = .ok argMap ∧
      preprocessStr C n (substBody dt argMap (if def_.args.isEmpty then some (usageArgsStr inp x) else none)) path d ii sc rd id = .ok (out, nd) ∧
      t = out.text ∧ org = dt.origin := by
  simp only [resolveUsage] at h
  split at h
  · cases h
  · split at h
    · cases h
    · cases h
    · rename_i def_ hget
      split at h
      · cases h
      · split at h
        · cases h
        · rename_i argMap hbind
          split at h
          · cases h
          · rename_i dt hdt
            split at h
            · cases h
            · rename_i out nd' hpp
              injection h with h; injection h with h; injection h with h1 h2; injection h2 with h2 h3
              subst h1 h3
              refine ⟨def_, dt, argMap, out, hget, hdt, hbind, ?_, rfl, h2.symm⟩
              rw [← hpp]
              congr 1
              unfold substBody
              have hf := foldl_subst (argLookup argMap) (dt.text.length + 1) (splitText dt.text) []
              simp only [List.nil_append] at hf
              unfold argLookup at hf ⊢
              rw [← hf]
              unfold usageArgsStr
              split
              · rfl
              · simp only [Option.getD_none, List.append_nil]; rfl

/-- a body without formals in it, without back-quote, backslash and `//`, that does not start with white space, is handed to the re-scan unchanged -/
theorem C05_plain_body_unchanged (dt : DefineText) (argMap : List (Bytes × Bytes))
    (hn : NoSlashSlash dt.text) (hh : ∀ c, dt.text.head? = some c → (c != 92 && !isAsciiWhitespace c) = true)
    (h96 : 96 ∉ dt.text) (h92 : 92 ∉ dt.text) (hl : ∀ p ∈ splitText dt.text, argLookup argMap p = none) :
    substBody dt argMap none = dt.text := by
  unfold substBody
  have hmem : ∀ p ∈ splitText dt.text, ∀ b ∈ p, b ∈ dt.text := by
    intro p hp b hb
    rw [← splitText_flatten dt.text hn hh]
    exact List.mem_flatten.mpr ⟨p, hp, hb⟩
  have : (splitText dt.text).map (substPiece (argLookup argMap) (dt.text.length + 1)) = splitText dt.text := by
    conv => rhs; rw [← List.map_id (splitText dt.text)]
    apply List.map_congr_left
    intro p hp
    exact substPiece_plain _ _ p (hl p hp) (fun h => h96 (hmem p hp 96 h)) (fun h => h92 (hmem p hp 92 h))
  rw [this, splitText_flatten dt.text hn hh]; simp

/-- non-vacuity: `a+b` with formal `a` bound to `1` becomes `1+b` -/
example : substBody { text := [97, 43, 98], origin := none } [([97], [49])] none = [49, 43, 98] := by decide

/-- non-vacuity of `splitText_string_piece`: `x="s``y";` keeps the literal `"s``y"` as one piece -/
example : [34, 115, 96, 96, 121, 34] ∈ splitText [120, 61, 34, 115, 96, 96, 121, 34, 59] := by decide


/-- `split_text` loses nothing (all texts without `//` that do not start with white space / a backslash) -/
theorem C05_split_text_lossless (t : List Nat) (hn : NoSlashSlash t)
    (hh : ∀ c, t.head? = some c → (c != 92 && !isAsciiWhitespace c) = true) : (splitText t).flatten = t :=
  splitText_flatten t hn hh

/-- **ordinary string literals are left untouched**: a string literal of the macro text is a piece of its own … -/
theorem C05_string_literal_is_a_piece (pre body post : List Nat)
    (hp0 : ∀ c, pre.head? = some c → (c != 92 && !isAsciiWhitespace c) = true) (hpne : pre ≠ [])
    (hp34 : 34 ∉ pre) (hp47 : 47 ∉ pre) (hplast : pre.getLast? ≠ some 96)
    (hb34 : 34 ∉ body) (hblast : body.getLast? ≠ some 96) :
    ([34] ++ body ++ [34]) ∈ splitText (pre ++ ([34] ++ body ++ [34]) ++ post) :=
  splitText_string_piece pre body post hp0 hpne hp34 hp47 hplast hb34 hblast

/-- … and a piece that starts with a quote (and is not a formal name) is copied verbatim: no `` removal, no `" conversion, no continuation folding -/
theorem C05_piece_string_verbatim (lookup : Bytes → Option Bytes) (n : Nat) (chunk : Bytes) (hl : lookup chunk = none)
    (hq : chunk.head? = some 34) : substPiece lookup n chunk = chunk := substPiece_string lookup n chunk hl hq

/-- a piece that equals a formal name is replaced by the value bound to it -/
theorem C05_piece_formal (lookup : Bytes → Option Bytes) (n : Nat) (chunk v : Bytes) (hl : lookup chunk = some v) :
    substPiece lookup n chunk = v := substPiece_formal lookup n chunk v hl

/-- a piece without back-quote and backslash that is not a formal name is copied unchanged (text and white space around a usage are preserved) -/
theorem C05_piece_plain (lookup : Bytes → Option Bytes) (n : Nat) (chunk : Bytes)
    (hl : lookup chunk = none) (h96 : 96 ∉ chunk) (h92 : 92 ∉ chunk) : substPiece lookup n chunk = chunk :=
  substPiece_plain lookup n chunk hl h96 h92


/-- **a one-line comment in macro text does not become part of the substituted text** (IEEE 1800-2017 22.5.1), its line end is kept, and the
    piece before the comment ends where the comment begins (repair D19) -/
theorem C05_line_comment_not_substituted (pre cm post : List Nat)
    (hp0 : ∀ c, pre.head? = some c → (c != 92 && !isAsciiWhitespace c) = true) (hpne : pre ≠ [])
    (hp34 : 34 ∉ pre) (hp47 : 47 ∉ pre) (hc10 : 10 ∉ cm) (hq47 : 47 ∉ post) :
    (splitText (pre ++ ([47, 47] ++ cm ++ [10]) ++ post)).flatten = pre ++ [10] ++ post :=
  splitText_drops_line_comment pre cm post hp0 hpne hp34 hp47 hc10 hq47

/-- non-vacuity: `a// n` + line end + `b` gives the pieces of `a`, line end, `b` -/
example : (splitText [97, 47, 47, 32, 110, 10, 98]).flatten = [97, 10, 98] := by decide

end Sv

import SvModel.Core.Pp
import SvModel.Lemmas.Walker
/-!
# C05 — macro usages: misuse is reported by name, omitted arguments take their default (decision logic)

`bindArgs` and the outer case split of `resolveUsage` are the pure decision part of
`resolve_text_macro_usage`; `splitText` is the chunker that makes substitution hit whole identifiers only.
-/
namespace Sv

/-- the value bound to the formal at position `i` -/
def argValue (dflt : Option Bytes) (actuals : List (Option Bytes)) (i : Nat) : Option Bytes :=
  match actuals[i]? with
  | some (some act) => some act
  | some none => some (dflt.getD [])
  | none => dflt

/-- **binding succeeds** iff every formal beyond the supplied positions has a default; each formal is then bound to the
    actual argument if one was given, to its default if the argument was omitted (empty position or missing), and to ""
    if an empty position has no default. All formal lists, all argument lists. -/
theorem C05_bind_ok : ∀ (formals : List (Bytes × Option Bytes)) (actuals : List (Option Bytes)) (i : Nat),
    (∀ j (h : j < formals.length), (argValue (formals[j]).2 actuals (i + j)).isSome) →
    bindArgsFrom i formals actuals =
      .ok ((formals.zipIdx).map (fun (f : (Bytes × Option Bytes) × Nat) => (f.1.1, (argValue f.1.2 actuals (i + f.2)).getD []))) := by
  intro formals
  induction formals with
  | nil => intro actuals i _; rfl
  | cons f rest ih =>
    intro actuals i h
    obtain ⟨arg, dflt⟩ := f
    have h0 := h 0 (by simp)
    simp only [List.getElem_cons_zero, Nat.add_zero] at h0
    have hr := ih actuals (i + 1) (fun j hj => by
      have := h (j + 1) (by simp; omega)
      simpa [Nat.add_assoc, Nat.add_comm 1 j] using this)
    simp only [bindArgsFrom, hr]
    unfold argValue at h0
    have hz : ∀ (l : List (Bytes × Option Bytes)) (k : Nat),
        (l.zipIdx (k + 1)).map (fun (f : (Bytes × Option Bytes) × Nat) => (f.1.1, (argValue f.1.2 actuals (i + f.2)).getD [])) =
        (l.zipIdx k).map (fun (f : (Bytes × Option Bytes) × Nat) => (f.1.1, (argValue f.1.2 actuals (i + 1 + f.2)).getD [])) := by
      intro l
      induction l with
      | nil => intro k; rfl
      | cons x xs ihx =>
        intro k
        simp only [List.zipIdx_cons, List.map_cons, ihx]
        congr 2
        simp [Nat.add_assoc, Nat.add_comm 1 k]
    rw [List.zipIdx_cons, List.map_cons, hz rest 0]
    simp only [Nat.add_zero, argValue]
    cases ha : actuals[i]? with
    | none =>
      rw [ha] at h0
      cases dflt with
      | none => simp at h0
      | some d => simp
    | some o =>
      cases o with
      | none => simp
      | some act => simp

/-- **a required argument that was not supplied is reported by the name of the formal** — the first such formal -/
theorem C05_bind_missing : ∀ (formals : List (Bytes × Option Bytes)) (actuals : List (Option Bytes)) (i k : Nat)
    (hk : k < formals.length),
    (∀ j (h : j < k), (argValue (formals[j]'(by omega)).2 actuals (i + j)).isSome) →
    argValue (formals[k]).2 actuals (i + k) = none →
    bindArgsFrom i formals actuals = .error (.defineArgNotFound (formals[k]).1) := by
  intro formals
  induction formals with
  | nil => intro actuals i k hk; simp at hk
  | cons f rest ih =>
    intro actuals i k hk hpre hnone
    obtain ⟨arg, dflt⟩ := f
    cases k with
    | zero =>
      simp only [List.getElem_cons_zero, Nat.add_zero, argValue] at hnone
      simp only [bindArgsFrom, List.getElem_cons_zero]
      cases ha : actuals[i]? with
      | none => rw [ha] at hnone; simp at hnone; subst hnone; rfl
      | some o => rw [ha] at hnone; cases o <;> simp at hnone
    | succ k =>
      have h0 := hpre 0 (by omega)
      simp only [List.getElem_cons_zero, Nat.add_zero, argValue] at h0
      have hr := ih actuals (i + 1) k (by simpa using hk)
        (fun j hj => by
          have := hpre (j + 1) (by omega)
          simpa [Nat.add_assoc, Nat.add_comm 1 j] using this)
        (by simpa [Nat.add_assoc, Nat.add_comm 1 k] using hnone)
      simp only [bindArgsFrom, List.getElem_cons_succ, hr]
      cases ha : actuals[i]? with
      | none =>
        rw [ha] at h0
        cases dflt with
        | none => simp at h0
        | some d => rfl
      | some o => cases o <;> rfl

/-- non-vacuity / examples: `F(p0, p1 = 9)` -/
example : bindArgs [([112, 48], none), ([112, 49], some [57])] [some [49]] = .ok [([112, 48], [49]), ([112, 49], [57])] := by
  rfl
example : bindArgs [([112, 48], none), ([112, 49], some [57])] [] = .error (.defineArgNotFound [112, 48]) := by rfl
example : bindArgs [([112, 48], none)] [none] = .ok [([112, 48], [])] := by rfl

/-! ### `split_text`: substitution hits whole identifiers only -/

/-- an identifier run that is the whole body is one chunk, and a formal of that name is found in it -/
example : splitText [112, 48, 43, 112, 48, 120] = [[], [112, 48], [43], [112, 48, 120]] := by decide  -- "p0+p0x": p0x is NOT p0
/-- a plain string literal is one chunk, so a formal name inside it is never substituted -/
example : splitText [97, 32, 34, 112, 48, 34, 32, 98] = [[], [97], [32], [34, 112, 48, 34], [32], [98]] := by decide


/-! ## the error clauses of `resolve_text_macro_usage`, stated outright on the walker model (all tables, trees, depths ≤ 64) -/


/-- **DefineNotFound carries the macro name**: a usage of a name that is not in the table is an error naming it -/
theorem C05_undefined_named (C : Cfg) (fuel : Nat) (inp : Input) (s path : Bytes) (x : Tree) (d : Defines) (ii sc : Bool) (rd id : Nat)
    (hrd : rd ≤ recursiveLimit) (h : d.get? (usageName C.K inp x) = none) :
    resolveUsage C (fuel + 1) inp s path x d ii sc rd id = .error (.defineNotFound (usageName C.K inp x)) := by
  have : ¬ rd > recursiveLimit := by omega
  simp only [resolveUsage, this, if_false]
  split
  · rfl
  · rename_i heq; rw [h] at heq; first | done | cases heq
  · rename_i heq; rw [h] at heq; first | done | cases heq

/-- a macro that is in the table without a definition (`-D NAME` style, `Some(None)`) expands to nothing -/
theorem C05_bodyless_table_entry (C : Cfg) (fuel : Nat) (inp : Input) (s path : Bytes) (x : Tree) (d : Defines) (ii sc : Bool) (rd id : Nat)
    (hrd : rd ≤ recursiveLimit) (h : d.get? (usageName C.K inp x) = some none) :
    resolveUsage C (fuel + 1) inp s path x d ii sc rd id = .ok none := by
  have : ¬ rd > recursiveLimit := by omega
  simp only [resolveUsage, this, if_false]
  split
  · rename_i heq; rw [h] at heq; first | done | cases heq
  · rfl
  · rename_i heq; rw [h] at heq; first | done | cases heq

/-- **DefineNoArgs carries the macro name**: a macro with formals used without an argument list -/
theorem C05_no_args_named (C : Cfg) (fuel : Nat) (inp : Input) (s path : Bytes) (x : Tree) (d : Defines) (ii sc : Bool) (rd id : Nat)
    (def_ : Define) (hrd : rd ≤ recursiveLimit) (h : d.get? (usageName C.K inp x) = some (some def_))
    (hf : def_.args.isEmpty = false) (hn : (x.kids.drop 2).isEmpty = true) :
    resolveUsage C (fuel + 1) inp s path x d ii sc rd id = .error (.defineNoArgs def_.ident) := by
  have : ¬ rd > recursiveLimit := by omega
  simp only [resolveUsage, this, if_false]
  split
  · rename_i heq; rw [h] at heq; first | done | cases heq
  · rename_i heq; rw [h] at heq; first | done | cases heq
  · rename_i df heq
    rw [h] at heq
    have : df = def_ := (Option.some.inj (Option.some.inj heq)).symm
    subst this
    first | rfl | simp only [hf, hn, Bool.not_false, Bool.and_self, if_true]

/-- a macro defined without body (`` `define X ``) and without formals expands to nothing -/
theorem C05_define_without_body (C : Cfg) (fuel : Nat) (inp : Input) (s path : Bytes) (x : Tree) (d : Defines) (ii sc : Bool) (rd id : Nat)
    (def_ : Define) (hrd : rd ≤ recursiveLimit) (h : d.get? (usageName C.K inp x) = some (some def_))
    (hf : def_.args = []) (hb : def_.text = none) :
    resolveUsage C (fuel + 1) inp s path x d ii sc rd id = .ok none := by
  have : ¬ rd > recursiveLimit := by omega
  simp only [resolveUsage, this, if_false]
  split
  · rename_i heq; rw [h] at heq; first | done | cases heq
  · rename_i heq; rw [h] at heq; first | done | cases heq
  · rename_i df heq
    rw [h] at heq
    have : df = def_ := (Option.some.inj (Option.some.inj heq)).symm
    subst this
    first | rfl | simp only [hf, hb, bindArgs, bindArgsFrom, List.isEmpty_nil, Bool.not_true, Bool.false_and, Bool.false_eq_true, if_false]


/-- **a macro usage is resolved with the table in force at the point of use**, its expansion is pushed with the origin the resolver
    returns, the table the expansion leaves behind becomes the current one, and an error of the resolver is the error of the run -/
theorem C05_usage_arm (C : Cfg) (recI) (recU) (inp : Input) (s path : Bytes) (ii sc : Bool) (rd id : Nat) (w : WState) (x : Tree) :
    (∀ e, recU inp s path x w.defines ii sc (rd + 1) id = .error e → armUsage C recI recU inp s path ii sc rd id w x = .error e) ∧
    (∀ w', armUsage C recI recU inp s path ii sc rd id w x = .ok w' →
      (recU inp s path x w.defines ii sc (rd + 1) id = .ok none ∧ w'.defines = w.defines) ∨
      (∃ t org nd, recU inp s path x w.defines ii sc (rd + 1) id = .ok (some (t, org, nd)) ∧ w'.defines = nd)) := by
  have hd : (w.skipPush x).defines = w.defines := skipPush_defines w x
  constructor
  · intro e he
    unfold armUsage; dsimp only; rw [hd, he]
  · intro w' h
    unfold armUsage at h; dsimp only at h; rw [hd] at h
    split at h
    · cases h
    · rename_i r hr
      injection h with h; subst h
      cases r with
      | none => left; exact ⟨hr, by simp [foldl_pushLoc_defines, hd]⟩
      | some v => obtain ⟨t, org, nd⟩ := v; right; exact ⟨t, org, nd, hr, by simp [foldl_pushLoc_defines]⟩


/-- **nested usages are expanded with the table current at the point of use**: the text a usage contributes is the output of
    `preprocess_str` run on the substituted body with exactly the table the usage was resolved in (same path, flags and depth counters),
    and the table that run returns is handed back -/
theorem C05_expansion_rescanned (C : Cfg) (n : Nat) (inp : Input) (s path : Bytes) (x : Tree) (d : Defines) (ii sc : Bool) (rd id : Nat)
    (t : Bytes) (org : Option (Bytes × Range)) (nd : Defines)
    (h : resolveUsage C (n + 1) inp s path x d ii sc rd id = .ok (some (t, org, nd))) :
    ∃ body out, preprocessStr C n body path d ii sc rd id = .ok (out, nd) ∧ t = out.text := by
  simp only [resolveUsage] at h
  split at h
  · cases h
  · split at h
    · cases h
    · cases h
    · split at h
      · cases h
      · split at h
        · cases h
        · split at h
          · cases h
          · split at h
            · cases h
            · rename_i out nd' hpp
              injection h with h; injection h with h; injection h with h1 h2; injection h2 with h2 h3
              subst h1 h3
              exact ⟨_, out, hpp, rfl⟩

end Sv

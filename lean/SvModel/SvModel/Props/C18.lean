import SvModel.Props.C06
import SvModel.Lemmas.Strip
/-!
# C18 — strip_comments removes comments and nothing else (theorem on directive-free, D4-free text)

`C18_plain_trees`: under the hypotheses of `C06_identity` (the preprocessor's own parse has no directive node and no trivia after a
string / escaped identifier) `preprocess_str` returns, for EITHER value of the flag, `emitAll`: every non-comment token verbatim and in
order, every comment verbatim (flag off) or replaced by exactly one separator byte (flag on), and the same define table.
`C18_strip_sim` (general case, every tree): the runs with the flag off and on fail with the same error or succeed with the same define table and
outputs that differ only in that chunks which are the text of a `Comment` node are replaced by one separator byte (`C18_chunks`); the flag is
threaded through `include and macro expansion (`C18_strip_sim_inner`, `C18_strip_sim_usage`).
-/
namespace Sv
open Sv.Gen

theorem ppKinds_cm_facts : ppKinds.comment ≠ ppKinds.sdNotDirective ∧ ppKinds.comment ≠ ppKinds.stringLiteral ∧
    ppKinds.comment ≠ ppKinds.escapedIdentifier := by decide

/-- the table `preprocess_str` starts from: the SV_COV seeds, then the caller's defines -/
def seedDefines (d : Defines) : Defines :=
  d.reverse.foldl (fun (t : Defines) (kv : Bytes × Option Define) => t.insert kv.1 kv.2)
    (svCovDefines.foldl (fun (t : Defines) (kv : String × String) =>
      t.insert (bstr kv.1) (some { ident := bstr kv.1, args := [], text := some { text := bstr kv.2, origin := none } })) ([] : Defines))

/-- **C18 on directive-free, D4-free text (both flag values).** Under the hypotheses of `C06_identity`, `preprocess_str` with
    `strip_comments = sc` returns `emitAll … sc …`: every non-comment token verbatim and in order; every comment verbatim when the flag
    is off and exactly one separator byte (`\n` for a one-line comment, blank otherwise) when it is on; the same define table for both
    flag values. -/
theorem C18_plain_trees (fs : Fs) (incs : List Bytes) (s path : Bytes) (d : Defines) (ii sc : Bool) (rd id : Nat) (hid : id ≤ recursiveLimit)
    (fuel q : Nat) (r : Rec) (kpp : Nat) (sds : List Tree) (st' : PState)
    (hparse : ppParse (toInput s) {} (4000 + 400 * (toInput s).size) = (.ok q r [.node kpp sds], st'))
    (hpp : inert ppKinds (.node kpp sds) = true) (hplain : ∀ t ∈ sds, PlainSD ppKinds t)
    (hfuel : 6 * sds.length + 4 ≤ fuel) :
    ∀ sc', preprocessStr ⟨ppKinds, grammar, fs, incs⟩ fuel s path d ii sc' rd id =
      .ok (emitAll ppKinds sc' (toInput s) path {} sds, seedDefines d) := by
  obtain ⟨f, rfl⟩ : ∃ f, fuel = (f + 6 * sds.length + 3) + 1 := ⟨fuel - (6 * sds.length + 4), by omega⟩
  unfold ppParse at hparse
  have hidn : ¬ (id > recursiveLimit) := by omega
  intro sc'
  unfold preprocessStr
  simp only [hidn, if_false, ppKinds_ppText, hparse]
  rw [walk_plain_tree' ⟨ppKinds, grammar, fs, incs⟩ ppKinds_ok ppKinds_cm_facts.1 ppKinds_cm_facts.2.1 ppKinds_cm_facts.2.2 f (toInput s) s path ii sc' rd id kpp sds hpp hplain _
    ⟨rfl, rfl, rfl, rfl⟩]
  rfl

/-- the two outputs differ only at comment nodes … -/
theorem C18_noncomment_same (inp : Input) (path : Bytes) (out : POut) (k ck o l n : Nat) (h : ck ≠ ppKinds.comment) :
    emitSD ppKinds true inp path out (.node k [.node ck [.leaf o l n]]) = emitSD ppKinds false inp path out (.node k [.node ck [.leaf o l n]]) :=
  emitSD_noncomment ppKinds inp path out k ck o l n h

/-- … where the stripped run emits exactly one separator byte with the comment's own origin -/
theorem C18_comment_one_byte (inp : Input) (path : Bytes) (out : POut) (k o l n : Nat) :
    emitSD ppKinds true inp path out (.node k [.node ppKinds.comment [.leaf o l n]]) =
      out.push (if (bytesOf inp o l).getLast? == some 10 then [10] else [32]) (some (path, ⟨o, o + l⟩)) :=
  emitSD_comment ppKinds inp path out k o l n

/-! ### the general case: every input, through conditionals, `include and macro expansion -/

/-- **C18, walker level, all inputs.** For the regenerated preprocessor grammar and kind table, every file system, include path list, input text,
    path, caller-supplied define table, `ignore_include` value, depth counters and fuel: `preprocess_str` with `strip_comments` off and on
    either both fail, with the same error, or both succeed with the same define table and with output texts related by `TextRel`. -/
theorem C18_strip_sim (fs : Fs) (incs : List Bytes) (fuel : Nat) (s path : Bytes) (d : Defines) (ii : Bool) (rd id : Nat) :
    ResRel ppKinds (preprocessStr ⟨ppKinds, grammar, fs, incs⟩ fuel s path d ii false rd id)
                   (preprocessStr ⟨ppKinds, grammar, fs, incs⟩ fuel s path d ii true rd id) :=
  (walk_strip_sim ⟨ppKinds, grammar, fs, incs⟩ fuel).1 s path d ii rd id

/-- the same for a file reached through `include (`preprocess_inner`) … -/
theorem C18_strip_sim_inner (fs : Fs) (incs : List Bytes) (fuel : Nat) (path : Bytes) (d : Defines) (ii : Bool) (rd id : Nat) :
    ResRel ppKinds (preprocessInner ⟨ppKinds, grammar, fs, incs⟩ fuel path d false ii rd id)
                   (preprocessInner ⟨ppKinds, grammar, fs, incs⟩ fuel path d true ii rd id) :=
  (walk_strip_sim ⟨ppKinds, grammar, fs, incs⟩ fuel).2.2.1 path d ii rd id

/-- … and for a macro expansion (`resolve_text_macro_usage`): same error, or same origin, same table and related expansion texts -/
theorem C18_strip_sim_usage (fs : Fs) (incs : List Bytes) (fuel : Nat) (inp : Input) (s path : Bytes) (x : Tree) (d : Defines) (ii : Bool) (rd id : Nat) :
    UsRel ppKinds (resolveUsage ⟨ppKinds, grammar, fs, incs⟩ fuel inp s path x d ii false rd id)
                  (resolveUsage ⟨ppKinds, grammar, fs, incs⟩ fuel inp s path x d ii true rd id) :=
  (walk_strip_sim ⟨ppKinds, grammar, fs, incs⟩ fuel).2.2.2 inp s path x d ii rd id

/-- same error: a run fails with `e` without the flag iff it fails with `e` with it -/
theorem C18_same_error (fs : Fs) (incs : List Bytes) (fuel : Nat) (s path : Bytes) (d : Defines) (ii : Bool) (rd id : Nat) (e : PpError) :
    preprocessStr ⟨ppKinds, grammar, fs, incs⟩ fuel s path d ii false rd id = .error e ↔
    preprocessStr ⟨ppKinds, grammar, fs, incs⟩ fuel s path d ii true rd id = .error e := by
  have h := C18_strip_sim fs incs fuel s path d ii rd id
  revert h
  generalize preprocessStr ⟨ppKinds, grammar, fs, incs⟩ fuel s path d ii false rd id = r1
  generalize preprocessStr ⟨ppKinds, grammar, fs, incs⟩ fuel s path d ii true rd id = r2
  intro h
  match r1, r2, h with
  | .error a, .error b, h => have : b = a := h; subst this; exact Iff.rfl
  | .ok (_, _), .ok (_, _), _ => constructor <;> (intro h; cases h)
  | .error _, .ok _, h => exact h.elim
  | .ok _, .error _, h => exact h.elim

/-- same define table -/
theorem C18_same_defines (fs : Fs) (incs : List Bytes) (fuel : Nat) (s path : Bytes) (d : Defines) (ii : Bool) (rd id : Nat)
    (o o' : POut) (t t' : Defines)
    (h1 : preprocessStr ⟨ppKinds, grammar, fs, incs⟩ fuel s path d ii false rd id = .ok (o, t))
    (h2 : preprocessStr ⟨ppKinds, grammar, fs, incs⟩ fuel s path d ii true rd id = .ok (o', t')) :
    t' = t ∧ TextRel ppKinds o.text o'.text := by
  have h := C18_strip_sim fs incs fuel s path d ii rd id
  rw [h1, h2] at h
  exact h

/-- what `TextRel` means: the two texts are the concatenations of the same list of chunks, except that the chunks marked as comments — each the
    text spanned by a `Comment` node — are replaced by `commentEmit true` of themselves (one separator byte, `C18_sep_one_byte`) in the second. -/
theorem C18_chunks {a b : Bytes} (h : TextRel ppKinds a b) :
    ∃ chunks : List (Bytes × Bool),
      a = (chunks.map (·.1)).flatten ∧
      b = (chunks.map (fun c => if c.2 then commentEmit true c.1 else c.1)).flatten ∧
      ∀ c ∈ chunks, c.2 = true → IsCommentChunk ppKinds c.1 := by
  induction h with
  | refl a => exact ⟨[(a, false)], by simp, by simp, by simp⟩
  | comment c hc => exact ⟨[(c, true)], by simp, by simp, by simpa using hc⟩
  | app _ _ ih1 ih2 =>
    obtain ⟨c1, ha1, hb1, hc1⟩ := ih1
    obtain ⟨c2, ha2, hb2, hc2⟩ := ih2
    refine ⟨c1 ++ c2, by simp [ha1, ha2], by simp [hb1, hb2], ?_⟩
    intro c hc ht
    rcases List.mem_append.mp hc with h | h
    · exact hc1 c h ht
    · exact hc2 c h ht

/-- the separator is exactly one byte: a line end for a comment that ends in one, a blank otherwise -/
theorem C18_sep_one_byte (c : Bytes) : commentEmit true c = [10] ∨ commentEmit true c = [32] := by
  unfold commentEmit; simp only [Bool.not_true, Bool.false_eq_true, if_false]; split <;> simp

/-- non-vacuity: a comment chunk exists and the relation relates two different texts (`a/**/b` and `a b`) -/
example : TextRel ppKinds ([97] ++ [47, 42, 42, 47] ++ [98]) ([97] ++ [32] ++ [98]) := by
  refine .app (.app (.refl _) ?_) (.refl _)
  have hc : IsCommentChunk ppKinds [47, 42, 42, 47] :=
    ⟨toInput [47, 42, 42, 47], .node ppKinds.comment [.leaf 0 4 1], 0, 4, 1, rfl, rfl, by decide⟩
  exact TextRel.comment (K := ppKinds) _ hc

end Sv

import SvModel.Props.C06
/-!
# C18 — strip_comments removes comments and nothing else (theorem on directive-free, D4-free text)

`C18_plain_trees`: under the hypotheses of `C06_identity` (the preprocessor's own parse has no directive node and no trivia after a
string / escaped identifier) `preprocess_str` returns, for EITHER value of the flag, `emitAll`: every non-comment token verbatim and in
order, every comment verbatim (flag off) or replaced by exactly one separator byte (flag on), and the same define table.
Texts with directives / macro usages are covered by the walker correspondence and the oracle, not by this theorem.
-/
namespace Sv
open Sv.Gen

theorem ppKinds_cm_facts : ppKinds.comment ≠ ppKinds.sdNotDirective ∧ ppKinds.comment ≠ ppKinds.stringLiteral ∧
    ppKinds.comment ≠ ppKinds.escapedIdentifier := by decide

/-- the table `preprocess_str` starts from: the SV_COV seeds, then the caller's defines -/
def seedDefines (d : Defines) : Defines :=
  d.reverse.foldl (fun (t : Defines) (kv : Bytes × Option Define) => t.insert kv.1 kv.2)
    (svCovDefines.foldl (fun (t : Defines) (kv : String × String) =>
      t.insert (bstr kv.1) (some { ident := bstr kv.1, args := [], text := some { text := bstr kv.2, origin := none } })) ([] : Defines))

/-- **C18 on directive-free, D4-free text (both flag values).** Under the hypotheses of `C06_identity`, `preprocess_str` with
    `strip_comments = sc` returns `emitAll … sc …`: every non-comment token verbatim and in order; every comment verbatim when the flag
    is off and exactly one separator byte (`\n` for a one-line comment, blank otherwise) when it is on; the same define table for both
    flag values. -/
theorem C18_plain_trees (fs : Fs) (incs : List Bytes) (s path : Bytes) (d : Defines) (ii sc : Bool) (rd id : Nat) (hid : id ≤ recursiveLimit)
    (fuel q : Nat) (r : Rec) (kpp : Nat) (sds : List Tree) (st' : PState)
    (hparse : ppParse (toInput s) {} (4000 + 400 * (toInput s).size) = (.ok q r [.node kpp sds], st'))
    (hpp : inert ppKinds (.node kpp sds) = true) (hplain : ∀ t ∈ sds, PlainSD ppKinds t)
    (hfuel : 6 * sds.length + 4 ≤ fuel) :
    ∀ sc', preprocessStr ⟨ppKinds, grammar, fs, incs⟩ fuel s path d ii sc' rd id =
      .ok (emitAll ppKinds sc' (toInput s) path {} sds, seedDefines d) := by
  obtain ⟨f, rfl⟩ : ∃ f, fuel = (f + 6 * sds.length + 3) + 1 := ⟨fuel - (6 * sds.length + 4), by omega⟩
  unfold ppParse at hparse
  have hidn : ¬ (id > recursiveLimit) := by omega
  intro sc'
  unfold preprocessStr
  simp only [hidn, if_false, ppKinds_ppText, hparse]
  rw [walk_plain_tree' ⟨ppKinds, grammar, fs, incs⟩ ppKinds_ok ppKinds_cm_facts.1 ppKinds_cm_facts.2.1 ppKinds_cm_facts.2.2 f (toInput s) s path ii sc' rd id kpp sds hpp hplain _
    ⟨rfl, rfl, rfl, rfl⟩]
  rfl

/-- the two outputs differ only at comment nodes … -/
theorem C18_noncomment_same (inp : Input) (path : Bytes) (out : POut) (k ck o l n : Nat) (h : ck ≠ ppKinds.comment) :
    emitSD ppKinds true inp path out (.node k [.node ck [.leaf o l n]]) = emitSD ppKinds false inp path out (.node k [.node ck [.leaf o l n]]) :=
  emitSD_noncomment ppKinds inp path out k ck o l n h

/-- … where the stripped run emits exactly one separator byte with the comment's own origin -/
theorem C18_comment_one_byte (inp : Input) (path : Bytes) (out : POut) (k o l n : Nat) :
    emitSD ppKinds true inp path out (.node k [.node ppKinds.comment [.leaf o l n]]) =
      out.push (if (bytesOf inp o l).getLast? == some 10 then [10] else [32]) (some (path, ⟨o, o + l⟩)) :=
  emitSD_comment ppKinds inp path out k o l n

end Sv

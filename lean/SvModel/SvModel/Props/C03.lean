import SvModel.Lemmas.OriginMap
import SvModel.Core.Pp
import SvModel.Lemmas.Walker
import SvModel.Lemmas.OriginPaths
/-!
# C03 — the origin map sends every output byte back to where it came from (M4 theorems)

Model: `Core/Origin.lean` (`Range` with the code's overlap-as-equality `eq`/`cmp`, the `BTreeMap` as a list kept
sorted by that `cmp`, `push`, `merge`, `origin`). The emission sites of the walker (which source range is passed
with each pushed string) are part of `Core/Pp.lean` and tied to `preprocess.rs` by the correspondence run, which
compares `origin(pos)` for EVERY output position of every case.
-/
namespace Sv

/-- the empty output is tiled -/
theorem C03_empty_tiled : ({} : POut).Tiled := tiled_empty

/-- `push` keeps the key list a tiling of `[0, |text|)` — for every pushed string (an empty string records nothing;
    before the repair of D2 it inserted a zero-length key that shadowed the next segment) -/
theorem C03_push_preserves_tiling (t : POut) (s : List Nat) (src : Option (List Nat × Range)) (h : t.Tiled) :
    (t.push s src).Tiled := push_tiled t s src h

/-- `merge` (splicing the output of an included file) keeps the tiling, re-basing both the key and the recorded range -/
theorem C03_merge_preserves_tiling (t o : POut) (ht : t.Tiled) (ho : o.Tiled) : (t.merge o).Tiled :=
  merge_tiled t o ht ho

/-- **origin lookup**: on a tiled output, for EVERY position `pos < |text|` the lookup finds the unique segment
    `[k.b, k.e)` containing `pos` and returns `(path, pos - k.b + src.begin)` — or none exactly when that segment was
    pushed without a source. No position of a tiled output lacks a segment. -/
theorem C03_origin_lookup (t : POut) (h : t.Tiled) (pos : Nat) (hp : pos < t.text.length) :
    ∃ k v, (k, v) ∈ t.origins ∧ k.b ≤ pos ∧ pos < k.e ∧
      t.origin pos = (match v.src with | some (p, r) => some (p, pos - k.b + r.b) | none => none) :=
  origin_tiled t h pos hp

/-- any sequence of pushes and merges of tiled outputs, starting from the empty output, is tiled -/
inductive Built : POut → Prop
  | empty : Built {}
  | push (t : POut) (s : List Nat) (src : Option (List Nat × Range)) : Built t → Built (t.push s src)
  | merge (t o : POut) : Built t → Built o → Built (t.merge o)

theorem C03_built_tiled (t : POut) (h : Built t) : t.Tiled := by
  induction h with
  | empty => exact tiled_empty
  | push t s src _ ih => exact push_tiled t s src ih
  | merge t o _ _ ih1 ih2 => exact merge_tiled t o ih1 ih2

/-- **every successful run of the walker model returns a tiled output** — all configurations, file systems, inputs, define tables,
    flags, recursion depths and fuel; through includes (`merge`) and macro expansions (`push` of the expansion text) -/
theorem C03_walker_tiled (C : Cfg) (fuel : Nat) (s path : Bytes) (d : Defines) (ii sc : Bool) (rd id : Nat) (out : POut) (dd : Defines)
    (h : preprocessStr C fuel s path d ii sc rd id = .ok (out, dd)) : out.Tiled :=
  TiledRes_ok ((walk_tiled C fuel).1 s path d ii sc rd id) h

theorem C03_walker_tiled_file (C : Cfg) (fuel : Nat) (path : Bytes) (d : Defines) (sc ii : Bool) (rd id : Nat) (out : POut) (dd : Defines)
    (h : preprocessInner C fuel path d sc ii rd id = .ok (out, dd)) : out.Tiled :=
  TiledRes_ok ((walk_tiled C fuel).2.2 path d sc ii rd id) h

/-- hence **no byte of any output of the walker model lacks a segment**, and the lookup returns that segment's file and the byte's
    offset inside the recorded source range (or none for a segment pushed without a source: `__FILE__`, `__LINE__`, caller defines) -/
theorem C03_walker_origin (C : Cfg) (fuel : Nat) (path : Bytes) (d : Defines) (sc ii : Bool) (out : POut) (dd : Defines)
    (h : preprocessInner C fuel path d sc ii 0 0 = .ok (out, dd)) (pos : Nat) (hp : pos < out.text.length) :
    ∃ k v, (k, v) ∈ out.origins ∧ k.b ≤ pos ∧ pos < k.e ∧
      out.origin pos = (match v.src with | some (p, r) => some (p, pos - k.b + r.b) | none => none) :=
  origin_tiled out (C03_walker_tiled_file C fuel path d sc ii 0 0 out dd h) pos hp

/-- `get_origin(locate) = origin(locate.offset)`: the lookup for a token is the lookup of its first byte (by
    definition in `sv-parser/src/lib.rs:72`); on a tiled output it is therefore the origin of the segment holding the
    token's first byte -/
theorem C03_get_origin_first_byte (t : POut) (h : t.Tiled) (off len : Nat) (hl : 0 < len) (hin : off + len ≤ t.text.length) :
    ∃ k v, (k, v) ∈ t.origins ∧ k.b ≤ off ∧ off < k.e ∧
      t.origin off = (match v.src with | some (p, r) => some (p, off - k.b + r.b) | none => none) :=
  origin_tiled t h off (by omega)

/-- regression witness for D2 (model of the code before the repair): a zero-length key shadows the next insert -/
theorem C03_empty_key_shadows :
    let m : OMap := OMap.insert [] (Range.mk 0 0) (Origin.mk (Range.mk 0 0) none)
    let m2 := OMap.insert m (Range.mk 0 3) (Origin.mk (Range.mk 0 3) (some ([1], Range.mk 10 13)))
    OMap.get m2 (Range.mk 0 1) ≠ none ∧ OMap.get m2 (Range.mk 1 2) = none := by
  decide

/-- non-vacuity: three pushes, every position has the expected origin -/
example : let t := ((({} : POut).push [1, 2] (some ([7], ⟨10, 12⟩))).push [] none).push [3, 4, 5] (some ([8], ⟨0, 3⟩))
    (List.range 5).map t.origin = [some ([7], 10), some ([7], 11), some ([8], 0), some ([8], 1), some ([8], 2)] := by
  decide


/-! ## where expansions, definitions and `__FILE__` / `__LINE__` point (walker model, all inputs) -/


/-- **expansions map to the macro definition**: whenever `resolve_text_macro_usage` produces text, the origin it hands to `push` is the
    origin recorded with the macro's body when it was defined (file of the definition, range of the macro text) — or none for a macro
    without recorded origin (caller-supplied, SV_COV seeds) -/
theorem C03_expansion_origin (C : Cfg) (fuel : Nat) (inp : Input) (s path : Bytes) (x : Tree) (d : Defines) (ii sc : Bool) (rd id : Nat)
    (t : Bytes) (org : Option (Bytes × Range)) (nd : Defines)
    (h : resolveUsage C fuel inp s path x d ii sc rd id = .ok (some (t, org, nd))) :
    ∃ df dt, d.get? (usageName C.K inp x) = some (some df) ∧ df.text = some dt ∧ org = dt.origin := by
  cases fuel with
  | zero => simp [resolveUsage] at h
  | succ n =>
    simp only [resolveUsage] at h
    split at h
    · cases h
    · split at h
      · cases h
      · cases h
      · rename_i df hdf
        split at h
        · cases h
        · split at h
          · cases h
          · split at h
            · cases h
            · rename_i dt hdt
              split at h
              · cases h
              · rename_i out nd' hpp
                injection h with h; injection h with h; injection h with h1 h2; injection h2 with h2 h3
                exact ⟨df, dt, hdf, hdt, h2.symm⟩

theorem pushLoc_defines' (inp : Input) (path : Bytes) (w : WState) (x : Tree) : (pushLoc inp path w x).defines = w.defines := by
  unfold pushLoc; split <;> rfl

/-- **a definition records where its body stands**: after `` `define N … body `` (N not predefined) the table entry of N carries the body
    text and, as origin, the defining file together with exactly the byte range of the macro text -/
theorem C03_define_records_body (C : Cfg) (recI) (recU) (inp : Input) (s path : Bytes) (ii sc : Bool) (rd id : Nat) (w w' : WState) (x : Tree)
    (sym kw proto : Tree) (rest : List Tree) (mt : Tree) (o l n : Nat) (hk : x.kids = sym :: kw :: proto :: rest)
    (hmt : rest.find? (fun k => k.baseKind == C.K.macroText) = some mt) (hl : locOf mt = some (o, l, n))
    (hp : isPredefined (defineName C.K inp proto) = false)
    (h : armDefine C recI recU inp s path ii sc rd id w x = .ok w') :
    ∃ df, w'.defines.get? (defineName C.K inp proto) = some (some df) ∧
      df.text = some { text := bytesOf inp o l, origin := some (path, ⟨o, o + l⟩) } := by
  unfold armDefine at h
  simp only [hk, hp, Bool.not_false, if_true, hmt, hl] at h
  injection h with h; subst h
  simp only [pushLoc_defines']
  have key : ∀ (dd : Defines) (k : Bytes) (v : Option Define), (dd.insert k v).get? k = some v := by
    intro dd k v; simp [Defines.insert, Defines.get?]
  exact ⟨_, key _ _ _, rfl⟩


/-- **`__FILE__` / `__LINE__` have no origin**: whatever the position arm emits is pushed without a source -/
theorem C03_position_no_origin (C : Cfg) (recI) (recU) (inp : Input) (s path : Bytes) (ii sc : Bool) (rd id : Nat) (w w' : WState) (x : Tree)
    (h : armPosition C recI recU inp s path ii sc rd id w x = .ok w') :
    w'.out = w.out ∨ ∃ t, w'.out = w.out.push t none := by
  unfold armPosition at h
  dsimp only at h
  repeat' split at h
  all_goals first
    | (cases h; done)
    | skip
  all_goals (injection h with h; subst h; dsimp only; simp only [skipPush_out])
  all_goals first
    | (left; rfl)
    | (left; trivial)
    | trivial
    | (right; exact ⟨_, rfl⟩)


/-! ### no other file: an origin never names a file that was not read -/

theorem omap_get_mem : ∀ (m : OMap) (k : Range) (v : Origin), m.get k = some v → ∃ k', (k', v) ∈ m := by
  intro m
  induction m with
  | nil => intro k v h; simp [OMap.get] at h
  | cons hd tl ih =>
    intro k v h
    obtain ⟨k', v'⟩ := hd
    unfold OMap.get at h
    split at h
    · cases h
    · simp only [Option.some.injEq] at h; subst h; exact ⟨k', by simp⟩
    · obtain ⟨k2, hk2⟩ := ih k v h; exact ⟨k2, by simp [hk2]⟩

/-- the origin paths of the macros the caller supplied -/
def callerPaths (d : Defines) (p : Bytes) : Prop :=
  ∃ kv ∈ d, ∃ df dt r, kv.2 = some df ∧ df.text = some dt ∧ dt.origin = some (p, r)

/-- **An origin lookup never names any other file**: for every successful run (every input, file system, table, flags, fuel) and every output
    position, the file that `origin(pos)` names is the file being preprocessed, a file that exists (readable) in the file system — i.e. one that
    an `include can have read — or the origin recorded in a macro the caller supplied. (`Lemmas/OriginPaths.lean: walk_paths`, induction on fuel
    through event loop ↔ `include ↔ macro expansion; all twelve arms.) -/
theorem C03_no_other_file (fs : Fs) (incs : List Bytes) (fuel : Nat) (s path : Bytes) (d : Defines) (ii sc : Bool) (rd id : Nat)
    (o : POut) (d' : Defines) (h : preprocessStr ⟨ppKinds, grammar, fs, incs⟩ fuel s path d ii sc rd id = .ok (o, d'))
    (pos : Nat) (p : Bytes) (off : Nat) (ho : o.origin pos = some (p, off)) :
    p = path ∨ (∃ c, fs.find p = some (some c)) ∨ callerPaths d p := by
  let A : Bytes → Prop := fun q => q = path ∨ (∃ c, fs.find q = some (some c)) ∨ callerPaths d q
  have hw := (walk_paths A ⟨ppKinds, grammar, fs, incs⟩ (fun q c hq => .inr (.inl ⟨c, hq⟩)) fuel).1 s path d ii sc rd id o d' (.inl rfl)
    (fun kv hkv df dt q r h1 h2 h3 => .inr (.inr ⟨kv, hkv, df, dt, r, h1, h2, h3⟩)) h
  unfold POut.origin at ho
  split at ho
  · rename_i og hg
    split at ho
    · rename_i q r hs
      simp only [Option.some.injEq] at ho
      obtain ⟨k', hk'⟩ := omap_get_mem _ _ _ hg
      have := hw.1 (k', og) hk' q r hs
      cases ho; exact this
    · cases ho
  · cases ho

/-- the same for the macros of the returned table: each records the file being preprocessed, a readable file of the file system, or what the
    caller supplied -/
theorem C03_define_origins_named_files (fs : Fs) (incs : List Bytes) (fuel : Nat) (s path : Bytes) (d : Defines) (ii sc : Bool) (rd id : Nat)
    (o : POut) (d' : Defines) (h : preprocessStr ⟨ppKinds, grammar, fs, incs⟩ fuel s path d ii sc rd id = .ok (o, d')) :
    DefsIn (fun q => q = path ∨ (∃ c, fs.find q = some (some c)) ∨ callerPaths d q) d' :=
  ((walk_paths _ ⟨ppKinds, grammar, fs, incs⟩ (fun q c hq => .inr (.inl ⟨c, hq⟩)) fuel).1 s path d ii sc rd id o d' (.inl rfl)
    (fun kv hkv df dt q r h1 h2 h3 => .inr (.inr ⟨kv, hkv, df, dt, r, h1, h2, h3⟩)) h).2

end Sv

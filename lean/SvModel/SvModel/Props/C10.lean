import SvModel.Core.Pp
import SvModel.Gen.PpKinds
import SvModel.Lemmas.Walker
import SvModel.Lemmas.IgnoreInc
import SvModel.Lemmas.DefinesMap
/-!
# C10 / C11 / C09 / C18 — decision logic of the walker, stated outright

`resolveIncludePath`, the define table operations, the two recursion guards and `commentEmit` are pure
parts of `Core/Pp.lean` (tied to `preprocess.rs` by the correspondence run of every check).
-/
namespace Sv

/-! ## C10: which file an `include names -/

/-- an absolute name, or a name that exists relative to the working directory, is used as given -/
theorem C10_path_as_given (fs : Fs) (incs : List Bytes) (p : Bytes) (h : pathIsRelative p = false ∨ fs.exists p = true) :
    resolveIncludePath fs incs p = p := by
  unfold resolveIncludePath
  rcases h with h | h <;> simp [h]

/-- otherwise it is taken from the FIRST include path under which it exists -/
theorem C10_path_first_include_path (fs : Fs) (pre post : List Bytes) (ip p : Bytes)
    (hrel : pathIsRelative p = true) (hne : fs.exists p = false)
    (hpre : ∀ q ∈ pre, fs.exists (pathJoin q p) = false) (hip : fs.exists (pathJoin ip p) = true) :
    resolveIncludePath fs (pre ++ ip :: post) p = pathJoin ip p := by
  unfold resolveIncludePath
  simp only [hrel, hne, Bool.not_false, Bool.and_self, if_true]
  have : (pre ++ ip :: post).find? (fun q => fs.exists (pathJoin q p)) = some ip := by
    rw [List.find?_append]
    have h1 : pre.find? (fun q => fs.exists (pathJoin q p)) = none := by
      rw [List.find?_eq_none]; intro q hq; simp [hpre q hq]
    simp [h1, hip]
  rw [this]

/-- a name found nowhere stays as given (and then yields `Include{File{path}}` when opened) -/
theorem C10_path_not_found (fs : Fs) (incs : List Bytes) (p : Bytes)
    (hne : fs.exists p = false) (hall : ∀ q ∈ incs, fs.exists (pathJoin q p) = false) :
    resolveIncludePath fs incs p = p := by
  unfold resolveIncludePath
  by_cases hrel : pathIsRelative p = true
  · have : incs.find? (fun q => fs.exists (pathJoin q p)) = none := by
      rw [List.find?_eq_none]; intro q hq; simp [hall q hq]
    simp [hrel, hne, this]
  · simp [hrel]

/-- a missing file is `File path`, a file that is not UTF-8 is `ReadUtf8 path` — naming the path tried -/
theorem C10_open_errors (C : Cfg) (fuel : Nat) (path : Bytes) (d : Defines) (sc ii : Bool) (rd id : Nat) :
    (C.fs.find path = none → preprocessInner C (fuel + 1) path d sc ii rd id = .error (.file path)) ∧
    (C.fs.find path = some none → preprocessInner C (fuel + 1) path d sc ii rd id = .error (.readUtf8 path)) := by
  constructor <;> intro h <;> simp [preprocessInner, h]

/-! ## C11: the define table behaves as a map -/

theorem C11_get_insert_same (d : Defines) (k : Bytes) (v : Option Define) : (d.insert k v).get? k = some v := by
  simp [Defines.insert, Defines.get?]

theorem find_filter_ne (d : Defines) (k k' : Bytes) (h : k' ≠ k) :
    (d.filter (fun x => x.1 != k)).find? (fun x => x.1 == k') = d.find? (fun x => x.1 == k') := by
  induction d with
  | nil => rfl
  | cons x xs ih =>
    by_cases hx : x.1 = k
    · have h1 : (x.1 != k) = false := by simp [hx]
      have h2 : (x.1 == k') = false := by
        rw [hx]; simp [Ne.symm h]
      rw [List.filter_cons, h1, List.find?_cons, h2]
      simpa using ih
    · have h1 : (x.1 != k) = true := by simp [hx]
      rw [List.filter_cons, h1]
      simp only [if_true, List.find?_cons]
      cases hx2 : (x.1 == k') with
      | true => rfl
      | false => exact ih

theorem C11_get_insert_other (d : Defines) (k k' : Bytes) (v : Option Define) (h : k' ≠ k) :
    (d.insert k v).get? k' = d.get? k' := by
  unfold Defines.insert Defines.get?
  have hne : (k == k') = false := by simp [Ne.symm h]
  rw [List.find?_cons]
  simp only [hne]
  rw [find_filter_ne d k k' h]

theorem C11_get_remove_same (d : Defines) (k : Bytes) : (d.remove k).get? k = none := by
  unfold Defines.remove Defines.get?
  have : (d.filter (fun x => x.1 != k)).find? (fun x => x.1 == k) = none := by
    rw [List.find?_eq_none]; intro x hx; simp at hx; simp [hx.2]
  rw [this]

/-- `undefineall`: nothing is defined afterwards (until redefined) -/
theorem C11_undefineall (k : Bytes) : Defines.get? ([] : Defines) k = none := rfl

/-! ## C09: the two recursion guards -/

/-- entering a file or an expansion with `include_depth > 64` is `ExceedRecursiveLimit` -/
theorem C09_exceed_include (C : Cfg) (fuel : Nat) (s path : Bytes) (d : Defines) (ii sc : Bool) (rd id : Nat)
    (h : id > recursiveLimit) : preprocessStr C (fuel + 1) s path d ii sc rd id = .error .exceedRecursiveLimit := by
  simp [preprocessStr, h]

/-- resolving a usage at `resolve_depth > 64` is `ExceedRecursiveLimit` -/
theorem C09_exceed_resolve (C : Cfg) (fuel : Nat) (inp : Input) (s path : Bytes) (x : Tree) (d : Defines) (ii sc : Bool)
    (rd id : Nat) (h : rd > recursiveLimit) :
    resolveUsage C (fuel + 1) inp s path x d ii sc rd id = .error .exceedRecursiveLimit := by
  simp [resolveUsage, h]

theorem C09_limit_is_64 : recursiveLimit = 64 := rfl

/-! ## C18: what the Comment arm emits -/

/-- with strip_comments a comment is replaced by exactly one separator byte (a newline for a line comment that ends in
    one, else a blank); without it the comment is copied -/
theorem C18_comment_emit (text : Bytes) :
    (commentEmit true text = [10] ∨ commentEmit true text = [32]) ∧ commentEmit false text = text := by
  unfold commentEmit
  constructor
  · by_cases h : text.getLast? = some 10 <;> simp [h]
  · simp


/-! ## C10 on the walker model: ignore_include and IncludeLine -/
section
open Sv.Gen


/-- **with ignore_include an `include directive has no effect and reads no file**: on entering an `IncludeCompilerDirective` node the
    walker state is returned unchanged and neither recursive callee is consulted (the result does not depend on them) — every node
    of that kind, every state, every file system -/
theorem C10_ignore_include_inert (fs : Fs) (incs : List Bytes) (recI recI') (recU recU') (inp : Input) (s path : Bytes) (sc : Bool) (rd id : Nat)
    (w : WState) (k : Nat) (ks : List Tree) (hk : k % 2048 = ppKinds.includeDirective) :
    enterStep ⟨ppKinds, grammar, fs, incs⟩ recI recU inp s path true sc rd id w (.node k ks) = .ok w ∧
    enterStep ⟨ppKinds, grammar, fs, incs⟩ recI' recU' inp s path true sc rd id w (.node k ks) = .ok w := by
  have hb : (Tree.node k ks).baseKind = 190 := by simpa [Tree.baseKind, Tree.kind, ppKinds] using hk
  have hkind : (Tree.node k ks).kind = k := rfl
  have h1 : k ≠ 4310 := by intro h; subst h; simp [ppKinds] at hk
  have h2 : k ≠ 10454 := by intro h; subst h; simp [ppKinds] at hk
  constructor <;> simp [enterStep, hb, hkind, ppKinds, h1, h2]

/-- **IncludeLine**: an `include that stands on the line on which the previous item ended is rejected -/
theorem C10_include_line (C : Cfg) (recI) (recU) (inp : Input) (s path : Bytes) (ii sc : Bool) (rd id : Nat) (w : WState) (x : Tree)
    (o l line : Nat) (hl : locOf x = some (o, l, line)) (h : w.lastItemLine = some line) :
    armInclude C recI recU inp s path ii sc rd id w x = .error .includeLine := by
  unfold armInclude
  simp [hl, WState.skipPush, h]
  split <;> simp [h]

end


/-! ## C11 on the walker model: what `define / `undef / `undefineall do to the table -/


theorem pushLoc_defines (inp : Input) (path : Bytes) (w : WState) (x : Tree) : (pushLoc inp path w x).defines = w.defines := by
  unfold pushLoc; split <;> rfl

/-- `` `undefineall `` empties the table (only the SV_COV seeds are re-installed by the next file / expansion) -/
theorem C11_undefineall_arm (C : Cfg) (recI) (recU) (inp : Input) (s path : Bytes) (ii sc : Bool) (rd id : Nat) (w w' : WState) (x : Tree)
    (h : armUndefAll C recI recU inp s path ii sc rd id w x = .ok w') : w'.defines = [] := by
  unfold armUndefAll at h; injection h with h; subst h; simp [pushLoc_defines]

/-- `` `undef N `` removes exactly `N`: afterwards `N` is undefined and every other name is as before -/
theorem C11_undef_arm (C : Cfg) (recI) (recU) (inp : Input) (s path : Bytes) (ii sc : Bool) (rd id : Nat) (w w' : WState) (x : Tree)
    (h : armUndef C recI recU inp s path ii sc rd id w x = .ok w') :
    w'.defines = w.defines.remove (undefName C.K inp x) ∧ w'.defines.get? (undefName C.K inp x) = none := by
  unfold armUndef at h; injection h with h; subst h
  refine ⟨by simp only [pushLoc_defines], ?_⟩
  simp only [pushLoc_defines]
  exact C11_get_remove_same _ _

/-- `` `define N … `` of a name that is not predefined makes `N` defined, with `N` as its recorded identifier; of a predefined
    name (`__LINE__`, `__FILE__`) it changes nothing -/
theorem C11_define_arm (C : Cfg) (recI) (recU) (inp : Input) (s path : Bytes) (ii sc : Bool) (rd id : Nat) (w w' : WState) (x : Tree)
    (sym kw proto : Tree) (rest : List Tree) (hk : x.kids = sym :: kw :: proto :: rest)
    (h : armDefine C recI recU inp s path ii sc rd id w x = .ok w') :
    (isPredefined (defineName C.K inp proto) = false →
        ∃ df, w'.defines.get? (defineName C.K inp proto) = some (some df) ∧ df.ident = defineName C.K inp proto) ∧
    (isPredefined (defineName C.K inp proto) = true → w'.defines = w.defines) := by
  unfold armDefine at h
  simp only [hk] at h
  injection h with h; subst h
  refine ⟨?_, ?_⟩
  · intro hp
    simp only [hp, Bool.not_false, if_true, pushLoc_defines]
    exact ⟨_, C11_get_insert_same _ _ _, rfl⟩
  · intro hp
    simp only [hp, Bool.not_true, Bool.false_eq_true, if_false, pushLoc_defines]
    unfold WState.skipPush; split <;> rfl


/-- **`include splices the file with defines flowing in and out**: whenever the include arm succeeds, the recursive call was made with the
    define table in force at the directive and with include_depth + 1, its output is appended (`merge`) at this point, and the table it
    returns replaces the current one -/
theorem C10_include_splices (C : Cfg) (recI) (recU) (inp : Input) (s path : Bytes) (ii sc : Bool) (rd id : Nat) (w w' : WState) (x : Tree)
    (h : armInclude C recI recU inp s path ii sc rd id w x = .ok w') :
    (w'.out = w.out ∧ w'.defines = w.defines) ∨
    ∃ p inc nd, recI p w.defines sc false rd (id + 1) = .ok (inc, nd) ∧ w'.out = w.out.merge inc ∧ w'.defines = nd := by
  unfold armInclude at h
  dsimp only at h
  repeat' split at h
  all_goals first
    | (cases h; done)
    | skip
  all_goals (injection h with h; subst h)
  all_goals first
    | (left; constructor <;> simp [skipPush_out, skipPushAll_out, skipPush_defines, skipPushAll_defines] <;> done)
    | (right
       rename_i heq
       have e1 : ∀ (a : WState) (ts : List Tree), (skipPushAll a ts).defines = a.defines := skipPushAll_defines
       have e2 : ∀ (a : WState) (t : Tree), (a.skipPush t).defines = a.defines := skipPush_defines
       rw [e1] at heq
       dsimp only at heq
       rw [e2] at heq
       exact ⟨_, _, _, heq, by simp only [skipPush_out, skipPushAll_out], rfl⟩)


/-! ### C11: nothing else touches the table -/

theorem pushLoc_defines' (inp : Input) (path : Bytes) (w : WState) (x : Tree) : (pushLoc inp path w x).defines = w.defines := by
  unfold pushLoc; split <;> rfl

/-- **frame**: on entering a node whose kind is none of `undef, `undefineall, `define, `include, macro usage, the define table is unchanged —
    text, strings, kept directives, conditionals (which only grow the skip list), white space, comments, `__FILE__ / `__LINE__ never touch it.
    Together with `C11_define_arm`, `C11_undef_arm`, `C11_undefineall_arm`, `C10_include_splices` and `C05_usage_arm` this lists every way the
    table can change during a run. -/
theorem C11_table_frame (C : Cfg) (recI) (recU) (inp : Input) (s path : Bytes) (ii sc : Bool) (rd id : Nat) (w w' : WState) (x : Tree)
    (h1 : (x.baseKind == C.K.undefine) = false) (h2 : (x.baseKind == C.K.undefineall) = false)
    (h3 : (x.baseKind == C.K.textMacroDefinition) = false) (h4 : (x.baseKind == C.K.includeDirective) = false)
    (h5 : (x.baseKind == C.K.textMacroUsage) = false)
    (h : enterStep C recI recU inp s path ii sc rd id w x = .ok w') : w'.defines = w.defines := by
  unfold enterStep at h
  dsimp only at h
  simp only [h1, h2, h3, h4, h5, Bool.false_and, Bool.false_eq_true, if_false] at h
  unfold armNotDirective armStrLike armKept armCond armWhiteSpace armComment armPosition at h
  dsimp only at h
  repeat' split at h
  all_goals first
    | (cases h; done)
    | (injection h with h; subst h
       first
         | rfl
         | exact pushLoc_defines' _ _ _ _
         | (simp only [skipPushAll_defines, skipPush_defines, pushLoc_defines']; done)
         | (dsimp only; simp only [skipPushAll_defines, skipPush_defines, pushLoc_defines']))

/-- **frame for the whole skipped region**: while the walker is skipping (inside a dead branch, a `define, an `include or a usage), events whose
    node is not on the skip list leave the whole state — table included — untouched (`walk_skipping`); so only active regions contribute -/
theorem C11_skipped_events_inert (C : Cfg) (inp : Input) (s path : Bytes) (ii sc : Bool) (rd id : Nat) (evs es : List Event) (fuel : Nat) (w : WState)
    (hs : w.skip = true) (hn : ∀ e ∈ es, w.skipNodes.contains (evNode e) = false) :
    walk C (fuel + es.length) inp s path ii sc rd id (es ++ evs) w = walk C fuel inp s path ii sc rd id evs w :=
  walk_skipping C inp s path ii sc rd id evs es fuel w hs hn


/-- **with `ignore_include` no file is ever consulted — whole runs, through macro expansion.** Two configurations that differ only in the file
    system and the include path list give the same result (text, origins, define table or error) for every `preprocess_str` run with
    `ignore_include = true`: every input, path, table, `strip_comments` value, depth counters and fuel. An `include that comes out of a macro
    expansion is covered: the flag is handed on to the re-scan of the expansion (repair D7). -/
theorem C10_ignore_include_never_reads_files (K : PpKinds) (g : Grammar) (fs fs' : Fs) (incs incs' : List Bytes) (fuel : Nat)
    (s path : Bytes) (d : Defines) (sc : Bool) (rd id : Nat) :
    preprocessStr ⟨K, g, fs, incs⟩ fuel s path d true sc rd id = preprocessStr ⟨K, g, fs', incs'⟩ fuel s path d true sc rd id :=
  (walk_ignore_include K g fs fs' incs incs' fuel).1 s path d sc rd id

/-- in particular the result is the one obtained with an empty file system: no `Include{File}` can arise from a missing file -/
theorem C10_ignore_include_as_if_no_files (K : PpKinds) (g : Grammar) (fs : Fs) (incs : List Bytes) (fuel : Nat)
    (s path : Bytes) (d : Defines) (sc : Bool) (rd id : Nat) :
    preprocessStr ⟨K, g, fs, incs⟩ fuel s path d true sc rd id = preprocessStr ⟨K, g, [], []⟩ fuel s path d true sc rd id :=
  C10_ignore_include_never_reads_files K g fs [] incs [] fuel s path d sc rd id


/-- **the returned define table is a map**: its keys are pairwise different for every successful run — every input, flags, fuel and every
    caller table, even one that lists a name twice (the seeding inserts resolve duplicates the way `HashMap::insert` does). So modelling
    `HashMap<String, Option<Define>>` as an association list loses nothing: `get?` finds THE entry of a name (`C11_get_insert_same/other`). -/
theorem C11_table_is_a_map (C : Cfg) (fuel : Nat) (s path : Bytes) (d : Defines) (ii sc : Bool) (rd id : Nat) (o : POut) (d' : Defines)
    (h : preprocessStr C fuel s path d ii sc rd id = .ok (o, d')) : (d'.map (·.1)).Nodup :=
  (walk_keys C fuel).1 s path d ii sc rd id o d' h

end Sv

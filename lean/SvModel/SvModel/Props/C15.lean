import SvModel.Props.C01
import SvModel.Lemmas.PegFuel
import SvModel.Gen.Entry
import SvModel.Lemmas.Incomplete
import SvModel.Gen.Marks
import SvModel.Gen.M00
import SvModel.Gen.M01
import SvModel.Gen.M02
import SvModel.Gen.M03
import SvModel.Gen.M04
import SvModel.Gen.M05
import SvModel.Gen.M06
import SvModel.Gen.M07
import SvModel.Gen.M08
import SvModel.Gen.M09
import SvModel.Gen.M10
import SvModel.Gen.M11
import SvModel.Gen.M12
import SvModel.Gen.M13
import SvModel.Gen.M14
import SvModel.Gen.M15
/-!
# C15 — incomplete mode never fails and agrees with strict mode

Model: `Core/Peg.lean` + the grammar regenerated from /repo. Generated obligations: the productivity
marks (`Gen/Marks.lean`, checked in sixteen `Gen/Mnn.lean` shards), the shapes of the two entry pairs
(`svPre/svItem/svRes`, `libPre/libItem/libRes`).
-/
namespace Sv
open Sv.Gen

theorem prodMarks_all : prodMarks.all markPred = true := by
  unfold prodMarks
  simp only [List.all_append, marksOK00, marksOK01, marksOK02, marksOK03, marksOK04, marksOK05, marksOK06,
    marksOK07, marksOK08, marksOK09, marksOK10, marksOK11, marksOK12, marksOK13, marksOK14, marksOK15, Bool.and_self]

/-- every marked production of the generated grammar is productive by the syntactic check -/
theorem marks_ok : MarksOK grammar prodMarks := by
  intro f hf
  have := List.all_eq_true.mp prodMarks_all f (by simpa using hf)
  exact this

/-- **T-productive at the generated grammar**: a marked production (1239 of 1297 today, among them
    `white_space`, `description`, `library_description`, `source_description`) consumes at least one byte
    whenever it succeeds — from any thread state reachable after `init()`. -/
theorem C15_productive (f : Nat) (hf : prodMarks.contains f = true) (inp : Input) (fuel pos : Nat) (rc : Rec)
    (st st' : PState) (hi : InvP prodMarks st) (q : Nat) (r : Rec) (ts : List Tree)
    (h : eval grammar inp fuel (.call f) pos rc st = (.ok q r ts, st')) : pos < q := by
  have := (pAll grammar inp prodMarks marks_ok fuel).eval (.call f) pos rc st hi
  rw [h] at this
  exact this.2.2 (by simpa [PR] using hf)

theorem incomplete_entries :
    NoErr prodMarks (grammar.prod idx_source_text_incomplete).body = true ∧
    NoErr prodMarks (grammar.prod idx_library_text_incomplete).body = true ∧
    (grammar.prod idx_source_text_incomplete).recursive = false ∧
    (grammar.prod idx_library_text_incomplete).recursive = false := by
  decide +kernel

/-- **Incomplete mode never reports `Error::Parse`**: `source_text_incomplete` / `library_text_incomplete`
    never return an error, for every input and every prior thread state (the outcome is a tree, or — in the
    model only — out of fuel). -/
theorem C15_incomplete_never_fails (f : Nat) (hf : f = idx_source_text_incomplete ∨ f = idx_library_text_incomplete)
    (inp : Input) (fuel : Nat) (st : PState) : NotErr (parseWith grammar inp f st fuel).1 := by
  have hs : NoErr prodMarks (grammar.prod f).body = true ∧ (grammar.prod f).recursive = false := by
    rcases hf with rfl | rfl
    · exact ⟨incomplete_entries.1, incomplete_entries.2.2.1⟩
    · exact ⟨incomplete_entries.2.1, incomplete_entries.2.2.2⟩
  unfold parseWith
  cases fuel with
  | zero => simp [eval, NotErr]
  | succ n =>
    simp only [eval]
    cases n with
    | zero => simp [evalCall, NotErr]
    | succ m =>
      rw [evalCall_fresh grammar inp m f 0 {} st.init (find_clear st.memo _) hs.2]
      exact (neAll grammar inp prodMarks marks_ok m).eval _ 0 {} st.init (invP_init _ st) hs.1

/-- the tree of incomplete mode losslessly covers a prefix of the text (instance of C01) -/
theorem C15_incomplete_prefix (f : Nat) (inp : Input) (fuel : Nat) (st st' : PState) (q : Nat) (r : Rec)
    (ts : List Tree) (h : parseWith grammar inp f st fuel = (.ok q r ts, st')) :
    TilesF inp 0 ts q ∧ q ≤ inp.size :=
  ⟨C01_tiling f inp fuel st st' q r ts h, C01_prefix f inp fuel st st' q r ts h⟩

/-! ### strict ⇒ incomplete -/

set_option maxRecDepth 100000 in
/-- the two entry pairs have the shapes `shaped (pre ++ [many_till(item, eof)]) res` / `shaped (pre ++ [many0 item]) res` -/
theorem entry_shapes :
    (grammar.prod idx_source_text).body = .shaped (svPre ++ [.manyTill svItem (.drop .eof)]) svRes ∧
    (grammar.prod idx_source_text_incomplete).body = .shaped (svPre ++ [.many0 svItem]) svRes ∧
    (grammar.prod idx_library_text).body = .shaped (libPre ++ [.manyTill libItem (.drop .eof)]) libRes ∧
    (grammar.prod idx_library_text_incomplete).body = .shaped (libPre ++ [.many0 libItem]) libRes :=
  ⟨rfl, rfl, rfl, rfl⟩

theorem entry_side :
    svPre.all (fun e => WF e || Still e) = true ∧ libPre.all (fun e => WF e || Still e) = true ∧
    PR prodMarks svItem = true ∧ WF svItem = true ∧ PR prodMarks libItem = true ∧ WF libItem = true ∧
    (grammar.prod idx_source_text).recursive = false ∧ (grammar.prod idx_library_text).recursive = false := by
  decide +kernel

/-- statement lists that differ only in the last statement (`many_till(item, eof)` vs `many0(item)`) -/
theorem stmts_strict_incomplete (item : PExpr) (hpr : PR prodMarks item = true) (hwf : WF item = true)
    (inp : Input) :
    ∀ (pre : List PExpr), pre.all (fun e => WF e || Still e) = true →
    ∀ n pos r st q r' x st' env, InvP prodMarks st → Inv inp st → pos ≤ inp.size →
      evalStmts grammar inp n (pre ++ [.manyTill item (.drop .eof)]) pos r st = ((.ok q r' x, st'), env) →
      (evalStmts grammar inp n (pre ++ [.many0 item]) pos r st).1.1 = .oof ∨
      ((evalStmts grammar inp n (pre ++ [.many0 item]) pos r st).1.1 = .ok q r' x ∧
       (evalStmts grammar inp n (pre ++ [.many0 item]) pos r st).2 = env) := by
  intro pre
  induction pre with
  | nil =>
    intro _ n pos r st q r' x st' env hip hi hle h
    simp only [List.nil_append] at h ⊢
    cases n with
    | zero => simp [evalStmts] at h
    | succ m =>
      simp only [evalStmts] at h ⊢
      cases m with
      | zero => simp [eval] at h
      | succ k =>
        simp only [eval] at h ⊢
        split at h
        · rename_i q1 r1 ts1 st1 heq
          have h4 := manyTill_eof_many0 grammar inp prodMarks marks_ok grammar_wf item hpr hwf k pos r st q1 r1 ts1 st1
            hip hi hle heq
          simp only [evalStmts] at h
          simp at h
          obtain ⟨⟨⟨hq, hr, hx⟩, hst⟩, henv⟩ := h
          subst hq hr hx hst henv
          rcases h4 with h4 | h4
          · right
            revert h4
            cases evalMany0 grammar inp k item pos r st with
            | mk o s => intro h4; simp at h4; subst h4; simp [evalStmts]
          · left
            revert h4
            cases evalMany0 grammar inp k item pos r st with
            | mk o s => intro h4; simp at h4; subst h4; rfl
        · simp at h
        · simp at h
  | cons a pre ih =>
    intro hall n pos r st q r' x st' env hip hi hle h
    simp only [List.all_cons, Bool.and_eq_true] at hall
    simp only [List.cons_append] at h ⊢
    cases n with
    | zero => simp [evalStmts] at h
    | succ m =>
      simp only [evalStmts] at h ⊢
      have hP := (pAll grammar inp prodMarks marks_ok m).eval a pos r st hip
      have hT := (allSpec grammar inp grammar_wf m).eval a pos r st hi
      split at h
      · rename_i q1 r1 ts1 st1 heq
        rw [heq] at hP hT
        have hle1 : q1 ≤ inp.size := by
          rcases Bool.or_eq_true _ _ |>.mp hall.1 with hw | hs
          · exact Chain.end_le' (hT.2.1 hw) hle
          · have : q1 = pos := hT.2.2 hs
            omega
        cases hrest : evalStmts grammar inp m (pre ++ [.manyTill item (.drop .eof)]) q1 r1 st1 with
        | mk res env1 =>
          rw [hrest] at h
          simp at h
          obtain ⟨hres, henv⟩ := h
          subst henv
          cases res with
          | mk o s =>
            simp at hres
            obtain ⟨ho, hs⟩ := hres
            subst ho hs
            rcases ih hall.2 m q1 r1 st1 q r' x s env1 hP.1 hT.1 hle1 hrest with h5 | h5
            · left
              revert h5
              cases evalStmts grammar inp m (pre ++ [.many0 item]) q1 r1 st1 with
              | mk res2 env2 => intro h5; simpa using h5
            · right
              revert h5
              cases evalStmts grammar inp m (pre ++ [.many0 item]) q1 r1 st1 with
              | mk res2 env2 => intro h5; simp at h5 ⊢; exact ⟨h5.1, by rw [h5.2]⟩
      · simp at h
      · simp at h

/-- **Whenever strict mode accepts, incomplete mode returns the equal tree** (same end position and same
    forest) — or, in the model only, runs out of fuel: with the same fuel it needs one more failing call of
    the item parser at the end of the input. For both grammars, all inputs, all prior thread states. -/
theorem C15_strict_implies_equal (fs fi : Nat)
    (hf : (fs = idx_source_text ∧ fi = idx_source_text_incomplete) ∨
          (fs = idx_library_text ∧ fi = idx_library_text_incomplete))
    (inp : Input) (fuel : Nat) (st st1 : PState) (q : Nat) (r : Rec) (ts : List Tree)
    (h : parseWith grammar inp fs st fuel = (.ok q r ts, st1)) :
    (parseWith grammar inp fi st fuel).1 = .ok q r ts ∨ (parseWith grammar inp fi st fuel).1 = .oof := by
  -- common data of the two cases
  obtain ⟨pre, item, res, hbs, hbi, hpre, hpr, hwf, hrs, hri⟩ :
      ∃ pre item res, (grammar.prod fs).body = .shaped (pre ++ [.manyTill item (.drop .eof)]) res ∧
        (grammar.prod fi).body = .shaped (pre ++ [.many0 item]) res ∧
        pre.all (fun e => WF e || Still e) = true ∧ PR prodMarks item = true ∧ WF item = true ∧
        (grammar.prod fs).recursive = false ∧ (grammar.prod fi).recursive = false := by
    rcases hf with ⟨rfl, rfl⟩ | ⟨rfl, rfl⟩
    · exact ⟨svPre, svItem, svRes, entry_shapes.1, entry_shapes.2.1, entry_side.1, entry_side.2.2.1,
        entry_side.2.2.2.1, entry_side.2.2.2.2.2.2.1, incomplete_entries.2.2.1⟩
    · exact ⟨libPre, libItem, libRes, entry_shapes.2.2.1, entry_shapes.2.2.2, entry_side.2.1,
        entry_side.2.2.2.2.1, entry_side.2.2.2.2.2.1, entry_side.2.2.2.2.2.2.2, incomplete_entries.2.2.2⟩
  unfold parseWith at h ⊢
  cases fuel with
  | zero => simp [eval] at h
  | succ n =>
    simp only [eval] at h ⊢
    cases n with
    | zero => simp [evalCall] at h
    | succ m =>
      have hs := evalCall_fresh grammar inp m fs 0 {} st.init (find_clear st.memo _) hrs
      have hi' := evalCall_fresh grammar inp m fi 0 {} st.init (find_clear st.memo _) hri
      rw [h] at hs
      rw [hi']
      rw [hbs] at hs
      rw [hbi]
      cases m with
      | zero => simp [eval] at hs
      | succ k =>
        simp only [eval] at hs ⊢
        cases hrest : evalStmts grammar inp k (pre ++ [.manyTill item (.drop .eof)]) 0 {} st.init with
        | mk res1 env1 =>
          rw [hrest] at hs
          cases res1 with
          | mk o s =>
            cases o with
            | ok q1 r1 x1 =>
              have h5 := stmts_strict_incomplete item hpr hwf inp pre hpre k 0 {} st.init q1 r1 x1 s env1
                (invP_init _ st) (inv_init inp st) (Nat.zero_le _) hrest
              simp at hs
              obtain ⟨hq, hr, hts⟩ := hs
              subst hq hr hts
              rcases h5 with h5 | h5
              · right
                revert h5
                cases evalStmts grammar inp k (pre ++ [.many0 item]) 0 {} st.init with
                | mk res2 env2 =>
                  cases res2 with
                  | mk o2 s2 => intro h5; simp at h5; subst h5; rfl
              · left
                revert h5
                cases evalStmts grammar inp k (pre ++ [.many0 item]) 0 {} st.init with
                | mk res2 env2 =>
                  cases res2 with
                  | mk o2 s2 => intro h5; simp at h5; obtain ⟨rfl, rfl⟩ := h5; rfl
            | err ep => simp at hs
            | oof => simp at hs


/-- the theorems above are about `parseWith`, which starts from `init()`: every one of the five parser entries of the source — the two
    incomplete ones included — is `init(); PROD(s)` with `init()` clearing all three thread-local cells (regenerated from
    `sv-parser-parser/src/lib.rs`) -/
theorem C15_entries_start_from_init :
    Gen.Entry.parserEntriesAll = true ∧
    Gen.Entry.initCalls = ["nom_packrat::init!", "clear_directive", "clear_version"] ∧
    (Gen.Entry.parserEntries.lookup "sv_parser_incomplete") = some "source_text_incomplete" ∧
    (Gen.Entry.parserEntries.lookup "lib_parser_incomplete") = some "library_text_incomplete" := by
  decide


/-- **the outcome of a parse does not depend on the fuel of the model** (regenerated grammar, every start production, input, prior thread
    state): a definite outcome with fuel `n` is the outcome — tree, end position, error position, thread state left behind — for every `m ≥ n` -/
theorem C15_parse_fuel_independent (inp : Input) (start : Nat) (st : PState) (n m : Nat) (hnm : n ≤ m)
    (h : NotOof (parseWith grammar inp start st n)) : parseWith grammar inp start st m = parseWith grammar inp start st n := by
  unfold parseWith at h ⊢
  exact eval_fuel_mono grammar inp n m hnm _ 0 {} st.init h

/-- **strict accepts ⇒ incomplete returns the equal tree, without the fuel caveat**: if strict mode accepts with some fuel `n`, then for every
    fuel `m ≥ n` with which the incomplete entry returns anything but the model-only "out of fuel", it returns the same end position and forest -/
theorem C15_strict_implies_equal_any_fuel (fs fi : Nat)
    (hf : (fs = idx_source_text ∧ fi = idx_source_text_incomplete) ∨
          (fs = idx_library_text ∧ fi = idx_library_text_incomplete))
    (inp : Input) (n m : Nat) (hnm : n ≤ m) (st st1 : PState) (q : Nat) (r : Rec) (ts : List Tree)
    (h : parseWith grammar inp fs st n = (.ok q r ts, st1))
    (hd : NotOof (parseWith grammar inp fi st m)) :
    (parseWith grammar inp fi st m).1 = .ok q r ts := by
  have hs : parseWith grammar inp fs st m = (.ok q r ts, st1) := by
    rw [C15_parse_fuel_independent inp fs st n m hnm (by rw [h]; simp), h]
  rcases C15_strict_implies_equal fs fi hf inp m st st1 q r ts hs with h1 | h1
  · exact h1
  · exact absurd h1 hd

end Sv

import SvModel.Lemmas.FuelMono
import SvModel.Lemmas.DepthStep
import SvModel.Gen.Grammar
import SvModel.Gen.PpKinds
/-!
# C09 — recursion is bounded; the fuel of the model is only a termination device

The Rust code has no fuel: it simply runs. The walker model takes a fuel argument to be a total function. `C09_fuel_independent` shows that the
argument never influences a result: whatever a run returns that is not the model-only "out of fuel" error — a text, `ExceedRecursiveLimit`
(wrapped once per `include level), any other error — is returned for every larger fuel as well. Hence "a cycle ends in ExceedRecursiveLimit"
established for one fuel value is a statement about the unbounded computation, and every other walker theorem (C03–C06, C10, C11, C18) speaks
about the same results.
-/
namespace Sv
open Sv.Gen

/-- **fuel independence** (every configuration, input, table, flags, depth counters): a definite result with fuel `n` is the result with every
    fuel `m ≥ n` -/
theorem C09_fuel_independent (C : Cfg) (n m : Nat) (h : n ≤ m) (s path : Bytes) (d : Defines) (ii sc : Bool) (rd id : Nat)
    (hd : Definite (preprocessStr C n s path d ii sc rd id)) :
    preprocessStr C m s path d ii sc rd id = preprocessStr C n s path d ii sc rd id :=
  walk_fuel_mono C n m h s path d ii sc rd id hd

/-- in particular: once a run ends in `ExceedRecursiveLimit` under `k` `Include` wrappers, it does so for every larger fuel -/
def wrapInclude : Nat → PpError → PpError
  | 0, e => e
  | k + 1, e => .include (wrapInclude k e)

theorem wrapInclude_definite (k : Nat) : (wrapInclude k .exceedRecursiveLimit).oofIn = false := by
  induction k with
  | zero => rfl
  | succ k ih => simpa [wrapInclude, PpError.oofIn] using ih

theorem C09_limit_error_is_final (fs : Fs) (incs : List Bytes) (n m k : Nat) (h : n ≤ m) (s path : Bytes) (d : Defines) (ii sc : Bool) (rd id : Nat)
    (he : preprocessStr ⟨ppKinds, grammar, fs, incs⟩ n s path d ii sc rd id = .error (wrapInclude k .exceedRecursiveLimit)) :
    preprocessStr ⟨ppKinds, grammar, fs, incs⟩ m s path d ii sc rd id = .error (wrapInclude k .exceedRecursiveLimit) := by
  rw [C09_fuel_independent _ n m h s path d ii sc rd id (by rw [he]; exact wrapInclude_definite k), he]

/-- the same for a successful run: the text and the table do not depend on the fuel -/
theorem C09_success_is_final (fs : Fs) (incs : List Bytes) (n m : Nat) (h : n ≤ m) (s path : Bytes) (d : Defines) (ii sc : Bool) (rd id : Nat)
    (o : POut) (t : Defines)
    (he : preprocessStr ⟨ppKinds, grammar, fs, incs⟩ n s path d ii sc rd id = .ok (o, t)) :
    preprocessStr ⟨ppKinds, grammar, fs, incs⟩ m s path d ii sc rd id = .ok (o, t) := by
  rw [C09_fuel_independent _ n m h s path d ii sc rd id (by rw [he]; trivial), he]

/-- non-vacuity: beyond the limit the result is definite already with fuel 1 -/
example (C : Cfg) (s path : Bytes) (d : Defines) (ii sc : Bool) (rd : Nat) :
    Definite (preprocessStr C 1 s path d ii sc rd 65) := by
  simp [preprocessStr, recursiveLimit, Definite, PpError.oofIn]


/-- **an `include level adds exactly one to the include depth and nothing to the resolve depth**: the `include arm consults `preprocess_inner`
    only at `(resolve_depth, include_depth + 1)` (and the macro resolver, for a macro-named file, only at `(resolve_depth + 1, include_depth)`):
    callees that agree at exactly those depths give the same result -/
theorem C09_include_adds_one_level (C : Cfg) (recI recI') (recU recU') (inp : Input) (s path : Bytes) (ii sc : Bool) (rd id : Nat) (w : WState) (x : Tree)
    (hI : ∀ p d sc ii, recI p d sc ii rd (id + 1) = recI' p d sc ii rd (id + 1))
    (hU : ∀ inp s path x d ii sc, recU inp s path x d ii sc (rd + 1) id = recU' inp s path x d ii sc (rd + 1) id) :
    armInclude C recI recU inp s path ii sc rd id w x = armInclude C recI' recU' inp s path ii sc rd id w x :=
  armInclude_depth C recI recI' recU recU' inp s path ii sc rd id w x hI hU

/-- **a macro expansion adds exactly one to the resolve depth and nothing to the include depth** -/
theorem C09_usage_adds_one_level (C : Cfg) (recI recI') (recU recU') (inp : Input) (s path : Bytes) (ii sc : Bool) (rd id : Nat) (w : WState) (x : Tree)
    (hU : ∀ inp s path x d ii sc, recU inp s path x d ii sc (rd + 1) id = recU' inp s path x d ii sc (rd + 1) id) :
    armUsage C recI recU inp s path ii sc rd id w x = armUsage C recI' recU' inp s path ii sc rd id w x :=
  armUsage_depth C recI recI' recU recU' inp s path ii sc rd id w x hU


/-- **reading an included file changes neither counter**: `preprocess_inner` hands both depths on to `preprocess_str` unchanged (the include level
    was already counted by the `include arm: `C09_include_adds_one_level`) -/
theorem C09_inner_keeps_both_depths (C : Cfg) (fuel : Nat) (path content : Bytes) (d : Defines) (sc ii : Bool) (rd id : Nat)
    (h : C.fs.find path = some (some content)) :
    preprocessInner C (fuel + 1) path d sc ii rd id = preprocessStr C fuel content path d ii sc rd id := by
  simp [preprocessInner, h]

end Sv

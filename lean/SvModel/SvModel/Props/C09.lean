import SvModel.Lemmas.FuelMono
import SvModel.Gen.Grammar
import SvModel.Gen.PpKinds
/-!
# C09 — recursion is bounded; the fuel of the model is only a termination device

The Rust code has no fuel: it simply runs. The walker model takes a fuel argument to be a total function. `C09_fuel_independent` shows that the
argument never influences a result: whatever a run returns that is not the model-only "out of fuel" error — a text, `ExceedRecursiveLimit`
(wrapped once per `include level), any other error — is returned for every larger fuel as well. Hence "a cycle ends in ExceedRecursiveLimit"
established for one fuel value is a statement about the unbounded computation, and every other walker theorem (C03–C06, C10, C11, C18) speaks
about the same results.
-/
namespace Sv
open Sv.Gen

/-- **fuel independence** (every configuration, input, table, flags, depth counters): a definite result with fuel `n` is the result with every
    fuel `m ≥ n` -/
theorem C09_fuel_independent (C : Cfg) (n m : Nat) (h : n ≤ m) (s path : Bytes) (d : Defines) (ii sc : Bool) (rd id : Nat)
    (hd : Definite (preprocessStr C n s path d ii sc rd id)) :
    preprocessStr C m s path d ii sc rd id = preprocessStr C n s path d ii sc rd id :=
  walk_fuel_mono C n m h s path d ii sc rd id hd

/-- in particular: once a run ends in `ExceedRecursiveLimit` under `k` `Include` wrappers, it does so for every larger fuel -/
def wrapInclude : Nat → PpError → PpError
  | 0, e => e
  | k + 1, e => .include (wrapInclude k e)

theorem wrapInclude_definite (k : Nat) : (wrapInclude k .exceedRecursiveLimit).oofIn = false := by
  induction k with
  | zero => rfl
  | succ k ih => simpa [wrapInclude, PpError.oofIn] using ih

theorem C09_limit_error_is_final (fs : Fs) (incs : List Bytes) (n m k : Nat) (h : n ≤ m) (s path : Bytes) (d : Defines) (ii sc : Bool) (rd id : Nat)
    (he : preprocessStr ⟨ppKinds, grammar, fs, incs⟩ n s path d ii sc rd id = .error (wrapInclude k .exceedRecursiveLimit)) :
    preprocessStr ⟨ppKinds, grammar, fs, incs⟩ m s path d ii sc rd id = .error (wrapInclude k .exceedRecursiveLimit) := by
  rw [C09_fuel_independent _ n m h s path d ii sc rd id (by rw [he]; exact wrapInclude_definite k), he]

/-- the same for a successful run: the text and the table do not depend on the fuel -/
theorem C09_success_is_final (fs : Fs) (incs : List Bytes) (n m : Nat) (h : n ≤ m) (s path : Bytes) (d : Defines) (ii sc : Bool) (rd id : Nat)
    (o : POut) (t : Defines)
    (he : preprocessStr ⟨ppKinds, grammar, fs, incs⟩ n s path d ii sc rd id = .ok (o, t)) :
    preprocessStr ⟨ppKinds, grammar, fs, incs⟩ m s path d ii sc rd id = .ok (o, t) := by
  rw [C09_fuel_independent _ n m h s path d ii sc rd id (by rw [he]; trivial), he]

/-- non-vacuity: beyond the limit the result is definite already with fuel 1 -/
example (C : Cfg) (s path : Bytes) (d : Defines) (ii sc : Bool) (rd : Nat) :
    Definite (preprocessStr C 1 s path d ii sc rd 65) := by
  simp [preprocessStr, recursiveLimit, Definite, PpError.oofIn]

end Sv

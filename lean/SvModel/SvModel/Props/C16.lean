import SvModel.Lemmas.Tree
/-!
# C16 — tree traversal is a faithful pre-order with balanced events

Model: `Core/Tree.lean` (hand transliteration of `Iter`, `EventIter`, `get_str`, `get_str_trim`,
`unwrap_node!`, the latter after the D12 repair). The tie to the code is (a) the generated conversion table `Gen/Conv.lean`
(children are appended in field order for every tuple size and wrapper — see `C16_conv_identity`
in `Props/C16Gen.lean`) and (b) the correspondence run of `svh c16` (model iteration vs
`into_iter()`, `.event()` on real trees).
All statements quantify over all trees / forests; no bound on size or depth.
-/
namespace Sv

/-- Iterating a forest (`Iter::new(roots)` run to exhaustion) yields exactly the pre-order listing:
    each node first, then all its descendants in source order. -/
theorem C16_iter_preorder (roots : List Tree) : iterAll roots = preL roots := by
  have := iterRun_pre (sizeL roots + 1) (iterNew roots) (by simp [iterNew])
  simpa [iterAll, iterNew] using this

/-- Iterating any single node yields that node first and then its descendants. -/
theorem C16_iter_node_first (t : Tree) : iterAll [t] = t :: preL t.kids := by
  rw [C16_iter_preorder]; simp [preL, pre_kids]

/-- The event view yields `Enter t`, the events of the children in order, `Leave t`. -/
theorem C16_events_spec (roots : List Tree) : evAll roots = eventsL roots := by
  have hm : evMeasure (evNew roots) < 2 * sizeL roots + 1 := by
    rw [evNew, iterNew, List.map_reverse, evMeasure_enters_rev]; omega
  have := evRun_denote (2 * sizeL roots + 1) (evNew roots) hm
  rw [evAll, this]
  rw [evNew, iterNew, List.map_reverse, evDenote_enters_rev]

/-- Events are properly nested (a Dyck word): each Leave closes the latest open Enter of the same node. -/
theorem C16_events_balanced (roots : List Tree) : Matched (evAll roots) [] := by
  rw [C16_events_spec]
  have := (matched_eventsL roots [] []).2 (by simp [Matched])
  simpa using this

/-- The Enter subsequence of the event view equals the plain iteration. -/
theorem C16_enter_eq_iter (roots : List Tree) :
    (evAll roots).filterMap Event.enterOf = iterAll roots := by
  rw [C16_events_spec, C16_iter_preorder, enters_eventsL]

/-- One Enter and one Leave per visited node: the numbers of both equal the number of nodes. -/
theorem C16_enter_leave_counts (roots : List Tree) :
    ((evAll roots).filterMap Event.enterOf).length = (preL roots).length := by
  rw [C16_enter_eq_iter, C16_iter_preorder]

/-- `unwrap_node!` / `unwrap_locate!` return the first node of the requested kinds in pre-order. -/
theorem C16_unwrap_first (roots : List Tree) (kinds : List Nat) :
    unwrapNode (iterAll roots) kinds = (preL roots).find? (fun t => kinds.contains t.kind) := by
  rw [C16_iter_preorder]; rfl

/-- `get_str` slices from the first leaf's offset to the last leaf's end. -/
theorem C16_get_str_range (roots : List Tree) :
    getStrRange (iterAll roots) = leafRange (leavesL roots) := by
  rw [C16_iter_preorder]
  unfold getStrRange
  rw [strAcc_preL roots (none, 0)]
  exact leafFold_range (leavesL roots)

/-- `get_str_trim` returns the range from the first to the last leaf that is not below a `WhiteSpace`
    node — for all trees, including `WhiteSpace` nested in `WhiteSpace` (a kept compiler directive in
    trailing trivia). This is the full statement; it holds for the code after the repair of defect D12
    (`fix:` commit d8fdb04: depth counter instead of a boolean). -/
theorem C16_get_str_trim (ws : Nat) (roots : List Tree) :
    getStrTrimRange ws (evAll roots) = leafRange (trimLeavesL ws roots) := by
  rw [C16_events_spec]
  unfold getStrTrimRange
  have h1 := trim_flatL ws roots {} rfl
  simp only [h1]
  have h2 := trimAcc_leafAcc (trimLeavesL ws roots) {}
  have h3 := leafFold_range (trimLeavesL ws roots)
  simp only [Prod.ext_iff] at h2
  rw [← h3]
  show (match (List.foldl trimAcc {} (trimLeavesL ws roots)).beg with
    | none => none
    | some b => some (b, (List.foldl trimAcc {} (trimLeavesL ws roots)).en)) = _
  rw [h2.1, h2.2]
  cases (List.foldl leafAcc (none, 0) (trimLeavesL ws roots)).fst <;> rfl

/-- regression witness for D12: token `a` (0..1) followed by a `WhiteSpace` (kind 7) holding a directive whose
    first token has its own trailing `WhiteSpace`; the directive's second token (5..6) is not counted. -/
theorem C16_trim_nested_witness :
    let t := Tree.node 1 [.leaf 0 1 1,
      .node 7 [.node 2 [.leaf 2 1 1, .node 7 [.leaf 3 1 1]], .leaf 5 1 1]]
    getStrTrimRange 7 (evAll [t]) = some (0, 1) := by
  decide

/-! Non-vacuity: the hypotheses are met by a non-trivial concrete tree. -/
example : iterAll [Tree.node 1 [.leaf 0 1 1, .node 2 [.leaf 1 2 1]]] =
    [.node 1 [.leaf 0 1 1, .node 2 [.leaf 1 2 1]], .leaf 0 1 1, .node 2 [.leaf 1 2 1], .leaf 1 2 1] := by
  rfl

end Sv

import SvModel.Props.GrammarWF
/-!
# C02 — Annex A sentences are accepted and classified (proved part: the lexical layer)

PARTIAL, stated as such. Proved for all inputs: a keyword is recognised only as a whole word (`kw_boundary`), the
identifier scanners return the maximal run of identifier bytes (`span_maximal`), every token is exactly one leaf, and
parsing is a function of the text (a text has at most one tree). NOT proved: that the 1297-production ordered-choice
grammar with memoisation and left-recursion flags accepts every sentence of the reference subset and chooses the
intended alternative — a completeness proof against a CFG, which needs a FIRST / alternative-failure argument per
`alt` and is out of reach here. That clause is decided by bounded enumeration of generated sentences with their
expected classification (oracle), and the executable model agrees with the parser on every one of them
(correspondence).
-/
namespace Sv
open Sv.Gen

/-- the recogniser inside `utils::keyword(w)`:
    `alt((all_consuming(tag(w)), terminated(tag(w), peek(none_of(AZ09_)))))` -/
def kwCore (w set : List Nat) : PExpr :=
  .alt [.allConsuming (.lexeme (.term (.tag w))), .seq [.lexeme (.term (.tag w)), .drop (.peek (.term (.noneOf set)))]]

/-- **keyword boundary**: when the keyword recogniser succeeds at `pos`, the bytes of `w` stand at `pos`, it ends right
    after them, and the next byte — if any — is not an identifier character: `module_x`, `end1`, `wirex` are not the
    keywords `module`, `end`, `wire`. All inputs, positions, words, states. -/
theorem C02_kw_boundary (g : Grammar) (inp : Input) (n : Nat) (w set : List Nat) (pos : Nat) (rc : Rec) (st st' : PState)
    (q : Nat) (r : Rec) (ts : List Tree)
    (h : eval g inp (n + 12) (kwCore w set) pos rc st = (.ok q r ts, st')) :
    matchTag inp pos w = true ∧ q = pos + w.length ∧
      (inp.size ≤ q ∨ ∃ b, byteAt inp q = some b ∧ set.contains b = false) := by
  unfold kwCore at h
  simp only [eval, evalAlt, evalSeq, matchTerm] at h
  by_cases hm : matchTag inp pos w = true
  · simp only [hm, if_true] at h
    by_cases he : pos + w.length ≥ inp.size
    · simp only [he, if_true] at h
      simp at h
      exact ⟨hm, h.1.1.symm, Or.inl (by omega)⟩
    · simp only [he, if_false] at h
      -- second alternative
      cases hb : byteAt inp (pos + w.length) with
      | none =>
        exfalso
        unfold byteAt at hb
        split at hb <;> simp at hb
        omega
      | some b =>
        simp only [hb] at h
        by_cases hs : b ∈ set
        · simp [hs, orErr] at h
        · by_cases hl : pos + w.length + utf8Len b ≤ inp.size
          · simp [hs, hl, orErr, mergeLeaves, leavesL, leaves] at h
            obtain ⟨⟨hq, _, _⟩, _⟩ := h
            exact ⟨hm, hq.symm, Or.inr ⟨b, by rw [← hq]; exact hb, by simpa using hs⟩⟩
          · simp [hs, hl, orErr] at h
  · simp only [hm] at h
    simp [orErr] at h

/-- the run taken by `is_a` / `digit1` … is maximal: the byte after it (if any) does not satisfy the predicate -/
theorem C02_span_maximal (inp : Input) (p : Nat → Bool) : ∀ (fuel pos : Nat), pos + fuel = inp.size →
    (pos + spanLen inp p fuel pos = inp.size ∨
     ∃ b, byteAt inp (pos + spanLen inp p fuel pos) = some b ∧ p b = false) := by
  intro fuel
  induction fuel with
  | zero => intro pos h; left; simp [spanLen]; omega
  | succ n ih =>
    intro pos h
    simp only [spanLen]
    cases hb : byteAt inp pos with
    | none =>
      exfalso; unfold byteAt at hb; split at hb <;> simp at hb; omega
    | some b =>
      by_cases hp : p b = true
      · simp only [hp, if_true]
        rcases ih (pos + 1) (by omega) with h1 | ⟨b', h1, h2⟩
        · left; omega
        · right; exact ⟨b', by rw [show pos + (1 + spanLen inp p n (pos + 1)) = pos + 1 + spanLen inp p n (pos + 1) by omega]; exact h1, h2⟩
      · simp only [hp]
        right; exact ⟨b, by simpa using hb, by simpa using hp⟩

/-- … and every byte inside the run satisfies it -/
theorem C02_span_all (inp : Input) (p : Nat → Bool) : ∀ (fuel pos k : Nat), k < spanLen inp p fuel pos →
    ∃ b, byteAt inp (pos + k) = some b ∧ p b = true := by
  intro fuel
  induction fuel with
  | zero => intro pos k h; simp [spanLen] at h
  | succ n ih =>
    intro pos k h
    simp only [spanLen] at h
    cases hb : byteAt inp pos with
    | none => simp [hb] at h
    | some b =>
      simp only [hb] at h
      by_cases hp : p b = true
      · simp only [hp, if_true] at h
        cases k with
        | zero => exact ⟨b, by simpa using hb, hp⟩
        | succ k =>
          obtain ⟨b', h1, h2⟩ := ih (pos + 1) k (by omega)
          exact ⟨b', by rw [show pos + (k + 1) = pos + 1 + k by omega]; exact h1, h2⟩
      · simp [hp] at h

/-- **every token is exactly one leaf**: whatever a lexer production assembled (`into_locate` of the concatenated
    fragments), the result is at most one leaf -/
theorem C02_token_one_leaf (ts : List Tree) : (mergeLeaves ts).length ≤ 1 := by
  unfold mergeLeaves
  split <;> simp

/-- **a text has at most one tree**: parsing is a function (same grammar, input, entry, fuel ⇒ same outcome) -/
theorem C02_peg_deterministic (inp : Input) (f : Nat) (st : PState) (fuel : Nat) (o₁ o₂ : Out × PState)
    (h₁ : parseWith grammar inp f st fuel = o₁) (h₂ : parseWith grammar inp f st fuel = o₂) : o₁ = o₂ := by
  rw [← h₁, ← h₂]

mutual
/-- does the expression contain the keyword recogniser of the word `w` with exactly the shape of `kwCore`? -/
def kwCoresOf : PExpr → List (List Nat × List Nat)
  | .alt [.allConsuming (.lexeme (.term (.tag w))), .seq [.lexeme (.term (.tag w')), .drop (.peek (.term (.noneOf set)))]] =>
      if w == w' then [(w, set)] else [([], [])]
  | .alt es => kwCoresOfL es
  | .seq es => kwCoresOfL es
  | .shaped stmts _ => kwCoresOfL stmts
  | .opt e => kwCoresOf e
  | .many0 e => kwCoresOf e
  | .node _ e => kwCoresOf e
  | _ => []
def kwCoresOfL : List PExpr → List (List Nat × List Nat)
  | [] => []
  | e :: es => kwCoresOf e ++ kwCoresOfL es
end

/-- generated obligation: every occurrence of the keyword recogniser in the 1297 regenerated productions has the shape
    of `kwCore` with one word (the same in both alternatives, non-empty) and the identifier-character set `AZ09_`;
    more than five hundred occurrences are reachable through alt / seq / statement lists -/
theorem C02_keyword_template_shape :
    (allProdsL.all (fun p => (kwCoresOf p.body).all (fun c => !c.1.isEmpty && c.2 == constAZ09_))) = true ∧
    500 < (allProdsL.map (fun p => (kwCoresOf p.body).length)).sum := by
  decide +kernel

end Sv

import SvModel.Core.Peg
import SvModel.Core.Origin
import SvModel.Core.Split
/-!
# M3 / M5 — the preprocessor walker (hand transliteration of `sv-parser-pp/src/preprocess.rs`)

`preprocessStr` = seed the define table, parse with the GENERATED preprocessor grammar under
`all_consuming`, fold `ppStep` over the Enter/Leave event stream of the tree (the three `match` blocks of
`preprocess_str`, arm by arm, same order, same guards, boolean `skip`, boolean `skip_whitespace`, skip list
compared by structural equality with the "has a Locate" filter, the two "last line" registers), with
`include` and macro expansion re-entering `preprocessStr`. Files are a parameter (`Fs`).
Strings are byte lists (`Bytes`); paths are byte lists too.
-/
namespace Sv

/-- kind numbers of the node kinds the walker looks at — filled in by the generated `Gen.ppKinds` -/
structure PpKinds where
  sdNotDirective : Nat
  sourceDescription : Nat
  sdStringLiteral : Nat      -- variant-coded kind of SourceDescription::StringLiteral
  sdEscapedIdentifier : Nat  -- variant-coded kind of SourceDescription::EscapedIdentifier
  compilerDirective : Nat
  kept : List Nat            -- Resetall, Timescale, DefaultNettype, UnconnectedDrive, NounconnectedDrive, Celldefine,
                             -- Endcelldefine, Pragma, Line, KeywordsDirective, EndkeywordsDirective
  undefine : Nat
  undefineall : Nat
  ifdef : Nat
  ifndef : Nat
  whiteSpace : Nat
  wsSpace : Nat              -- variant-coded kind of WhiteSpace::Space
  comment : Nat
  textMacroDefinition : Nat
  includeDirective : Nat
  incDoubleQuote : Nat       -- variant-coded kinds of IncludeCompilerDirective::{DoubleQuote, AngleBracket, TextMacroUsage}
  incAngleBracket : Nat
  incTextMacroUsage : Nat
  textMacroUsage : Nat
  position : Nat
  simpleIdentifier : Nat
  escapedIdentifier : Nat
  symbol : Nat
  keyword : Nat
  textMacroIdentifier : Nat
  elsifGroup : Nat
  elseGroup : Nat
  textMacroName : Nat
  listOfFormalArguments : Nat
  formalArgument : Nat
  defaultText : Nat
  macroText : Nat
  listOfActualArguments : Nat
  actualArgument : Nat
  stringLiteral : Nat
  angleBracketLiteral : Nat
  ppText : Nat               -- production number of preprocessor_text
deriving Repr, Inhabited

abbrev Bytes := List Nat

def Tree.baseKind (t : Tree) : Nat := t.kind % 2048

/-- `Locate::try_from(node)`: merge all leaves (offset and line of the first, total length) -/
def locOf (t : Tree) : Option (Nat × Nat × Nat) :=
  match leaves t with
  | [] => none
  | (o, l, n) :: rest => some (o, rest.foldl (fun a x => a + x.2.1) l, n)

def bytesOf (inp : Input) (o l : Nat) : Bytes := sliceBytes inp o l

def strOf (inp : Input) (t : Tree) : Bytes :=
  match locOf t with
  | some (o, l, _) => bytesOf inp o l
  | none => []

/-- `get_str(node, s)` of preprocess.rs: concatenation of all leaf texts -/
def getStrAll (inp : Input) (t : Tree) : Bytes :=
  (leaves t).foldl (fun acc x => acc ++ bytesOf inp x.1 x.2.1) []

def firstLeaf (t : Tree) : Option (Nat × Nat × Nat) := (leaves t).head?

/-- `identifier(node, s)` (preprocess.rs:779): first SimpleIdentifier / EscapedIdentifier in pre-order -/
def identOf (K : PpKinds) (inp : Input) (t : Tree) : Option Bytes :=
  match (pre t).find? (fun x => x.baseKind == K.simpleIdentifier || x.baseKind == K.escapedIdentifier) with
  | some x =>
    match x.kids.head? with
    | some (.leaf o l _) =>
      if x.baseKind == K.simpleIdentifier then some (bytesOf inp o l) else some ((bytesOf inp o l).drop 1)
    | _ => some []
  | none => none

structure DefineText where
  text : Bytes
  origin : Option (Bytes × Range)
deriving Repr, BEq, Inhabited

structure Define where
  ident : Bytes
  args : List (Bytes × Option Bytes)
  text : Option DefineText
deriving Repr, BEq, Inhabited

/-- `HashMap<String, Option<Define>>` as an association list with unique keys (order never observed) -/
abbrev Defines := List (Bytes × Option Define)

def Defines.get? (d : Defines) (k : Bytes) : Option (Option Define) :=
  match d.find? (fun x => x.1 == k) with
  | some x => some x.2
  | none => none

def Defines.insert (d : Defines) (k : Bytes) (v : Option Define) : Defines :=
  (k, v) :: d.filter (fun x => x.1 != k)

def Defines.remove (d : Defines) (k : Bytes) : Defines := d.filter (fun x => x.1 != k)

inductive PpError where
  | file (path : Bytes)
  | readUtf8 (path : Bytes)
  | include (e : PpError)
  | preprocess (at? : Option (Bytes × Nat))
  | defineArgNotFound (s : Bytes)
  | defineNotFound (s : Bytes)
  | defineNoArgs (s : Bytes)
  | exceedRecursiveLimit
  | includeLine
  | oof                      -- model only: out of fuel
deriving Repr, BEq, Inhabited

/-- file system: path ↦ `none` (unreadable as UTF-8) | `some bytes` ; absent = missing -/
abbrev Fs := List (Bytes × Option Bytes)

def Fs.find (fs : Fs) (p : Bytes) : Option (Option Bytes) :=
  match List.find? (fun (x : Bytes × Option Bytes) => x.1 == p) fs with
  | some x => some x.2
  | none => none

def Fs.exists (fs : Fs) (p : Bytes) : Bool := (fs.find p).isSome

def pathIsRelative (p : Bytes) : Bool := p.head? != some 47

/-- `Path::join` for the simple paths the checks use -/
def pathJoin (a b : Bytes) : Bytes :=
  if !pathIsRelative b then b
  else if a.isEmpty then b
  else if a.getLast? == some 47 then a ++ b else a ++ [47] ++ b

/-! ### string helpers -/

def isAsciiWs (b : Nat) : Bool := b == 32 || b == 9 || b == 10 || b == 12 || b == 13

/-- `char::is_whitespace` on a decoded scalar value -/
def isUniWs (c : Nat) : Bool :=
  (9 ≤ c && c ≤ 13) || c == 32 || c == 0x85 || c == 0xA0 || c == 0x1680 || (0x2000 ≤ c && c ≤ 0x200A) ||
  c == 0x2028 || c == 0x2029 || c == 0x202F || c == 0x205F || c == 0x3000

/-- decode a valid UTF-8 byte list into scalar values (lengths kept) -/
def decodeUtf8 : Nat → Bytes → List (Nat × Nat)
  | 0, _ => []
  | _, [] => []
  | fuel + 1, b :: rest =>
    if b < 0x80 then (b, 1) :: decodeUtf8 fuel rest
    else if b < 0xE0 then
      match rest with
      | c :: r2 => ((b % 32) * 64 + c % 64, 2) :: decodeUtf8 fuel r2
      | _ => [(b, 1)]
    else if b < 0xF0 then
      match rest with
      | c :: d :: r2 => ((b % 16) * 4096 + (c % 64) * 64 + d % 64, 3) :: decodeUtf8 fuel r2
      | _ => [(b, 1)]
    else
      match rest with
      | c :: d :: e :: r2 => ((b % 8) * 262144 + (c % 64) * 4096 + (d % 64) * 64 + e % 64, 4) :: decodeUtf8 fuel r2
      | _ => [(b, 1)]

/-- `str::trim_end()` : drop trailing Unicode whitespace -/
def trimEnd (s : Bytes) : Bytes :=
  let cs := decodeUtf8 (s.length + 1) s
  let kept := (cs.reverse.dropWhile (fun c => isUniWs c.1)).reverse
  s.take (kept.foldl (fun a c => a + c.2) 0)

def trimStart (s : Bytes) : Bytes :=
  let cs := decodeUtf8 (s.length + 1) s
  let dropped := cs.takeWhile (fun c => isUniWs c.1)
  s.drop (dropped.foldl (fun a c => a + c.2) 0)

def trim (s : Bytes) : Bytes := trimEnd (trimStart s)

def trimMatches (c : Nat) (s : Bytes) : Bytes :=
  ((s.dropWhile (· == c)).reverse.dropWhile (· == c)).reverse

def trimStartMatches (c : Nat) (s : Bytes) : Bytes := s.dropWhile (· == c)
def trimEndMatches (c : Nat) (s : Bytes) : Bytes := (s.reverse.dropWhile (· == c)).reverse

def startsWith (s p : Bytes) : Bool := s.take p.length == p

/-- `str::replace(pat, to)` (non-overlapping, left to right); `pat` non-empty -/
def replaceAll : Nat → Bytes → Bytes → Bytes → Bytes
  | 0, s, _, _ => s
  | _, [], _, _ => []
  | fuel + 1, s@(b :: rest), pat, to =>
    if pat.isEmpty then s
    else if startsWith s pat then to ++ replaceAll fuel (s.drop pat.length) pat to
    else b :: replaceAll fuel rest pat to

/-- does `s` contain `pat` (non-empty) as a contiguous sub-list -/
def containsSub : Nat → Bytes → Bytes → Bool
  | 0, _, _ => false
  | _, [], _ => false
  | fuel + 1, s@(_ :: rest), pat => startsWith s pat || containsSub fuel rest pat

/-- text of an actual argument (preprocess.rs:956-967): trailing whitespace removed, except that a one-line comment at the end of
    the argument keeps the line end that terminates it -/
def argText (full : Bytes) : Bytes :=
  let arg := trimEnd full
  let lastLine := (arg.reverse.takeWhile (· != 10)).reverse
  if containsSub (lastLine.length + 1) lastLine [47, 47] then
    let rest := full.drop arg.length
    match rest.idxOf? 10 with
    | some i => full.take (arg.length + i + 1)
    | none => arg
  else arg

def bstr (s : String) : Bytes := s.toUTF8.toList.map (·.toNat)

def natToDec (n : Nat) : Bytes := bstr (toString n)

def toInput (s : Bytes) : Input := ⟨(s.map (fun b => UInt8.ofNat b)).toArray⟩

/-- `is_predefined_text_macro` -/
def bLINE : Bytes := [95, 95, 76, 73, 78, 69, 95, 95]
def bFILE : Bytes := [95, 95, 70, 73, 76, 69, 95, 95]
def isPredefined (s : Bytes) : Bool := s == bLINE || s == bFILE

/-- the fifteen `SV_COV_*` constants, in source order -/
def svCovDefines : List (String × String) :=
  [("SV_COV_START", "0"), ("SV_COV_STOP", "1"), ("SV_COV_RESET", "2"), ("SV_COV_CHECK", "3"),
   ("SV_COV_MODULE", "10"), ("SV_COV_HIER", "11"), ("SV_COV_ASSERTION", "20"), ("SV_COV_FSM_STATE", "21"),
   ("SV_COV_STATEMENT", "22"), ("SV_COV_TOGGLE", "23"), ("SV_COV_OVERFLOW", "-2"), ("SV_COV_ERROR", "-1"),
   ("SV_COV_NOCOV", "0"), ("SV_COV_OK", "1"), ("SV_COV_PARTIAL", "2")]

def recursiveLimit : Nat := 64

/-! ### walker state -/

structure WState where
  skip : Bool := false
  skipWs : Bool := false
  skipNodes : List Tree := []
  defines : Defines := []
  lastItemLine : Option Nat := none
  lastIncludeLine : Option Nat := none
  out : POut := {}
deriving Inhabited

/-- `SkipNodes::push`: ignored when the node has no `Locate` below it -/
def WState.skipPush (w : WState) (t : Tree) : WState :=
  if (leaves t).isEmpty then w else { w with skipNodes := w.skipNodes ++ [t] }

def skipPushAll (w : WState) (ts : List Tree) : WState := ts.foldl WState.skipPush w

/-- split the children of an `IfdefDirective` / `IfndefDirective`:
    (keyword, ifid, ifbody, [(keyword, id, body)], else: (keyword, body)?) -/
def splitCond (K : PpKinds) (kids : List Tree) :
    Option (Tree × Tree × Tree × List (Tree × Tree × Tree) × Option (Tree × Tree)) :=
  match kids with
  | _sym :: kw :: ifid :: ifbody :: rest =>
    let rec elsifs (fuel : Nat) (r : List Tree) (acc : List (Tree × Tree × Tree)) :
        List (Tree × Tree × Tree) × List Tree :=
      match fuel, r with
      | fuel + 1, _s :: k :: id :: body :: r2 =>
        if id.baseKind == K.textMacroIdentifier && body.baseKind == K.elsifGroup then elsifs fuel r2 (acc ++ [(k, id, body)])
        else (acc, r)
      | _, _ => (acc, r)
    let (es, r3) := elsifs rest.length rest []
    let els : Option (Tree × Tree) :=
      match r3 with
      | _s :: k :: body :: _ => if body.baseKind == K.elseGroup then some (k, body) else none
      | _ => none
    some (kw, ifid, ifbody, es, els)
  | _ => none

/-- items of a `List<Symbol, T>` whose `T` may be absent (`Option<ActualArgument>`) -/
def listItemsOpt (K : PpKinds) (itemKind : Nat) (kids : List Tree) : List (Option Tree) :=
  let r := kids.foldl (fun (acc : List (Option Tree) × Option Tree) k =>
    if k.baseKind == itemKind then (acc.1, some k)
    else if k.baseKind == K.symbol then (acc.1 ++ [acc.2], none)
    else acc) ([], none)
  r.1 ++ [r.2]

/-- Which bodies of a conditional chain are discarded. `isIfdef` distinguishes `ifdef from `ifndef,
    `defd n` = "n is in the define table", `ifname` the name after `ifdef/`ifndef, `names` the `elsif names.
    Result: (skip the if-body, skip flags of the elsif bodies in order, skip the else body).
    Transliteration of preprocess.rs:469-552: the first branch whose test holds is kept ("hit"), every later one
    is skipped, the else body is skipped iff some branch was hit. The `elsif test is
    `defined(elsif name) || predefined(X)` where X is the elsif name in an `ifdef chain and — defect D3, frozen by two
    golden files — the name after `ifndef in an `ifndef chain. -/
def condStep (test : Bytes → Bool) (acc : List Bool × Bool) (n : Bytes) : List Bool × Bool :=
  if acc.2 then (acc.1 ++ [true], true)
  else if test n then (acc.1 ++ [false], true)
  else (acc.1 ++ [true], false)

/-- the test applied to an `elsif name -/
def elsifTest (isIfdef : Bool) (defd : Bytes → Bool) (ifname : Bytes) (n : Bytes) : Bool :=
  defd n || isPredefined (if isIfdef then n else ifname)

def condPlan (isIfdef : Bool) (defd : Bytes → Bool) (ifname : Bytes) (names : List Bytes) (_hasElse : Bool) :
    Bool × List Bool × Bool :=
  let d0 := defd ifname || isPredefined ifname
  let hit0 := if isIfdef then d0 else !d0
  let r := names.foldl (condStep (elsifTest isIfdef defd ifname)) ([], hit0)
  (!hit0, r.1, r.2)

/-- the nodes pushed on the skip list, in the order of the code: keyword, id, [if-body], then per `elsif keyword, id,
    [body], then the `else keyword, [else body] -/
def condSkipNodes (kw ifid ifbody : Tree) (elsifs : List (Tree × Tree × Tree)) (els : Option (Tree × Tree))
    (plan : Bool × List Bool × Bool) : List Tree :=
  [kw, ifid] ++ (if plan.1 then [ifbody] else []) ++
  ((elsifs.zip plan.2.1).flatMap (fun (e : (Tree × Tree × Tree) × Bool) =>
    [e.1.1, e.1.2.1] ++ (if e.2 then [e.1.2.2] else []))) ++
  (match els with
   | some (k, body) => [k] ++ (if plan.2.2 then [body] else [])
   | none => [])

/-- binding of formal to actual arguments (preprocess.rs:951-970), formals taken in order from index `i`:
    the actual if given, else the default, else "" when the position was present but empty,
    else `DefineArgNotFound formal` (the first such formal) -/
def bindArgsFrom (i : Nat) : List (Bytes × Option Bytes) → List (Option Bytes) → Except PpError (List (Bytes × Bytes))
  | [], _ => .ok []
  | (arg, dflt) :: rest, actuals =>
    let v : Except PpError Bytes :=
      match actuals[i]? with
      | some (some act) => .ok act
      | some none => .ok (dflt.getD [])
      | none =>
        match dflt with
        | some d => .ok d
        | none => .error (.defineArgNotFound arg)
    match v with
    | .error e => .error e
    | .ok x =>
      match bindArgsFrom (i + 1) rest actuals with
      | .error e => .error e
      | .ok m => .ok ((arg, x) :: m)

def bindArgs (formals : List (Bytes × Option Bytes)) (actuals : List (Option Bytes)) :
    Except PpError (List (Bytes × Bytes)) := bindArgsFrom 0 formals actuals

/-- include path search (preprocess.rs:677-685): as given when absolute or existing; else the first include path under
    which it exists; else as given -/
def resolveIncludePath (fs : Fs) (includePaths : List Bytes) (p0 : Bytes) : Bytes :=
  if pathIsRelative p0 && !fs.exists p0 then
    match includePaths.find? (fun ip => fs.exists (pathJoin ip p0)) with
    | some ip => pathJoin ip p0
    | none => p0
  else p0

/-- what the Comment arm emits: the comment itself, or with strip_comments one separator byte -/
def commentEmit (stripComments : Bool) (text : Bytes) : Bytes :=
  if !stripComments then text else if text.getLast? == some 10 then [10] else [32]

/-- the macro name of a `TextMacroUsage` node as `resolve_text_macro_usage` reads it (`identifier((&name.nodes.0).into(), &s)`) -/
def usageName (K : PpKinds) (inp : Input) (x : Tree) : Bytes :=
  (match (x.kids.drop 1).head? with | some name => identOf K inp name | none => none).getD []

/-- the name an `UndefineCompilerDirective` node removes -/
def undefName (K : PpKinds) (inp : Input) (x : Tree) : Bytes :=
  (match x.kids with | _ :: _ :: name :: _ => identOf K inp name | _ => none).getD []

/-- the name a `TextMacroDefinition` defines, read from its prototype (`TextMacroName`) -/
def defineName (K : PpKinds) (inp : Input) (proto : Tree) : Bytes :=
  (match proto.kids.head? with | some name => identOf K inp name | none => none).getD []

structure Cfg where
  K : PpKinds
  g : Grammar
  fs : Fs
  includePaths : List Bytes
deriving Inhabited

/-- block 1 of the event loop (preprocess.rs:272-290): entering / leaving a node on the skip list switches skipping on / off -/
def skipStep (w : WState) (ev : Event) : WState :=
  match ev with
  | .enter x => if w.skipNodes.contains x then { w with skip := true } else w
  | .leave x => if w.skipNodes.contains x then { w with skip := false } else w

/-- block 2 of the event loop: `include must be alone on its line -/
def lineStep (K : PpKinds) (inp : Input) (w1 : WState) (ev : Event) : Except PpError WState :=
  match ev with
  | .enter x =>
    if x.baseKind == K.sdNotDirective then
      -- a text item counts from the line of its first character that is not white space; white space only: ignored (repair D18)
      match locOf x with
      | some (o, l, line) =>
        let text := bytesOf inp o l
        let body := trimStart text
        if body.isEmpty then .ok w1
        else if w1.lastIncludeLine == some (line + (text.take (text.length - body.length)).count 10) then .error .includeLine
        else .ok w1
      | none => .ok w1
    else if x.baseKind == K.compilerDirective then
      match locOf x with
      | some (_, _, line) => if w1.lastIncludeLine == some line then .error .includeLine else .ok w1
      | none => .ok w1
    else .ok w1
  | .leave x =>
    if x.baseKind == K.sdNotDirective then
      match locOf x with
      | some (o, l, line) =>
        let text := trimEnd (bytesOf inp o l)
        if !text.isEmpty then .ok { w1 with lastItemLine := some (line + text.count 10) } else .ok w1
      | none => .ok w1
    else if x.baseKind == K.compilerDirective then
      match locOf x with
      | some (o, l, line) => .ok { w1 with lastItemLine := some (line + (trimEnd (bytesOf inp o l)).count 10) }
      | none => .ok w1
    else .ok w1

/-- `ret.push(locate.str(s), Some((path, Range::new(offset, offset + len))))` for the node's own `Locate` -/
def pushLoc (inp : Input) (path : Bytes) (w' : WState) (x : Tree) : WState :=
  match locOf x with
  | some (o, l, _) => { w' with out := w'.out.push (bytesOf inp o l) (some (path, ⟨o, o + l⟩)) }
  | none => w'

section Arms
set_option linter.unusedVariables false

/-- one `Enter` arm of the event loop (see `enterStep`) -/
def armNotDirective (C : Cfg)
    (recInner : Bytes → Defines → Bool → Bool → Nat → Nat → Except PpError (POut × Defines))
    (recUsage : Input → Bytes → Bytes → Tree → Defines → Bool → Bool → Nat → Nat → Except PpError (Option (Bytes × Option (Bytes × Range) × Defines)))
    (inp : Input) (s path : Bytes) (ignoreInclude stripComments : Bool) (resolveDepth includeDepth : Nat) (w2 : WState) (x : Tree) :
    Except PpError WState :=
  let K := C.K
  let bk := x.baseKind
  .ok (pushLoc inp path w2 x)

/-- one `Enter` arm of the event loop (see `enterStep`) -/
def armStrLike (C : Cfg)
    (recInner : Bytes → Defines → Bool → Bool → Nat → Nat → Except PpError (POut × Defines))
    (recUsage : Input → Bytes → Bytes → Tree → Defines → Bool → Bool → Nat → Nat → Except PpError (Option (Bytes × Option (Bytes × Range) × Defines)))
    (inp : Input) (s path : Bytes) (ignoreInclude stripComments : Bool) (resolveDepth includeDepth : Nat) (w2 : WState) (x : Tree) :
    Except PpError WState :=
  let K := C.K
  let bk := x.baseKind
  match x.kids.head? with
  | some c => .ok (pushLoc inp path w2 c)
  | none => .ok w2

/-- one `Enter` arm of the event loop (see `enterStep`) -/
def armKept (C : Cfg)
    (recInner : Bytes → Defines → Bool → Bool → Nat → Nat → Except PpError (POut × Defines))
    (recUsage : Input → Bytes → Bytes → Tree → Defines → Bool → Bool → Nat → Nat → Except PpError (Option (Bytes × Option (Bytes × Range) × Defines)))
    (inp : Input) (s path : Bytes) (ignoreInclude stripComments : Bool) (resolveDepth includeDepth : Nat) (w2 : WState) (x : Tree) :
    Except PpError WState :=
  let K := C.K
  let bk := x.baseKind
  .ok { (pushLoc inp path w2 x) with skipWs := true }

/-- one `Enter` arm of the event loop (see `enterStep`) -/
def armUndef (C : Cfg)
    (recInner : Bytes → Defines → Bool → Bool → Nat → Nat → Except PpError (POut × Defines))
    (recUsage : Input → Bytes → Bytes → Tree → Defines → Bool → Bool → Nat → Nat → Except PpError (Option (Bytes × Option (Bytes × Range) × Defines)))
    (inp : Input) (s path : Bytes) (ignoreInclude stripComments : Bool) (resolveDepth includeDepth : Nat) (w2 : WState) (x : Tree) :
    Except PpError WState :=
  let K := C.K
  let bk := x.baseKind
  let id := undefName K inp x
  .ok { (pushLoc inp path { w2 with defines := w2.defines.remove id } x) with skipWs := true }

/-- one `Enter` arm of the event loop (see `enterStep`) -/
def armUndefAll (C : Cfg)
    (recInner : Bytes → Defines → Bool → Bool → Nat → Nat → Except PpError (POut × Defines))
    (recUsage : Input → Bytes → Bytes → Tree → Defines → Bool → Bool → Nat → Nat → Except PpError (Option (Bytes × Option (Bytes × Range) × Defines)))
    (inp : Input) (s path : Bytes) (ignoreInclude stripComments : Bool) (resolveDepth includeDepth : Nat) (w2 : WState) (x : Tree) :
    Except PpError WState :=
  let K := C.K
  let bk := x.baseKind
  .ok { (pushLoc inp path { w2 with defines := [] } x) with skipWs := true }

/-- one `Enter` arm of the event loop (see `enterStep`) -/
def armCond (C : Cfg)
    (recInner : Bytes → Defines → Bool → Bool → Nat → Nat → Except PpError (POut × Defines))
    (recUsage : Input → Bytes → Bytes → Tree → Defines → Bool → Bool → Nat → Nat → Except PpError (Option (Bytes × Option (Bytes × Range) × Defines)))
    (inp : Input) (s path : Bytes) (ignoreInclude stripComments : Bool) (resolveDepth includeDepth : Nat) (w2 : WState) (x : Tree) :
    Except PpError WState :=
  let K := C.K
  let bk := x.baseKind
  match splitCond K x.kids with
  | none => .ok w2
  | some (kw, ifid, ifbody, elsifs, els) =>
    let names := elsifs.map (fun e => (identOf K inp e.2.1).getD [])
    let plan := condPlan (bk == K.ifdef) (fun n => (w2.defines.get? n).isSome) ((identOf K inp ifid).getD []) names els.isSome
    .ok (skipPushAll w2 (condSkipNodes kw ifid ifbody elsifs els plan))

/-- one `Enter` arm of the event loop (see `enterStep`) -/
def armWhiteSpace (C : Cfg)
    (recInner : Bytes → Defines → Bool → Bool → Nat → Nat → Except PpError (POut × Defines))
    (recUsage : Input → Bytes → Bytes → Tree → Defines → Bool → Bool → Nat → Nat → Except PpError (Option (Bytes × Option (Bytes × Range) × Defines)))
    (inp : Input) (s path : Bytes) (ignoreInclude stripComments : Bool) (resolveDepth includeDepth : Nat) (w2 : WState) (x : Tree) :
    Except PpError WState :=
  let K := C.K
  let bk := x.baseKind
  if !w2.skipWs then
    if x.kind == K.wsSpace then
      match locOf x with
      | some (o, l, _) => .ok { w2 with out := w2.out.push (bytesOf inp o l) (some (path, ⟨o, o + l⟩)) }
      | none => .ok w2
    else .ok w2
  else .ok w2

/-- one `Enter` arm of the event loop (see `enterStep`) -/
def armComment (C : Cfg)
    (recInner : Bytes → Defines → Bool → Bool → Nat → Nat → Except PpError (POut × Defines))
    (recUsage : Input → Bytes → Bytes → Tree → Defines → Bool → Bool → Nat → Nat → Except PpError (Option (Bytes × Option (Bytes × Range) × Defines)))
    (inp : Input) (s path : Bytes) (ignoreInclude stripComments : Bool) (resolveDepth includeDepth : Nat) (w2 : WState) (x : Tree) :
    Except PpError WState :=
  let K := C.K
  let bk := x.baseKind
  match locOf x with
  | some (o, l, _) => .ok { w2 with out := w2.out.push (commentEmit stripComments (bytesOf inp o l)) (some (path, ⟨o, o + l⟩)) }
  | none => .ok w2

/-- one `Enter` arm of the event loop (see `enterStep`) -/
def armDefine (C : Cfg)
    (recInner : Bytes → Defines → Bool → Bool → Nat → Nat → Except PpError (POut × Defines))
    (recUsage : Input → Bytes → Bytes → Tree → Defines → Bool → Bool → Nat → Nat → Except PpError (Option (Bytes × Option (Bytes × Range) × Defines)))
    (inp : Input) (s path : Bytes) (ignoreInclude stripComments : Bool) (resolveDepth includeDepth : Nat) (w2 : WState) (x : Tree) :
    Except PpError WState :=
  let K := C.K
  let bk := x.baseKind
  let wA := { (w2.skipPush x) with skip := true }
  match x.kids with
  | _ :: _ :: proto :: rest =>
    let id := defineName K inp proto
    let wB :=
      if !isPredefined id then
        let formals : List Tree :=
          match proto.kids.find? (fun k => k.baseKind == K.listOfFormalArguments) with
          | some lf => lf.kids.filter (fun k => k.baseKind == K.formalArgument)
          | none => []
        let args := formals.map (fun fa =>
          let name := match fa.kids.head? with
            | some si => (match si.kids.head? with | some (.leaf o l _) => bytesOf inp o l | _ => [])
            | none => []
          let dflt := match fa.kids.find? (fun k => k.baseKind == K.defaultText) with
            | some d => some (strOf inp d)
            | none => none
          (name, dflt))
        let dtext : Option DefineText :=
          match rest.find? (fun k => k.baseKind == K.macroText) with
          | some mt =>
            match locOf mt with
            | some (o, l, _) => some { text := bytesOf inp o l, origin := some (path, ⟨o, o + l⟩) }
            | none => none
          | none => none
        { wA with defines := wA.defines.insert id (some { ident := id, args := args, text := dtext }) }
      else wA
    .ok (pushLoc inp path wB x)
  | _ => .ok (pushLoc inp path wA x)

/-- one `Enter` arm of the event loop (see `enterStep`) -/
def armInclude (C : Cfg)
    (recInner : Bytes → Defines → Bool → Bool → Nat → Nat → Except PpError (POut × Defines))
    (recUsage : Input → Bytes → Bytes → Tree → Defines → Bool → Bool → Nat → Nat → Except PpError (Option (Bytes × Option (Bytes × Range) × Defines)))
    (inp : Input) (s path : Bytes) (ignoreInclude stripComments : Bool) (resolveDepth includeDepth : Nat) (w2 : WState) (x : Tree) :
    Except PpError WState :=
  let K := C.K
  let bk := x.baseKind
  let wA := { (w2.skipPush x) with skip := true }
  match locOf x with
  | none => .ok wA
  | some (_, _, line) =>
    let wB := { wA with lastIncludeLine := some line }
    if wB.lastItemLine == some line then .error .includeLine
    else
      match x.kids.head? with
      | none => .ok wB
      | some inner =>
        let kwL : List Tree := ((inner.kids.drop 1).head?).toList
        let lit := (inner.kids.drop 2).head?
        -- (path text, further nodes put on the skip list)
        let pathR : Except PpError (Bytes × List Tree) :=
          if x.kind == K.incDoubleQuote then
            match lit with
            | some l => (match firstLeaf l with
                | some (o, n, _) => .ok (trimMatches 34 (bytesOf inp o n), [])
                | none => .ok ([], []))
            | none => .ok ([], [])
          else if x.kind == K.incAngleBracket then
            match lit with
            | some l => (match firstLeaf l with
                | some (o, n, _) => .ok (trimEndMatches 62 (trimStartMatches 60 (bytesOf inp o n)), [])
                | none => .ok ([], []))
            | none => .ok ([], [])
          else
            match lit with
            | some u =>
              (match recUsage inp s path u wB.defines ignoreInclude true (resolveDepth + 1) includeDepth with  -- comments are never part of the file name (repair D20)
               | .error e => .error e
               | .ok (some (p, _, _)) => .ok (trimMatches 34 (trim p), [u])
               | .ok none => .ok ([], [u]))
            | none => .ok ([], [])
        match pathR with
        | .error e => .error e
        | .ok (p0, extra) =>
          let wE := skipPushAll wB (kwL ++ extra)
          let p1 := resolveIncludePath C.fs C.includePaths p0
          match recInner p1 wE.defines stripComments false resolveDepth (includeDepth + 1) with
          | .error e => .error (.include e)
          | .ok (inc, nd) => .ok { wE with defines := nd, out := wE.out.merge inc }

/-- one `Enter` arm of the event loop (see `enterStep`) -/
def armUsage (C : Cfg)
    (recInner : Bytes → Defines → Bool → Bool → Nat → Nat → Except PpError (POut × Defines))
    (recUsage : Input → Bytes → Bytes → Tree → Defines → Bool → Bool → Nat → Nat → Except PpError (Option (Bytes × Option (Bytes × Range) × Defines)))
    (inp : Input) (s path : Bytes) (ignoreInclude stripComments : Bool) (resolveDepth includeDepth : Nat) (w2 : WState) (x : Tree) :
    Except PpError WState :=
  let K := C.K
  let bk := x.baseKind
  let wA := { (w2.skipPush x) with skip := true }
  match recUsage inp s path x wA.defines ignoreInclude stripComments (resolveDepth + 1) includeDepth with
  | .error e => .error e
  | .ok r =>
    let wB := match r with
      | some (text, origin, nd) => { wA with out := wA.out.push text origin, defines := nd }
      | none => wA
    -- trailing whitespace attached to the closing paren (or to the identifier)
    let hasArgs := x.kids.any (fun k => k.baseKind == K.listOfActualArguments)
    let src : Option Tree := if hasArgs then x.kids.getLast? else (x.kids.drop 1).head?
    let wss : List Tree := match src with
      | some t => (pre t).filter (fun k => k.baseKind == K.whiteSpace)
      | none => []
    .ok (wss.foldl (pushLoc inp path) wB)

/-- one `Enter` arm of the event loop (see `enterStep`) -/
def armPosition (C : Cfg)
    (recInner : Bytes → Defines → Bool → Bool → Nat → Nat → Except PpError (POut × Defines))
    (recUsage : Input → Bytes → Bytes → Tree → Defines → Bool → Bool → Nat → Nat → Except PpError (Option (Bytes × Option (Bytes × Range) × Defines)))
    (inp : Input) (s path : Bytes) (ignoreInclude stripComments : Bool) (resolveDepth includeDepth : Nat) (w2 : WState) (x : Tree) :
    Except PpError WState :=
  let K := C.K
  let bk := x.baseKind
  let wA := { (w2.skipPush x) with skip := true }
  match (x.kids.drop 1).head? with
  | some kw =>
    match locOf kw with
    | some (o, l, line) =>
      let t := bytesOf inp o l
      if startsWith t bFILE then
        .ok { wA with out := wA.out.push (replaceAll (t.length + 1) t bFILE ([34] ++ path ++ [34])) none }
      else if startsWith t bLINE then
        .ok { wA with out := wA.out.push (replaceAll (t.length + 1) t bLINE (natToDec line)) none }
      else .ok wA
    | none => .ok wA
  | none => .ok wA

end Arms

/-- the `Enter` arms of the event loop (preprocess.rs:292-760), dispatch on the node kind. The two recursive callees are parameters:
    `recInner` = `preprocess_inner` (an `include), `recUsage` = `resolve_text_macro_usage`; the result is the walker state after the event. -/
def enterStep (C : Cfg)
    (recInner : Bytes → Defines → Bool → Bool → Nat → Nat → Except PpError (POut × Defines))
    (recUsage : Input → Bytes → Bytes → Tree → Defines → Bool → Bool → Nat → Nat → Except PpError (Option (Bytes × Option (Bytes × Range) × Defines)))
    (inp : Input) (s path : Bytes) (ignoreInclude stripComments : Bool) (resolveDepth includeDepth : Nat) (w2 : WState) (x : Tree) :
    Except PpError WState :=
  let K := C.K
  let bk := x.baseKind
  if bk == K.sdNotDirective then armNotDirective C recInner recUsage inp s path ignoreInclude stripComments resolveDepth includeDepth w2 x
  else if x.kind == K.sdStringLiteral || x.kind == K.sdEscapedIdentifier then armStrLike C recInner recUsage inp s path ignoreInclude stripComments resolveDepth includeDepth w2 x
  else if K.kept.contains bk then armKept C recInner recUsage inp s path ignoreInclude stripComments resolveDepth includeDepth w2 x
  else if bk == K.undefine then armUndef C recInner recUsage inp s path ignoreInclude stripComments resolveDepth includeDepth w2 x
  else if bk == K.undefineall then armUndefAll C recInner recUsage inp s path ignoreInclude stripComments resolveDepth includeDepth w2 x
  else if bk == K.ifdef || bk == K.ifndef then armCond C recInner recUsage inp s path ignoreInclude stripComments resolveDepth includeDepth w2 x
  else if bk == K.whiteSpace then armWhiteSpace C recInner recUsage inp s path ignoreInclude stripComments resolveDepth includeDepth w2 x
  else if bk == K.comment then armComment C recInner recUsage inp s path ignoreInclude stripComments resolveDepth includeDepth w2 x
  else if bk == K.textMacroDefinition then armDefine C recInner recUsage inp s path ignoreInclude stripComments resolveDepth includeDepth w2 x
  else if bk == K.includeDirective && !ignoreInclude then armInclude C recInner recUsage inp s path ignoreInclude stripComments resolveDepth includeDepth w2 x
  else if bk == K.textMacroUsage then armUsage C recInner recUsage inp s path ignoreInclude stripComments resolveDepth includeDepth w2 x
  else if bk == K.position then armPosition C recInner recUsage inp s path ignoreInclude stripComments resolveDepth includeDepth w2 x
  else .ok w2

/-- the `Leave` arms: leaving a kept directive / `undef / `undefineall re-enables whitespace emission -/
def leaveStep (K : PpKinds) (w2 : WState) (x : Tree) : WState :=
  if K.kept.contains x.baseKind || x.baseKind == K.undefine || x.baseKind == K.undefineall then { w2 with skipWs := false } else w2

mutual
/-- `preprocess_str` -/
def preprocessStr (C : Cfg) : Nat → Bytes → Bytes → Defines → Bool → Bool → Nat → Nat →
    Except PpError (POut × Defines)
  | 0, _, _, _, _, _, _, _ => .error .oof
  | fuel + 1, s, path, preDefines, ignoreInclude, stripComments, resolveDepth, includeDepth =>
    if includeDepth > recursiveLimit then .error .exceedRecursiveLimit
    else
      let d0 : Defines := svCovDefines.foldl (fun d (kv : String × String) =>
        d.insert (bstr kv.1) (some { ident := bstr kv.1, args := [], text := some { text := bstr kv.2, origin := none } })) []
      let d1 : Defines := preDefines.reverse.foldl (fun d kv => d.insert kv.1 kv.2) d0
      let inp := toInput s
      let st0 : PState := {}
      match eval C.g inp (4000 + 400 * inp.size) (.allConsuming (.call C.K.ppText)) 0 {} st0.init with
      | (.err ep, _) => .error (.preprocess (some (path, ep)))
      | (.oof, _) => .error .oof
      | (.ok _ _ ts, _) =>
        let evs := eventsL ts
        walk C fuel inp s path ignoreInclude stripComments resolveDepth includeDepth evs { defines := d1 }

/-- the `for n in pp_text.into_iter().event()` loop -/
def walk (C : Cfg) : Nat → Input → Bytes → Bytes → Bool → Bool → Nat → Nat → List Event → WState →
    Except PpError (POut × Defines)
  | 0, _, _, _, _, _, _, _, _, _ => .error .oof
  | _ + 1, _, _, _, _, _, _, _, [], w => .ok (w.out, w.defines)
  | fuel + 1, inp, s, path, ignoreInclude, stripComments, resolveDepth, includeDepth, ev :: evs, w =>
    let K := C.K
    -- block 1: skip bookkeeping
    let w1 : WState := skipStep w ev
    if w1.skip then walk C fuel inp s path ignoreInclude stripComments resolveDepth includeDepth evs w1
    else
      -- block 2: include-line bookkeeping
      let b2 : Except PpError WState := lineStep K inp w1 ev
      match b2 with
      | .error e => .error e
      | .ok w2 =>
        match ev with
        | .leave x => walk C fuel inp s path ignoreInclude stripComments resolveDepth includeDepth evs (leaveStep K w2 x)
        | .enter x =>
          match enterStep C (preprocessInner C fuel) (resolveUsage C fuel) inp s path ignoreInclude stripComments resolveDepth includeDepth w2 x with
          | .error e => .error e
          | .ok w3 => walk C fuel inp s path ignoreInclude stripComments resolveDepth includeDepth evs w3

/-- `preprocess_inner`: read the file, then `preprocess_str` with both depth counters passed through -/
def preprocessInner (C : Cfg) : Nat → Bytes → Defines → Bool → Bool → Nat → Nat → Except PpError (POut × Defines)
  | 0, _, _, _, _, _, _ => .error .oof
  | fuel + 1, path, preDefines, stripComments, ignoreInclude, resolveDepth, includeDepth =>
    match C.fs.find path with
    | none => .error (.file path)
    | some none => .error (.readUtf8 path)
    | some (some content) => preprocessStr C fuel content path preDefines ignoreInclude stripComments resolveDepth includeDepth

/-- `resolve_text_macro_usage` -/
def resolveUsage (C : Cfg) : Nat → Input → Bytes → Bytes → Tree → Defines → Bool → Bool → Nat → Nat →
    Except PpError (Option (Bytes × Option (Bytes × Range) × Defines))
  | 0, _, _, _, _, _, _, _, _, _ => .error .oof
  | fuel + 1, inp, _s, path, x, defines, ignoreInclude, stripComments, resolveDepth, includeDepth =>
    let K := C.K
    let id := usageName K inp x
    if resolveDepth > recursiveLimit then .error .exceedRecursiveLimit
    else
      let parenKids := x.kids.drop 2
      let noArgs := parenKids.isEmpty
      let argsStr : Bytes := parenKids.foldl (fun acc k => acc ++ getStrAll inp k) []
      let actuals : List (Option Bytes) :=
        match parenKids.find? (fun k => k.baseKind == K.listOfActualArguments) with
        | some la => (listItemsOpt K K.actualArgument la.kids).map (fun o =>
            match o with
            | some a => (match a.kids.head? with | some (.leaf o l _) => some (argText (bytesOf inp o l)) | _ => some [])
            | none => none)
        | none => []
      match defines.get? id with
      | none => .error (.defineNotFound id)
      | some none => .ok none
      | some (some define) =>
        if !define.args.isEmpty && noArgs then .error (.defineNoArgs define.ident)
        else
          let bind : Except PpError (List (Bytes × Bytes)) := bindArgs define.args actuals
          match bind with
          | .error e => .error e
          | .ok argMap =>
            let paren : Option Bytes := if define.args.isEmpty then some argsStr else none
            match define.text with
            | none => .ok none
            | some dt =>
              let lookup (k : Bytes) : Option Bytes :=
                match (argMap.reverse.find? (fun kv => kv.1 == k)) with
                | some kv => some kv.2
                | none => none
              let n := dt.text.length + 1
              let replaced : Bytes := (splitText dt.text).foldl (fun acc chunk =>
                match lookup chunk with
                | some v => acc ++ v
                | none =>
                  -- an ordinary string literal in the macro text is left as it is
                  if chunk.head? == some 34 then acc ++ chunk else
                  let c1 := replaceAll n chunk [96, 96] []
                  let c2 := replaceAll n c1 [96, 92, 96, 34] [92, 34]
                  let c3 := replaceAll n c2 [96, 34] [34]
                  let c4 := replaceAll n c3 [92, 10] [10]
                  let c5 := replaceAll n c4 [92, 13, 10] [13, 10]
                  let c6 := replaceAll n c5 [92, 13] [13]
                  acc ++ c6) []
              let replaced2 := match paren with | some p => replaced ++ p | none => replaced
              match preprocessStr C fuel replaced2 path defines ignoreInclude stripComments resolveDepth includeDepth with
              | .error e => .error e
              | .ok (out, nd) => .ok (some (out.text, dt.origin, nd))
end

end Sv

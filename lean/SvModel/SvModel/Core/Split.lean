/-!
# M5 — `split_text` (hand transliteration of `sv-parser-pp/src/preprocess.rs:822-904`)

The same character state machine, run over bytes: every test in the Rust is on an ASCII character, and a
non-ASCII scalar is "not identifier, not blank, not a quote" in all of its bytes, so chunk boundaries are
the same whether the loop steps by `char` or by byte. Import-free.
-/
namespace Sv

structure SplitSt where
  isString : Bool := false
  isIdent : Bool := false
  isComment : Bool := false
  isBackquotePrev : Bool := false
  isLeadingWs : Bool := true
  isBackslashPrev : Bool := false
  x : List Nat := []
  ret : List (List Nat) := []
deriving Repr, Inhabited

def isAsciiWhitespace (c : Nat) : Bool := c == 32 || c == 9 || c == 10 || c == 12 || c == 13
def isIdentByte (c : Nat) : Bool :=
  (48 ≤ c && c ≤ 57) || (65 ≤ c && c ≤ 90) || (97 ≤ c && c ≤ 122) || c == 95

/-- one iteration of the `while let Some(c) = iter.next()` loop; `nxt` is `iter.peek()` -/
def splitStep (s : SplitSt) (c : Nat) (nxt : Option Nat) : SplitSt :=
  if s.isLeadingWs && !(c != 92 && !isAsciiWhitespace c) then
    -- still in leading whitespace / possible continuation
    if s.isBackslashPrev && c == 10 then { s with isLeadingWs := false }
    else { s with isBackslashPrev := (c == 92) }
  else
    let s := { s with isLeadingWs := false }
    let identPrev := s.isIdent
    let ident := isIdentByte c
    let s := { s with isIdent := ident }
    let s :=
      if c == 10 && s.isComment then { s with isComment := false, x := s.x ++ [c] }
      else if s.isComment then s
      else if c == 34 && s.isBackquotePrev then { s with ret := s.ret ++ [s.x ++ [c]], x := [] }
      else if c == 34 && !s.isString then { s with ret := s.ret ++ [s.x], x := [c], isString := true }
      else if c == 34 && s.isString then { s with ret := s.ret ++ [s.x ++ [c]], x := [], isString := false }
      else if c == 47 && nxt == some 47 && !s.isString then { s with isComment := true, ret := s.ret ++ [s.x], x := [] }  -- the comment ends the piece before it (repair D19)
      else if !s.isString then
        if ident != identPrev then { s with ret := s.ret ++ [s.x], x := [c] }
        else { s with x := s.x ++ [c] }
      else { s with x := s.x ++ [c] }
    -- NOTE: when `is_comment` the Rust `continue`s and does NOT update `is_backquote_prev`
    if s.isComment && !(c == 47 && nxt == some 47) then s
    else { s with isBackquotePrev := (c == 96) }

def splitLoop : SplitSt → List Nat → SplitSt
  | s, [] => s
  | s, c :: rest => splitLoop (splitStep s c rest.head?) rest

def splitText (t : List Nat) : List (List Nat) :=
  let s := splitLoop {} t
  s.ret ++ [s.x]

end Sv

/-!
# M2 — trees and the two iterators (hand model of `sv-parser-syntaxtree/src/any_node.rs`)

A syntax tree is a rose tree. A `Locate` (token) is a leaf carrying `(offset, len, line)`;
every other `RefNode` variant is a `node` with a kind number and the ordered list of its children
(`Node::next`). `Iter` and `EventIter` are transliterated as functions on an explicit stack whose
top is at the END of the list, exactly as the `Vec` in the Rust (`pop`, `reverse`, `append`).
Import-free so that the driver executable links.
-/
namespace Sv

inductive Tree where
  | leaf (off len line : Nat)
  | node (kind : Nat) (kids : List Tree)
deriving Repr, Inhabited

mutual
/-- structural equality (`PartialEq` of `RefNode` compares node kind and contents; a `Locate` compares offset, line and length).
    Written out — the derived instance of a nested inductive is opaque to the logic — so that membership in the preprocessor's skip list
    can be reasoned about (`Lemmas/Tree.lean: Tree.beq_iff_eq`). -/
def Tree.beq : Tree → Tree → Bool
  | .leaf a b c, .leaf a' b' c' => a == a' && b == b' && c == c'
  | .node k ks, .node k' ks' => k == k' && Tree.beqL ks ks'
  | _, _ => false
def Tree.beqL : List Tree → List Tree → Bool
  | [], [] => true
  | t :: ts, t' :: ts' => Tree.beq t t' && Tree.beqL ts ts'
  | _, _ => false
end

instance : BEq Tree := ⟨Tree.beq⟩

/-- `Node::next` -/
def Tree.kids : Tree → List Tree
  | .leaf .. => []
  | .node _ ks => ks

mutual
/-- specification: pre-order listing of all nodes (a node, then its descendants in source order) -/
def pre : Tree → List Tree
  | .leaf o l n => [.leaf o l n]
  | .node k ks => .node k ks :: preL ks
def preL : List Tree → List Tree
  | [] => []
  | t :: ts => pre t ++ preL ts
end

mutual
def size : Tree → Nat
  | .leaf .. => 1
  | .node _ ks => 1 + sizeL ks
def sizeL : List Tree → Nat
  | [] => 0
  | t :: ts => size t + sizeL ts
end

/-! ## `Iter` (any_node.rs:10-40) -/

/-- `Iter::next`: pop the last element, push its children reversed. -/
def iterStep (st : List Tree) : Option (Tree × List Tree) :=
  match st.getLast? with
  | none => none
  | some x => some (x, st.dropLast ++ x.kids.reverse)

def iterRun : Nat → List Tree → List Tree
  | 0, _ => []
  | n+1, st => match iterStep st with
    | none => []
    | some (x, st') => x :: iterRun n st'

/-- `Iter::new(roots)` reverses the roots. -/
def iterNew (roots : List Tree) : List Tree := roots.reverse

/-- `for x in node` (IntoIterator for &T : `nodes = [T]; reverse; Iter{next}`), run to exhaustion. -/
def iterAll (roots : List Tree) : List Tree := iterRun (sizeL roots + 1) (iterNew roots)

/-! ## `EventIter` (any_node.rs:44-75) -/

inductive Event where
  | enter (t : Tree)
  | leave (t : Tree)
deriving Repr, Inhabited, BEq

/-- `EventIter::next` -/
def evStep (st : List Event) : Option (Event × List Event) :=
  match st.getLast? with
  | none => none
  | some (.enter x) => some (.enter x, (st.dropLast ++ [.leave x]) ++ (x.kids.map Event.enter).reverse)
  | some (.leave x) => some (.leave x, st.dropLast)

def evRun : Nat → List Event → List Event
  | 0, _ => []
  | n+1, st => match evStep st with
    | none => []
    | some (e, st') => e :: evRun n st'

/-- `Iter::event`: the pending stack turned into `Enter`s in the same (reversed) order. -/
def evNew (roots : List Tree) : List Event := (iterNew roots).map Event.enter

def evAll (roots : List Tree) : List Event := evRun (2 * sizeL roots + 1) (evNew roots)

mutual
/-- specification: Enter, the events of the children in order, Leave -/
def events : Tree → List Event
  | .leaf o l n => [.enter (.leaf o l n), .leave (.leaf o l n)]
  | .node k ks => .enter (.node k ks) :: (eventsL ks ++ [.leave (.node k ks)])
def eventsL : List Tree → List Event
  | [] => []
  | t :: ts => events t ++ eventsL ts
end

/-! ## leaves, `get_str`, `get_str_trim`, `unwrap_node!` (sv-parser/src/lib.rs) -/

mutual
def leaves : Tree → List (Nat × Nat × Nat)
  | .leaf o l n => [(o, l, n)]
  | .node _ ks => leavesL ks
def leavesL : List Tree → List (Nat × Nat × Nat)
  | [] => []
  | t :: ts => leaves t ++ leavesL ts
end

/-- the accumulator update `get_str` performs per iterated node (lib.rs:25-32): only a `Locate` counts -/
def strAcc (acc : Option Nat × Nat) (t : Tree) : Option Nat × Nat :=
  match t with
  | .leaf o l _ => (match acc.1 with | none => (some o, o + l) | some b => (some b, o + l))
  | _ => acc

/-- `SyntaxTree::get_str` as the range `(beg, end)` it slices (lib.rs:22-39), over an iteration. -/
def getStrRange (it : List Tree) : Option (Nat × Nat) :=
  match (it.foldl strAcc (none, 0)).1 with
  | none => none
  | some b => some (b, (it.foldl strAcc (none, 0)).2)

/-- `unwrap_node!(n, kinds…)`: first element of the iteration whose kind is requested.
    Kind of a leaf (`Locate`) is 0 by convention. -/
def Tree.kind : Tree → Nat
  | .leaf .. => 0
  | .node k _ => k

def unwrapNode (it : List Tree) (kinds : List Nat) : Option Tree :=
  it.find? (fun t => kinds.contains t.kind)

/-- `get_str_trim` (lib.rs:42-68): `skip` counts the `WhiteSpace` nodes currently open
    (incremented on Enter(WhiteSpace), decremented on Leave(WhiteSpace)); a `Locate` counts when it is 0.
    `wsKind` is the kind number of `WhiteSpace`. -/
structure TrimSt where
  beg : Option Nat := none
  en : Nat := 0
  skip : Nat := 0
deriving Repr, BEq, DecidableEq

def trimStep (wsKind : Nat) (s : TrimSt) : Event → TrimSt
  | .enter (.node k _) => if k = wsKind then { s with skip := s.skip + 1 } else s
  | .leave (.node k _) => if k = wsKind then { s with skip := s.skip - 1 } else s
  | .enter (.leaf o l _) =>
      if s.skip = 0 then
        { s with beg := (match s.beg with | none => some o | some b => some b), en := o + l }
      else s
  | .leave (.leaf ..) => s

def getStrTrimRange (wsKind : Nat) (evs : List Event) : Option (Nat × Nat) :=
  let s := evs.foldl (trimStep wsKind) {}
  match s.beg with
  | none => none
  | some b => some (b, s.en)

end Sv

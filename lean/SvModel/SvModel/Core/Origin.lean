/-!
# M4 — `Range` and the origin map of `PreprocessedText` (hand model of
`sv-parser-pp/src/range.rs` and `preprocess.rs:20-83`)

The `BTreeMap<Range, Origin>` is modelled as an association list kept sorted by the code's own `cmp`;
`insert` replaces the value of the first key that compares `Equal` (B-tree semantics: the old key stays),
`get` returns the value of the first key that compares `Equal` to the probe. For key sets on which `cmp`
is a consistent total order (pairwise disjoint non-empty ranges) this is exactly an ordered map; for the
degenerate keys the code can create (empty ranges) the list model is validated against the real
`BTreeMap` by the correspondence run. Import-free.
-/
namespace Sv

structure Range where
  b : Nat
  e : Nat
deriving Repr, BEq, DecidableEq, Inhabited

/-- `PartialEq for Range` (overlap-as-equality) -/
def Range.eqv (x y : Range) : Bool :=
  if x.b ≤ y.b then y.b < x.e else x.b < y.e

/-- `Ord for Range`: Equal on overlap, else by `begin` -/
def Range.cmp (x y : Range) : Ordering :=
  if x.eqv y then .eq else compare x.b y.b

def Range.offset (x : Range) (n : Nat) : Range := ⟨x.b + n, x.e + n⟩

/-- `Origin`: own range in the output + optional (path bytes, source range) -/
structure Origin where
  range : Range
  src : Option (List Nat × Range)
deriving Repr, BEq, DecidableEq, Inhabited

abbrev OMap := List (Range × Origin)

/-- insert with the code's `cmp`: walk the sorted list; on `Equal` replace the value (keep the old key) -/
def OMap.insert : OMap → Range → Origin → OMap
  | [], k, v => [(k, v)]
  | (k', v') :: rest, k, v =>
    match k.cmp k' with
    | .lt => (k, v) :: (k', v') :: rest
    | .eq => (k', v) :: rest
    | .gt => (k', v') :: OMap.insert rest k v

def OMap.get : OMap → Range → Option Origin
  | [], _ => none
  | (k', v') :: rest, k =>
    match k.cmp k' with
    | .lt => none
    | .eq => some v'
    | .gt => OMap.get rest k

/-- `PreprocessedText`: the output bytes and the origin map -/
structure POut where
  text : List Nat := []
  origins : OMap := []
deriving Repr, Inhabited

/-- `PreprocessedText::push(s, origin)` (an empty string records nothing) -/
def POut.push (t : POut) (s : List Nat) (src : Option (List Nat × Range)) : POut :=
  if s.isEmpty then t
  else
    let r : Range := ⟨t.text.length, t.text.length + s.length⟩
    { text := t.text ++ s, origins := t.origins.insert r ⟨r, src⟩ }

/-- `PreprocessedText::merge(other)`: re-base every entry of `other` (in key order) and insert it -/
def POut.merge (t : POut) (o : POut) : POut :=
  let base := t.text.length
  { text := t.text ++ o.text,
    origins := o.origins.foldl (fun m (kv : Range × Origin) =>
      m.insert (kv.1.offset base) { kv.2 with range := kv.2.range.offset base }) t.origins }

/-- `PreprocessedText::origin(pos)` -/
def POut.origin (t : POut) (pos : Nat) : Option (List Nat × Nat) :=
  match t.origins.get ⟨pos, pos + 1⟩ with
  | some o =>
    match o.src with
    | some (path, r) => some (path, pos - o.range.b + r.b)
    | none => none
  | none => none

end Sv

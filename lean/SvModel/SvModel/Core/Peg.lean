import SvModel.Core.Tree
import Std.Data.HashMap
/-!
# M1 — PEG core: deep embedding of `sv-parser-parser` and its semantics

The grammar itself (`Gen/Grammar*.lean`) is REGENERATED from the Rust source on every run by `svx`;
this file is the hand-written semantics of the embedding: nom 7 combinators, the combinators of
`utils.rs`, the `#[packrat_parser]` and `#[recursive_parser]` wrappers, and the three thread-local
cells (`IN_DIRECTIVE`, `CURRENT_VERSION`, `PACKRAT_STORAGE`).

* Text is bytes; positions are byte offsets (as in `Locate`).
* A parser's value is the forest (`List Tree`) its Rust value converts to under `RefNodes::from`.
* Thread-local effects survive backtracking: failures return the mutated state.
* Error positions follow `GreedyError::or` (keep the deeper one, first wins on ties).
-/
namespace Sv

/-! ## terminals -/

inductive Term where
  | tag (bs : List Nat)
  | tagNoCase (bs : List Nat)
  | isA (set : List Nat)
  | isNot (set : List Nat)
  | oneOf (set : List Nat)
  | noneOf (set : List Nat)
  | take (n : Nat)
  | digit1 | alpha1 | alphanumeric1 | hexDigit1 | space1 | multispace1
  | anychar
deriving Repr, Inhabited, BEq, DecidableEq

abbrev Input := ByteArray

@[inline] def byteAt (inp : Input) (i : Nat) : Option Nat :=
  if h : i < inp.size then some (inp[i]).toNat else none

def matchTag (inp : Input) : Nat → List Nat → Bool
  | _, [] => true
  | pos, b :: bs => (byteAt inp pos == some b) && matchTag inp (pos + 1) bs

def lower (b : Nat) : Nat := if 65 ≤ b ∧ b ≤ 90 then b + 32 else b

def matchTagNoCase (inp : Input) : Nat → List Nat → Bool
  | _, [] => true
  | pos, b :: bs =>
    (match byteAt inp pos with
     | some c => lower c == lower b
     | none => false) && matchTagNoCase inp (pos + 1) bs

/-- length of the longest run of bytes satisfying `p`, starting at `pos` (bounded by `fuel` = remaining size) -/
def spanLen (inp : Input) (p : Nat → Bool) : Nat → Nat → Nat
  | 0, _ => 0
  | fuel + 1, pos =>
    match byteAt inp pos with
    | some b => if p b then 1 + spanLen inp p fuel (pos + 1) else 0
    | none => 0

/-- length in bytes of the UTF-8 scalar whose lead byte is `b` -/
def utf8Len (b : Nat) : Nat :=
  if b < 0x80 then 1 else if b < 0xE0 then 2 else if b < 0xF0 then 3 else 4

/-- total byte length of `n` scalars from `pos`; `none` if the input ends first -/
def takeChars (inp : Input) : Nat → Nat → Option Nat
  | 0, _ => some 0
  | n + 1, pos =>
    match byteAt inp pos with
    | none => none
    | some b =>
      let l := utf8Len b
      if pos + l ≤ inp.size then
        match takeChars inp n (pos + l) with
        | some m => some (l + m)
        | none => none
      else none

def isDigit (b : Nat) : Bool := 48 ≤ b && b ≤ 57
def isAlpha (b : Nat) : Bool := (65 ≤ b && b ≤ 90) || (97 ≤ b && b ≤ 122)
def isHex (b : Nat) : Bool := isDigit b || (65 ≤ b && b ≤ 70) || (97 ≤ b && b ≤ 102)
def isSpace (b : Nat) : Bool := b == 32 || b == 9
def isMultispace (b : Nat) : Bool := b == 32 || b == 9 || b == 13 || b == 10

def nonZero (n : Nat) : Option Nat := if n = 0 then none else some n

/-- number of bytes a terminal consumes at `pos`, or `none` if it fails there -/
def matchTerm (inp : Input) (t : Term) (pos : Nat) : Option Nat :=
  let rest := inp.size - pos
  match t with
  | .tag bs => if matchTag inp pos bs then some bs.length else none
  | .tagNoCase bs => if matchTagNoCase inp pos bs then some bs.length else none
  | .isA set => nonZero (spanLen inp (fun b => set.contains b) rest pos)
  | .isNot set => nonZero (spanLen inp (fun b => !set.contains b) rest pos)
  | .oneOf set => match byteAt inp pos with
      | some b => if set.contains b then some 1 else none
      | none => none
  | .noneOf set => match byteAt inp pos with
      | some b => if set.contains b then none else
          (if pos + utf8Len b ≤ inp.size then some (utf8Len b) else none)
      | none => none
  | .take n => takeChars inp n pos
  | .digit1 => nonZero (spanLen inp isDigit rest pos)
  | .alpha1 => nonZero (spanLen inp isAlpha rest pos)
  | .alphanumeric1 => nonZero (spanLen inp (fun b => isDigit b || isAlpha b) rest pos)
  | .hexDigit1 => nonZero (spanLen inp isHex rest pos)
  | .space1 => nonZero (spanLen inp isSpace rest pos)
  | .multispace1 => nonZero (spanLen inp isMultispace rest pos)
  | .anychar => takeChars inp 1 pos

/-- `nom_locate` line: one plus the number of newlines before the offset -/
def countNl (inp : Input) : Nat → Nat → Nat
  | 0, _ => 0
  | n + 1, i => (if byteAt inp i == some 10 then 1 else 0) + countNl inp n (i + 1)

def lineAt (inp : Input) (off : Nat) : Nat := 1 + countNl inp off 0

/-! ## expressions, shapes, productions -/

/-- result constructor of a `let … ; Ok((s, R))` production: how the bound values are assembled -/
inductive Shape where
  | var (i : Nat)
  | tuple (ss : List Shape)
  | node (kind : Nat) (s : Shape)
  | leaf (s : Shape)
  | empty
deriving Repr, Inhabited

inductive PExpr where
  | term (t : Term)
  | eof
  | call (f : Nat)
  | seq (es : List PExpr)
  | alt (es : List PExpr)
  | opt (e : PExpr)
  | many0 (e : PExpr)
  | many1 (e : PExpr)
  | manyTill (e g : PExpr)
  | list (sep item : PExpr)
  | peek (e : PExpr)
  | not (e : PExpr)
  | drop (e : PExpr)
  | allConsuming (e : PExpr)
  | node (kind : Nat) (e : PExpr)
  | lexeme (e : PExpr)
  | identKw (e : PExpr)
  | beginDir | endDir
  | beginKw (v : Nat) | endKw
  | dirScope (e : PExpr)
  | kwScope (v : Nat) (e : PExpr)
  | kwGuard (w : List Nat)
  | ifDir (a b : PExpr)
  | nestl (first item : PExpr) (wraps : List Nat) (outer : Nat)
  | shaped (stmts : List PExpr) (res : Shape)
  | fail
deriving Repr, Inhabited

structure Prod where
  packrat : Bool
  /-- the function carries `#[packrat_parser]` twice: on a miss both wrappers insert the key (two queue entries) -/
  packrat2 : Bool := false
  recursive : Bool
  body : PExpr
deriving Repr, Inhabited

/-- version codes: index into `kwTables`; `kwDefault` is used when the stack is empty -/
structure Grammar where
  prods : Array Prod
  kwTables : Array (List (List Nat))
  kwDefault : Nat
  /-- capacity of the packrat storage (`nom_packrat::storage!(AnyNode, bool, 1024)`); fixed per thread, never changed -/
  memoCap : Option Nat := some 1024
  /-- `is_later_keyword`: the table every word is compared with (1800-2017) and the versions that are exempt -/
  kwLatest : Nat := 7
  kwNoGuard : List Nat := [7, 8]
deriving Inhabited

def Grammar.prod (g : Grammar) (f : Nat) : Prod :=
  g.prods.getD f { packrat := false, recursive := false, body := .fail }

/-! ## state -/

/-- `RecursiveInfo`: flag set (as list of production numbers) and the pointer it belongs to -/
structure Rec where
  flags : List Nat := []
  ptr : Option Nat := none
deriving Repr, Inhabited, BEq, DecidableEq

abbrev MKey := Nat × Nat × Bool
abbrev MVal := Option (List Tree × Nat)

/-- `PackratStorage`: map + FIFO key queue (front at head); the capacity is a constant of the grammar -/
structure Memo where
  keys : List MKey := []
  tbl : Std.HashMap MKey MVal := {}
deriving Inhabited

def Memo.find? (m : Memo) (k : MKey) : Option MVal := m.tbl[k]?

/-- `PackratStorage::insert` (evict the oldest key when the queue is full) -/
def Memo.insert (cap : Option Nat) (m : Memo) (k : MKey) (v : MVal) : Memo :=
  let m1 : Memo :=
    match cap with
    | some size =>
      if m.keys.length > size - 1 then
        match m.keys with
        | [] => m
        | old :: rest => { m with keys := rest, tbl := m.tbl.erase old }
      else m
    | none => m
  { m1 with keys := m1.keys ++ [k], tbl := m1.tbl.insert k v }

/-- insertion by a function that carries the packrat attribute once (`twice = false`) or twice: the inner wrapper inserts,
    then the outer wrapper inserts the same key and value again -/
def Memo.insertW (cap : Option Nat) (twice : Bool) (m : Memo) (k : MKey) (v : MVal) : Memo :=
  if twice then (m.insert cap k v).insert cap k v else m.insert cap k v

def Memo.clear (_m : Memo) : Memo := { keys := [], tbl := {} }

structure PState where
  dir : Nat := 0
  vers : List Nat := []
  memo : Memo := {}
deriving Inhabited

/-- `init()` of sv-parser-parser/src/lib.rs -/
def PState.init (st : PState) : PState := { dir := 0, vers := [], memo := st.memo.clear }

inductive Out where
  | ok (pos : Nat) (r : Rec) (ts : List Tree)
  | err (epos : Nat)
  | oof
deriving Repr, Inhabited

/-! ## helpers on forests -/

/-- `into_locate ∘ concat`: merge all leaves of a forest into one leaf (first offset and line, total length) -/
def mergeLeaves (ts : List Tree) : List Tree :=
  match leavesL ts with
  | [] => []
  | (o, l, n) :: rest => [.leaf o (rest.foldl (fun acc x => acc + x.2.1) l) n]

def evalShape (env : List (List Tree)) : Shape → List Tree
  | .var i => env.getD i []
  | .tuple ss => evalShapeL env ss
  | .node k s => [.node k (evalShape env s)]
  | .leaf s => mergeLeaves (evalShape env s)
  | .empty => []
where evalShapeL (env : List (List Tree)) : List Shape → List Tree
  | [] => []
  | s :: ss => evalShape env s ++ evalShapeL env ss

def sliceBytes (inp : Input) (off len : Nat) : List Nat :=
  (List.range len).map (fun i => (byteAt inp (off + i)).getD 0)

/-- `is_keyword`: is the text of the (single) leaf in the table selected by the top of the version stack -/
def isKeyword (g : Grammar) (inp : Input) (vers : List Nat) (ts : List Tree) : Bool :=
  match ts with
  | [.leaf o l _] =>
    let tbl := g.kwTables.getD (vers.headD g.kwDefault) []
    tbl.contains (sliceBytes inp o l)
  | _ => false

/-- `is_later_keyword(t)`: inside a `begin_keywords region of an older standard, is `w` reserved only by a later one -/
def isLaterKeyword (g : Grammar) (vers : List Nat) (w : List Nat) : Bool :=
  match vers with
  | [] => false
  | v :: _ =>
    if g.kwNoGuard.contains v then false
    else (g.kwTables.getD g.kwLatest []).contains w && !(g.kwTables.getD v []).contains w

def orErr (best : Option Nat) (ep : Nat) : Option Nat :=
  match best with
  | none => some ep
  | some b => if ep > b then some ep else some b

/-! ## the evaluator -/

mutual
def eval (g : Grammar) (inp : Input) : Nat → PExpr → Nat → Rec → PState → Out × PState
  | 0, _, _, _, st => (.oof, st)
  | fuel + 1, e, pos, r, st =>
    match e with
    | .term t =>
      match matchTerm inp t pos with
      | some n => (.ok (pos + n) r [.leaf pos n (lineAt inp pos)], st)
      | none => (.err pos, st)
    | .eof => if pos ≥ inp.size then (.ok pos r [], st) else (.err pos, st)
    | .call f => evalCall g inp fuel f pos r st
    | .seq es => evalSeq g inp fuel es pos r st
    | .alt es => evalAlt g inp fuel es pos r st none
    | .opt e =>
      match eval g inp fuel e pos r st with
      | (.ok q r' ts, st') => (.ok q r' ts, st')
      | (.err _, st') => (.ok pos r [], st')
      | (.oof, st') => (.oof, st')
    | .many0 e => evalMany0 g inp fuel e pos r st
    | .many1 e =>
      match eval g inp fuel e pos r st with
      | (.ok q r' ts, st') =>
        (match evalMany0 g inp fuel e q r' st' with
         | (.ok q' r'' ts', st'') => (.ok q' r'' (ts ++ ts'), st'')
         | (.err ep, st') => (.err ep, st')
         | (.oof, st') => (.oof, st'))
      | (.err ep, st') => (.err ep, st')
      | (.oof, st') => (.oof, st')
    | .manyTill e t => evalManyTill g inp fuel e t pos r st
    | .list sep item =>
      match eval g inp fuel item pos r st with
      | (.ok q r' ts, st') =>
        (match evalList g inp fuel sep item q r' st' with
         | (.ok q' r'' ts', st'') => (.ok q' r'' (ts ++ ts'), st'')
         | (.err ep, st') => (.err ep, st')
         | (.oof, st') => (.oof, st'))
      | (.err ep, st') => (.err ep, st')
      | (.oof, st') => (.oof, st')
    | .peek e =>
      match eval g inp fuel e pos r st with
      | (.ok _ _ ts, st') => (.ok pos r ts, st')
      | (.err ep, st') => (.err ep, st')
      | (.oof, st') => (.oof, st')
    | .not e =>
      match eval g inp fuel e pos r st with
      | (.ok _ _ _, st') => (.err pos, st')
      | (.err _, st') => (.ok pos r [], st')
      | (.oof, st') => (.oof, st')
    | .drop e =>
      match eval g inp fuel e pos r st with
      | (.ok q r' _, st') => (.ok q r' [], st')
      | (.err ep, st') => (.err ep, st')
      | (.oof, st') => (.oof, st')
    | .allConsuming e =>
      match eval g inp fuel e pos r st with
      | (.ok q r' ts, st') => if q ≥ inp.size then (.ok q r' ts, st') else (.err q, st')
      | (.err ep, st') => (.err ep, st')
      | (.oof, st') => (.oof, st')
    | .node k e =>
      match eval g inp fuel e pos r st with
      | (.ok q r' ts, st') => (.ok q r' [.node k ts], st')
      | (.err ep, st') => (.err ep, st')
      | (.oof, st') => (.oof, st')
    | .lexeme e =>
      match eval g inp fuel e pos r st with
      | (.ok q r' ts, st') => (.ok q r' (mergeLeaves ts), st')
      | (.err ep, st') => (.err ep, st')
      | (.oof, st') => (.oof, st')
    | .identKw e =>
      match eval g inp fuel e pos r st with
      | (.ok q r' ts, st') =>
        if isKeyword g inp st'.vers (mergeLeaves ts) then (.err q, st')
        else (.ok q r' (mergeLeaves ts), st')
      | (.err ep, st') => (.err ep, st')
      | (.oof, st') => (.oof, st')
    | .beginDir => (.ok pos r [], { st with dir := st.dir + 1 })
    | .endDir => (.ok pos r [], { st with dir := st.dir - 1 })
    | .beginKw v => (.ok pos r [], { st with vers := v :: st.vers })
    | .endKw => (.ok pos r [], { st with vers := st.vers.tail })
    | .dirScope e =>
      match eval g inp fuel e pos r { st with dir := st.dir + 1 } with
      | (o, st') => (o, { st' with dir := st'.dir - 1 })
    | .kwScope v e =>
      match eval g inp fuel e pos r { st with vers := v :: st.vers } with
      | (o, st') => (o, { st' with vers := st'.vers.tail })
    | .kwGuard w => if isLaterKeyword g st.vers w then (.err pos, st) else (.ok pos r [], st)
    | .ifDir a b => if st.dir > 0 then eval g inp fuel a pos r st else eval g inp fuel b pos r st
    | .nestl first item wraps outer =>
      match eval g inp fuel first pos r st with
      | (.ok q r' ts, st') => evalNest g inp fuel item wraps outer q r' st' ts
      | (.err ep, st') => (.err ep, st')
      | (.oof, st') => (.oof, st')
    | .shaped stmts res =>
      match evalStmts g inp fuel stmts pos r st with
      | ((.ok q r' _, st'), env) => (.ok q r' (evalShape env res), st')
      | ((.err ep, st'), _) => (.err ep, st')
      | ((.oof, st'), _) => (.oof, st')
    | .fail => (.err pos, st)

def evalSeq (g : Grammar) (inp : Input) : Nat → List PExpr → Nat → Rec → PState → Out × PState
  | 0, _, _, _, st => (.oof, st)
  | _ + 1, [], pos, r, st => (.ok pos r [], st)
  | fuel + 1, e :: es, pos, r, st =>
    match eval g inp fuel e pos r st with
    | (.ok q r' ts, st') =>
      (match evalSeq g inp fuel es q r' st' with
       | (.ok q' r'' ts', st'') => (.ok q' r'' (ts ++ ts'), st'')
       | (.err ep, st') => (.err ep, st')
       | (.oof, st') => (.oof, st'))
    | (.err ep, st') => (.err ep, st')
    | (.oof, st') => (.oof, st')

def evalAlt (g : Grammar) (inp : Input) :
    Nat → List PExpr → Nat → Rec → PState → Option Nat → Out × PState
  | 0, _, _, _, st, _ => (.oof, st)
  | _ + 1, [], pos, _, st, best => (.err (best.getD pos), st)
  | fuel + 1, e :: es, pos, r, st, best =>
    match eval g inp fuel e pos r st with
    | (.ok q r' ts, st') => (.ok q r' ts, st')
    | (.err ep, st') => evalAlt g inp fuel es pos r st' (orErr best ep)
    | (.oof, st') => (.oof, st')

/-- nom `many0`: stop at the first failure; a success that consumes nothing is an error -/
def evalMany0 (g : Grammar) (inp : Input) : Nat → PExpr → Nat → Rec → PState → Out × PState
  | 0, _, _, _, st => (.oof, st)
  | fuel + 1, e, pos, r, st =>
    match eval g inp fuel e pos r st with
    | (.ok q r' ts, st') =>
      if q = pos then (.err pos, st')
      else
        (match evalMany0 g inp fuel e q r' st' with
         | (.ok q' r'' ts', st'') => (.ok q' r'' (ts ++ ts'), st'')
         | (.err ep, st') => (.err ep, st')
         | (.oof, st') => (.oof, st'))
    | (.err _, st') => (.ok pos r [], st')
    | (.oof, st') => (.oof, st')

/-- nom `many_till(e, t)`: try `t` first; else `e` (which must consume), repeat -/
def evalManyTill (g : Grammar) (inp : Input) :
    Nat → PExpr → PExpr → Nat → Rec → PState → Out × PState
  | 0, _, _, _, _, st => (.oof, st)
  | fuel + 1, e, t, pos, r, st =>
    match eval g inp fuel t pos r st with
    | (.ok q r' ts, st') => (.ok q r' ts, st')
    | (.oof, st') => (.oof, st')
    | (.err _, st') =>
      match eval g inp fuel e pos r st' with
      | (.ok q r' ts, st'') =>
        if q = pos then (.err q, st'')
        else
          (match evalManyTill g inp fuel e t q r' st'' with
           | (.ok q' r'' ts', st3) => (.ok q' r'' (ts ++ ts'), st3)
           | (.err ep, st') => (.err ep, st')
           | (.oof, st') => (.oof, st'))
      | (.err ep, st') => (.err ep, st')
      | (.oof, st') => (.oof, st')

/-- the loop of `utils::list`: `while let Ok(b) = sep { if let Ok(c) = item { push } else break }` -/
def evalList (g : Grammar) (inp : Input) :
    Nat → PExpr → PExpr → Nat → Rec → PState → Out × PState
  | 0, _, _, _, _, st => (.oof, st)
  | fuel + 1, sep, item, pos, r, st =>
    match eval g inp fuel sep pos r st with
    | (.ok q r' ts, st') =>
      (match eval g inp fuel item q r' st' with
       | (.ok q2 r2 ts2, st2) =>
         (match evalList g inp fuel sep item q2 r2 st2 with
          | (.ok q3 r3 ts3, st3) => (.ok q3 r3 (ts ++ ts2 ++ ts3), st3)
          | (.err ep, st') => (.err ep, st')
          | (.oof, st') => (.oof, st'))
       | (.err _, st2) => (.ok pos r [], st2)
       | (.oof, st2) => (.oof, st2))
    | (.err _, st') => (.ok pos r [], st')
    | (.oof, st') => (.oof, st')

/-- `method_call`: `many0(item)` folded to the left, each step wrapping the accumulated value:
    acc' = outer(wraps(acc) ++ item) -/
def evalNest (g : Grammar) (inp : Input) :
    Nat → PExpr → List Nat → Nat → Nat → Rec → PState → List Tree → Out × PState
  | 0, _, _, _, _, _, st, _ => (.oof, st)
  | fuel + 1, item, wraps, outer, pos, r, st, acc =>
    match eval g inp fuel item pos r st with
    | (.ok q r' ts, st') =>
      if q = pos then (.err pos, st')
      else evalNest g inp fuel item wraps outer q r' st'
             [.node outer (wraps.foldl (fun a k => [Tree.node k a]) acc ++ ts)]
    | (.err _, st') => (.ok pos r acc, st')
    | (.oof, st') => (.oof, st')

/-- statements of a `let (s, x) = P(s)?; …` production: each contributes one environment slot (in order) -/
def evalStmts (g : Grammar) (inp : Input) :
    Nat → List PExpr → Nat → Rec → PState → (Out × PState) × List (List Tree)
  | 0, _, _, _, st => ((.oof, st), [])
  | _ + 1, [], pos, r, st => ((.ok pos r [], st), [])
  | fuel + 1, e :: es, pos, r, st =>
    match eval g inp fuel e pos r st with
    | (.ok q r' ts, st') =>
      (match evalStmts g inp fuel es q r' st' with
       | (x, env) => (x, ts :: env))
    | (.err ep, st') => ((.err ep, st'), [])
    | (.oof, st') => ((.oof, st'), [])

/-- a production call: `#[packrat_parser]` (once or twice) outermost, `#[recursive_parser]` inside it -/
def evalCall (g : Grammar) (inp : Input) : Nat → Nat → Nat → Rec → PState → Out × PState
  | 0, _, _, _, st => (.oof, st)
  | fuel + 1, f, pos, r, st =>
    let p := g.prod f
    let hit : Option MVal := if p.packrat then st.memo.find? (f, pos, decide (st.dir > 0)) else none
    match hit with
    | some (some (ts, len)) => (.ok (pos + len) r ts, st)
    | some none => (.err pos, st)
    | none =>
      let run : Out × PState :=
        if p.recursive then
          let r1 : Rec := if r.ptr = some pos then r else { flags := [], ptr := some pos }
          if r1.flags.contains f then (.err pos, st)
          else eval g inp fuel p.body pos { r1 with flags := f :: r1.flags } st
        else eval g inp fuel p.body pos r st
      if p.packrat then
        match run with
        | (.ok q r' ts, st') =>
          (.ok q r' ts, { st' with memo := st'.memo.insertW g.memoCap p.packrat2 (f, pos, decide (st'.dir > 0)) (some (ts, q - pos)) })
        | (.err ep, st') =>
          (.err ep, { st' with memo := st'.memo.insertW g.memoCap p.packrat2 (f, pos, decide (st'.dir > 0)) none })
        | (.oof, st') => (.oof, st')
      else run
end

/-- run a start production on a whole input after `init()`; generous fuel -/
def parseWith (g : Grammar) (inp : Input) (start : Nat) (st : PState) (fuel : Nat) : Out × PState :=
  eval g inp fuel (.call start) 0 {} st.init

end Sv

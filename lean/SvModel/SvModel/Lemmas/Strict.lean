import SvModel.Core.Peg
/-!
Expressions that can only succeed at the end of the input (`many_till(_, eof)`, `all_consuming`):
a syntactic predicate `Strict` and the theorem that a success of such an expression ends at or after
`inp.size`. Used for the strict entry points (C01, C15).
-/
namespace Sv

mutual
def Strict : PExpr → Bool
  | .eof => true
  | .drop e => Strict e
  | .allConsuming _ => true
  | .manyTill _ t => Strict t
  | .seq es => StrictLast es
  | .shaped stmts _ => StrictLast stmts
  | .node _ e => Strict e
  | _ => false
/-- the last element is `Strict` -/
def StrictLast : List PExpr → Bool
  | [] => false
  | [e] => Strict e
  | _ :: e :: es => StrictLast (e :: es)
end

def EndsO (inp : Input) : Out → Prop
  | .ok q _ _ => inp.size ≤ q
  | _ => True

structure StrictSpec (g : Grammar) (inp : Input) (fuel : Nat) : Prop where
  eval : ∀ e pos r st, Strict e = true → EndsO inp (eval g inp fuel e pos r st).1
  seq : ∀ es pos r st, StrictLast es = true → EndsO inp (evalSeq g inp fuel es pos r st).1
  manyTill : ∀ e t pos r st, Strict t = true → EndsO inp (evalManyTill g inp fuel e t pos r st).1
  stmts : ∀ es pos r st, StrictLast es = true → EndsO inp (evalStmts g inp fuel es pos r st).1.1

theorem strictSpec (g : Grammar) (inp : Input) : ∀ fuel, StrictSpec g inp fuel := by
  intro fuel
  induction fuel with
  | zero =>
    exact ⟨fun _ _ _ _ _ => by simp [eval, EndsO], fun _ _ _ _ _ => by simp [evalSeq, EndsO],
      fun _ _ _ _ _ _ => by simp [evalManyTill, EndsO], fun _ _ _ _ _ => by simp [evalStmts, EndsO]⟩
  | succ n ih =>
    refine ⟨?_, ?_, ?_, ?_⟩
    · intro e pos r st hs
      cases e <;> simp [Strict] at hs
      case eof => simp only [eval]; split <;> simp_all [EndsO]
      case drop e =>
        simp only [eval]
        have := ih.eval e pos r st hs
        split <;> simp_all [EndsO]
      case allConsuming e =>
        simp only [eval]
        split
        · split <;> simp_all [EndsO]
        · simp [EndsO]
        · simp [EndsO]
      case manyTill e t => simp only [eval]; exact ih.manyTill e t pos r st hs
      case seq es => simp only [eval]; exact ih.seq es pos r st hs
      case shaped stmts res =>
        simp only [eval]
        have := ih.stmts stmts pos r st hs
        split <;> simp_all [EndsO]
      case node k e =>
        simp only [eval]
        have := ih.eval e pos r st hs
        split <;> simp_all [EndsO]
    · intro es pos r st hs
      match es, hs with
      | [e], hs =>
        simp only [StrictLast] at hs
        simp only [evalSeq]
        have h1 := ih.eval e pos r st hs
        split
        · rename_i q r' ts st' heq
          rw [heq] at h1
          cases n with
          | zero => simp [evalSeq, EndsO]
          | succ m => simpa [evalSeq, EndsO] using h1
        · simp [EndsO]
        · simp [EndsO]
      | e :: e2 :: es, hs =>
        simp only [StrictLast] at hs
        simp only [evalSeq]
        split
        · rename_i q r' ts st' heq
          have h2 := ih.seq (e2 :: es) q r' st' hs
          split <;> simp_all [EndsO]
        · simp [EndsO]
        · simp [EndsO]
    · intro e t pos r st hs
      simp only [evalManyTill]
      have h1 := ih.eval t pos r st hs
      split
      · rename_i q r' ts st' heq; rw [heq] at h1; exact h1
      · simp [EndsO]
      · rename_i ep st' heq
        split
        · rename_i q r' ts st'' heq2
          split
          · simp [EndsO]
          · have h3 := ih.manyTill e t q r' st'' hs
            split <;> simp_all [EndsO]
        · simp [EndsO]
        · simp [EndsO]
    · intro es pos r st hs
      match es, hs with
      | [e], hs =>
        simp only [StrictLast] at hs
        simp only [evalStmts]
        have h1 := ih.eval e pos r st hs
        split
        · rename_i q r' ts st' heq
          rw [heq] at h1
          cases n with
          | zero => simp [evalStmts, EndsO]
          | succ m => simpa [evalStmts, EndsO] using h1
        · simp [EndsO]
        · simp [EndsO]
      | e :: e2 :: es, hs =>
        simp only [StrictLast] at hs
        simp only [evalStmts]
        split
        · rename_i q r' ts st' heq
          exact ih.stmts (e2 :: es) q r' st' hs
        · simp [EndsO]
        · simp [EndsO]

end Sv

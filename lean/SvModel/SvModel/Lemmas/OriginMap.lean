import SvModel.Core.Origin
/-!
Theorems about the origin map (M4): on key lists that tile `[a, n)` with non-empty ranges, the code's
overlap-as-equality `cmp` behaves as a total order, `get` of a one-byte probe finds exactly the segment
containing the position, `push` of a non-empty string and `merge` preserve the tiling.
-/
namespace Sv

/-- keys are sorted, contiguous from `a` to `n`, non-empty, and every value records its own key as range -/
def TiledFrom : Nat → OMap → Nat → Prop
  | a, [], n => a = n
  | a, (k, v) :: rest, n => k.b = a ∧ k.b < k.e ∧ v.range = k ∧ TiledFrom k.e rest n

theorem TiledFrom.le {a n : Nat} {m : OMap} (h : TiledFrom a m n) : a ≤ n := by
  induction m generalizing a with
  | nil => simp [TiledFrom] at h; omega
  | cons x xs ih =>
    obtain ⟨k, v⟩ := x
    simp only [TiledFrom] at h
    have := ih h.2.2.2
    omega

theorem cmp_probe_lt {k : Range} {pos : Nat} (h1 : pos < k.b) (_h2 : k.b < k.e) :
    (⟨pos, pos + 1⟩ : Range).cmp k = .lt := by
  unfold Range.cmp Range.eqv
  have : ¬ (k.b < pos + 1) := by omega
  have h3 : pos ≤ k.b := by omega
  simp [h3, this]
  rw [Nat.compare_eq_lt]; exact h1

theorem cmp_probe_eq {k : Range} {pos : Nat} (h1 : k.b ≤ pos) (h2 : pos < k.e) :
    (⟨pos, pos + 1⟩ : Range).cmp k = .eq := by
  unfold Range.cmp Range.eqv
  by_cases h : pos ≤ k.b
  · have : k.b < pos + 1 := by omega
    simp [h, this]
  · simp [h, h2]

theorem cmp_probe_gt {k : Range} {pos : Nat} (h1 : k.e ≤ pos) (h2 : k.b < k.e) :
    (⟨pos, pos + 1⟩ : Range).cmp k = .gt := by
  unfold Range.cmp Range.eqv
  have h3 : ¬ (pos ≤ k.b) := by omega
  have h4 : ¬ (pos < k.e) := by omega
  simp [h3, h4]
  rw [Nat.compare_eq_gt]; omega

/-- **origin lookup**: on a tiling key list the one-byte probe at `pos` returns the unique segment that
    contains `pos`. -/
theorem get_tiled : ∀ (m : OMap) (a n pos : Nat), TiledFrom a m n → a ≤ pos → pos < n →
    ∃ k v, (k, v) ∈ m ∧ k.b ≤ pos ∧ pos < k.e ∧ v.range = k ∧ m.get ⟨pos, pos + 1⟩ = some v := by
  intro m
  induction m with
  | nil => intro a n pos h h1 h2; simp [TiledFrom] at h; omega
  | cons x xs ih =>
    intro a n pos h h1 h2
    obtain ⟨k, v⟩ := x
    simp only [TiledFrom] at h
    obtain ⟨hb, hne, hv, hr⟩ := h
    by_cases hin : pos < k.e
    · refine ⟨k, v, by simp, by omega, hin, hv, ?_⟩
      simp [OMap.get, cmp_probe_eq (by omega : k.b ≤ pos) hin]
    · obtain ⟨k', v', hm, h3, h4, h5, h6⟩ := ih k.e n pos hr (by omega) h2
      refine ⟨k', v', by simp [hm], h3, h4, h5, ?_⟩
      simp [OMap.get, cmp_probe_gt (by omega : k.e ≤ pos) hne, h6]

/-- inserting the next non-empty range at the end of a tiling list appends it -/
theorem insert_end : ∀ (m : OMap) (a n e : Nat) (v : Origin), TiledFrom a m n → n < e → v.range = ⟨n, e⟩ →
    TiledFrom a (m.insert ⟨n, e⟩ v) e := by
  intro m
  induction m with
  | nil =>
    intro a n e v h h1 hv
    simp [TiledFrom] at h
    subst h
    simp [OMap.insert, TiledFrom, h1, hv]
  | cons x xs ih =>
    intro a n e v h h1 hv
    obtain ⟨k, v0⟩ := x
    simp only [TiledFrom] at h
    obtain ⟨hb, hne, hv0, hr⟩ := h
    have hle := hr.le
    have hgt : (⟨n, e⟩ : Range).cmp k = .gt := by
      unfold Range.cmp Range.eqv
      have h3 : ¬ (n ≤ k.b) := by omega
      have h4 : ¬ (n < k.e) := by omega
      simp [h3, h4]
      rw [Nat.compare_eq_gt]; omega
    simp only [OMap.insert, hgt, TiledFrom]
    exact ⟨hb, hne, hv0, ih k.e n e v hr h1 hv⟩

/-- the output text and the origin map agree: the keys tile `[0, |text|)` -/
def POut.Tiled (t : POut) : Prop := TiledFrom 0 t.origins t.text.length

theorem tiled_empty : ({} : POut).Tiled := by simp [POut.Tiled, TiledFrom]

/-- `push` preserves the tiling (for every string, empty or not) -/
theorem push_tiled (t : POut) (s : List Nat) (src : Option (List Nat × Range)) (h : t.Tiled) :
    (t.push s src).Tiled := by
  unfold POut.push
  split
  · exact h
  · rename_i hs
    unfold POut.Tiled
    simp only [List.length_append]
    apply insert_end _ _ _ _ _ h
    · have : s ≠ [] := by simpa using hs
      have : 0 < s.length := List.length_pos_iff.mpr this
      omega
    · rfl

/-- every position of a tiled output has exactly the origin recorded for the segment that contains it:
    `origin pos = (path, pos - seg.begin + src.begin)`, or none when the segment has no source -/
theorem origin_tiled (t : POut) (h : t.Tiled) (pos : Nat) (hp : pos < t.text.length) :
    ∃ k v, (k, v) ∈ t.origins ∧ k.b ≤ pos ∧ pos < k.e ∧
      t.origin pos = (match v.src with | some (p, r) => some (p, pos - k.b + r.b) | none => none) := by
  obtain ⟨k, v, hm, h1, h2, h3, h4⟩ := get_tiled t.origins 0 t.text.length pos h (Nat.zero_le _) hp
  refine ⟨k, v, hm, h1, h2, ?_⟩
  unfold POut.origin
  rw [h4]
  simp only
  cases hsrc : v.src with
  | none => rfl
  | some x => obtain ⟨p, r⟩ := x; simp [h3]

/-- re-basing a tiling list by `base` gives a list tiling `[a + base, n + base)` -/
theorem foldl_insert_tiled : ∀ (o : OMap) (m : OMap) (a0 a n base : Nat), TiledFrom a0 m (a + base) →
    TiledFrom a o n →
    TiledFrom a0 (o.foldl (fun m (kv : Range × Origin) =>
      m.insert (kv.1.offset base) { kv.2 with range := kv.2.range.offset base }) m) (n + base) := by
  intro o
  induction o with
  | nil => intro m a0 a n base h1 h2; simp [TiledFrom] at h2; subst h2; simpa using h1
  | cons x xs ih =>
    intro m a0 a n base h1 h2
    obtain ⟨k, v⟩ := x
    simp only [TiledFrom] at h2
    obtain ⟨hb, hne, hv, hr⟩ := h2
    simp only [List.foldl_cons]
    apply ih _ a0 k.e n base _ hr
    have : (k.offset base) = ⟨a + base, k.e + base⟩ := by simp [Range.offset, hb]
    rw [this]
    apply insert_end m a0 (a + base) (k.e + base) _ h1 (by omega)
    simp [hv, Range.offset, hb]

/-- `merge` preserves the tiling -/
theorem merge_tiled (t o : POut) (ht : t.Tiled) (ho : o.Tiled) : (t.merge o).Tiled := by
  unfold POut.Tiled POut.merge
  simp only [List.length_append]
  have := foldl_insert_tiled o.origins t.origins 0 0 o.text.length t.text.length (by simpa [POut.Tiled] using ht) ho
  rw [Nat.add_comm]
  exact this

end Sv

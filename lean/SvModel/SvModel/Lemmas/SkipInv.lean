import SvModel.Lemmas.TreeEq
import SvModel.Lemmas.TileDefs
import SvModel.Lemmas.Walker
import SvModel.Lemmas.Strip
/-!
# The skip list never holds a node together with one of its descendants (C04)

Structural facts about tiled forests (`Chain`): all leaves are different, hence two sub-trees at different places of a tiled forest that
carry a token are different values — so the structural comparison the skip list uses (`SkipNodes::contains`) identifies occurrences.
-/
namespace Sv

def leafy (t : Tree) : Prop := leaves t ≠ []

mutual
theorem leaves_of_mem_pre : ∀ (t d : Tree), d ∈ pre t → ∀ x ∈ leaves d, x ∈ leaves t
  | .leaf o l n, d, hd, x, hx => by
    simp only [pre, List.mem_singleton] at hd; subst hd; exact hx
  | .node k ks, d, hd, x, hx => by
    simp only [pre, List.mem_cons] at hd
    rcases hd with rfl | hd
    · exact hx
    · simp only [leaves]; exact leaves_of_mem_preL ks d hd x hx
theorem leaves_of_mem_preL : ∀ (ts : List Tree) (d : Tree), d ∈ preL ts → ∀ x ∈ leaves d, x ∈ leavesL ts
  | [], d, hd, _, _ => by simp [preL] at hd
  | t :: ts, d, hd, x, hx => by
    simp only [preL, List.mem_append] at hd
    simp only [leavesL, List.mem_append]
    rcases hd with hd | hd
    · exact .inl (leaves_of_mem_pre t d hd x hx)
    · exact .inr (leaves_of_mem_preL ts d hd x hx)
end

mutual
theorem size_of_mem_pre : ∀ (t d : Tree), d ∈ pre t → size d ≤ size t
  | .leaf o l n, d, hd => by simp only [pre, List.mem_singleton] at hd; subst hd; exact Nat.le_refl _
  | .node k ks, d, hd => by
    simp only [pre, List.mem_cons] at hd
    rcases hd with rfl | hd
    · exact Nat.le_refl _
    · have := size_of_mem_preL ks d hd; simp only [size]; omega
theorem size_of_mem_preL : ∀ (ts : List Tree) (d : Tree), d ∈ preL ts → size d ≤ sizeL ts
  | [], d, hd => by simp [preL] at hd
  | t :: ts, d, hd => by
    simp only [preL, List.mem_append] at hd
    simp only [sizeL]
    rcases hd with hd | hd
    · have := size_of_mem_pre t d hd; omega
    · have := size_of_mem_preL ts d hd; omega
end

/-- a proper descendant is a different value -/
theorem ne_of_mem_preL_kids (t d : Tree) (hd : d ∈ preL t.kids) : d ≠ t := by
  intro h; subst h
  have := size_of_mem_preL _ _ hd
  rw [size_kids d] at this; omega

theorem chain_ge {inp : Input} : ∀ (ls : List (Nat × Nat × Nat)) (p q : Nat), Chain inp p ls q → ∀ x ∈ ls, p ≤ x.1
  | [], _, _, _, x, hx => by simp at hx
  | (o, l, n) :: rest, p, q, h, x, hx => by
    simp only [Chain] at h
    simp only [List.mem_cons] at hx
    rcases hx with rfl | hx
    · omega
    · have := chain_ge rest (p + l) q h.2.2.2.2 x hx; omega

/-- the leaves of a tiled forest are pairwise different -/
theorem chain_nodup {inp : Input} : ∀ (ls : List (Nat × Nat × Nat)) (p q : Nat), Chain inp p ls q → ls.Nodup
  | [], _, _, _ => List.nodup_nil
  | (o, l, n) :: rest, p, q, h => by
    simp only [Chain] at h
    refine List.nodup_cons.mpr ⟨?_, chain_nodup rest (p + l) q h.2.2.2.2⟩
    intro hm
    have := chain_ge rest (p + l) q h.2.2.2.2 _ hm
    simp at this; omega

/-- in a forest whose leaves are pairwise different, a token-carrying sub-tree of one top-level tree is not a sub-tree of the others -/
theorem not_mem_preL_of_mem_pre (t : Tree) (rest : List Tree) (hn : (leaves t ++ leavesL rest).Nodup) (d : Tree)
    (hd : d ∈ pre t) (hl : leafy d) : d ∉ preL rest := by
  intro h2
  obtain ⟨x, hx⟩ := List.exists_mem_of_ne_nil _ hl
  have h1 := leaves_of_mem_pre t d hd x hx
  have h3 := leaves_of_mem_preL rest d h2 x hx
  exact (List.nodup_append.mp hn).2.2 x h1 x h3 rfl

theorem nodup_kids {t : Tree} (h : (leaves t).Nodup) : (leavesL t.kids).Nodup := by
  cases t with
  | leaf o l n => simp [Tree.kids, leavesL]
  | node k ks => simpa [leaves, Tree.kids] using h

end Sv

namespace Sv

/-! ### what the skip-list helpers do to the list -/

theorem mem_skipPush (w : WState) (t n : Tree) : n ∈ (w.skipPush t).skipNodes ↔ n ∈ w.skipNodes ∨ (n = t ∧ leafy t) := by
  unfold WState.skipPush leafy
  split
  · rename_i h; simp only [List.isEmpty_iff] at h; simp [h]
  · rename_i h; simp only [List.isEmpty_iff] at h; simp [h]

theorem mem_skipPushAll (w : WState) (ts : List Tree) (n : Tree) :
    n ∈ (skipPushAll w ts).skipNodes ↔ n ∈ w.skipNodes ∨ (n ∈ ts ∧ leafy n) := by
  unfold skipPushAll
  induction ts generalizing w with
  | nil => simp
  | cons t ts ih =>
    rw [List.foldl_cons, ih, mem_skipPush]
    constructor
    · rintro ((h | ⟨rfl, hl⟩) | ⟨h, hl⟩)
      · exact .inl h
      · exact .inr ⟨by simp, hl⟩
      · exact .inr ⟨by simp [h], hl⟩
    · rintro (h | ⟨h, hl⟩)
      · exact .inl (.inl h)
      · simp only [List.mem_cons] at h
        rcases h with rfl | h
        · exact .inl (.inr ⟨rfl, hl⟩)
        · exact .inr ⟨h, hl⟩

theorem skipPush_fields (w : WState) (t : Tree) :
    (w.skipPush t).skip = w.skip ∧ (w.skipPush t).skipWs = w.skipWs ∧ (w.skipPush t).defines = w.defines ∧
    (w.skipPush t).lastItemLine = w.lastItemLine ∧ (w.skipPush t).lastIncludeLine = w.lastIncludeLine ∧ (w.skipPush t).out = w.out := by
  unfold WState.skipPush; split <;> simp

theorem skipPushAll_skip (w : WState) (ts : List Tree) : (skipPushAll w ts).skip = w.skip := by
  unfold skipPushAll
  induction ts generalizing w with
  | nil => rfl
  | cons t ts ih => rw [List.foldl_cons, ih, (skipPush_fields w t).1]

/-! ### the pieces of a conditional are children of the directive node -/

theorem elsifs_mem (K : PpKinds) : ∀ (fuel : Nat) (r : List Tree) (acc : List (Tree × Tree × Tree)),
    (∀ e ∈ (splitCond.elsifs K fuel r acc).1, e ∈ acc ∨ (e.1 ∈ r ∧ e.2.1 ∈ r ∧ e.2.2 ∈ r)) ∧
    (∀ y ∈ (splitCond.elsifs K fuel r acc).2, y ∈ r) := by
  intro fuel
  induction fuel with
  | zero => intro r acc; unfold splitCond.elsifs; exact ⟨fun e he => .inl he, fun y hy => hy⟩
  | succ n ih =>
    intro r acc
    rcases r with _ | ⟨s, _ | ⟨k, _ | ⟨id, _ | ⟨body, r2⟩⟩⟩⟩
    · unfold splitCond.elsifs; exact ⟨fun e he => .inl he, fun y hy => hy⟩
    · unfold splitCond.elsifs; exact ⟨fun e he => .inl he, fun y hy => hy⟩
    · unfold splitCond.elsifs; exact ⟨fun e he => .inl he, fun y hy => hy⟩
    · unfold splitCond.elsifs; exact ⟨fun e he => .inl he, fun y hy => hy⟩
    · unfold splitCond.elsifs
      split
      · obtain ⟨h1, h2⟩ := ih r2 (acc ++ [(k, id, body)])
        constructor
        · intro e he
          rcases h1 e he with h | ⟨a, b, c⟩
          · simp only [List.mem_append, List.mem_singleton] at h
            rcases h with h | rfl
            · exact .inl h
            · exact .inr ⟨by simp, by simp, by simp⟩
          · exact .inr ⟨by simp [a], by simp [b], by simp [c]⟩
        · intro y hy; have := h2 y hy; simp [this]
      · exact ⟨fun e he => .inl he, fun y hy => hy⟩

/-- every node the conditional arm puts on the skip list is a child of the `ifdef / `ifndef node -/
theorem condSkipNodes_sub_kids (K : PpKinds) (kids : List Tree) (kw ifid ifbody : Tree) (elsifs : List (Tree × Tree × Tree))
    (els : Option (Tree × Tree)) (plan : Bool × List Bool × Bool)
    (h : splitCond K kids = some (kw, ifid, ifbody, elsifs, els)) :
    ∀ n ∈ condSkipNodes kw ifid ifbody elsifs els plan, n ∈ kids := by
  unfold splitCond at h
  split at h
  · rename_i sym kw' ifid' ifbody' rest
    have hE := elsifs_mem K rest.length rest []
    generalize splitCond.elsifs K rest.length rest [] = pr at h hE
    obtain ⟨es, r3⟩ := pr
    dsimp only at h
    simp only [Option.some.injEq] at h
    cases h
    intro n hn
    unfold condSkipNodes at hn
    simp only [List.mem_append, List.mem_cons, List.mem_flatMap] at hn
    rcases hn with ((hn | hn) | hn) | hn
    · rcases hn with rfl | rfl | hn
      · simp
      · simp
      · simp at hn
    · split at hn
      · simp only [List.mem_singleton] at hn; subst hn; simp
      · simp at hn
    · obtain ⟨e, hez, hne⟩ := hn
      have hmem : e.1 ∈ elsifs := (List.of_mem_zip hez).1
      rcases hE.1 e.1 hmem with h0 | ⟨a, b, c⟩
      · simp at h0
      · simp only [List.mem_append, List.mem_cons, List.not_mem_nil, or_false] at hne
        rcases hne with (rfl | rfl) | hne
        · simp [a]
        · simp [b]
        · split at hne
          · simp only [List.mem_singleton] at hne; subst hne; simp [c]
          · simp at hne
    · have h2 := hE.2
      dsimp only at h2
      split at hn
      · rename_i k body heq
        split at heq
        · split at heq
          · cases heq
            simp only [List.mem_append, List.mem_singleton] at hn
            rcases hn with rfl | hn
            · have := h2 n (by simp); simp [this]
            · split at hn
              · simp only [List.mem_singleton] at hn; subst hn
                have := h2 n (by simp); simp [this]
              · simp at hn
          · simp at heq
        · simp at heq
      · simp at hn
  · simp at h

end Sv

namespace Sv

theorem self_mem_pre (t : Tree) : t ∈ pre t := by rw [pre_kids]; simp

theorem mem_preL_of_mem_pre {ts : List Tree} {t d : Tree} (ht : t ∈ ts) (hd : d ∈ pre t) : d ∈ preL ts := by
  obtain ⟨a, b, rfl⟩ := List.append_of_mem ht
  rw [preL_append]; simp only [preL, List.mem_append]; exact .inr (.inl hd)

theorem mem_pre_of_mem_preL_kids {t d : Tree} (hd : d ∈ preL t.kids) : d ∈ pre t := by
  rw [pre_kids]; exact List.mem_cons_of_mem _ hd

/-- **right after the conditional arm, no proper descendant of a child of the directive node is on the skip list** — the hypothesis of
    `C04_dead_branch_inert` for every keyword, name and body the arm has just listed. Hypotheses: the leaves of the directive node are pairwise
    different (true of every sub-tree of a parse: `chain_nodup`) and no node of the directive was on the list before. -/
theorem cond_arm_hd (K : PpKinds) (x : Tree) (w : WState) (kw ifid ifbody : Tree) (elsifs : List (Tree × Tree × Tree))
    (els : Option (Tree × Tree)) (plan : Bool × List Bool × Bool)
    (hn : (leaves x).Nodup) (hfresh : ∀ d ∈ pre x, d ∉ w.skipNodes)
    (hs : splitCond K x.kids = some (kw, ifid, ifbody, elsifs, els))
    (t : Tree) (ht : t ∈ x.kids) :
    ∀ d ∈ preL t.kids, (skipPushAll w (condSkipNodes kw ifid ifbody elsifs els plan)).skipNodes.contains d = false := by
  intro d hd
  rw [Bool.eq_false_iff]
  intro hc
  rw [contains_iff_mem, mem_skipPushAll] at hc
  have hdt : d ∈ pre t := mem_pre_of_mem_preL_kids hd
  have hdx : d ∈ pre x := mem_pre_of_mem_preL_kids (mem_preL_of_mem_pre ht hdt)
  rcases hc with hc | ⟨hc, hl⟩
  · exact hfresh d hdx hc
  · have hk : d ∈ x.kids := condSkipNodes_sub_kids K x.kids kw ifid ifbody elsifs els plan hs d hc
    obtain ⟨a, b, hab⟩ := List.append_of_mem ht
    have hnk : (leavesL x.kids).Nodup := nodup_kids hn
    rw [hab, leavesL_append] at hnk
    simp only [leavesL] at hnk
    rw [hab] at hk
    simp only [List.mem_append, List.mem_cons] at hk
    rcases hk with hk | rfl | hk
    · -- d is an earlier child: its leaves would be shared with t
      obtain ⟨y, hy⟩ := List.exists_mem_of_ne_nil _ hl
      have h1 : y ∈ leavesL a := leaves_of_mem_preL a d (mem_preL_of_mem_pre hk (self_mem_pre d)) y hy
      have h2 : y ∈ leaves t := leaves_of_mem_pre t d hdt y hy
      exact (List.nodup_append.mp hnk).2.2 y h1 y (List.mem_append_left _ h2) rfl
    · exact ne_of_mem_preL_kids d d hd rfl
    · obtain ⟨y, hy⟩ := List.exists_mem_of_ne_nil _ hl
      have h1 : y ∈ leavesL b := leaves_of_mem_preL b d (mem_preL_of_mem_pre hk (self_mem_pre d)) y hy
      have h2 : y ∈ leaves t := leaves_of_mem_pre t d hdt y hy
      have hn2 := (List.nodup_append.mp hnk).2.1
      exact (List.nodup_append.mp hn2).2.2 y h2 y h1 rfl

theorem pushLoc_skipNodes (inp : Input) (path : Bytes) (w : WState) (x : Tree) : (pushLoc inp path w x).skipNodes = w.skipNodes := by
  unfold pushLoc; split <;> rfl

theorem foldl_pushLoc_skipNodes (inp : Input) (path : Bytes) (ts : List Tree) (w : WState) :
    (ts.foldl (pushLoc inp path) w).skipNodes = w.skipNodes := by
  induction ts generalizing w with
  | nil => rfl
  | cons t ts ih => rw [List.foldl_cons, ih, pushLoc_skipNodes]

theorem mem_pre_of_mem_kids {x n : Tree} (h : n ∈ x.kids) : n ∈ pre x :=
  mem_pre_of_mem_preL_kids (mem_preL_of_mem_pre h (self_mem_pre n))

theorem head?_mem_drop {l : List Tree} {k : Nat} {n : Tree} (h : n ∈ ((l.drop k).head?).toList) : n ∈ l := by
  cases hd : (l.drop k).head? with
  | none => simp [hd] at h
  | some y =>
    simp only [hd, Option.toList_some, List.mem_singleton] at h
    subst h
    exact List.mem_of_mem_drop (List.mem_of_mem_head? hd)

section
variable (C : Cfg)
    (recI : Bytes → Defines → Bool → Bool → Nat → Nat → Except PpError (POut × Defines))
    (recU : Input → Bytes → Bytes → Tree → Defines → Bool → Bool → Nat → Nat → Except PpError (Option (Bytes × Option (Bytes × Range) × Defines)))
    (inp : Input) (s path : Bytes) (ii sc : Bool) (rd id : Nat) (w w' : WState) (x : Tree)

/-- closing tactic: the skip list of the result is that of `w`, possibly after `skipPush x` -/
macro "lists_self" h:ident : tactic => `(tactic|
  (repeat' split at $h:ident
   all_goals first
     | (cases $h:ident; done)
     | (injection $h:ident with $h:ident; subst $h:ident
        intro n hn
        try simp only [pushLoc_skipNodes, foldl_pushLoc_skipNodes, mem_skipPush] at hn
        first
          | exact .inl hn
          | (rcases hn with hn | ⟨h1, _⟩
             · exact .inl hn
             · exact .inr (h1 ▸ self_mem_pre _)))))

theorem armNotDirective_lists (h : armNotDirective C recI recU inp s path ii sc rd id w x = .ok w') :
    ∀ n ∈ w'.skipNodes, n ∈ w.skipNodes ∨ n ∈ pre x := by
  unfold armNotDirective at h; dsimp only at h; lists_self h
theorem armStrLike_lists (h : armStrLike C recI recU inp s path ii sc rd id w x = .ok w') :
    ∀ n ∈ w'.skipNodes, n ∈ w.skipNodes ∨ n ∈ pre x := by
  unfold armStrLike at h; dsimp only at h; lists_self h
theorem armKept_lists (h : armKept C recI recU inp s path ii sc rd id w x = .ok w') :
    ∀ n ∈ w'.skipNodes, n ∈ w.skipNodes ∨ n ∈ pre x := by
  unfold armKept at h; dsimp only at h; lists_self h
theorem armUndef_lists (h : armUndef C recI recU inp s path ii sc rd id w x = .ok w') :
    ∀ n ∈ w'.skipNodes, n ∈ w.skipNodes ∨ n ∈ pre x := by
  unfold armUndef at h; dsimp only at h; lists_self h
theorem armUndefAll_lists (h : armUndefAll C recI recU inp s path ii sc rd id w x = .ok w') :
    ∀ n ∈ w'.skipNodes, n ∈ w.skipNodes ∨ n ∈ pre x := by
  unfold armUndefAll at h; dsimp only at h; lists_self h
theorem armWhiteSpace_lists (h : armWhiteSpace C recI recU inp s path ii sc rd id w x = .ok w') :
    ∀ n ∈ w'.skipNodes, n ∈ w.skipNodes ∨ n ∈ pre x := by
  unfold armWhiteSpace at h; dsimp only at h; lists_self h
theorem armComment_lists (h : armComment C recI recU inp s path ii sc rd id w x = .ok w') :
    ∀ n ∈ w'.skipNodes, n ∈ w.skipNodes ∨ n ∈ pre x := by
  unfold armComment at h; dsimp only at h; lists_self h
theorem armPosition_lists (h : armPosition C recI recU inp s path ii sc rd id w x = .ok w') :
    ∀ n ∈ w'.skipNodes, n ∈ w.skipNodes ∨ n ∈ pre x := by
  unfold armPosition at h; dsimp only at h; lists_self h
theorem armDefine_lists (h : armDefine C recI recU inp s path ii sc rd id w x = .ok w') :
    ∀ n ∈ w'.skipNodes, n ∈ w.skipNodes ∨ n ∈ pre x := by
  unfold armDefine at h; dsimp only at h; lists_self h
theorem armUsage_lists (h : armUsage C recI recU inp s path ii sc rd id w x = .ok w') :
    ∀ n ∈ w'.skipNodes, n ∈ w.skipNodes ∨ n ∈ pre x := by
  unfold armUsage at h; dsimp only at h; lists_self h

theorem armCond_lists (h : armCond C recI recU inp s path ii sc rd id w x = .ok w') :
    ∀ n ∈ w'.skipNodes, n ∈ w.skipNodes ∨ n ∈ pre x := by
  unfold armCond at h; dsimp only at h
  split at h
  · injection h with h; subst h; exact fun n hn => .inl hn
  · rename_i kw ifid ifbody elsifs els hs
    injection h with h; subst h
    intro n hn
    rw [mem_skipPushAll] at hn
    rcases hn with hn | ⟨hn, _⟩
    · exact .inl hn
    · exact .inr (mem_pre_of_mem_kids (condSkipNodes_sub_kids C.K x.kids kw ifid ifbody elsifs els _ hs n hn))

theorem armInclude_lists (h : armInclude C recI recU inp s path ii sc rd id w x = .ok w') :
    ∀ n ∈ w'.skipNodes, n ∈ w.skipNodes ∨ n ∈ pre x := by
  have hbase : ∀ n ∈ (w.skipPush x).skipNodes, n ∈ w.skipNodes ∨ n ∈ pre x := by
    intro n hn; rw [mem_skipPush] at hn
    rcases hn with hn | ⟨h1, _⟩
    · exact .inl hn
    · exact .inr (h1 ▸ self_mem_pre _)
  rw [armInclude_eq] at h
  split at h
  · injection h with h; subst h; exact hbase
  · split at h
    · cases h
    · unfold incTail at h; dsimp only at h
      split at h
      · injection h with h; subst h; exact hbase
      · rename_i inner hin
        have hinner : inner ∈ x.kids := List.mem_of_mem_head? hin
        split at h
        · cases h
        · rename_i p0 extra hp
          split at h
          · cases h
          · injection h with h; subst h
            intro n hn
            dsimp only at hn
            rw [mem_skipPushAll] at hn
            rcases hn with hn | ⟨hn, _⟩
            · exact hbase n hn
            · right
              simp only [List.mem_append] at hn
              have hsub : ∀ m ∈ inner.kids, m ∈ pre x := fun m hm =>
                mem_pre_of_mem_preL_kids (mem_preL_of_mem_pre hinner (mem_pre_of_mem_kids hm))
              rcases hn with hn | hn
              · exact hsub n (head?_mem_drop hn)
              · -- `extra` is [] or [u] with u the third child of the variant node
                repeat' split at hp
                all_goals first
                  | (cases hp; done)
                  | (injection hp with hp; injection hp with _ hp; subst hp
                     first
                       | (simp at hn; done)
                       | (simp only [List.mem_singleton] at hn; subst hn
                          exact hsub _ (List.mem_of_mem_drop (List.mem_of_mem_head? ‹(List.drop 2 inner.kids).head? = some _›))))

/-- **every arm lists only nodes of the sub-tree it was entered at**: after any `Enter` arm at node `x`, each element of the skip list was there
    before or is `x` itself or one of its descendants. (So what is listed while an earlier sibling is walked lies in that sibling's sub-tree,
    whose token-carrying nodes are different from every node of a later sibling: `not_mem_preL_of_mem_pre`.) -/
theorem enterStep_lists_in_subtree (h : enterStep C recI recU inp s path ii sc rd id w x = .ok w') :
    ∀ n ∈ w'.skipNodes, n ∈ w.skipNodes ∨ n ∈ pre x := by
  unfold enterStep at h; dsimp only at h
  by_cases c0 : (x.baseKind == C.K.sdNotDirective) = true
  · rw [if_pos c0] at h; exact armNotDirective_lists C recI recU inp s path ii sc rd id w w' x h
  · rw [if_neg c0] at h
    by_cases c1 : (x.kind == C.K.sdStringLiteral || x.kind == C.K.sdEscapedIdentifier) = true
    · rw [if_pos c1] at h; exact armStrLike_lists C recI recU inp s path ii sc rd id w w' x h
    · rw [if_neg c1] at h
      by_cases c2 : C.K.kept.contains x.baseKind = true
      · rw [if_pos c2] at h; exact armKept_lists C recI recU inp s path ii sc rd id w w' x h
      · rw [if_neg c2] at h
        by_cases c3 : (x.baseKind == C.K.undefine) = true
        · rw [if_pos c3] at h; exact armUndef_lists C recI recU inp s path ii sc rd id w w' x h
        · rw [if_neg c3] at h
          by_cases c4 : (x.baseKind == C.K.undefineall) = true
          · rw [if_pos c4] at h; exact armUndefAll_lists C recI recU inp s path ii sc rd id w w' x h
          · rw [if_neg c4] at h
            by_cases c5 : (x.baseKind == C.K.ifdef || x.baseKind == C.K.ifndef) = true
            · rw [if_pos c5] at h; exact armCond_lists C recI recU inp s path ii sc rd id w w' x h
            · rw [if_neg c5] at h
              by_cases c6 : (x.baseKind == C.K.whiteSpace) = true
              · rw [if_pos c6] at h; exact armWhiteSpace_lists C recI recU inp s path ii sc rd id w w' x h
              · rw [if_neg c6] at h
                by_cases c7 : (x.baseKind == C.K.comment) = true
                · rw [if_pos c7] at h; exact armComment_lists C recI recU inp s path ii sc rd id w w' x h
                · rw [if_neg c7] at h
                  by_cases c8 : (x.baseKind == C.K.textMacroDefinition) = true
                  · rw [if_pos c8] at h; exact armDefine_lists C recI recU inp s path ii sc rd id w w' x h
                  · rw [if_neg c8] at h
                    by_cases c9 : (x.baseKind == C.K.includeDirective && !ii) = true
                    · rw [if_pos c9] at h; exact armInclude_lists C recI recU inp s path ii sc rd id w w' x h
                    · rw [if_neg c9] at h
                      by_cases c10 : (x.baseKind == C.K.textMacroUsage) = true
                      · rw [if_pos c10] at h; exact armUsage_lists C recI recU inp s path ii sc rd id w w' x h
                      · rw [if_neg c10] at h
                        by_cases c11 : (x.baseKind == C.K.position) = true
                        · rw [if_pos c11] at h; exact armPosition_lists C recI recU inp s path ii sc rd id w w' x h
                        · rw [if_neg c11] at h
                          injection h with h; subst h; exact fun n hn => .inl hn

end

end Sv

import SvModel.Lemmas.SkipInv
/-!
# Whenever the walker reaches a listed sub-tree, none of its proper descendants is listed (C04, the chaining induction)

`safeWalk` follows `walk` step by step and asserts, at every `Enter` of a listed node met while not skipping, the hypothesis of
`walk_skip_subtree` / `C04_dead_branch_inert`. `safeWalk_forest`: it holds for every run over the events of a forest whose tokens are pairwise
different (every parse), that has no `include node that would be executed, and whose `define / usage / position nodes carry a token.
-/
namespace Sv

def safeWalk (C : Cfg) : Nat → Input → Bytes → Bytes → Bool → Bool → Nat → Nat → List Event → WState → Prop
  | 0, _, _, _, _, _, _, _, _, _ => True
  | _ + 1, _, _, _, _, _, _, _, [], _ => True
  | fuel + 1, inp, s, path, ii, sc, rd, id, ev :: evs, w =>
    (match ev with
     | .enter t => w.skip = false → w.skipNodes.contains t = true → ∀ d ∈ preL t.kids, w.skipNodes.contains d = false
     | .leave _ => True) ∧
    (if (skipStep w ev).skip then safeWalk C fuel inp s path ii sc rd id evs (skipStep w ev)
     else
       match lineStep C.K inp (skipStep w ev) ev with
       | .error _ => True
       | .ok w2 =>
         match ev with
         | .leave x => safeWalk C fuel inp s path ii sc rd id evs (leaveStep C.K w2 x)
         | .enter x =>
           match enterStep C (preprocessInner C fuel) (resolveUsage C fuel) inp s path ii sc rd id w2 x with
           | .error _ => True
           | .ok w3 => safeWalk C fuel inp s path ii sc rd id evs w3)

/-! ### the bookkeeping steps do not touch the skip list -/

theorem lineStep_fields (K : PpKinds) (inp : Input) (w1 w2 : WState) (ev : Event) (h : lineStep K inp w1 ev = .ok w2) :
    w2.skip = w1.skip ∧ w2.skipNodes = w1.skipNodes := by
  unfold lineStep at h
  dsimp only at h
  repeat' split at h
  all_goals first
    | (injection h with h; subst h; exact ⟨rfl, rfl⟩)
    | (cases h)

theorem leaveStep_fields (K : PpKinds) (w : WState) (x : Tree) : (leaveStep K w x).skip = w.skip ∧ (leaveStep K w x).skipNodes = w.skipNodes := by
  unfold leaveStep; split <;> exact ⟨rfl, rfl⟩

theorem skipStep_skipNodes (w : WState) (ev : Event) : (skipStep w ev).skipNodes = w.skipNodes := by
  unfold skipStep; split <;> split <;> rfl

theorem skipStep_unlisted (w : WState) (ev : Event) (h : w.skipNodes.contains (evNode ev) = false) : skipStep w ev = w := by
  unfold skipStep; cases ev <;> simp [evNode] at h <;> simp [h]

/-- while skipping, events whose nodes are not listed are safe and leave the state alone -/
theorem safeWalk_skipping (C : Cfg) (inp : Input) (s path : Bytes) (ii sc : Bool) (rd id : Nat) (evs : List Event) :
    ∀ (es : List Event) (fuel : Nat) (w : WState), w.skip = true → (∀ e ∈ es, w.skipNodes.contains (evNode e) = false) →
      safeWalk C fuel inp s path ii sc rd id evs w → safeWalk C (fuel + es.length) inp s path ii sc rd id (es ++ evs) w := by
  intro es
  induction es with
  | nil => intro fuel w _ _ h; exact h
  | cons e es ih =>
    intro fuel w hs hn hk
    have he : w.skipNodes.contains (evNode e) = false := hn e (by simp)
    have e1 : fuel + (e :: es).length = (fuel + es.length) + 1 := by simp [List.length_cons]; omega
    rw [e1, List.cons_append]
    unfold safeWalk
    refine ⟨?_, ?_⟩
    · cases e with
      | enter t => intro h0; rw [hs] at h0; cases h0
      | leave t => trivial
    · rw [skipStep_unlisted w e he]
      simp only [hs, if_true]
      exact ih fuel w hs (fun e' he' => hn e' (by simp [he'])) hk

end Sv

namespace Sv

/-- what an `Enter` arm (other than the `include arm) does to the skip flag and the skip list: either the flag is kept and only children of the
    node are listed (conditional arm; nothing for the inert arms) … -/
def FrameKeep (w w3 : WState) (x : Tree) : Prop :=
  w3.skip = w.skip ∧ ∀ n ∈ w3.skipNodes, n ∈ w.skipNodes ∨ (n ∈ x.kids ∧ leafy n)
/-- … or skipping is switched on and the node itself is listed (`define, macro usage, `__FILE__ / `__LINE__) -/
def FrameSelf (w w3 : WState) (x : Tree) : Prop :=
  w3.skip = true ∧ (∀ n ∈ w3.skipNodes, n ∈ w.skipNodes ∨ (n = x ∧ leafy x)) ∧ (leafy x → x ∈ w3.skipNodes)

theorem pushLoc_skip (inp : Input) (path : Bytes) (w : WState) (x : Tree) : (pushLoc inp path w x).skip = w.skip := by
  unfold pushLoc; split <;> rfl

theorem foldl_pushLoc_skip (inp : Input) (path : Bytes) (ts : List Tree) (w : WState) :
    (ts.foldl (pushLoc inp path) w).skip = w.skip := by
  induction ts generalizing w with
  | nil => rfl
  | cons t ts ih => rw [List.foldl_cons, ih, pushLoc_skip]

section
variable (C : Cfg)
    (recI : Bytes → Defines → Bool → Bool → Nat → Nat → Except PpError (POut × Defines))
    (recU : Input → Bytes → Bytes → Tree → Defines → Bool → Bool → Nat → Nat → Except PpError (Option (Bytes × Option (Bytes × Range) × Defines)))
    (inp : Input) (s path : Bytes) (ii sc : Bool) (rd id : Nat) (w w' : WState) (x : Tree)

/-- arms that neither list anything nor touch the flag -/
macro "frame_inert" h:ident : tactic => `(tactic|
  (repeat' split at $h:ident
   all_goals first
     | (cases $h:ident; done)
     | (injection $h:ident with $h:ident; subst $h:ident
        refine ⟨?_, ?_⟩
        · simp only [pushLoc_skip]
        · intro n hn
          try simp only [pushLoc_skipNodes] at hn
          exact .inl hn)))

theorem armNotDirective_frame (h : armNotDirective C recI recU inp s path ii sc rd id w x = .ok w') : FrameKeep w w' x := by
  unfold armNotDirective at h; dsimp only at h; frame_inert h
theorem armStrLike_frame (h : armStrLike C recI recU inp s path ii sc rd id w x = .ok w') : FrameKeep w w' x := by
  unfold armStrLike at h; dsimp only at h; frame_inert h
theorem armKept_frame (h : armKept C recI recU inp s path ii sc rd id w x = .ok w') : FrameKeep w w' x := by
  unfold armKept at h; dsimp only at h; frame_inert h
theorem armUndef_frame (h : armUndef C recI recU inp s path ii sc rd id w x = .ok w') : FrameKeep w w' x := by
  unfold armUndef at h; dsimp only at h; frame_inert h
theorem armUndefAll_frame (h : armUndefAll C recI recU inp s path ii sc rd id w x = .ok w') : FrameKeep w w' x := by
  unfold armUndefAll at h; dsimp only at h; frame_inert h
theorem armWhiteSpace_frame (h : armWhiteSpace C recI recU inp s path ii sc rd id w x = .ok w') : FrameKeep w w' x := by
  unfold armWhiteSpace at h; dsimp only at h; frame_inert h
theorem armComment_frame (h : armComment C recI recU inp s path ii sc rd id w x = .ok w') : FrameKeep w w' x := by
  unfold armComment at h; dsimp only at h; frame_inert h

/-- arms that list the node itself and switch skipping on -/
macro "frame_self" h:ident : tactic => `(tactic|
  (repeat' split at $h:ident
   all_goals first
     | (cases $h:ident; done)
     | (injection $h:ident with $h:ident; subst $h:ident
        refine ⟨?_, ?_, ?_⟩
        · simp only [pushLoc_skip, foldl_pushLoc_skip]
        · intro n hn
          simp only [pushLoc_skipNodes, foldl_pushLoc_skipNodes, mem_skipPush] at hn
          exact hn
        · intro hl
          first
            | (rw [mem_skipPush]; exact .inr ⟨rfl, hl⟩)
            | (rw [pushLoc_skipNodes, mem_skipPush]; exact .inr ⟨rfl, hl⟩)
            | (rw [foldl_pushLoc_skipNodes, mem_skipPush]; exact .inr ⟨rfl, hl⟩)
            | (rw [pushLoc_skipNodes, pushLoc_skipNodes, mem_skipPush]; exact .inr ⟨rfl, hl⟩)
            | (simp only [pushLoc_skipNodes, foldl_pushLoc_skipNodes, mem_skipPush, true_and]; exact .inr hl))))

theorem armDefine_frame (h : armDefine C recI recU inp s path ii sc rd id w x = .ok w') : FrameSelf w w' x := by
  unfold armDefine at h; dsimp only at h; frame_self h
theorem armUsage_frame (h : armUsage C recI recU inp s path ii sc rd id w x = .ok w') : FrameSelf w w' x := by
  unfold armUsage at h; dsimp only at h; frame_self h
theorem armPosition_frame (h : armPosition C recI recU inp s path ii sc rd id w x = .ok w') : FrameSelf w w' x := by
  unfold armPosition at h; dsimp only at h; frame_self h

theorem armCond_frame (h : armCond C recI recU inp s path ii sc rd id w x = .ok w') : FrameKeep w w' x := by
  unfold armCond at h; dsimp only at h
  split at h
  · injection h with h; subst h; exact ⟨rfl, fun n hn => .inl hn⟩
  · rename_i kw ifid ifbody elsifs els hs
    injection h with h; subst h
    refine ⟨skipPushAll_skip _ _, ?_⟩
    intro n hn
    rw [mem_skipPushAll] at hn
    rcases hn with hn | ⟨hn, hl⟩
    · exact .inl hn
    · exact .inr ⟨condSkipNodes_sub_kids C.K x.kids kw ifid ifbody elsifs els _ hs n hn, hl⟩

/-- the three node kinds whose arm switches skipping on -/
def ActiveKind (K : PpKinds) (x : Tree) : Prop :=
  (x.baseKind == K.textMacroDefinition) = true ∨ (x.baseKind == K.textMacroUsage) = true ∨ (x.baseKind == K.position) = true

/-- every arm but the `include arm -/
theorem enterStep_frame (hni : (x.baseKind == C.K.includeDirective && !ii) = false)
    (h : enterStep C recI recU inp s path ii sc rd id w x = .ok w') : FrameKeep w w' x ∨ (FrameSelf w w' x ∧ ActiveKind C.K x) := by
  unfold enterStep at h; dsimp only at h
  by_cases c0 : (x.baseKind == C.K.sdNotDirective) = true
  · rw [if_pos c0] at h; exact .inl (armNotDirective_frame C recI recU inp s path ii sc rd id w w' x h)
  · rw [if_neg c0] at h
    by_cases c1 : (x.kind == C.K.sdStringLiteral || x.kind == C.K.sdEscapedIdentifier) = true
    · rw [if_pos c1] at h; exact .inl (armStrLike_frame C recI recU inp s path ii sc rd id w w' x h)
    · rw [if_neg c1] at h
      by_cases c2 : C.K.kept.contains x.baseKind = true
      · rw [if_pos c2] at h; exact .inl (armKept_frame C recI recU inp s path ii sc rd id w w' x h)
      · rw [if_neg c2] at h
        by_cases c3 : (x.baseKind == C.K.undefine) = true
        · rw [if_pos c3] at h; exact .inl (armUndef_frame C recI recU inp s path ii sc rd id w w' x h)
        · rw [if_neg c3] at h
          by_cases c4 : (x.baseKind == C.K.undefineall) = true
          · rw [if_pos c4] at h; exact .inl (armUndefAll_frame C recI recU inp s path ii sc rd id w w' x h)
          · rw [if_neg c4] at h
            by_cases c5 : (x.baseKind == C.K.ifdef || x.baseKind == C.K.ifndef) = true
            · rw [if_pos c5] at h; exact .inl (armCond_frame C recI recU inp s path ii sc rd id w w' x h)
            · rw [if_neg c5] at h
              by_cases c6 : (x.baseKind == C.K.whiteSpace) = true
              · rw [if_pos c6] at h; exact .inl (armWhiteSpace_frame C recI recU inp s path ii sc rd id w w' x h)
              · rw [if_neg c6] at h
                by_cases c7 : (x.baseKind == C.K.comment) = true
                · rw [if_pos c7] at h; exact .inl (armComment_frame C recI recU inp s path ii sc rd id w w' x h)
                · rw [if_neg c7] at h
                  by_cases c8 : (x.baseKind == C.K.textMacroDefinition) = true
                  · rw [if_pos c8] at h; exact .inr ⟨armDefine_frame C recI recU inp s path ii sc rd id w w' x h, .inl c8⟩
                  · rw [if_neg c8] at h
                    rw [hni] at h
                    simp only [Bool.false_eq_true, if_false] at h
                    by_cases c10 : (x.baseKind == C.K.textMacroUsage) = true
                    · rw [if_pos c10] at h; exact .inr ⟨armUsage_frame C recI recU inp s path ii sc rd id w w' x h, .inr (.inl c10)⟩
                    · rw [if_neg c10] at h
                      by_cases c11 : (x.baseKind == C.K.position) = true
                      · rw [if_pos c11] at h; exact .inr ⟨armPosition_frame C recI recU inp s path ii sc rd id w w' x h, .inr (.inr c11)⟩
                      · rw [if_neg c11] at h
                        injection h with h; subst h; exact .inl ⟨rfl, fun n hn => .inl hn⟩

/-- every arm: flag kept and children listed, or node listed and skipping switched on, or the `include arm -/
theorem enterStep_frame3 (h : enterStep C recI recU inp s path ii sc rd id w x = .ok w') :
    FrameKeep w w' x ∨ (FrameSelf w w' x ∧ ActiveKind C.K x) ∨
    ((x.baseKind == C.K.includeDirective && !ii) = true ∧ armInclude C recI recU inp s path ii sc rd id w x = .ok w') := by
  unfold enterStep at h; dsimp only at h
  by_cases c0 : (x.baseKind == C.K.sdNotDirective) = true
  · rw [if_pos c0] at h; exact .inl (armNotDirective_frame C recI recU inp s path ii sc rd id w w' x h)
  · rw [if_neg c0] at h
    by_cases c1 : (x.kind == C.K.sdStringLiteral || x.kind == C.K.sdEscapedIdentifier) = true
    · rw [if_pos c1] at h; exact .inl (armStrLike_frame C recI recU inp s path ii sc rd id w w' x h)
    · rw [if_neg c1] at h
      by_cases c2 : C.K.kept.contains x.baseKind = true
      · rw [if_pos c2] at h; exact .inl (armKept_frame C recI recU inp s path ii sc rd id w w' x h)
      · rw [if_neg c2] at h
        by_cases c3 : (x.baseKind == C.K.undefine) = true
        · rw [if_pos c3] at h; exact .inl (armUndef_frame C recI recU inp s path ii sc rd id w w' x h)
        · rw [if_neg c3] at h
          by_cases c4 : (x.baseKind == C.K.undefineall) = true
          · rw [if_pos c4] at h; exact .inl (armUndefAll_frame C recI recU inp s path ii sc rd id w w' x h)
          · rw [if_neg c4] at h
            by_cases c5 : (x.baseKind == C.K.ifdef || x.baseKind == C.K.ifndef) = true
            · rw [if_pos c5] at h; exact .inl (armCond_frame C recI recU inp s path ii sc rd id w w' x h)
            · rw [if_neg c5] at h
              by_cases c6 : (x.baseKind == C.K.whiteSpace) = true
              · rw [if_pos c6] at h; exact .inl (armWhiteSpace_frame C recI recU inp s path ii sc rd id w w' x h)
              · rw [if_neg c6] at h
                by_cases c7 : (x.baseKind == C.K.comment) = true
                · rw [if_pos c7] at h; exact .inl (armComment_frame C recI recU inp s path ii sc rd id w w' x h)
                · rw [if_neg c7] at h
                  by_cases c8 : (x.baseKind == C.K.textMacroDefinition) = true
                  · rw [if_pos c8] at h; exact .inr (.inl ⟨armDefine_frame C recI recU inp s path ii sc rd id w w' x h, .inl c8⟩)
                  · rw [if_neg c8] at h
                    by_cases c9 : (x.baseKind == C.K.includeDirective && !ii) = true
                    · rw [if_pos c9] at h; exact .inr (.inr ⟨c9, h⟩)
                    rw [if_neg c9] at h
                    by_cases c10 : (x.baseKind == C.K.textMacroUsage) = true
                    · rw [if_pos c10] at h; exact .inr (.inl ⟨armUsage_frame C recI recU inp s path ii sc rd id w w' x h, .inr (.inl c10)⟩)
                    · rw [if_neg c10] at h
                      by_cases c11 : (x.baseKind == C.K.position) = true
                      · rw [if_pos c11] at h; exact .inr (.inl ⟨armPosition_frame C recI recU inp s path ii sc rd id w w' x h, .inr (.inr c11)⟩)
                      · rw [if_neg c11] at h
                        injection h with h; subst h; exact .inl ⟨rfl, fun n hn => .inl hn⟩
end

end Sv

namespace Sv

def AllLeafy (w : WState) : Prop := ∀ n ∈ w.skipNodes, leafy n

/-- state-independent hypotheses on a node (true of parse trees): a node whose arm switches skipping on — `define, macro usage, `__FILE__ /
    `__LINE__, and an `include that is executed — carries a token (so that it is actually listed and its `Leave` switches skipping off again), and
    an executed `include node has exactly one child (it is an enum node: its only child is the active variant) -/
def GoodNode (C : Cfg) (ii : Bool) (d : Tree) : Prop :=
  (ActiveKind C.K d → leafy d) ∧
  ((d.baseKind == C.K.includeDirective && !ii) = true → leafy d ∧ ∃ inner, d.kids = [inner])

section
variable (C : Cfg) (inp : Input) (s path : Bytes) (ii sc : Bool) (rd id : Nat)

theorem safe_leave (fuel : Nat) (evs : List Event) (w : WState) (t : Tree)
    (hcase : w.skipNodes.contains t = true ∨ (w.skipNodes.contains t = false ∧ w.skip = false))
    (hk : ∀ w5, w5.skip = false → w5.skipNodes = w.skipNodes → safeWalk C fuel inp s path ii sc rd id evs w5) :
    safeWalk C (fuel + 1) inp s path ii sc rd id (.leave t :: evs) w := by
  unfold safeWalk
  refine ⟨trivial, ?_⟩
  have hs : (skipStep w (.leave t)).skip = false ∧ (skipStep w (.leave t)).skipNodes = w.skipNodes := by
    refine ⟨?_, skipStep_skipNodes w _⟩
    unfold skipStep
    rcases hcase with h | ⟨h, h2⟩
    · have h' : t ∈ w.skipNodes := (contains_iff_mem _ _).mp h
      simp [h']
    · have h' : t ∉ w.skipNodes := fun hm => by rw [(contains_iff_mem _ _).mpr hm] at h; cases h
      simp [h', h2]
  simp only [hs.1, Bool.false_eq_true, if_false]
  cases hl : lineStep C.K inp (skipStep w (.leave t)) (.leave t) with
  | error e => trivial
  | ok w2 =>
    dsimp only
    have hf := lineStep_fields C.K inp _ w2 _ hl
    have hg := leaveStep_fields C.K w2 t
    exact hk _ (by rw [hg.1, hf.1, hs.1]) (by rw [hg.2, hf.2, hs.2])

/-- a listed node met while not skipping: its events are jumped over -/
theorem safe_listed_tree (fuel : Nat) (evs : List Event) (w : WState) (t : Tree)
    (hl : w.skipNodes.contains t = true) (hd : ∀ d ∈ preL t.kids, w.skipNodes.contains d = false)
    (hk : ∀ w5, w5.skip = false → w5.skipNodes = w.skipNodes → safeWalk C fuel inp s path ii sc rd id evs w5) :
    safeWalk C (fuel + (events t).length) inp s path ii sc rd id (events t ++ evs) w := by
  rw [events_kids]
  have e1 : fuel + (Event.enter t :: (eventsL t.kids ++ [Event.leave t])).length = ((fuel + 1) + (eventsL t.kids).length) + 1 := by
    simp [List.length_cons, List.length_append]; omega
  rw [e1, List.cons_append, List.append_assoc]
  unfold safeWalk
  refine ⟨fun _ _ => hd, ?_⟩
  have hs : skipStep w (.enter t) = { w with skip := true } := by
    have hl' : t ∈ w.skipNodes := (contains_iff_mem _ _).mp hl
    unfold skipStep; simp [hl']
  rw [hs]
  simp only [if_true]
  apply safeWalk_skipping C inp s path ii sc rd id _ (eventsL t.kids) (fuel + 1) { w with skip := true } rfl
    (fun e he => hd _ (evNode_mem_preL _ e he))
  exact safe_leave C inp s path ii sc rd id fuel evs { w with skip := true } t (.inl hl) (fun w5 h1 h2 => hk w5 h1 h2)

end

end Sv

namespace Sv

section
variable (C : Cfg) (inp : Input) (s path : Bytes) (ii sc : Bool) (rd id : Nat)

def TreeSafe (t : Tree) : Prop :=
  ∀ (w : WState) (evs : List Event) (fuel : Nat),
    w.skip = false → (leaves t).Nodup → AllLeafy w → (∀ d ∈ preL t.kids, d ∉ w.skipNodes) → (∀ d ∈ pre t, GoodNode C ii d) →
    (∀ w1, w1.skip = false → AllLeafy w1 → (∀ n ∈ w1.skipNodes, n ∈ w.skipNodes ∨ n ∈ pre t) → safeWalk C fuel inp s path ii sc rd id evs w1) →
    safeWalk C (fuel + (events t).length) inp s path ii sc rd id (events t ++ evs) w

def ForestSafe (ts : List Tree) : Prop :=
  ∀ (w : WState) (evs : List Event) (fuel : Nat),
    w.skip = false → (leavesL ts).Nodup → AllLeafy w → (∀ d ∈ preL ts, d ∈ w.skipNodes → d ∈ ts) → (∀ d ∈ preL ts, GoodNode C ii d) →
    (∀ w1, w1.skip = false → AllLeafy w1 → (∀ n ∈ w1.skipNodes, n ∈ w.skipNodes ∨ n ∈ preL ts) → safeWalk C fuel inp s path ii sc rd id evs w1) →
    safeWalk C (fuel + (eventsL ts).length) inp s path ii sc rd id (eventsL ts ++ evs) w

theorem not_contains {l : List Tree} {t : Tree} (h : t ∉ l) : l.contains t = false := by
  rw [Bool.eq_false_iff]; intro hc; exact h ((contains_iff_mem _ _).mp hc)

/-- exactly what the `include arm lists: the directive itself, and — of the children of its only child — the second (the keyword) and possibly
    the third (a macro usage naming the file) -/
theorem armInclude_exact (recI : Bytes → Defines → Bool → Bool → Nat → Nat → Except PpError (POut × Defines))
    (recU : Input → Bytes → Bytes → Tree → Defines → Bool → Bool → Nat → Nat → Except PpError (Option (Bytes × Option (Bytes × Range) × Defines)))
    (w w3 : WState) (x inner : Tree) (hx : leafy x) (hkids : x.kids = [inner])
    (h : armInclude C recI recU inp s path ii sc rd id w x = .ok w3) :
    w3.skip = true ∧ x ∈ w3.skipNodes ∧
    (∀ n ∈ w3.skipNodes, n ∈ w.skipNodes ∨ n = x ∨ (leafy n ∧ n ∈ inner.kids)) := by
  have hbase : ∀ n ∈ (w.skipPush x).skipNodes, n ∈ w.skipNodes ∨ n = x := by
    intro n hn; rw [mem_skipPush] at hn
    rcases hn with hn | ⟨h1, _⟩
    · exact .inl hn
    · exact .inr h1
  have hxin : x ∈ (w.skipPush x).skipNodes := (mem_skipPush w x x).mpr (.inr ⟨rfl, hx⟩)
  have hhead : x.kids.head? = some inner := by rw [hkids]; rfl
  rw [armInclude_eq] at h
  split at h
  · injection h with h; subst h
    exact ⟨rfl, hxin, fun n hn => (hbase n hn).elim .inl (fun h => .inr (.inl h))⟩
  · split at h
    · cases h
    · unfold incTail at h; dsimp only at h
      rw [hhead] at h
      dsimp only at h
      split at h
      · cases h
      · rename_i p0 extra hp
        split at h
        · cases h
        · injection h with h; subst h
          refine ⟨skipPushAll_skip _ _, ?_, ?_⟩
          · exact (mem_skipPushAll _ _ _).mpr (.inl hxin)
          · intro n hn
            dsimp only at hn
            rw [mem_skipPushAll] at hn
            rcases hn with hn | ⟨hn, hl⟩
            · exact (hbase n hn).elim .inl (fun h => .inr (.inl h))
            · right; right
              refine ⟨hl, ?_⟩
              simp only [List.mem_append] at hn
              rcases hn with hn | hn
              · exact head?_mem_drop hn
              · repeat' split at hp
                all_goals first
                  | (cases hp; done)
                  | (injection hp with hp; injection hp with _ hp; subst hp
                     first
                       | (simp at hn; done)
                       | (simp only [List.mem_singleton] at hn; subst hn
                          exact List.mem_of_mem_drop (List.mem_of_mem_head? ‹(List.drop 2 inner.kids).head? = some _›)))

/-- an unlisted `Leave` met while skipping changes nothing -/
theorem safe_leave_skipping (fuel : Nat) (evs : List Event) (w : WState) (t : Tree) (hs : w.skip = true) (hu : t ∉ w.skipNodes)
    (hk : safeWalk C fuel inp s path ii sc rd id evs w) : safeWalk C (fuel + 1) inp s path ii sc rd id (.leave t :: evs) w := by
  have := safeWalk_skipping C inp s path ii sc rd id evs [Event.leave t] fuel w hs
    (fun e he => by simp only [List.mem_singleton] at he; subst he; exact not_contains hu) hk
  simpa using this

/-- a forest walked while skipping, whose listed nodes are top-level trees of the forest: everything up to and including the first listed tree is
    passed in skipping mode (its `Leave` switches skipping off), the rest is walked normally -/
theorem skip_forest_safe : ∀ (ts : List Tree), (∀ rest, sizeL rest ≤ sizeL ts → ForestSafe C inp s path ii sc rd id rest) →
    ∀ (w : WState) (evs : List Event) (fuel : Nat),
    w.skip = true → (leavesL ts).Nodup → AllLeafy w → (∀ d ∈ preL ts, d ∈ w.skipNodes → d ∈ ts) → (∀ d ∈ preL ts, GoodNode C ii d) →
    (∀ w1, AllLeafy w1 → (∀ n ∈ w1.skipNodes, n ∈ w.skipNodes ∨ n ∈ preL ts) →
      ((w1.skip = true ∧ w1.skipNodes = w.skipNodes) ∨ w1.skip = false) → safeWalk C fuel inp s path ii sc rd id evs w1) →
    safeWalk C (fuel + (eventsL ts).length) inp s path ii sc rd id (eventsL ts ++ evs) w := by
  intro ts
  induction ts with
  | nil =>
    intro _ w evs fuel hs _ hal _ _ hk
    simp only [eventsL, List.nil_append, List.length_nil, Nat.add_zero]
    exact hk w hal (fun n hn => .inl hn) (.inl ⟨hs, rfl⟩)
  | cons t rest ih =>
    intro hF w evs fuel hs hnd hal hfresh hgood hk
    have e0 : eventsL (t :: rest) ++ evs = events t ++ (eventsL rest ++ evs) := by simp [eventsL, List.append_assoc]
    have e1 : fuel + (eventsL (t :: rest)).length = (fuel + (eventsL rest).length) + (events t).length := by
      simp [eventsL, List.length_append]; omega
    rw [e0, e1]
    simp only [leavesL] at hnd
    have hsub : ∀ d ∈ preL t.kids, d ∉ w.skipNodes := by
      intro d hd hdw
      have hdt : d ∈ pre t := mem_pre_of_mem_preL_kids hd
      have := hfresh d (by simp [preL, hdt]) hdw
      simp only [List.mem_cons] at this
      rcases this with h | h
      · exact ne_of_mem_preL_kids t d hd h
      · exact not_mem_preL_of_mem_pre t rest hnd d hdt (hal d hdw) (mem_preL_of_mem_pre h (self_mem_pre d))
    have hfrest : ∀ (w1 : WState), w1.skipNodes = w.skipNodes → ∀ d ∈ preL rest, d ∈ w1.skipNodes → d ∈ rest := by
      intro w1 h1 d hd hd1
      rw [h1] at hd1
      have := hfresh d (by simp [preL, hd]) hd1
      simp only [List.mem_cons] at this
      rcases this with h2 | h2
      · exact absurd hd (not_mem_preL_of_mem_pre t rest hnd d (h2 ▸ self_mem_pre t) (hal d hd1))
      · exact h2
    by_cases hl : t ∈ w.skipNodes
    · -- the listed tree: passed, its Leave switches skipping off, the rest is walked normally
      refine safe_listed_tree C inp s path ii sc rd id _ _ w t ((contains_iff_mem _ _).mpr hl) (fun d hd => not_contains (hsub d hd)) ?_
      intro w5 h5sk h5n
      have h5al : AllLeafy w5 := fun n hn => hal n (by rw [h5n] at hn; exact hn)
      refine hF rest (by simp only [sizeL]; omega) w5 evs fuel h5sk (List.nodup_append.mp hnd).2.1 h5al (hfrest w5 h5n)
        (fun d hd => hgood d (by simp [preL, hd])) ?_
      intro w1 h1sk h1al h1sub
      refine hk w1 h1al ?_ (.inr h1sk)
      intro n hn
      rcases h1sub n hn with h | h
      · exact .inl (by rw [h5n] at h; exact h)
      · exact .inr (by simp [preL, h])
    · -- an unlisted tree: nothing in it is listed, it is passed in skipping mode
      have hall : ∀ e ∈ events t, w.skipNodes.contains (evNode e) = false := by
        intro e he
        have hm : evNode e ∈ pre t := by
          have := evNode_mem_preL [t] e (by simpa [eventsL] using he)
          simpa [preL] using this
        apply not_contains
        rw [pre_kids] at hm
        simp only [List.mem_cons] at hm
        rcases hm with h | h
        · rw [h]; exact hl
        · exact hsub _ h
      apply safeWalk_skipping C inp s path ii sc rd id _ (events t) _ w hs hall
      refine ih (fun r hr => hF r (by simp only [sizeL]; omega)) w evs fuel hs (List.nodup_append.mp hnd).2.1 hal (hfrest w rfl)
        (fun d hd => hgood d (by simp [preL, hd])) ?_
      intro w1 h1al h1sub hmode
      exact hk w1 h1al (fun n hn => (h1sub n hn).elim .inl (fun h => .inr (by simp [preL, h]))) hmode

/-- the rest of an executed `include node after its arm -/
theorem safe_include_rest (recI : Bytes → Defines → Bool → Bool → Nat → Nat → Except PpError (POut × Defines))
    (recU : Input → Bytes → Bytes → Tree → Defines → Bool → Bool → Nat → Nat → Except PpError (Option (Bytes × Option (Bytes × Range) × Defines)))
    (t : Tree) (w w2 w3 : WState) (evs : List Event) (fuel : Nat)
    (hnd : (leaves t).Nodup) (hal : AllLeafy w) (hfresh : ∀ d ∈ preL t.kids, d ∉ w.skipNodes)
    (hgood : ∀ d ∈ pre t, GoodNode C ii d) (hl : t ∉ w.skipNodes) (hf2 : w2.skipNodes = w.skipNodes)
    (hginc : leafy t ∧ ∃ inner, t.kids = [inner])
    (hai : armInclude C recI recU inp s path ii sc rd id w2 t = .ok w3)
    (hAll : ∀ ts, sizeL ts < size t → ForestSafe C inp s path ii sc rd id ts)
    (hk : ∀ w1, w1.skip = false → AllLeafy w1 → (∀ n ∈ w1.skipNodes, n ∈ w.skipNodes ∨ n ∈ pre t) → safeWalk C fuel inp s path ii sc rd id evs w1) :
    safeWalk C ((fuel + 1) + (eventsL t.kids).length) inp s path ii sc rd id (eventsL t.kids ++ ([Event.leave t] ++ evs)) w3 := by
  obtain ⟨hlt, inner, hkids⟩ := hginc
  obtain ⟨h3sk, h3t, h3sub⟩ := armInclude_exact C inp s path ii sc rd id recI recU w2 w3 t inner hlt hkids hai
  have hinner_t : inner ∈ t.kids := by rw [hkids]; simp
  have hpre_inner : ∀ d ∈ pre inner, d ∈ preL t.kids := fun d hd => mem_preL_of_mem_pre hinner_t hd
  have h3al : AllLeafy w3 := by
    intro n hn
    rcases h3sub n hn with h | h | ⟨h, _⟩
    · exact hal n (by rw [hf2] at h; exact h)
    · rw [h]; exact hlt
    · exact h
  -- `inner` is not listed
  have hinner3 : inner ∉ w3.skipNodes := by
    intro h
    rcases h3sub inner h with h | h | ⟨_, h⟩
    · exact hfresh inner (hpre_inner inner (self_mem_pre inner)) (by rw [hf2] at h; exact h)
    · exact ne_of_mem_preL_kids t inner (hpre_inner inner (self_mem_pre inner)) h
    · exact ne_of_mem_preL_kids inner inner (mem_preL_of_mem_pre h (self_mem_pre inner)) rfl
  rw [hkids]
  have ev0 : eventsL [inner] = Event.enter inner :: (eventsL inner.kids ++ [Event.leave inner]) := by
    simp [eventsL, events_kids]
  rw [ev0]
  have e1 : (fuel + 1) + (Event.enter inner :: (eventsL inner.kids ++ [Event.leave inner])).length
      = ((((fuel + 1) + 1) + (eventsL inner.kids).length)) + 1 := by simp [List.length_cons, List.length_append]; omega
  rw [e1, List.cons_append, List.append_assoc]
  -- enter inner: skipping, unlisted
  have := safeWalk_skipping C inp s path ii sc rd id (eventsL inner.kids ++ ([Event.leave inner] ++ ([Event.leave t] ++ evs))) [Event.enter inner]
    ((((fuel + 1) + 1) + (eventsL inner.kids).length)) w3 h3sk
    (fun e he => by simp only [List.mem_singleton] at he; subst he; exact not_contains hinner3)
  simp only [List.length_singleton, List.singleton_append] at this
  apply this
  -- the children of inner, in skipping mode
  have hndi : (leavesL inner.kids).Nodup := by
    have h1 : (leavesL t.kids).Nodup := nodup_kids hnd
    rw [hkids] at h1
    simp only [leavesL, List.append_nil] at h1
    exact nodup_kids h1
  refine skip_forest_safe C inp s path ii sc rd id inner.kids ?_ w3 _ ((fuel + 1) + 1) h3sk hndi h3al ?_ ?_ ?_
  · intro r hr
    apply hAll r
    have h1 : size t = 1 + sizeL t.kids := size_kids t
    rw [hkids] at h1
    simp only [sizeL, Nat.add_zero] at h1
    have h2 : size inner = 1 + sizeL inner.kids := size_kids inner
    omega
  · intro d hd hd3
    rcases h3sub d hd3 with h | h | ⟨_, h⟩
    · exact absurd (by rw [hf2] at h; exact h) (hfresh d (hpre_inner d (mem_pre_of_mem_preL_kids hd)))
    · exact absurd h (ne_of_mem_preL_kids t d (hpre_inner d (mem_pre_of_mem_preL_kids hd)))
    · exact h
  · exact fun d hd => hgood d (mem_pre_of_mem_preL_kids (hpre_inner d (mem_pre_of_mem_preL_kids hd)))
  · -- after the children of inner: Leave inner, Leave t
    intro w4 h4al h4sub hmode
    have hsub4 : ∀ n ∈ w4.skipNodes, n ∈ w.skipNodes ∨ n ∈ pre t := by
      intro n hn
      rcases h4sub n hn with h | h
      · rcases h3sub n h with h | h | ⟨_, h⟩
        · exact .inl (by rw [hf2] at h; exact h)
        · exact .inr (h ▸ self_mem_pre t)
        · exact .inr (mem_pre_of_mem_preL_kids (hpre_inner n (mem_pre_of_mem_kids h)))
      · exact .inr (mem_pre_of_mem_preL_kids (hpre_inner n (mem_pre_of_mem_preL_kids h)))
    have hinner4 : inner ∉ w4.skipNodes := by
      intro h
      rcases h4sub inner h with h | h
      · exact hinner3 h
      · exact ne_of_mem_preL_kids inner inner h rfl
    have hfinal : ∀ w5, w5.skip = false → w5.skipNodes = w4.skipNodes →
        safeWalk C (fuel + 1) inp s path ii sc rd id ([Event.leave t] ++ evs) w5 := by
      intro w5 h5sk h5n
      have hc : w5.skipNodes.contains t = true ∨ (w5.skipNodes.contains t = false ∧ w5.skip = false) := by
        by_cases hm : t ∈ w5.skipNodes
        · exact .inl ((contains_iff_mem _ _).mpr hm)
        · exact .inr ⟨not_contains hm, h5sk⟩
      refine safe_leave C inp s path ii sc rd id fuel evs w5 t hc ?_
      intro w6 h6sk h6n
      refine hk w6 h6sk (fun n hn => h4al n (by rw [h6n, h5n] at hn; exact hn)) ?_
      intro n hn
      exact hsub4 n (by rw [h6n, h5n] at hn; exact hn)
    rcases hmode with ⟨h4sk, h4n⟩ | h4sk
    · -- still skipping
      have hstep := safe_leave_skipping C inp s path ii sc rd id (fuel + 1) ([Event.leave t] ++ evs) w4 inner h4sk hinner4
      apply hstep
      -- Leave t: listed, switches skipping off
      have ht4 : t ∈ w4.skipNodes := by rw [h4n]; exact h3t
      refine safe_leave C inp s path ii sc rd id fuel evs w4 t (.inl ((contains_iff_mem _ _).mpr ht4)) ?_
      intro w6 h6sk h6n
      refine hk w6 h6sk (fun n hn => h4al n (by rw [h6n] at hn; exact hn)) ?_
      intro n hn
      exact hsub4 n (by rw [h6n] at hn; exact hn)
    · refine safe_leave C inp s path ii sc rd id (fuel + 1) ([Event.leave t] ++ evs) w4 inner (.inr ⟨not_contains hinner4, h4sk⟩) ?_
      intro w5 h5sk h5n
      exact hfinal w5 h5sk h5n

theorem tree_safe_of_forest (t : Tree) (hF : ForestSafe C inp s path ii sc rd id t.kids)
    (hAll : ∀ ts, sizeL ts < size t → ForestSafe C inp s path ii sc rd id ts) : TreeSafe C inp s path ii sc rd id t := by
  intro w evs fuel hsk hnd hal hfresh hgood hk
  by_cases hl : t ∈ w.skipNodes
  · -- listed: jumped over
    refine safe_listed_tree C inp s path ii sc rd id fuel evs w t ((contains_iff_mem _ _).mpr hl)
      (fun d hd => not_contains (hfresh d hd)) ?_
    intro w5 h1 h2
    exact hk w5 h1 (by intro n hn; rw [AllLeafy] at hal; exact hal n (by rw [h2] at hn; exact hn)) (fun n hn => .inl (by rw [h2] at hn; exact hn))
  · -- not listed: the arm runs
    rw [events_kids]
    have e1 : fuel + (Event.enter t :: (eventsL t.kids ++ [Event.leave t])).length = ((fuel + 1) + (eventsL t.kids).length) + 1 := by
      simp [List.length_cons, List.length_append]; omega
    rw [e1, List.cons_append, List.append_assoc]
    unfold safeWalk
    refine ⟨fun _ hc => absurd ((contains_iff_mem _ _).mp hc) hl, ?_⟩
    rw [skipStep_unlisted w (.enter t) (not_contains hl)]
    simp only [hsk, Bool.false_eq_true, if_false]
    cases hls : lineStep C.K inp w (.enter t) with
    | error e => trivial
    | ok w2 =>
      dsimp only
      have hf := lineStep_fields C.K inp w w2 _ hls
      cases hes : enterStep C (preprocessInner C ((fuel + 1) + (eventsL t.kids).length)) (resolveUsage C ((fuel + 1) + (eventsL t.kids).length)) inp s path ii sc rd id w2 t with
      | error e => trivial
      | ok w3 =>
        dsimp only
        have hg := hgood t (self_mem_pre t)
        have hself : t ∉ preL t.kids := fun h => ne_of_mem_preL_kids t t h rfl
        rcases enterStep_frame3 C _ _ inp s path ii sc rd id w2 w3 t hes with ⟨hk1, hk2⟩ | ⟨⟨hs1, hs2, hs3⟩, hact⟩ | ⟨hinc, hai⟩
        rotate_left 2
        · -- an executed `include: the directive, its keyword and (for a macro-named file) the usage are listed; skipping is switched off
          -- again when the keyword is left
          exact safe_include_rest C inp s path ii sc rd id _ _ t w w2 w3 evs fuel hnd hal hfresh hgood hl hf.2 (hg.2 hinc) hai hAll hk
        · -- flag kept, only children listed: walk the children, then leave
          have h3sk : w3.skip = false := by rw [hk1, hf.1, hsk]
          have h3al : AllLeafy w3 := by
            intro n hn
            rcases hk2 n hn with h | ⟨_, h⟩
            · exact hal n (by rw [hf.2] at h; exact h)
            · exact h
          refine hF w3 ([Event.leave t] ++ evs) (fuel + 1) h3sk (nodup_kids hnd) h3al ?_ (fun d hd => hgood d (mem_pre_of_mem_preL_kids hd)) ?_
          · intro d hd hd3
            rcases hk2 d hd3 with h | ⟨h, _⟩
            · exact absurd (by rw [hf.2] at h; exact h) (hfresh d hd)
            · exact h
          · intro w4 h4sk h4al h4sub
            have ht4 : t ∉ w4.skipNodes := by
              intro h
              rcases h4sub t h with h | h
              · rcases hk2 t h with h | ⟨h, _⟩
                · exact hl (by rw [hf.2] at h; exact h)
                · exact hself (mem_preL_of_mem_pre h (self_mem_pre t))
              · exact hself h
            refine safe_leave C inp s path ii sc rd id fuel evs w4 t (.inr ⟨not_contains ht4, h4sk⟩) ?_
            intro w5 h5sk h5n
            refine hk w5 h5sk (fun n hn => h4al n (by rw [h5n] at hn; exact hn)) ?_
            intro n hn
            rw [h5n] at hn
            rcases h4sub n hn with h | h
            · rcases hk2 n h with h | ⟨h, _⟩
              · exact .inl (by rw [hf.2] at h; exact h)
              · exact .inr (mem_pre_of_mem_kids h)
            · exact .inr (mem_pre_of_mem_preL_kids h)
        · -- skipping switched on, the node itself listed: its children are skipped, its Leave switches skipping off
          have hlt : leafy t := hg.1 hact
          have ht3 : t ∈ w3.skipNodes := hs3 hlt
          apply safeWalk_skipping C inp s path ii sc rd id _ (eventsL t.kids) (fuel + 1) w3 hs1
          · intro e he
            have hm := evNode_mem_preL _ e he
            apply not_contains
            intro h
            rcases hs2 _ h with h | ⟨h, _⟩
            · exact hfresh _ hm (by rw [hf.2] at h; exact h)
            · exact ne_of_mem_preL_kids t _ hm h
          · refine safe_leave C inp s path ii sc rd id fuel evs w3 t (.inl ((contains_iff_mem _ _).mpr ht3)) ?_
            intro w5 h5sk h5n
            refine hk w5 h5sk ?_ ?_
            · intro n hn
              rw [h5n] at hn
              rcases hs2 n hn with h | ⟨_, h⟩
              · exact hal n (by rw [hf.2] at h; exact h)
              · rename_i heq; rw [heq]; exact h
            · intro n hn
              rw [h5n] at hn
              rcases hs2 n hn with h | ⟨h, _⟩
              · exact .inl (by rw [hf.2] at h; exact h)
              · exact .inr (h ▸ self_mem_pre t)

theorem forest_safe_cons (t : Tree) (rest : List Tree) (hT : TreeSafe C inp s path ii sc rd id t) (hR : ForestSafe C inp s path ii sc rd id rest) :
    ForestSafe C inp s path ii sc rd id (t :: rest) := by
  intro w evs fuel hsk hnd hal hfresh hgood hk
  have e0 : eventsL (t :: rest) ++ evs = events t ++ (eventsL rest ++ evs) := by simp [eventsL, List.append_assoc]
  have e1 : fuel + (eventsL (t :: rest)).length = (fuel + (eventsL rest).length) + (events t).length := by
    simp [eventsL, List.length_append]; omega
  rw [e0, e1]
  simp only [leavesL] at hnd
  refine hT w _ _ hsk (List.nodup_append.mp hnd).1 hal ?_ (fun d hd => hgood d (by simp [preL, hd])) ?_
  · -- no proper descendant of t is listed
    intro d hd hdw
    have hdt : d ∈ pre t := mem_pre_of_mem_preL_kids hd
    have := hfresh d (by simp [preL, hdt]) hdw
    simp only [List.mem_cons] at this
    rcases this with h | h
    · exact ne_of_mem_preL_kids t d hd h
    · exact not_mem_preL_of_mem_pre t rest hnd d hdt (hal d hdw) (mem_preL_of_mem_pre h (self_mem_pre d))
  · intro w1 h1sk h1al h1sub
    refine hR w1 evs fuel h1sk (List.nodup_append.mp hnd).2.1 h1al ?_ (fun d hd => hgood d (by simp [preL, hd])) ?_
    · intro d hd hd1
      rcases h1sub d hd1 with h | h
      · have := hfresh d (by simp [preL, hd]) h
        simp only [List.mem_cons] at this
        rcases this with h2 | h2
        · exact absurd hd (not_mem_preL_of_mem_pre t rest hnd d (h2 ▸ self_mem_pre t) (hal d h))
        · exact h2
      · exact absurd hd (not_mem_preL_of_mem_pre t rest hnd d h (h1al d hd1))
    · intro w2 h2sk h2al h2sub
      refine hk w2 h2sk h2al ?_
      intro n hn
      rcases h2sub n hn with h | h
      · rcases h1sub n h with h | h
        · exact .inl h
        · exact .inr (by simp [preL, h])
      · exact .inr (by simp [preL, h])

theorem forest_safe_nil : ForestSafe C inp s path ii sc rd id [] := by
  intro w evs fuel hsk _ hal _ _ hk
  simp only [eventsL, List.nil_append, List.length_nil, Nat.add_zero]
  exact hk w hsk hal (fun n hn => .inl hn)

theorem safe_by_size : ∀ (n : Nat), (∀ t, size t ≤ n → TreeSafe C inp s path ii sc rd id t) ∧ (∀ ts, sizeL ts ≤ n → ForestSafe C inp s path ii sc rd id ts) := by
  intro n
  induction n with
  | zero =>
    refine ⟨fun t h => absurd (size_pos t) (by omega), fun ts h => ?_⟩
    cases ts with
    | nil => exact forest_safe_nil C inp s path ii sc rd id
    | cons t rest => simp only [sizeL] at h; exact absurd (size_pos t) (by omega)
  | succ n ih =>
    have hT : ∀ t, size t ≤ n + 1 → TreeSafe C inp s path ii sc rd id t := by
      intro t ht
      refine tree_safe_of_forest C inp s path ii sc rd id t (ih.2 _ (by rw [size_kids] at ht; omega)) ?_
      intro ts hts
      exact ih.2 ts (by omega)
    refine ⟨hT, ?_⟩
    intro ts hts
    cases ts with
    | nil => exact forest_safe_nil C inp s path ii sc rd id
    | cons t rest =>
      simp only [sizeL] at hts
      have := size_pos t
      exact forest_safe_cons C inp s path ii sc rd id t rest (hT t (by omega)) (ih.2 rest (by omega))

theorem tree_safe (t : Tree) : TreeSafe C inp s path ii sc rd id t := (safe_by_size C inp s path ii sc rd id (size t)).1 t (Nat.le_refl _)
theorem forest_safe (ts : List Tree) : ForestSafe C inp s path ii sc rd id ts := (safe_by_size C inp s path ii sc rd id (sizeL ts)).2 ts (Nat.le_refl _)

end

end Sv

namespace Sv

/-! ### the decidable part of `GoodNode`, executed by the driver on the model's parse of the inputs of the C04 oracle -/

def activeKindb (K : PpKinds) (x : Tree) : Bool :=
  x.baseKind == K.textMacroDefinition || x.baseKind == K.textMacroUsage || x.baseKind == K.position

/-- every `define / macro usage / `__FILE__ / `__LINE__ node of the forest carries a token -/
def goodLeafyb (K : PpKinds) (ts : List Tree) : Bool :=
  (preL ts).all (fun d => !activeKindb K d || !(leaves d).isEmpty)

theorem goodLeafyb_sound (K : PpKinds) (ts : List Tree) (h : goodLeafyb K ts = true) :
    ∀ d ∈ preL ts, ActiveKind K d → leafy d := by
  intro d hd ha
  have := (List.all_eq_true.mp h) d hd
  have hk : activeKindb K d = true := by
    unfold activeKindb; rcases ha with h | h | h <;> simp [h]
  simp only [hk, Bool.not_true, Bool.false_or, Bool.not_eq_true', List.isEmpty_eq_false_iff] at this
  exact this

/-- every `include node of the forest carries a token and has exactly one child -/
def goodIncb (K : PpKinds) (ts : List Tree) : Bool :=
  (preL ts).all (fun d => !(d.baseKind == K.includeDirective) || (!(leaves d).isEmpty && d.kids.length == 1))

theorem good_of_checks (C : Cfg) (ii : Bool) (ts : List Tree) (h1 : goodLeafyb C.K ts = true) (h2 : goodIncb C.K ts = true) :
    ∀ d ∈ preL ts, GoodNode C ii d := by
  intro d hd
  refine ⟨goodLeafyb_sound C.K ts h1 d hd, ?_⟩
  intro hinc
  have hk : (d.baseKind == C.K.includeDirective) = true := by
    cases h : (d.baseKind == C.K.includeDirective) <;> simp [h] at hinc ⊢
  have := (List.all_eq_true.mp h2) d hd
  simp only [hk, Bool.not_true, Bool.false_or, Bool.and_eq_true, Bool.not_eq_true', List.isEmpty_eq_false_iff, beq_iff_eq] at this
  refine ⟨this.1, ?_⟩
  match hkk : d.kids, this.2 with
  | [a], _ => exact ⟨a, rfl⟩

end Sv

import SvModel.Lemmas.Productive
import SvModel.Lemmas.Strict
/-!
Lemmas for C15: expressions that can never fail (`NoErr`), and the relation between
`many_till(e, eof)` (strict mode) and `many0(e)` (incomplete mode).
-/
namespace Sv

/-- a call of a non-recursive production whose key is not in the memo yields the outcome of its body -/
theorem evalCall_fresh (g : Grammar) (inp : Input) (n f pos : Nat) (r : Rec) (st : PState)
    (hm : st.memo.find? (f, pos, decide (st.dir > 0)) = none) (hr : (g.prod f).recursive = false) :
    (evalCall g inp (n + 1) f pos r st).1 = (eval g inp n (g.prod f).body pos r st).1 := by
  simp only [evalCall, hm, hr, ite_self, Bool.false_eq_true, if_false]
  split
  · split <;> simp_all
  · rfl

theorem find_clear (m : Memo) (k : MKey) : m.clear.find? k = none := by
  simp [Memo.clear, Memo.find?]

mutual
/-- syntactically unable to fail: `opt`, `many0` of a productive parser, effects, and sequences of those -/
def NoErr (marks : List Nat) : PExpr → Bool
  | .opt _ => true
  | .many0 e => PR marks e
  | .seq es => NoErrL marks es
  | .shaped stmts _ => NoErrL marks stmts
  | .node _ e => NoErr marks e
  | .lexeme e => NoErr marks e
  | .drop e => NoErr marks e
  | .dirScope e => NoErr marks e
  | .beginDir => true
  | .endDir => true
  | .beginKw _ => true
  | .endKw => true
  | _ => false
def NoErrL (marks : List Nat) : List PExpr → Bool
  | [] => true
  | e :: es => NoErr marks e && NoErrL marks es
end

def NotErr : Out → Prop
  | .err _ => False
  | _ => True

structure NEAll (g : Grammar) (inp : Input) (marks : List Nat) (fuel : Nat) : Prop where
  eval : ∀ e pos r st, InvP marks st → NoErr marks e = true → NotErr (eval g inp fuel e pos r st).1
  seq : ∀ es pos r st, InvP marks st → NoErrL marks es = true → NotErr (evalSeq g inp fuel es pos r st).1
  stmts : ∀ es pos r st, InvP marks st → NoErrL marks es = true → NotErr (evalStmts g inp fuel es pos r st).1.1
  many0 : ∀ e pos r st, InvP marks st → PR marks e = true → NotErr (evalMany0 g inp fuel e pos r st).1

theorem neAll (g : Grammar) (inp : Input) (marks : List Nat) (hm : MarksOK g marks) :
    ∀ fuel, NEAll g inp marks fuel := by
  intro fuel
  induction fuel with
  | zero =>
    exact ⟨fun _ _ _ _ _ _ => by simp [eval, NotErr], fun _ _ _ _ _ _ => by simp [evalSeq, NotErr],
      fun _ _ _ _ _ _ => by simp [evalStmts, NotErr], fun _ _ _ _ _ _ => by simp [evalMany0, NotErr]⟩
  | succ n ih =>
    have hp := pAll g inp marks hm n
    refine ⟨?_, ?_, ?_, ?_⟩
    · intro e pos r st hi hn
      cases e <;> simp [NoErr] at hn
      case opt e => simp only [eval]; split <;> simp [NotErr]
      case many0 e => simp only [eval]; exact ih.many0 e pos r st hi hn
      case seq es => simp only [eval]; exact ih.seq es pos r st hi hn
      case shaped stmts res =>
        simp only [eval]
        have := ih.stmts stmts pos r st hi hn
        split <;> simp_all [NotErr]
      case node k e =>
        simp only [eval]
        have := ih.eval e pos r st hi hn
        split <;> simp_all [NotErr]
      case lexeme e =>
        simp only [eval]
        have := ih.eval e pos r st hi hn
        split <;> simp_all [NotErr]
      case drop e =>
        simp only [eval]
        have := ih.eval e pos r st hi hn
        split <;> simp_all [NotErr]
      case dirScope e =>
        simp only [eval]
        exact ih.eval e pos r _ (invP_dir hi _) hn
      case beginDir => simp [eval, NotErr]
      case endDir => simp [eval, NotErr]
      case beginKw v => simp [eval, NotErr]
      case endKw => simp [eval, NotErr]
    · intro es pos r st hi hn
      cases es with
      | nil => simp [evalSeq, NotErr]
      | cons e es =>
        simp only [NoErrL, Bool.and_eq_true] at hn
        simp only [evalSeq]
        have h1 := ih.eval e pos r st hi hn.1
        have h2 := hp.eval e pos r st hi
        split
        · rename_i q r' ts st' heq
          rw [heq] at h2
          have h3 := ih.seq es q r' st' h2.1 hn.2
          split <;> simp_all [NotErr]
        · rename_i ep st' heq; rw [heq] at h1; exact h1
        · simp [NotErr]
    · intro es pos r st hi hn
      cases es with
      | nil => simp [evalStmts, NotErr]
      | cons e es =>
        simp only [NoErrL, Bool.and_eq_true] at hn
        simp only [evalStmts]
        have h1 := ih.eval e pos r st hi hn.1
        have h2 := hp.eval e pos r st hi
        split
        · rename_i q r' ts st' heq
          rw [heq] at h2
          exact ih.stmts es q r' st' h2.1 hn.2
        · rename_i ep st' heq; rw [heq] at h1; exact h1
        · simp [NotErr]
    · intro e pos r st hi hpr
      simp only [evalMany0]
      have h2 := hp.eval e pos r st hi
      split
      · rename_i q r' ts st' heq
        rw [heq] at h2
        have hlt : pos < q := h2.2.2 hpr
        split
        · omega
        · have h3 := ih.many0 e q r' st' h2.1 hpr
          split <;> simp_all [NotErr]
      · simp [NotErr]
      · simp [NotErr]

/-- `drop eof` never touches the thread state -/
theorem eval_dropEof_state (g : Grammar) (inp : Input) (n pos : Nat) (r : Rec) (st : PState) :
    (eval g inp n (.drop .eof) pos r st).2 = st := by
  cases n with
  | zero => simp [eval]
  | succ m =>
    simp only [eval]
    cases m with
    | zero => simp [eval]
    | succ k =>
      simp only [eval]
      by_cases hge : pos ≥ inp.size <;> simp [hge]

theorem eval_dropEof_ok (g : Grammar) (inp : Input) (n pos q : Nat) (r r' : Rec) (ts : List Tree) (st st' : PState)
    (h : eval g inp n (.drop .eof) pos r st = (.ok q r' ts, st')) :
    q = pos ∧ r' = r ∧ ts = [] ∧ st' = st ∧ inp.size ≤ pos := by
  cases n with
  | zero => simp [eval] at h
  | succ m =>
    simp only [eval] at h
    cases m with
    | zero => simp [eval] at h
    | succ k =>
      simp only [eval] at h
      by_cases hge : pos ≥ inp.size
      · simp [hge] at h
        obtain ⟨⟨rfl, rfl, rfl⟩, rfl⟩ := h
        exact ⟨rfl, rfl, rfl, rfl, hge⟩
      · simp [hge] at h

/-- **strict ⇒ incomplete at the loop level.** If `many_till(e, eof)` succeeds from a state, then
    `many0(e)` from the same state and with the same fuel returns the same end position, recursion info and
    forest — or runs out of fuel (it needs one more failing call of `e` at the end of the input). -/
theorem manyTill_eof_many0 (g : Grammar) (inp : Input) (marks : List Nat) (hm : MarksOK g marks)
    (hg : GrammarWF g) (e : PExpr) (hpr : PR marks e = true) (hwf : WF e = true) :
    ∀ n pos r st q r' ts st', InvP marks st → Inv inp st → pos ≤ inp.size →
      evalManyTill g inp n e (.drop .eof) pos r st = (.ok q r' ts, st') →
      (evalMany0 g inp n e pos r st).1 = .ok q r' ts ∨ (evalMany0 g inp n e pos r st).1 = .oof := by
  intro n
  induction n with
  | zero => intro pos r st q r' ts st' _ _ _ h; simp [evalManyTill] at h
  | succ n ih =>
    intro pos r st q r' ts st' hip hi hle h
    have hP := (pAll g inp marks hm n).eval e pos r st hip
    have hT := (allSpec g inp hg n).eval e pos r st hi
    simp only [evalManyTill] at h
    simp only [evalMany0]
    split at h
    · -- terminator succeeded: we are at the end of the input
      rename_i q0 r0 ts0 st0 heq
      obtain ⟨rfl, rfl, rfl, rfl, hge⟩ := eval_dropEof_ok g inp n pos q0 r r0 ts0 st st0 heq
      simp at h
      obtain ⟨⟨rfl, rfl, rfl⟩, _⟩ := h
      split
      · rename_i q2 r2 ts2 st2 heq2
        rw [heq2] at hP hT
        have h1 : q0 < q2 := hP.2.2 hpr
        have h2 : q2 ≤ inp.size := Chain.end_le' (hT.2.1 hwf) hle
        omega
      · left; rfl
      · right; rfl
    · simp at h
    · rename_i ep st0 heq
      have hst : st0 = st := by
        have := eval_dropEof_state g inp n pos r st
        rw [heq] at this; exact this
      subst hst
      split at h
      · rename_i q1 r1 ts1 st1 heq1
        rw [heq1] at hP hT
        split at h
        · simp at h
        · rename_i hne
          rw [if_neg hne]
          have hle1 : q1 ≤ inp.size := Chain.end_le' (hT.2.1 hwf) hle
          split at h
          · rename_i q' r'' ts' st3 heq3
            simp at h
            obtain ⟨⟨rfl, rfl, rfl⟩, _⟩ := h
            rcases ih q1 r1 st1 q' r'' ts' st3 hP.1 hT.1 hle1 heq3 with h4 | h4
            · left
              revert h4
              cases evalMany0 g inp n e q1 r1 st1 with
              | mk o s => intro h4; simp at h4; subst h4; rfl
            · right
              revert h4
              cases evalMany0 g inp n e q1 r1 st1 with
              | mk o s => intro h4; simp at h4; subst h4; rfl
          · simp at h
          · simp at h
      · simp at h
      · simp at h

end Sv

import SvModel.Core.Tree
/-! Helper lemmas about pre-order, the `Iter` stack machine and the `EventIter` stack machine. -/
namespace Sv

theorem preL_append (a b : List Tree) : preL (a ++ b) = preL a ++ preL b := by
  induction a with
  | nil => simp [preL]
  | cons t ts ih => simp [preL, ih, List.append_assoc]

theorem sizeL_append (a b : List Tree) : sizeL (a ++ b) = sizeL a + sizeL b := by
  induction a with
  | nil => simp [sizeL]
  | cons t ts ih => simp [sizeL, ih]; omega

theorem eventsL_append (a b : List Tree) : eventsL (a ++ b) = eventsL a ++ eventsL b := by
  induction a with
  | nil => simp [eventsL]
  | cons t ts ih => simp [eventsL, ih, List.append_assoc]

theorem size_pos (t : Tree) : 0 < size t := by
  cases t <;> simp [size] <;> omega

theorem pre_kids (t : Tree) : pre t = t :: preL t.kids := by
  cases t <;> simp [pre, Tree.kids, preL]

theorem size_kids (t : Tree) : size t = 1 + sizeL t.kids := by
  cases t <;> simp [size, Tree.kids, sizeL]

theorem events_kids (t : Tree) : events t = .enter t :: (eventsL t.kids ++ [.leave t]) := by
  cases t <;> simp [events, Tree.kids, eventsL]

/-- The stack (top at the end) always represents the forest `st.reverse` still to be visited. -/
theorem iterRun_pre : ∀ n (st : List Tree), sizeL st.reverse < n → iterRun n st = preL st.reverse := by
  intro n
  induction n with
  | zero => intro st h; omega
  | succ n ih =>
    intro st h
    rcases List.eq_nil_or_concat st with rfl | ⟨init, x, rfl⟩
    · simp [iterRun, iterStep, preL]
    · rw [List.concat_eq_append] at h ⊢
      have hs : sizeL (init ++ x.kids.reverse).reverse < n := by
        simp [List.reverse_append, sizeL_append, sizeL, size_kids x] at h ⊢
        omega
      simp only [iterRun, iterStep, List.getLast?_append, List.getLast?_singleton, Option.some_or,
        List.dropLast_concat]
      rw [ih _ hs]
      simp [List.reverse_append, preL_append, preL, pre_kids x]

/-- Event stack semantics: what a pending stack (top at end) will still emit. -/
def evDenote : List Event → List Event
  | [] => []
  | .enter t :: rest => evDenote rest ++ events t
  | .leave t :: rest => evDenote rest ++ [.leave t]

/-- a measure that bounds the number of remaining steps -/
def evMeasure : List Event → Nat
  | [] => 0
  | .enter t :: rest => evMeasure rest + 2 * size t
  | .leave _ :: rest => evMeasure rest + 1

theorem evDenote_append (a b : List Event) : evDenote (a ++ b) = evDenote b ++ evDenote a := by
  induction a with
  | nil => simp [evDenote]
  | cons e es ih => cases e <;> simp [evDenote, ih, List.append_assoc]

theorem evMeasure_append (a b : List Event) : evMeasure (a ++ b) = evMeasure a + evMeasure b := by
  induction a with
  | nil => simp [evMeasure]
  | cons e es ih => cases e <;> simp [evMeasure, ih] <;> omega

theorem evDenote_enters_rev (ks : List Tree) :
    evDenote ((ks.map Event.enter).reverse) = eventsL ks := by
  induction ks with
  | nil => simp [evDenote, eventsL]
  | cons k ks ih =>
    simp [List.map_cons, List.reverse_cons, evDenote_append, evDenote, eventsL, ih]

theorem evMeasure_enters_rev (ks : List Tree) :
    evMeasure ((ks.map Event.enter).reverse) = 2 * sizeL ks := by
  induction ks with
  | nil => simp [evMeasure, sizeL]
  | cons k ks ih =>
    simp [List.map_cons, List.reverse_cons, evMeasure_append, evMeasure, sizeL, ih]; omega

theorem evRun_denote : ∀ n (st : List Event), evMeasure st < n → evRun n st = evDenote st := by
  intro n
  induction n with
  | zero => intro st h; omega
  | succ n ih =>
    intro st h
    rcases List.eq_nil_or_concat st with rfl | ⟨init, x, rfl⟩
    · simp [evRun, evStep, evDenote]
    · rw [List.concat_eq_append] at h ⊢
      cases x with
      | enter t =>
        have hm : evMeasure ((init ++ [Event.leave t]) ++ (t.kids.map Event.enter).reverse) < n := by
          simp [evMeasure_append, evMeasure, evMeasure_enters_rev, size_kids t] at h ⊢
          omega
        simp only [evRun, evStep, List.getLast?_append, List.getLast?_singleton, Option.some_or,
          List.dropLast_concat]
        rw [ih _ hm]
        simp [evDenote_append, evDenote, evDenote_enters_rev, events_kids t]
      | leave t =>
        have hm : evMeasure init < n := by
          simp [evMeasure_append, evMeasure] at h; omega
        simp only [evRun, evStep, List.getLast?_append, List.getLast?_singleton, Option.some_or,
          List.dropLast_concat]
        rw [ih _ hm]
        simp [evDenote_append, evDenote]

def Event.enterOf : Event → Option Tree
  | .enter t => some t
  | .leave _ => none

mutual
theorem enters_events (t : Tree) : (events t).filterMap Event.enterOf = pre t := by
  cases t with
  | leaf o l n => simp [events, pre, Event.enterOf]
  | node k ks =>
    simp [events, pre, Event.enterOf, List.filterMap_append, enters_eventsL ks]
theorem enters_eventsL (ts : List Tree) : (eventsL ts).filterMap Event.enterOf = preL ts := by
  cases ts with
  | nil => simp [eventsL, preL]
  | cons t ts =>
    simp [eventsL, preL, List.filterMap_append, enters_events t, enters_eventsL ts]
end

/-- Proper nesting: every Leave closes the most recent open Enter of the same node. -/
def Matched : List Event → List Tree → Prop
  | [], stk => stk = []
  | .enter t :: es, stk => Matched es (t :: stk)
  | .leave t :: es, stk => ∃ stk', stk = t :: stk' ∧ Matched es stk'

mutual
theorem matched_events (t : Tree) (rest : List Event) (stk : List Tree) :
    Matched (events t ++ rest) stk ↔ Matched rest stk := by
  cases t with
  | leaf o l n => simp [events, Matched]
  | node k ks =>
    simp only [events, List.cons_append, Matched, List.append_assoc]
    rw [matched_eventsL ks]
    simp [Matched]
theorem matched_eventsL (ts : List Tree) (rest : List Event) (stk : List Tree) :
    Matched (eventsL ts ++ rest) stk ↔ Matched rest stk := by
  cases ts with
  | nil => simp [eventsL]
  | cons t ts =>
    simp only [eventsL, List.append_assoc]
    rw [matched_events t, matched_eventsL ts]
end

end Sv

namespace Sv

/-! ### get_str / get_str_trim -/

theorem leavesL_append (a b : List Tree) : leavesL (a ++ b) = leavesL a ++ leavesL b := by
  induction a with
  | nil => simp [leavesL]
  | cons t ts ih => simp [leavesL, ih, List.append_assoc]

/-- the accumulator update `get_str` performs on a `Locate` -/
def leafAcc (acc : Option Nat × Nat) (x : Nat × Nat × Nat) : Option Nat × Nat :=
  match acc.1 with
  | none => (some x.1, x.1 + x.2.1)
  | some b => (some b, x.1 + x.2.1)

mutual
theorem strAcc_pre (t : Tree) (acc : Option Nat × Nat) :
    (pre t).foldl strAcc acc = (leaves t).foldl leafAcc acc := by
  cases t with
  | leaf o l n =>
    simp [pre, leaves, strAcc, leafAcc]
    rcases acc with ⟨_|_, _⟩ <;> rfl
  | node k ks => simp [pre, leaves, strAcc, strAcc_preL ks]
theorem strAcc_preL (ts : List Tree) (acc : Option Nat × Nat) :
    (preL ts).foldl strAcc acc = (leavesL ts).foldl leafAcc acc := by
  cases ts with
  | nil => simp [preL, leavesL]
  | cons t ts => simp [preL, leavesL, List.foldl_append, strAcc_pre t, strAcc_preL ts]
end

/-- specification of the slice: from the first leaf's offset to the last leaf's end -/
def leafRange : List (Nat × Nat × Nat) → Option (Nat × Nat)
  | [] => none
  | x :: xs => some (x.1, ((x :: xs).getLast (by simp)).1 + ((x :: xs).getLast (by simp)).2.1)

theorem leafAcc_some (ls : List (Nat × Nat × Nat)) (b e : Nat) :
    ∃ e', ls.foldl leafAcc (some b, e) = (some b, e') ∧
      e' = (match ls.getLast? with | none => e | some x => x.1 + x.2.1) := by
  induction ls generalizing e with
  | nil => simp
  | cons x xs ih =>
    simp only [List.foldl_cons, leafAcc]
    obtain ⟨e', h1, h2⟩ := ih (x.1 + x.2.1)
    refine ⟨e', h1, ?_⟩
    rw [h2]
    cases xs with
    | nil => simp
    | cons y ys =>
      rw [List.getLast?_cons_cons]
      cases h : (y :: ys).getLast? with
      | none => simp at h
      | some z => rfl

theorem leafFold_range (ls : List (Nat × Nat × Nat)) :
    (match (ls.foldl leafAcc (none, 0)).1 with
     | none => none
     | some b => some (b, (ls.foldl leafAcc (none, 0)).2)) = leafRange ls := by
  cases ls with
  | nil => simp [leafRange]
  | cons x xs =>
    simp only [List.foldl_cons, leafAcc]
    obtain ⟨e', h1, h2⟩ := leafAcc_some xs x.1 (x.1 + x.2.1)
    rw [h1]
    simp only [leafRange]
    rw [h2]
    cases xs with
    | nil => simp
    | cons y ys =>
      simp [List.getLast_cons]
      rw [List.getLast?_eq_some_getLast (by simp : y :: ys ≠ [])]

mutual
/-- leaves that are not below a `WhiteSpace` node -/
def trimLeaves (ws : Nat) : Tree → List (Nat × Nat × Nat)
  | .leaf o l n => [(o, l, n)]
  | .node k ks => if k = ws then [] else trimLeavesL ws ks
def trimLeavesL (ws : Nat) : List Tree → List (Nat × Nat × Nat)
  | [] => []
  | t :: ts => trimLeaves ws t ++ trimLeavesL ws ts
end

mutual
/-- below an open `WhiteSpace` (depth > 0) nothing is counted and the depth is restored -/
theorem trim_skip (ws : Nat) (t : Tree) (s : TrimSt) (hs : 0 < s.skip) :
    (events t).foldl (trimStep ws) s = s := by
  cases t with
  | leaf o l n =>
    have : s.skip ≠ 0 := by omega
    simp [events, trimStep, this]
  | node k ks =>
    by_cases hk : k = ws
    · subst hk
      have h1 := trim_skipL k ks { s with skip := s.skip + 1 } (by simp)
      simp [events, List.foldl_append, trimStep, h1]
    · simp [events, List.foldl_append, trimStep, hk, trim_skipL ws ks s hs]
theorem trim_skipL (ws : Nat) (ts : List Tree) (s : TrimSt) (hs : 0 < s.skip) :
    (eventsL ts).foldl (trimStep ws) s = s := by
  cases ts with
  | nil => simp [eventsL]
  | cons t ts =>
    simp [eventsL, List.foldl_append, trim_skip ws t s hs, trim_skipL ws ts s hs]
end

def trimAcc (s : TrimSt) (x : Nat × Nat × Nat) : TrimSt :=
  { s with beg := (match s.beg with | none => some x.1 | some b => some b), en := x.1 + x.2.1 }

theorem trimAcc_skip (ls : List (Nat × Nat × Nat)) (s : TrimSt) :
    (ls.foldl trimAcc s).skip = s.skip := by
  induction ls generalizing s with
  | nil => rfl
  | cons x xs ih => simp [List.foldl_cons, ih, trimAcc]

mutual
theorem trim_flat (ws : Nat) (t : Tree) (s : TrimSt) (hs : s.skip = 0) :
    (events t).foldl (trimStep ws) s = (trimLeaves ws t).foldl trimAcc s := by
  cases t with
  | leaf o l n =>
    simp [events, trimStep, hs, trimLeaves, trimAcc]
    cases s.beg <;> rfl
  | node k ks =>
    by_cases hk : k = ws
    · subst hk
      have := trim_skipL k ks { s with skip := s.skip + 1 } (by simp)
      simp [events, List.foldl_append, trimStep, trimLeaves, this]
    · simp [events, List.foldl_append, trimStep, hk, trimLeaves, trim_flatL ws ks s hs]
theorem trim_flatL (ws : Nat) (ts : List Tree) (s : TrimSt) (hs : s.skip = 0) :
    (eventsL ts).foldl (trimStep ws) s = (trimLeavesL ws ts).foldl trimAcc s := by
  cases ts with
  | nil => simp [eventsL, trimLeavesL]
  | cons t ts =>
    have h1 := trim_flat ws t s hs
    have hs' : ((trimLeaves ws t).foldl trimAcc s).skip = 0 := by rw [trimAcc_skip]; exact hs
    simp [eventsL, trimLeavesL, List.foldl_append, h1, trim_flatL ws ts _ hs']
end

theorem trimAcc_leafAcc (ls : List (Nat × Nat × Nat)) (s : TrimSt) :
    ((ls.foldl trimAcc s).beg, (ls.foldl trimAcc s).en) = ls.foldl leafAcc (s.beg, s.en) := by
  induction ls generalizing s with
  | nil => rfl
  | cons x xs ih =>
    simp only [List.foldl_cons]
    rw [ih]
    congr 1
    simp only [trimAcc, leafAcc]
    cases s.beg <;> rfl

end Sv

import SvModel.Lemmas.Walker
/-!
# With `ignore_include` the file system is never consulted (C10)

`walk_ignore_include`: two configurations that differ only in the file system and the include path list give the same result for every run
with `ignore_include = true` — `preprocess_str`, the event loop and `resolve_text_macro_usage`, through macro expansion (the flag is passed on to
the re-scan of an expansion: repair D7). By induction on fuel.
-/
namespace Sv

section
variable (K : PpKinds) (g : Grammar) (fs fs' : Fs) (incs incs' : List Bytes)

theorem enterStep_ignore (recI recI' : Bytes → Defines → Bool → Bool → Nat → Nat → Except PpError (POut × Defines))
    (recU recU' : Input → Bytes → Bytes → Tree → Defines → Bool → Bool → Nat → Nat → Except PpError (Option (Bytes × Option (Bytes × Range) × Defines)))
    (hU : ∀ inp s path x d sc rd id, recU inp s path x d true sc rd id = recU' inp s path x d true sc rd id)
    (inp : Input) (s path : Bytes) (sc : Bool) (rd id : Nat) (w : WState) (x : Tree) :
    enterStep ⟨K, g, fs, incs⟩ recI recU inp s path true sc rd id w x = enterStep ⟨K, g, fs', incs'⟩ recI' recU' inp s path true sc rd id w x := by
  unfold enterStep
  dsimp only
  simp only [Bool.not_true, Bool.and_false, Bool.false_eq_true, if_false]
  by_cases c0 : (x.baseKind == K.sdNotDirective) = true
  · simp only [c0, if_true]; rfl
  · simp only [c0, Bool.false_eq_true, if_false]
    by_cases c1 : (x.kind == K.sdStringLiteral || x.kind == K.sdEscapedIdentifier) = true
    · simp only [c1, if_true]; rfl
    · simp only [c1, Bool.false_eq_true, if_false]
      by_cases c2 : K.kept.contains x.baseKind = true
      · simp only [c2, if_true]; rfl
      · simp only [c2, Bool.false_eq_true, if_false]
        by_cases c3 : (x.baseKind == K.undefine) = true
        · simp only [c3, if_true]; rfl
        · simp only [c3, Bool.false_eq_true, if_false]
          by_cases c4 : (x.baseKind == K.undefineall) = true
          · simp only [c4, if_true]; rfl
          · simp only [c4, Bool.false_eq_true, if_false]
            by_cases c5 : (x.baseKind == K.ifdef || x.baseKind == K.ifndef) = true
            · simp only [c5, if_true]; rfl
            · simp only [c5, Bool.false_eq_true, if_false]
              by_cases c6 : (x.baseKind == K.whiteSpace) = true
              · simp only [c6, if_true]; rfl
              · simp only [c6, Bool.false_eq_true, if_false]
                by_cases c7 : (x.baseKind == K.comment) = true
                · simp only [c7, if_true]; rfl
                · simp only [c7, Bool.false_eq_true, if_false]
                  by_cases c8 : (x.baseKind == K.textMacroDefinition) = true
                  · simp only [c8, if_true]; rfl
                  · simp only [c8, Bool.false_eq_true, if_false]
                    by_cases c10 : (x.baseKind == K.textMacroUsage) = true
                    · simp only [c10, if_true]; unfold armUsage; dsimp only; rw [hU]
                    · simp only [c10, Bool.false_eq_true, if_false]
                      by_cases c11 : (x.baseKind == K.position) = true
                      · simp only [c11, if_true]; rfl
                      · simp only [c11, Bool.false_eq_true, if_false]

end

/-- **`ignore_include` runs never look at the file system or the include paths** -/
theorem walk_ignore_include (K : PpKinds) (g : Grammar) (fs fs' : Fs) (incs incs' : List Bytes) : ∀ (fuel : Nat),
    (∀ s path d sc rd id, preprocessStr ⟨K, g, fs, incs⟩ fuel s path d true sc rd id = preprocessStr ⟨K, g, fs', incs'⟩ fuel s path d true sc rd id) ∧
    (∀ inp s path sc rd id evs w, walk ⟨K, g, fs, incs⟩ fuel inp s path true sc rd id evs w = walk ⟨K, g, fs', incs'⟩ fuel inp s path true sc rd id evs w) ∧
    (∀ inp s path x d sc rd id, resolveUsage ⟨K, g, fs, incs⟩ fuel inp s path x d true sc rd id =
      resolveUsage ⟨K, g, fs', incs'⟩ fuel inp s path x d true sc rd id) := by
  intro fuel
  induction fuel with
  | zero => refine ⟨?_, ?_, ?_⟩ <;> intros <;> simp [preprocessStr, walk, resolveUsage]
  | succ n ih =>
    obtain ⟨ihS, ihW, ihU⟩ := ih
    refine ⟨?_, ?_, ?_⟩
    · intro s path d sc rd id
      unfold preprocessStr
      dsimp only
      split
      · rfl
      · split
        · rfl
        · rfl
        · exact ihW _ _ _ _ _ _ _ _
    · intro inp s path sc rd id evs w
      cases evs with
      | nil => simp only [walk]
      | cons ev evs =>
        unfold walk
        dsimp only
        split
        · exact ihW _ _ _ _ _ _ _ _
        · split
          · rfl
          · split
            · exact ihW _ _ _ _ _ _ _ _
            · rename_i x
              rw [enterStep_ignore K g fs fs' incs incs' (preprocessInner ⟨K, g, fs, incs⟩ n) (preprocessInner ⟨K, g, fs', incs'⟩ n)
                (resolveUsage ⟨K, g, fs, incs⟩ n) (resolveUsage ⟨K, g, fs', incs'⟩ n) (fun inp s path x d sc rd id => ihU inp s path x d sc rd id)]
              split
              · rfl
              · exact ihW _ _ _ _ _ _ _ _
    · intro inp s path x d sc rd id
      unfold resolveUsage
      dsimp only
      split
      · rfl
      · split
        · rfl
        · rfl
        · split
          · rfl
          · split
            · rfl
            · split
              · rfl
              · rw [ihS]

end Sv

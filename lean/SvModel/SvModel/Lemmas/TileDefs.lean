import SvModel.Core.Peg
/-!
Definitions for the tiling theorem (T-tiling): the chain predicate on leaves, the memo invariant and
the decidable syntactic well-formedness check `TileWF` that `decide +kernel` discharges on the
generated grammar.
-/
namespace Sv

/-- The leaf ranges follow one another from `p` to `q` without gap or overlap, none is empty, and each
    carries the line `1 + #newlines before it`; every leaf lies inside the text. -/
def Chain (inp : Input) : Nat → List (Nat × Nat × Nat) → Nat → Prop
  | p, [], q => p = q
  | p, (o, l, n) :: ls, q => o = p ∧ 0 < l ∧ o + l ≤ inp.size ∧ n = lineAt inp o ∧ Chain inp (p + l) ls q

def TilesF (inp : Input) (p : Nat) (ts : List Tree) (q : Nat) : Prop := Chain inp p (leavesL ts) q

/-- what a successful outcome must satisfy -/
def TilesO (inp : Input) (p : Nat) : Out → Prop
  | .ok q _ ts => TilesF inp p ts q
  | _ => True

/-- a non-consuming expression does not move -/
def StaysO (p : Nat) : Out → Prop
  | .ok q _ _ => q = p
  | _ => True

/-- memo invariant: every stored success tiles from its key's position -/
def MemoOK (inp : Input) (m : Memo) : Prop :=
  ∀ f pos b ts len, m.find? (f, pos, b) = some (some (ts, len)) → TilesF inp pos ts (pos + len)

def Inv (inp : Input) (st : PState) : Prop := MemoOK inp st.memo

/-! ### syntactic checks -/

def Term.nonEmpty : Term → Bool
  | .tag bs => !bs.isEmpty
  | .tagNoCase bs => !bs.isEmpty
  | .take n => n != 0
  | _ => true

mutual
/-- syntactically non-consuming: lookahead, end of input, effects, and sequences of those -/
def Still : PExpr → Bool
  | .peek _ => true
  | .not _ => true
  | .eof => true
  | .beginDir => true
  | .endDir => true
  | .beginKw _ => true
  | .endKw => true
  | .fail => true
  | .kwGuard _ => true
  | .drop e => Still e
  | .seq es => StillL es
  | _ => false
def StillL : List PExpr → Bool
  | [] => true
  | e :: es => Still e && StillL es
end

def shapeVars : Shape → List Nat
  | .var i => [i]
  | .tuple ss => shapeVarsL ss
  | .node _ s => shapeVars s
  | .leaf s => shapeVars s
  | .empty => []
where shapeVarsL : List Shape → List Nat
  | [] => []
  | s :: ss => shapeVars s ++ shapeVarsL ss

mutual
/-- `TileWF`: every value that is produced is used exactly once, in order; values may be dropped only when
    the dropped expression is syntactically non-consuming; terminals are non-empty. -/
def WF : PExpr → Bool
  | .term t => t.nonEmpty
  | .eof => true
  | .call _ => true
  | .seq es => WFL es
  | .alt es => WFL es
  | .opt e => WF e
  | .many0 e => WF e
  | .many1 e => WF e
  | .manyTill e t => WF e && WF t
  | .list sep item => WF sep && WF item
  | .peek _ => false
  | .not _ => true
  | .drop e => Still e
  | .allConsuming e => WF e
  | .node _ e => WF e
  | .lexeme e => WF e
  | .identKw e => WF e
  | .beginDir => true
  | .endDir => true
  | .beginKw _ => true
  | .endKw => true
  | .dirScope e => WF e
  | .kwScope _ e => WF e
  | .kwGuard _ => true
  | .ifDir a b => WF a && WF b
  | .nestl first item _ _ => WF first && WF item
  | .shaped stmts res => WFS stmts (shapeVars res) 0
  | .fail => true
def WFL : List PExpr → Bool
  | [] => true
  | e :: es => WF e && WFL es
/-- statements against the (sorted) list of variables the result uses, `i` = index of the head statement -/
def WFS : List PExpr → List Nat → Nat → Bool
  | [], vs, _ => vs.isEmpty
  | e :: es, [], i => Still e && WFS es [] (i + 1)
  | e :: es, v :: vs, i =>
    (v :: vs).all (fun w => decide (i ≤ w)) &&
    (if v = i then WF e && WFS es vs (i + 1) else Still e && WFS es (v :: vs) (i + 1))
end

def Prod.wf (p : Prod) : Bool := WF p.body

def GrammarWF (g : Grammar) : Prop := ∀ f, WF (g.prod f).body = true

/-! ### basic lemmas on `Chain` -/

theorem Chain.append {inp : Input} {p m q : Nat} {a b : List (Nat × Nat × Nat)}
    (h1 : Chain inp p a m) (h2 : Chain inp m b q) : Chain inp p (a ++ b) q := by
  induction a generalizing p with
  | nil => simp [Chain] at h1; subst h1; simpa using h2
  | cons x xs ih =>
    obtain ⟨o, l, n⟩ := x
    simp only [Chain, List.cons_append] at h1 ⊢
    exact ⟨h1.1, h1.2.1, h1.2.2.1, h1.2.2.2.1, ih h1.2.2.2.2⟩

theorem Chain.split {inp : Input} {p q : Nat} {a b : List (Nat × Nat × Nat)}
    (h : Chain inp p (a ++ b) q) : ∃ m, Chain inp p a m ∧ Chain inp m b q := by
  induction a generalizing p with
  | nil => exact ⟨p, by simp [Chain], by simpa using h⟩
  | cons x xs ih =>
    obtain ⟨o, l, n⟩ := x
    simp only [Chain, List.cons_append] at h
    obtain ⟨m, h1, h2⟩ := ih h.2.2.2.2
    exact ⟨m, ⟨h.1, h.2.1, h.2.2.1, h.2.2.2.1, h1⟩, h2⟩

theorem Chain.le {inp : Input} {p q : Nat} {a : List (Nat × Nat × Nat)} (h : Chain inp p a q) : p ≤ q := by
  induction a generalizing p with
  | nil => simp [Chain] at h; omega
  | cons x xs ih =>
    obtain ⟨o, l, n⟩ := x
    simp only [Chain] at h
    have := ih h.2.2.2.2
    omega

theorem Chain.nil_iff {inp : Input} {p q : Nat} : Chain inp p [] q ↔ p = q := by simp [Chain]

def sumLen : List (Nat × Nat × Nat) → Nat
  | [] => 0
  | x :: xs => x.2.1 + sumLen xs

theorem foldl_len (rest : List (Nat × Nat × Nat)) (a : Nat) :
    rest.foldl (fun acc x => acc + x.2.1) a = a + sumLen rest := by
  induction rest generalizing a with
  | nil => simp [sumLen]
  | cons x xs ih => simp [List.foldl_cons, ih, sumLen]; omega

theorem Chain.end_eq {inp : Input} {p q : Nat} {a : List (Nat × Nat × Nat)} (h : Chain inp p a q) :
    q = p + sumLen a := by
  induction a generalizing p with
  | nil => simp [Chain] at h; simp [sumLen, h]
  | cons x xs ih =>
    obtain ⟨o, l, n⟩ := x
    simp only [Chain] at h
    have := ih h.2.2.2.2
    simp [sumLen]; omega

theorem leavesL_append' (a b : List Tree) : leavesL (a ++ b) = leavesL a ++ leavesL b := by
  induction a with
  | nil => simp [leavesL]
  | cons t ts ih => simp [leavesL, ih, List.append_assoc]

/-- a non-empty chain ends inside the text -/
theorem Chain.end_le {inp : Input} {p q : Nat} {a : List (Nat × Nat × Nat)} (h : Chain inp p a q)
    (hne : a ≠ []) : q ≤ inp.size := by
  induction a generalizing p with
  | nil => exact absurd rfl hne
  | cons x xs ih =>
    obtain ⟨o, l, n⟩ := x
    simp only [Chain] at h
    cases xs with
    | nil => simp only [Chain] at h; omega
    | cons y ys => exact ih h.2.2.2.2 (by simp)

theorem Chain.end_le' {inp : Input} {p q : Nat} {a : List (Nat × Nat × Nat)} (h : Chain inp p a q)
    (hp : p ≤ inp.size) : q ≤ inp.size := by
  cases a with
  | nil => simp [Chain] at h; omega
  | cons x xs => exact h.end_le (by simp)

/-- merging the leaves of a tiling forest gives a tiling forest -/
theorem tiles_merge {inp : Input} {p q : Nat} {ts : List Tree} (h : TilesF inp p ts q) :
    TilesF inp p (mergeLeaves ts) q := by
  unfold TilesF at *
  unfold mergeLeaves
  cases hl : leavesL ts with
  | nil => rw [hl] at h; simpa [leavesL] using h
  | cons x rest =>
    obtain ⟨o, l, n⟩ := x
    rw [hl] at h
    have he := Chain.end_eq h
    have hle := Chain.end_le h (by simp)
    simp only [Chain] at h
    simp only [leavesL, leaves, List.append_nil, Chain, foldl_len]
    simp [sumLen] at he
    refine ⟨h.1, by omega, by omega, h.2.2.2.1, ?_⟩
    omega

theorem tilesF_append {inp : Input} {p m q : Nat} {a b : List Tree}
    (h1 : TilesF inp p a m) (h2 : TilesF inp m b q) : TilesF inp p (a ++ b) q := by
  unfold TilesF at *; rw [leavesL_append']; exact Chain.append h1 h2

theorem tilesF_nil {inp : Input} {p : Nat} : TilesF inp p [] p := by simp [TilesF, leavesL, Chain]

theorem tilesF_node {inp : Input} {p q k : Nat} {ts : List Tree} (h : TilesF inp p ts q) :
    TilesF inp p [.node k ts] q := by
  simpa [TilesF, leavesL, leaves] using h

end Sv

import SvModel.Lemmas.Tree
/-!
# Structural equality of trees is equality; occurrences in a tiled forest are pairwise different

* `Tree.beq_iff_eq`, `LawfulBEq Tree`: the `==` used by the skip list of the preprocessor (`SkipNodes::contains`) is equality.
-/
namespace Sv

mutual
theorem Tree.beq_eq : ∀ (a b : Tree), Tree.beq a b = true → a = b
  | .leaf a b c, .leaf a' b' c', h => by
    simp only [Tree.beq, Bool.and_eq_true, beq_iff_eq] at h
    obtain ⟨⟨h1, h2⟩, h3⟩ := h
    subst h1 h2 h3; rfl
  | .node k ks, .node k' ks', h => by
    simp only [Tree.beq, Bool.and_eq_true, beq_iff_eq] at h
    obtain ⟨h1, h2⟩ := h
    subst h1
    rw [Tree.beqL_eq ks ks' h2]
  | .leaf .., .node .., h => by simp [Tree.beq] at h
  | .node .., .leaf .., h => by simp [Tree.beq] at h
theorem Tree.beqL_eq : ∀ (a b : List Tree), Tree.beqL a b = true → a = b
  | [], [], _ => rfl
  | t :: ts, t' :: ts', h => by
    simp only [Tree.beqL, Bool.and_eq_true] at h
    rw [Tree.beq_eq t t' h.1, Tree.beqL_eq ts ts' h.2]
  | [], _ :: _, h => by simp [Tree.beqL] at h
  | _ :: _, [], h => by simp [Tree.beqL] at h
end

mutual
theorem Tree.beq_refl : ∀ (a : Tree), Tree.beq a a = true
  | .leaf a b c => by simp [Tree.beq]
  | .node k ks => by simp [Tree.beq, Tree.beqL_refl ks]
theorem Tree.beqL_refl : ∀ (a : List Tree), Tree.beqL a a = true
  | [] => rfl
  | t :: ts => by simp [Tree.beqL, Tree.beq_refl t, Tree.beqL_refl ts]
end

instance : LawfulBEq Tree where
  eq_of_beq {a b} h := Tree.beq_eq a b h
  rfl {a} := Tree.beq_refl a

theorem Tree.beq_iff_eq (a b : Tree) : (a == b) = true ↔ a = b := by simp

/-- membership in the skip list is list membership -/
theorem contains_iff_mem (l : List Tree) (t : Tree) : l.contains t = true ↔ t ∈ l := by simp

end Sv

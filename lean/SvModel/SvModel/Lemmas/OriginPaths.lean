import SvModel.Lemmas.Walker
/-!
# Origins name only files that were read (C03: "no other file")

`walk_paths`: if `A` holds of the path of the text being preprocessed, of every file of the file system, and of the origin path of every macro
in the caller's table, then after any successful run `A` holds of the path of every origin segment of the output and of every macro in the
returned table. By induction on fuel through event loop ↔ `include ↔ macro expansion.
-/
namespace Sv

def OriginsIn (A : Bytes → Prop) (m : OMap) : Prop := ∀ kv ∈ m, ∀ p r, kv.2.src = some (p, r) → A p
def POut.PathsIn (A : Bytes → Prop) (o : POut) : Prop := OriginsIn A o.origins
def DefsIn (A : Bytes → Prop) (d : Defines) : Prop :=
  ∀ kv ∈ d, ∀ df dt p r, kv.2 = some df → df.text = some dt → dt.origin = some (p, r) → A p

theorem originsIn_insert (A : Bytes → Prop) : ∀ (m : OMap) (k : Range) (v : Origin), OriginsIn A m → (∀ p r, v.src = some (p, r) → A p) →
    OriginsIn A (m.insert k v) := by
  intro m
  induction m with
  | nil =>
    intro k v _ hv kv hkv p r hs
    simp only [OMap.insert, List.mem_singleton] at hkv; subst hkv; exact hv p r hs
  | cons hd tl ih =>
    intro k v hm hv
    obtain ⟨k', v'⟩ := hd
    unfold OMap.insert
    split
    · intro kv hkv p r hs
      simp only [List.mem_cons] at hkv
      rcases hkv with rfl | rfl | hkv
      · exact hv p r hs
      · exact hm _ (by simp) p r hs
      · exact hm _ (by simp [hkv]) p r hs
    · intro kv hkv p r hs
      simp only [List.mem_cons] at hkv
      rcases hkv with rfl | hkv
      · exact hv p r hs
      · exact hm _ (by simp [hkv]) p r hs
    · intro kv hkv p r hs
      simp only [List.mem_cons] at hkv
      rcases hkv with rfl | hkv
      · exact hm _ (by simp) p r hs
      · exact ih k v (fun kv h => hm kv (by simp [h])) hv kv hkv p r hs

theorem pathsIn_empty (A : Bytes → Prop) : ({} : POut).PathsIn A := by intro kv h; cases h

theorem pathsIn_push (A : Bytes → Prop) (o : POut) (s : Bytes) (src : Option (Bytes × Range)) (h : o.PathsIn A)
    (hs : ∀ p r, src = some (p, r) → A p) : (o.push s src).PathsIn A := by
  unfold POut.push; split
  · exact h
  · exact originsIn_insert A _ _ _ h hs

theorem pathsIn_merge (A : Bytes → Prop) (o i : POut) (h : o.PathsIn A) (hi : i.PathsIn A) : (o.merge i).PathsIn A := by
  unfold POut.merge POut.PathsIn
  dsimp only
  have : ∀ (l : OMap) (m : OMap), OriginsIn A m → OriginsIn A l →
      OriginsIn A (l.foldl (fun m (kv : Range × Origin) => m.insert (kv.1.offset o.text.length) { kv.2 with range := kv.2.range.offset o.text.length }) m) := by
    intro l
    induction l with
    | nil => intro m hm _; exact hm
    | cons x xs ih =>
      intro m hm hl
      rw [List.foldl_cons]
      apply ih
      · exact originsIn_insert A _ _ _ hm (fun p r hs => hl x (by simp) p r hs)
      · exact fun kv h => hl kv (by simp [h])
  exact this _ _ h hi

theorem defsIn_insert (A : Bytes → Prop) (d : Defines) (k : Bytes) (v : Option Define) (h : DefsIn A d)
    (hv : ∀ df dt p r, v = some df → df.text = some dt → dt.origin = some (p, r) → A p) : DefsIn A (d.insert k v) := by
  intro kv hkv df dt p r h1 h2 h3
  unfold Defines.insert at hkv
  simp only [List.mem_cons, List.mem_filter] at hkv
  rcases hkv with rfl | ⟨hm, _⟩
  · exact hv df dt p r h1 h2 h3
  · exact h kv hm df dt p r h1 h2 h3

theorem defsIn_remove (A : Bytes → Prop) (d : Defines) (k : Bytes) (h : DefsIn A d) : DefsIn A (d.remove k) := by
  intro kv hkv df dt p r h1 h2 h3
  unfold Defines.remove at hkv
  exact h kv (List.mem_filter.mp hkv).1 df dt p r h1 h2 h3

theorem defsIn_nil (A : Bytes → Prop) : DefsIn A [] := by intro kv h; cases h

theorem defsIn_get (A : Bytes → Prop) (d : Defines) (k : Bytes) (df : Define) (dt : DefineText) (p : Bytes) (r : Range) (h : DefsIn A d)
    (hg : d.get? k = some (some df)) (ht : df.text = some dt) (ho : dt.origin = some (p, r)) : A p := by
  unfold Defines.get? at hg
  split at hg
  · rename_i x hx
    have hm := List.mem_of_find?_eq_some hx
    simp only [Option.some.injEq] at hg
    exact h x hm df dt p r hg ht ho
  · cases hg

end Sv

namespace Sv

def WIn (A : Bytes → Prop) (w : WState) : Prop := w.out.PathsIn A ∧ DefsIn A w.defines

theorem pushLoc_win (A : Bytes → Prop) (inp : Input) (path : Bytes) (w : WState) (x : Tree) (h : WIn A w) (hp : A path) :
    WIn A (pushLoc inp path w x) := by
  unfold pushLoc; split
  · refine ⟨pathsIn_push A _ _ _ h.1 ?_, h.2⟩
    intro p r hs; simp only [Option.some.injEq] at hs; cases hs; exact hp
  · exact h

theorem foldl_pushLoc_win (A : Bytes → Prop) (inp : Input) (path : Bytes) (ts : List Tree) (w : WState) (h : WIn A w) (hp : A path) :
    WIn A (ts.foldl (pushLoc inp path) w) := by
  induction ts generalizing w with
  | nil => exact h
  | cons t ts ih => rw [List.foldl_cons]; exact ih _ (pushLoc_win A inp path w t h hp)

theorem skipPush_win (A : Bytes → Prop) (w : WState) (t : Tree) (h : WIn A w) : WIn A (w.skipPush t) := by
  unfold WIn; rw [skipPush_out, skipPush_defines]; exact h

theorem skipPushAll_win (A : Bytes → Prop) (w : WState) (ts : List Tree) (h : WIn A w) : WIn A (skipPushAll w ts) := by
  unfold WIn; rw [skipPushAll_out, skipPushAll_defines]; exact h

section
variable (A : Bytes → Prop) (C : Cfg)
    (recI : Bytes → Defines → Bool → Bool → Nat → Nat → Except PpError (POut × Defines))
    (recU : Input → Bytes → Bytes → Tree → Defines → Bool → Bool → Nat → Nat → Except PpError (Option (Bytes × Option (Bytes × Range) × Defines)))
    (inp : Input) (s path : Bytes) (ii sc : Bool) (rd id : Nat) (w w' : WState) (x : Tree)

theorem armDefine_win (h : WIn A w) (hp : A path) (he : armDefine C recI recU inp s path ii sc rd id w x = .ok w') : WIn A w' := by
  unfold armDefine at he; dsimp only at he
  have hA : WIn A { (w.skipPush x) with skip := true } := skipPush_win A w x h
  split at he
  · split at he
    · injection he with he; subst he
      refine pushLoc_win A inp path _ x ⟨hA.1, defsIn_insert A _ _ _ hA.2 ?_⟩ hp
      intro df dt p r h1 h2 h3
      simp only [Option.some.injEq] at h1; subst h1
      dsimp only at h2
      split at h2
      · split at h2
        · simp only [Option.some.injEq] at h2; subst h2
          simp only [Option.some.injEq] at h3; cases h3; exact hp
        · cases h2
      · cases h2
    · injection he with he; subst he; exact pushLoc_win A inp path _ x hA hp
  · injection he with he; subst he; exact pushLoc_win A inp path _ x hA hp

theorem armUsage_win
    (hU : ∀ inp s x d ii sc rd id t org nd, DefsIn A d → recU inp s path x d ii sc rd id = .ok (some (t, org, nd)) →
      (∀ p r, org = some (p, r) → A p) ∧ DefsIn A nd)
    (h : WIn A w) (hp : A path) (he : armUsage C recI recU inp s path ii sc rd id w x = .ok w') : WIn A w' := by
  unfold armUsage at he; dsimp only at he
  have hA : WIn A { (w.skipPush x) with skip := true } := skipPush_win A w x h
  split at he
  · cases he
  · rename_i r hr
    injection he with he; subst he
    apply foldl_pushLoc_win A inp path _ _ _ hp
    cases r with
    | none => exact hA
    | some v =>
      obtain ⟨t, org, nd⟩ := v
      have := hU inp s x _ ii sc (rd + 1) id t org nd hA.2 hr
      exact ⟨pathsIn_push A _ _ _ hA.1 this.1, this.2⟩

theorem armInclude_win
    (hI : ∀ p d sc ii rd id o d', DefsIn A d → recI p d sc ii rd id = .ok (o, d') → o.PathsIn A ∧ DefsIn A d')
    (h : WIn A w) (he : armInclude C recI recU inp s path ii sc rd id w x = .ok w') : WIn A w' := by
  unfold armInclude at he; dsimp only at he
  have hA : WIn A { (w.skipPush x) with skip := true } := skipPush_win A w x h
  repeat' split at he
  all_goals first
    | (cases he; done)
    | (injection he with he; subst he
       first
         | exact hA
         | exact skipPushAll_win A _ _ hA
         | (rename_i heq
            simp only [skipPushAll_defines] at heq
            have hr := hI _ _ _ _ _ _ _ _ hA.2 heq
            refine ⟨pathsIn_merge A _ _ ?_ hr.1, hr.2⟩
            unfold POut.PathsIn; rw [skipPushAll_out]; exact hA.1))

/-- the arms that only copy text of the current file, drop macros, or list nodes -/
macro "win_simple" h:ident hp:ident he:ident : tactic => `(tactic|
  (repeat' split at $he:ident
   all_goals first
     | (cases $he:ident; done)
     | (injection $he:ident with $he:ident; subst $he:ident
        first
          | exact $h
          | exact pushLoc_win _ _ _ _ _ $h $hp
          | exact skipPushAll_win _ _ _ $h
          | exact pushLoc_win _ _ _ _ _ ⟨($h).1, defsIn_remove _ _ _ ($h).2⟩ $hp
          | exact pushLoc_win _ _ _ _ _ ⟨($h).1, defsIn_nil _⟩ $hp
          | (refine ⟨pathsIn_push _ _ _ _ ($h).1 ?_, ($h).2⟩
             intro p r hs
             first
               | (cases hs; done)
               | (simp only [Option.some.injEq] at hs; cases hs; exact $hp))
          | (refine ⟨pathsIn_push _ _ _ _ (skipPush_win _ _ _ $h).1 ?_, (skipPush_win _ _ _ $h).2⟩
             intro p r hs; cases hs)
          | exact skipPush_win _ _ _ $h)))

theorem armNotDirective_win (h : WIn A w) (hp : A path) (he : armNotDirective C recI recU inp s path ii sc rd id w x = .ok w') : WIn A w' := by
  unfold armNotDirective at he; dsimp only at he; win_simple h hp he
theorem armStrLike_win (h : WIn A w) (hp : A path) (he : armStrLike C recI recU inp s path ii sc rd id w x = .ok w') : WIn A w' := by
  unfold armStrLike at he; dsimp only at he; win_simple h hp he
theorem armKept_win (h : WIn A w) (hp : A path) (he : armKept C recI recU inp s path ii sc rd id w x = .ok w') : WIn A w' := by
  unfold armKept at he; dsimp only at he; win_simple h hp he
theorem armUndef_win (h : WIn A w) (hp : A path) (he : armUndef C recI recU inp s path ii sc rd id w x = .ok w') : WIn A w' := by
  unfold armUndef at he; dsimp only at he; win_simple h hp he
theorem armUndefAll_win (h : WIn A w) (hp : A path) (he : armUndefAll C recI recU inp s path ii sc rd id w x = .ok w') : WIn A w' := by
  unfold armUndefAll at he; dsimp only at he; win_simple h hp he
theorem armCond_win (h : WIn A w) (hp : A path) (he : armCond C recI recU inp s path ii sc rd id w x = .ok w') : WIn A w' := by
  unfold armCond at he; dsimp only at he; win_simple h hp he
theorem armWhiteSpace_win (h : WIn A w) (hp : A path) (he : armWhiteSpace C recI recU inp s path ii sc rd id w x = .ok w') : WIn A w' := by
  unfold armWhiteSpace at he; dsimp only at he; win_simple h hp he
theorem armComment_win (h : WIn A w) (hp : A path) (he : armComment C recI recU inp s path ii sc rd id w x = .ok w') : WIn A w' := by
  unfold armComment at he; dsimp only at he; win_simple h hp he
theorem armPosition_win (h : WIn A w) (hp : A path) (he : armPosition C recI recU inp s path ii sc rd id w x = .ok w') : WIn A w' := by
  unfold armPosition at he; dsimp only at he; win_simple h hp he

end

end Sv

namespace Sv

section
variable (A : Bytes → Prop) (C : Cfg)
    (recI : Bytes → Defines → Bool → Bool → Nat → Nat → Except PpError (POut × Defines))
    (recU : Input → Bytes → Bytes → Tree → Defines → Bool → Bool → Nat → Nat → Except PpError (Option (Bytes × Option (Bytes × Range) × Defines)))
    (inp : Input) (s path : Bytes) (ii sc : Bool) (rd id : Nat) (w w' : WState) (x : Tree)

theorem enterStep_win
    (hI : ∀ p d sc ii rd id o d', DefsIn A d → recI p d sc ii rd id = .ok (o, d') → o.PathsIn A ∧ DefsIn A d')
    (hU : ∀ inp s x d ii sc rd id t org nd, DefsIn A d → recU inp s path x d ii sc rd id = .ok (some (t, org, nd)) →
      (∀ p r, org = some (p, r) → A p) ∧ DefsIn A nd)
    (h : WIn A w) (hp : A path) (he : enterStep C recI recU inp s path ii sc rd id w x = .ok w') : WIn A w' := by
  unfold enterStep at he; dsimp only at he
  by_cases c0 : (x.baseKind == C.K.sdNotDirective) = true
  · rw [if_pos c0] at he; exact armNotDirective_win A C recI recU inp s path ii sc rd id w w' x h hp he
  · rw [if_neg c0] at he
    by_cases c1 : (x.kind == C.K.sdStringLiteral || x.kind == C.K.sdEscapedIdentifier) = true
    · rw [if_pos c1] at he; exact armStrLike_win A C recI recU inp s path ii sc rd id w w' x h hp he
    · rw [if_neg c1] at he
      by_cases c2 : C.K.kept.contains x.baseKind = true
      · rw [if_pos c2] at he; exact armKept_win A C recI recU inp s path ii sc rd id w w' x h hp he
      · rw [if_neg c2] at he
        by_cases c3 : (x.baseKind == C.K.undefine) = true
        · rw [if_pos c3] at he; exact armUndef_win A C recI recU inp s path ii sc rd id w w' x h hp he
        · rw [if_neg c3] at he
          by_cases c4 : (x.baseKind == C.K.undefineall) = true
          · rw [if_pos c4] at he; exact armUndefAll_win A C recI recU inp s path ii sc rd id w w' x h hp he
          · rw [if_neg c4] at he
            by_cases c5 : (x.baseKind == C.K.ifdef || x.baseKind == C.K.ifndef) = true
            · rw [if_pos c5] at he; exact armCond_win A C recI recU inp s path ii sc rd id w w' x h hp he
            · rw [if_neg c5] at he
              by_cases c6 : (x.baseKind == C.K.whiteSpace) = true
              · rw [if_pos c6] at he; exact armWhiteSpace_win A C recI recU inp s path ii sc rd id w w' x h hp he
              · rw [if_neg c6] at he
                by_cases c7 : (x.baseKind == C.K.comment) = true
                · rw [if_pos c7] at he; exact armComment_win A C recI recU inp s path ii sc rd id w w' x h hp he
                · rw [if_neg c7] at he
                  by_cases c8 : (x.baseKind == C.K.textMacroDefinition) = true
                  · rw [if_pos c8] at he; exact armDefine_win A C recI recU inp s path ii sc rd id w w' x h hp he
                  · rw [if_neg c8] at he
                    by_cases c9 : (x.baseKind == C.K.includeDirective && !ii) = true
                    · rw [if_pos c9] at he; exact armInclude_win A C recI recU inp s path ii sc rd id w w' x hI h he
                    · rw [if_neg c9] at he
                      by_cases c10 : (x.baseKind == C.K.textMacroUsage) = true
                      · rw [if_pos c10] at he; exact armUsage_win A C recI recU inp s path ii sc rd id w w' x hU h hp he
                      · rw [if_neg c10] at he
                        by_cases c11 : (x.baseKind == C.K.position) = true
                        · rw [if_pos c11] at he; exact armPosition_win A C recI recU inp s path ii sc rd id w w' x h hp he
                        · rw [if_neg c11] at he
                          injection he with he; subst he; exact h
end

theorem skipStep_win (A : Bytes → Prop) (w : WState) (ev : Event) (h : WIn A w) : WIn A (skipStep w ev) := by
  unfold skipStep; split <;> split <;> exact h

theorem lineStep_win (A : Bytes → Prop) (K : PpKinds) (inp : Input) (w1 w2 : WState) (ev : Event) (h : WIn A w1)
    (he : lineStep K inp w1 ev = .ok w2) : WIn A w2 := by
  unfold lineStep at he
  dsimp only at he
  repeat' split at he
  all_goals first
    | (injection he with he; subst he; exact h)
    | (cases he)

theorem leaveStep_win (A : Bytes → Prop) (K : PpKinds) (w : WState) (x : Tree) (h : WIn A w) : WIn A (leaveStep K w x) := by
  unfold leaveStep; split <;> exact h

theorem defsIn_foldl_insert (A : Bytes → Prop) : ∀ (l : List (Bytes × Option Define)) (d0 : Defines), DefsIn A d0 → DefsIn A l →
    DefsIn A (l.foldl (fun d kv => d.insert kv.1 kv.2) d0) := by
  intro l
  induction l with
  | nil => intro d0 h _; exact h
  | cons x xs ih =>
    intro d0 h hl
    rw [List.foldl_cons]
    apply ih
    · exact defsIn_insert A d0 x.1 x.2 h (fun df dt p r h1 h2 h3 => hl x (by simp) df dt p r h1 h2 h3)
    · exact fun kv hkv => hl kv (by simp [hkv])

theorem defsIn_svcov (A : Bytes → Prop) : ∀ (l : List (String × String)) (d0 : Defines), DefsIn A d0 →
    DefsIn A (l.foldl (fun d (kv : String × String) =>
      d.insert (bstr kv.1) (some { ident := bstr kv.1, args := [], text := some { text := bstr kv.2, origin := none } })) d0) := by
  intro l
  induction l with
  | nil => intro d0 h; exact h
  | cons x xs ih =>
    intro d0 h
    rw [List.foldl_cons]
    apply ih
    apply defsIn_insert A d0 _ _ h
    intro df dt p r h1 h2 h3
    simp only [Option.some.injEq] at h1; subst h1
    simp only [Option.some.injEq] at h2; subst h2
    cases h3

/-- **origins name only files that were read**: `A` holds of the path of the text, of every file of the file system and of every origin path of
    the caller's table ⇒ it holds of every origin path of the output and of the returned table (successful runs; every input, flags, fuel) -/
theorem walk_paths (A : Bytes → Prop) (C : Cfg) (hfs : ∀ p c, C.fs.find p = some (some c) → A p) : ∀ (fuel : Nat),
    (∀ s path d ii sc rd id o d', A path → DefsIn A d → preprocessStr C fuel s path d ii sc rd id = .ok (o, d') → o.PathsIn A ∧ DefsIn A d') ∧
    (∀ inp s path ii sc rd id evs w o d', A path → WIn A w → walk C fuel inp s path ii sc rd id evs w = .ok (o, d') → o.PathsIn A ∧ DefsIn A d') ∧
    (∀ path d sc ii rd id o d', DefsIn A d → preprocessInner C fuel path d sc ii rd id = .ok (o, d') → o.PathsIn A ∧ DefsIn A d') ∧
    (∀ inp s path x d ii sc rd id t org nd, A path → DefsIn A d → resolveUsage C fuel inp s path x d ii sc rd id = .ok (some (t, org, nd)) →
      (∀ p r, org = some (p, r) → A p) ∧ DefsIn A nd) := by
  intro fuel
  induction fuel with
  | zero => refine ⟨?_, ?_, ?_, ?_⟩ <;> intros <;> rename_i h <;> simp [preprocessStr, walk, preprocessInner, resolveUsage] at h
  | succ n ih =>
    obtain ⟨ihS, ihW, ihI, ihU⟩ := ih
    refine ⟨?_, ?_, ?_, ?_⟩
    · intro s path d ii sc rd id o d' hp hd he
      unfold preprocessStr at he
      dsimp only at he
      split at he
      · cases he
      · split at he
        · cases he
        · cases he
        · refine ihW _ _ _ _ _ _ _ _ _ _ _ hp ⟨pathsIn_empty A, ?_⟩ he
          apply defsIn_foldl_insert A _ _ (defsIn_svcov A _ _ (defsIn_nil A))
          intro kv hkv
          exact hd kv (List.mem_reverse.mp hkv)
    · intro inp s path ii sc rd id evs w o d' hp hw he
      cases evs with
      | nil => simp only [walk] at he; injection he with he; injection he with h1 h2; subst h1 h2; exact hw
      | cons ev evs =>
        unfold walk at he
        dsimp only at he
        have h1 := skipStep_win A w ev hw
        split at he
        · exact ihW _ _ _ _ _ _ _ _ _ _ _ hp h1 he
        · split at he
          · cases he
          · rename_i w2 hl
            have h2 := lineStep_win A C.K inp _ w2 ev h1 hl
            split at he
            · exact ihW _ _ _ _ _ _ _ _ _ _ _ hp (leaveStep_win A C.K w2 _ h2) he
            · split at he
              · cases he
              · rename_i w3 hes
                have h3 := enterStep_win A C (preprocessInner C n) (resolveUsage C n) inp s path ii sc rd id w2 w3 _
                  (fun p d sc ii rd id o d' hd h => ihI p d sc ii rd id o d' hd h)
                  (fun inp s x d ii sc rd id t org nd hd h => ihU inp s path x d ii sc rd id t org nd hp hd h) h2 hp hes
                exact ihW _ _ _ _ _ _ _ _ _ _ _ hp h3 he
    · intro path d sc ii rd id o d' hd he
      unfold preprocessInner at he
      split at he
      · cases he
      · cases he
      · rename_i content hf
        exact ihS _ _ _ _ _ _ _ _ _ (hfs path content hf) hd he
    · intro inp s path x d ii sc rd id t org nd hp hd he
      unfold resolveUsage at he
      dsimp only at he
      split at he
      · cases he
      · split at he
        · cases he
        · cases he
        · rename_i df hget
          split at he
          · cases he
          · split at he
            · cases he
            · split at he
              · cases he
              · rename_i dt hdt
                split at he
                · cases he
                · rename_i out nd' hpp
                  injection he with he; injection he with he; injection he with h1 h2; injection h2 with h2 h3
                  subst h1 h3
                  have := ihS _ _ _ _ _ _ _ _ _ hp hd hpp
                  refine ⟨?_, this.2⟩
                  intro p r ho
                  rw [← h2] at ho
                  exact defsIn_get A d _ df dt p r hd hget hdt ho

end Sv

import SvModel.Core.Peg
/-!
T-scope for `IN_DIRECTIVE`: if no production contains a bare `begin_directive()` / `end_directive()` (every use is
the scoped `dirScope`, which always pops), then evaluating ANY expression leaves the directive depth exactly as it
found it — on success, on failure and when out of fuel, whatever was backtracked over.
-/
namespace Sv

mutual
/-- no bare `beginDir` / `endDir` atom -/
def DirFree : PExpr → Bool
  | .beginDir => false
  | .endDir => false
  | .seq es => DirFreeL es
  | .alt es => DirFreeL es
  | .shaped stmts _ => DirFreeL stmts
  | .opt e => DirFree e
  | .many0 e => DirFree e
  | .many1 e => DirFree e
  | .manyTill e t => DirFree e && DirFree t
  | .list s i => DirFree s && DirFree i
  | .peek e => DirFree e
  | .not e => DirFree e
  | .drop e => DirFree e
  | .allConsuming e => DirFree e
  | .node _ e => DirFree e
  | .lexeme e => DirFree e
  | .identKw e => DirFree e
  | .dirScope e => DirFree e
  | .kwScope _ e => DirFree e
  | .ifDir a b => DirFree a && DirFree b
  | .nestl f i _ _ => DirFree f && DirFree i
  | _ => true
def DirFreeL : List PExpr → Bool
  | [] => true
  | e :: es => DirFree e && DirFreeL es
end

def GrammarDirFree (g : Grammar) : Prop := ∀ f, DirFree (g.prod f).body = true

structure DirAll (g : Grammar) (inp : Input) (fuel : Nat) : Prop where
  eval : ∀ e pos r st, DirFree e = true → (eval g inp fuel e pos r st).2.dir = st.dir
  seq : ∀ es pos r st, DirFreeL es = true → (evalSeq g inp fuel es pos r st).2.dir = st.dir
  alt : ∀ es pos r st best, DirFreeL es = true → (evalAlt g inp fuel es pos r st best).2.dir = st.dir
  many0 : ∀ e pos r st, DirFree e = true → (evalMany0 g inp fuel e pos r st).2.dir = st.dir
  manyTill : ∀ e t pos r st, DirFree e = true → DirFree t = true → (evalManyTill g inp fuel e t pos r st).2.dir = st.dir
  list : ∀ s i pos r st, DirFree s = true → DirFree i = true → (evalList g inp fuel s i pos r st).2.dir = st.dir
  nest : ∀ i w o pos r st acc, DirFree i = true → (evalNest g inp fuel i w o pos r st acc).2.dir = st.dir
  stmts : ∀ es pos r st, DirFreeL es = true → (evalStmts g inp fuel es pos r st).1.2.dir = st.dir
  call : ∀ f pos r st, (evalCall g inp fuel f pos r st).2.dir = st.dir

theorem dirAll (g : Grammar) (inp : Input) (hg : GrammarDirFree g) : ∀ fuel, DirAll g inp fuel := by
  intro fuel
  induction fuel with
  | zero =>
    exact ⟨fun _ _ _ _ _ => by simp [eval], fun _ _ _ _ _ => by simp [evalSeq], fun _ _ _ _ _ _ => by simp [evalAlt],
      fun _ _ _ _ _ => by simp [evalMany0], fun _ _ _ _ _ _ _ => by simp [evalManyTill],
      fun _ _ _ _ _ _ _ => by simp [evalList], fun _ _ _ _ _ _ _ _ => by simp [evalNest],
      fun _ _ _ _ _ => by simp [evalStmts], fun _ _ _ _ => by simp [evalCall]⟩
  | succ n ih =>
    refine ⟨?_, ?_, ?_, ?_, ?_, ?_, ?_, ?_, ?_⟩
    · intro e pos r st hd
      cases e <;> simp only [DirFree, Bool.and_eq_true] at hd <;> simp only [eval]
      case term t => split <;> rfl
      case eof => split <;> rfl
      case call f => exact ih.call f pos r st
      case seq es => exact ih.seq es pos r st hd
      case alt es => exact ih.alt es pos r st none hd
      case opt e => have := ih.eval e pos r st hd; split <;> simp_all
      case many0 e => exact ih.many0 e pos r st hd
      case many1 e =>
        have h1 := ih.eval e pos r st hd
        split
        · rename_i q r' ts st' heq; rw [heq] at h1
          have h2 := ih.many0 e q r' st' hd
          split <;> simp_all
        · simp_all
        · simp_all
      case manyTill e t => exact ih.manyTill e t pos r st hd.1 hd.2
      case list s i =>
        have h1 := ih.eval i pos r st hd.2
        split
        · rename_i q r' ts st' heq; rw [heq] at h1
          have h2 := ih.list s i q r' st' hd.1 hd.2
          split <;> simp_all
        · simp_all
        · simp_all
      case peek e => have := ih.eval e pos r st hd; split <;> simp_all
      case not e => have := ih.eval e pos r st hd; split <;> simp_all
      case drop e => have := ih.eval e pos r st hd; split <;> simp_all
      case allConsuming e =>
        have := ih.eval e pos r st hd
        split
        · split <;> simp_all
        · simp_all
        · simp_all
      case node k e => have := ih.eval e pos r st hd; split <;> simp_all
      case lexeme e => have := ih.eval e pos r st hd; split <;> simp_all
      case identKw e =>
        have := ih.eval e pos r st hd
        split
        · split <;> simp_all
        · simp_all
        · simp_all
      case beginDir => simp at hd
      case endDir => simp at hd
      case dirScope e =>
        have := ih.eval e pos r { st with dir := st.dir + 1 } hd
        simp only [this]; omega
      case kwScope v e => have := ih.eval e pos r { st with vers := v :: st.vers } hd; simpa using this
      case kwGuard w => split <;> rfl
      case ifDir a b => split; exact ih.eval a pos r st hd.1; exact ih.eval b pos r st hd.2
      case nestl f i w o =>
        have h1 := ih.eval f pos r st hd.1
        split
        · rename_i q r' ts st' heq; rw [heq] at h1
          have h2 := ih.nest i w o q r' st' ts hd.2
          simp_all
        · simp_all
        · simp_all
      case shaped stmts res =>
        have h1 := ih.stmts stmts pos r st hd
        split <;> simp_all
    · intro es pos r st hd
      cases es with
      | nil => simp [evalSeq]
      | cons e es =>
        simp only [DirFreeL, Bool.and_eq_true] at hd
        simp only [evalSeq]
        have h1 := ih.eval e pos r st hd.1
        split
        · rename_i q r' ts st' heq; rw [heq] at h1
          have h2 := ih.seq es q r' st' hd.2
          split <;> simp_all
        · simp_all
        · simp_all
    · intro es pos r st best hd
      cases es with
      | nil => simp [evalAlt]
      | cons e es =>
        simp only [DirFreeL, Bool.and_eq_true] at hd
        simp only [evalAlt]
        have h1 := ih.eval e pos r st hd.1
        split
        · simp_all
        · rename_i ep st' heq; rw [heq] at h1
          have h2 := ih.alt es pos r st' (orErr best ep) hd.2
          simp_all
        · simp_all
    · intro e pos r st hd
      simp only [evalMany0]
      have h1 := ih.eval e pos r st hd
      split
      · rename_i q r' ts st' heq; rw [heq] at h1
        split
        · simp_all
        · have h2 := ih.many0 e q r' st' hd
          split <;> simp_all
      · simp_all
      · simp_all
    · intro e t pos r st hd ht
      simp only [evalManyTill]
      have h1 := ih.eval t pos r st ht
      split
      · simp_all
      · simp_all
      · rename_i ep st' heq; rw [heq] at h1
        have h2 := ih.eval e pos r st' hd
        split
        · rename_i q r' ts st'' heq2; rw [heq2] at h2
          split
          · simp_all
          · have h3 := ih.manyTill e t q r' st'' hd ht
            split <;> simp_all
        · simp_all
        · simp_all
    · intro s i pos r st hs hi
      simp only [evalList]
      have h1 := ih.eval s pos r st hs
      split
      · rename_i q r' ts st' heq; rw [heq] at h1
        have h2 := ih.eval i q r' st' hi
        split
        · rename_i q2 r2 ts2 st2 heq2; rw [heq2] at h2
          have h3 := ih.list s i q2 r2 st2 hs hi
          split <;> simp_all
        · simp_all
        · simp_all
      · simp_all
      · simp_all
    · intro i w o pos r st acc hd
      simp only [evalNest]
      have h1 := ih.eval i pos r st hd
      split
      · rename_i q r' ts st' heq; rw [heq] at h1
        split
        · simp_all
        · have h2 := ih.nest i w o q r' st' [.node o (w.foldl (fun a k => [Tree.node k a]) acc ++ ts)] hd
          simp_all
      · simp_all
      · simp_all
    · intro es pos r st hd
      cases es with
      | nil => simp [evalStmts]
      | cons e es =>
        simp only [DirFreeL, Bool.and_eq_true] at hd
        simp only [evalStmts]
        have h1 := ih.eval e pos r st hd.1
        split
        · rename_i q r' ts st' heq; rw [heq] at h1
          have h2 := ih.stmts es q r' st' hd.2
          simp_all
        · simp_all
        · simp_all
    · intro f pos r st
      simp only [evalCall]
      split
      · rfl
      · rfl
      · have hrun : ∀ (res : Out × PState),
            res = (if (g.prod f).recursive = true then
              (if (if r.ptr = some pos then r else { flags := [], ptr := some pos : Rec }).flags.contains f = true
                then (Out.err pos, st)
                else eval g inp n (g.prod f).body pos
                  { (if r.ptr = some pos then r else { flags := [], ptr := some pos : Rec }) with
                    flags := f :: (if r.ptr = some pos then r else { flags := [], ptr := some pos : Rec }).flags } st)
              else eval g inp n (g.prod f).body pos r st) → res.2.dir = st.dir := by
          intro res hres
          subst hres
          repeat' split
          all_goals first
            | rfl
            | exact ih.eval _ pos _ st (hg f)
        have h1 := hrun _ rfl
        split
        · split
          · rename_i q r' ts st' heq; rw [heq] at h1; simpa using h1
          · rename_i ep st' heq; rw [heq] at h1; simpa using h1
          · rename_i st' heq; rw [heq] at h1; simpa using h1
        · exact h1

end Sv

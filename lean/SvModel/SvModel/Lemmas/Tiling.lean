import SvModel.Lemmas.TileDefs
/-!
T-tiling: for every grammar whose productions pass `WF`, every successful evaluation returns a forest
whose leaves tile the consumed range, and the memo invariant is preserved — for all inputs, fuel,
positions, recursion flags and thread states.
-/
namespace Sv

/-! ### memo -/

theorem memoOK_clear (inp : Input) (m : Memo) : MemoOK inp m.clear := by
  intro f pos b ts len h
  simp [Memo.clear, Memo.find?] at h

theorem find_insert (cap : Option Nat) (m : Memo) (k k' : MKey) (v : MVal) (x : MVal)
    (h : (m.insert cap k v).find? k' = some x) : (k = k' ∧ x = v) ∨ m.find? k' = some x := by
  unfold Memo.insert Memo.find? at h
  unfold Memo.find?
  simp only at h
  rw [Std.HashMap.getElem?_insert] at h
  split at h
  · rename_i hk
    left; exact ⟨by simpa using hk, by simpa using h.symm⟩
  · right
    revert h
    cases hc : cap with
    | none => simp
    | some size =>
      simp only
      split
      · cases hk : m.keys with
        | nil => simp
        | cons old rest =>
          simp only [Std.HashMap.getElem?_erase]
          split
          · simp
          · exact id
      · exact id

theorem memoOK_insert_none {inp : Input} {m : Memo} (h : MemoOK inp m) (cap : Option Nat) (k : MKey) :
    MemoOK inp (m.insert cap k none) := by
  intro f pos b ts len hf
  rcases find_insert cap m k (f, pos, b) none _ hf with ⟨_, h2⟩ | h2
  · simp at h2
  · exact h f pos b ts len h2

theorem memoOK_insert_some {inp : Input} {m : Memo} (h : MemoOK inp m) (cap : Option Nat) (f pos : Nat) (b : Bool)
    (ts : List Tree) (len : Nat) (ht : TilesF inp pos ts (pos + len)) :
    MemoOK inp (m.insert cap (f, pos, b) (some (ts, len))) := by
  intro f' pos' b' ts' len' hf
  rcases find_insert cap m (f, pos, b) (f', pos', b') (some (ts, len)) _ hf with ⟨h1, h2⟩ | h2
  · simp at h1 h2
    obtain ⟨rfl, rfl, rfl⟩ := h1
    obtain ⟨rfl, rfl⟩ := h2
    exact ht
  · exact h f' pos' b' ts' len' h2

theorem memoOK_insertW_none {inp : Input} {m : Memo} (h : MemoOK inp m) (cap : Option Nat) (tw : Bool) (k : MKey) :
    MemoOK inp (m.insertW cap tw k none) := by
  unfold Memo.insertW; split
  · exact memoOK_insert_none (memoOK_insert_none h cap k) cap k
  · exact memoOK_insert_none h cap k

theorem memoOK_insertW_some {inp : Input} {m : Memo} (h : MemoOK inp m) (cap : Option Nat) (tw : Bool) (f pos : Nat) (b : Bool)
    (ts : List Tree) (len : Nat) (ht : TilesF inp pos ts (pos + len)) :
    MemoOK inp (m.insertW cap tw (f, pos, b) (some (ts, len))) := by
  unfold Memo.insertW; split
  · exact memoOK_insert_some (memoOK_insert_some h cap f pos b ts len ht) cap f pos b ts len ht
  · exact memoOK_insert_some h cap f pos b ts len ht

/-! ### shapes -/

def envLeaves (env : List (List Tree)) (vs : List Nat) (i : Nat) : List (Nat × Nat × Nat) :=
  match vs with
  | [] => []
  | v :: vs => leavesL (env.getD (v - i) []) ++ envLeaves env vs i

theorem envLeaves_append (env : List (List Tree)) (a b : List Nat) (i : Nat) :
    envLeaves env (a ++ b) i = envLeaves env a i ++ envLeaves env b i := by
  induction a with
  | nil => simp [envLeaves]
  | cons v vs ih => simp [envLeaves, ih, List.append_assoc]

theorem envLeaves_shift (ts : List Tree) (env : List (List Tree)) (vs : List Nat) (i : Nat)
    (h : ∀ w ∈ vs, i + 1 ≤ w) : envLeaves (ts :: env) vs i = envLeaves env vs (i + 1) := by
  induction vs with
  | nil => simp [envLeaves]
  | cons v vs ih =>
    have hv := h v (by simp)
    have : v - i = (v - (i + 1)) + 1 := by omega
    simp only [envLeaves, this, List.getD_cons_succ]
    rw [ih (fun w hw => h w (by simp [hw]))]

mutual
theorem shape_tiles (inp : Input) (env : List (List Tree)) (s : Shape) (p q : Nat)
    (h : Chain inp p (envLeaves env (shapeVars s) 0) q) : TilesF inp p (evalShape env s) q := by
  cases s with
  | var i => simpa [shapeVars, envLeaves, evalShape, TilesF] using h
  | tuple ss => simpa [evalShape] using shapeL_tiles inp env ss p q (by simpa [shapeVars] using h)
  | node k s =>
    simp only [evalShape]
    exact tilesF_node (shape_tiles inp env s p q (by simpa [shapeVars] using h))
  | leaf s =>
    simp only [evalShape]
    exact tiles_merge (shape_tiles inp env s p q (by simpa [shapeVars] using h))
  | empty => simpa [shapeVars, envLeaves, evalShape, TilesF, leavesL] using h
theorem shapeL_tiles (inp : Input) (env : List (List Tree)) (ss : List Shape) (p q : Nat)
    (h : Chain inp p (envLeaves env (shapeVars.shapeVarsL ss) 0) q) :
    TilesF inp p (evalShape.evalShapeL env ss) q := by
  cases ss with
  | nil => simpa [shapeVars.shapeVarsL, envLeaves, evalShape.evalShapeL, TilesF, leavesL] using h
  | cons s ss =>
    simp only [shapeVars.shapeVarsL, envLeaves_append] at h
    obtain ⟨m, h1, h2⟩ := Chain.split h
    simp only [evalShape.evalShapeL]
    exact tilesF_append (shape_tiles inp env s p m h1) (shapeL_tiles inp env ss m q h2)
end

theorem WFS_ge : ∀ (es : List PExpr) (vs : List Nat) (j : Nat), WFS es vs j = true → ∀ w ∈ vs, j ≤ w := by
  intro es vs j h w hw
  cases es with
  | nil => simp [WFS] at h; subst h; simp at hw
  | cons e es =>
    cases vs with
    | nil => simp at hw
    | cons v vs =>
      simp only [WFS, Bool.and_eq_true, List.all_eq_true, decide_eq_true_eq] at h
      exact h.1 w hw

/-! ### the combined specification -/

/-- invariant preserved; if the expression is `WF` a success tiles; if it is `Still` a success stays -/
def Spec (inp : Input) (wf still : Bool) (pos : Nat) (res : Out × PState) : Prop :=
  Inv inp res.2 ∧ (wf = true → TilesO inp pos res.1) ∧ (still = true → StaysO pos res.1)

theorem Spec.err {inp : Input} {wf still : Bool} {pos ep : Nat} {st : PState} (h : Inv inp st) :
    Spec inp wf still pos (.err ep, st) := ⟨h, fun _ => trivial, fun _ => trivial⟩

theorem Spec.oof {inp : Input} {wf still : Bool} {pos : Nat} {st : PState} (h : Inv inp st) :
    Spec inp wf still pos (.oof, st) := ⟨h, fun _ => trivial, fun _ => trivial⟩

theorem Spec.okNil {inp : Input} {wf still : Bool} {pos : Nat} {r : Rec} {st : PState} (h : Inv inp st) :
    Spec inp wf still pos (.ok pos r [], st) := ⟨h, fun _ => tilesF_nil, fun _ => rfl⟩

theorem inv_dir {inp : Input} {st : PState} (h : Inv inp st) (d : Nat) : Inv inp { st with dir := d } := h
theorem inv_vers {inp : Input} {st : PState} (h : Inv inp st) (v : List Nat) : Inv inp { st with vers := v } := h

structure AllSpec (g : Grammar) (inp : Input) (fuel : Nat) : Prop where
  eval : ∀ e pos r st, Inv inp st → Spec inp (WF e) (Still e) pos (eval g inp fuel e pos r st)
  seq : ∀ es pos r st, Inv inp st → Spec inp (WFL es) (StillL es) pos (evalSeq g inp fuel es pos r st)
  alt : ∀ es pos r st best, Inv inp st → Spec inp (WFL es) false pos (evalAlt g inp fuel es pos r st best)
  many0 : ∀ e pos r st, Inv inp st → Spec inp (WF e) false pos (evalMany0 g inp fuel e pos r st)
  manyTill : ∀ e t pos r st, Inv inp st →
    Spec inp (WF e && WF t) false pos (evalManyTill g inp fuel e t pos r st)
  list : ∀ sep item pos r st, Inv inp st →
    Spec inp (WF sep && WF item) false pos (evalList g inp fuel sep item pos r st)
  nest : ∀ item wraps outer pos r st acc p0, Inv inp st →
    Inv inp (evalNest g inp fuel item wraps outer pos r st acc).2 ∧
    (WF item = true → TilesF inp p0 acc pos → TilesO inp p0 (evalNest g inp fuel item wraps outer pos r st acc).1)
  stmts : ∀ stmts pos r st, Inv inp st →
    Inv inp (evalStmts g inp fuel stmts pos r st).1.2 ∧
    (∀ vs i q r' x, WFS stmts vs i = true → (evalStmts g inp fuel stmts pos r st).1.1 = .ok q r' x →
      Chain inp pos (envLeaves (evalStmts g inp fuel stmts pos r st).2 vs i) q)
  call : ∀ f pos r st, Inv inp st → Spec inp true false pos (evalCall g inp fuel f pos r st)

theorem wraps_tiles {inp : Input} {p q : Nat} (wraps : List Nat) {acc : List Tree}
    (h : TilesF inp p acc q) : TilesF inp p (wraps.foldl (fun a k => [Tree.node k a]) acc) q := by
  induction wraps generalizing acc with
  | nil => simpa using h
  | cons k ks ih => simp only [List.foldl_cons]; exact ih (tilesF_node h)

theorem term_pos {inp : Input} {t : Term} {pos n : Nat} (hw : t.nonEmpty = true)
    (h : matchTerm inp t pos = some n) : 0 < n := by
  have nz : ∀ k m, nonZero k = some m → 0 < m := by
    intro k m hk; unfold nonZero at hk; split at hk <;> simp at hk; omega
  cases t with
  | tag bs =>
    simp only [matchTerm] at h; split at h <;> simp at h
    subst h; cases bs <;> simp_all [Term.nonEmpty]
  | tagNoCase bs =>
    simp only [matchTerm] at h; split at h <;> simp at h
    subst h; cases bs <;> simp_all [Term.nonEmpty]
  | isA set => exact nz _ _ (by simpa [matchTerm] using h)
  | isNot set => exact nz _ _ (by simpa [matchTerm] using h)
  | oneOf set =>
    simp only [matchTerm] at h; split at h
    · split at h <;> simp at h; omega
    · simp at h
  | noneOf set =>
    simp only [matchTerm] at h; split at h
    · split at h
      · simp at h
      · split at h <;> simp at h
        subst h; unfold utf8Len; split <;> (try split) <;> (try split) <;> omega
    · simp at h
  | take k =>
    simp only [matchTerm] at h
    cases k with
    | zero => simp [Term.nonEmpty] at hw
    | succ k =>
      simp only [takeChars] at h
      split at h
      · simp at h
      · rename_i b hb
        split at h
        · split at h <;> simp at h
          subst h
          have : 0 < utf8Len b := by unfold utf8Len; split <;> (try split) <;> (try split) <;> omega
          omega
        · simp at h
  | digit1 => exact nz _ _ (by simpa [matchTerm] using h)
  | alpha1 => exact nz _ _ (by simpa [matchTerm] using h)
  | alphanumeric1 => exact nz _ _ (by simpa [matchTerm] using h)
  | hexDigit1 => exact nz _ _ (by simpa [matchTerm] using h)
  | space1 => exact nz _ _ (by simpa [matchTerm] using h)
  | multispace1 => exact nz _ _ (by simpa [matchTerm] using h)
  | anychar =>
    simp only [matchTerm, takeChars] at h
    split at h
    · simp at h
    · rename_i b hb
      split at h
      · simp [takeChars] at h
        subst h
        unfold utf8Len; split <;> (try split) <;> (try split) <;> omega
      · simp at h

theorem matchTag_bound {inp : Input} : ∀ (bs : List Nat) (pos : Nat), bs ≠ [] → matchTag inp pos bs = true →
    pos + bs.length ≤ inp.size := by
  intro bs
  induction bs with
  | nil => intro pos h; exact absurd rfl h
  | cons b bs ih =>
    intro pos _ h
    simp only [matchTag, Bool.and_eq_true] at h
    have h1 : pos < inp.size := by
      have := h.1; unfold byteAt at this; split at this <;> simp_all
    cases bs with
    | nil => simp; omega
    | cons c cs => have := ih (pos + 1) (by simp) h.2; simp at this ⊢; omega

theorem matchTagNoCase_bound {inp : Input} : ∀ (bs : List Nat) (pos : Nat), bs ≠ [] →
    matchTagNoCase inp pos bs = true → pos + bs.length ≤ inp.size := by
  intro bs
  induction bs with
  | nil => intro pos h; exact absurd rfl h
  | cons b bs ih =>
    intro pos _ h
    simp only [matchTagNoCase, Bool.and_eq_true] at h
    have h1 : pos < inp.size := by
      have := h.1
      unfold byteAt at this
      by_cases hp : pos < inp.size
      · exact hp
      · simp [hp] at this
    cases bs with
    | nil => simp; omega
    | cons c cs => have := ih (pos + 1) (by simp) h.2; simp at this ⊢; omega

theorem spanLen_le {inp : Input} (p : Nat → Bool) : ∀ fuel pos, spanLen inp p fuel pos ≤ fuel := by
  intro fuel
  induction fuel with
  | zero => intro pos; simp [spanLen]
  | succ n ih =>
    intro pos
    simp only [spanLen]
    split
    · split
      · have := ih (pos + 1); omega
      · omega
    · omega

theorem takeChars_bound {inp : Input} : ∀ (k pos m : Nat), pos ≤ inp.size → takeChars inp k pos = some m →
    pos + m ≤ inp.size := by
  intro k
  induction k with
  | zero => intro pos m hp h; simp [takeChars] at h; omega
  | succ k ih =>
    intro pos m hp h
    simp only [takeChars] at h
    split at h
    · simp at h
    · rename_i b hb
      split at h
      · rename_i hle
        split at h
        · rename_i m' hm'
          simp at h
          have := ih _ m' hle hm'
          omega
        · simp at h
      · simp at h

theorem term_bound {inp : Input} {t : Term} {pos n : Nat} (h : matchTerm inp t pos = some n) :
    n = 0 ∨ pos + n ≤ inp.size := by
  have nz : ∀ (p : Nat → Bool) m, nonZero (spanLen inp p (inp.size - pos) pos) = some m → pos + m ≤ inp.size := by
    intro p m hk
    unfold nonZero at hk
    split at hk
    · simp at hk
    · simp at hk
      have := spanLen_le (inp := inp) p (inp.size - pos) pos
      have hpos : 0 < spanLen inp p (inp.size - pos) pos := by omega
      omega
  cases t with
  | tag bs =>
    simp only [matchTerm] at h; split at h <;> simp at h
    subst h
    cases bs with
    | nil => left; rfl
    | cons b bs => right; exact matchTag_bound _ _ (by simp) (by assumption)
  | tagNoCase bs =>
    simp only [matchTerm] at h; split at h <;> simp at h
    subst h
    cases bs with
    | nil => left; rfl
    | cons b bs => right; exact matchTagNoCase_bound _ _ (by simp) (by assumption)
  | isA set => right; exact nz _ _ (by simpa [matchTerm] using h)
  | isNot set => right; exact nz _ _ (by simpa [matchTerm] using h)
  | oneOf set =>
    simp only [matchTerm] at h; split at h
    · rename_i b hb
      split at h <;> simp at h
      subst h; right
      unfold byteAt at hb; split at hb <;> simp_all; omega
    · simp at h
  | noneOf set =>
    simp only [matchTerm] at h; split at h
    · split at h
      · simp at h
      · split at h <;> simp at h
        subst h; right; assumption
    · simp at h
  | take k =>
    simp only [matchTerm] at h
    by_cases hp : pos ≤ inp.size
    · right; exact takeChars_bound k pos n hp h
    · cases k with
      | zero => simp [takeChars] at h; left; omega
      | succ k =>
        simp only [takeChars] at h
        split at h
        · simp at h
        · rename_i b hb
          unfold byteAt at hb; split at hb <;> simp_all; omega
  | digit1 => right; exact nz _ _ (by simpa [matchTerm] using h)
  | alpha1 => right; exact nz _ _ (by simpa [matchTerm] using h)
  | alphanumeric1 => right; exact nz _ _ (by simpa [matchTerm] using h)
  | hexDigit1 => right; exact nz _ _ (by simpa [matchTerm] using h)
  | space1 => right; exact nz _ _ (by simpa [matchTerm] using h)
  | multispace1 => right; exact nz _ _ (by simpa [matchTerm] using h)
  | anychar =>
    simp only [matchTerm] at h
    by_cases hp : pos ≤ inp.size
    · right; exact takeChars_bound 1 pos n hp h
    · simp only [takeChars] at h
      split at h
      · simp at h
      · rename_i b hb
        unfold byteAt at hb; split at hb <;> simp_all; omega

end Sv

namespace Sv

theorem Spec.mono {inp : Input} {wf still wf' still' : Bool} {pos : Nat} {res : Out × PState}
    (h : Spec inp wf still pos res) (h1 : wf' = true → wf = true) (h2 : still' = true → still = true) :
    Spec inp wf' still' pos res :=
  ⟨h.1, fun a => h.2.1 (h1 a), fun a => h.2.2 (h2 a)⟩

theorem allSpec_zero (g : Grammar) (inp : Input) : AllSpec g inp 0 where
  eval := by intro e pos r st hi; simp only [eval]; exact Spec.oof hi
  seq := by intro es pos r st hi; simp only [evalSeq]; exact Spec.oof hi
  alt := by intro es pos r st best hi; simp only [evalAlt]; exact Spec.oof hi
  many0 := by intro e pos r st hi; simp only [evalMany0]; exact Spec.oof hi
  manyTill := by intro e t pos r st hi; simp only [evalManyTill]; exact Spec.oof hi
  list := by intro sep item pos r st hi; simp only [evalList]; exact Spec.oof hi
  nest := by intro item wraps outer pos r st acc p0 hi; simp only [evalNest]; exact ⟨hi, fun _ _ => trivial⟩
  stmts := by
    intro stmts pos r st hi; simp only [evalStmts]
    exact ⟨hi, fun vs i q r' x _ h => by simp at h⟩
  call := by intro f pos r st hi; simp only [evalCall]; exact Spec.oof hi

theorem allSpec_succ (g : Grammar) (inp : Input) (hg : GrammarWF g) (n : Nat) (ih : AllSpec g inp n) :
    AllSpec g inp (n + 1) where
  eval := by
    intro e pos r st hi
    cases e with
    | term t =>
      simp only [eval]
      split
      · rename_i k hk
        refine ⟨hi, fun hw => ?_, fun hs => by simp [Still] at hs⟩
        have := term_pos (by simpa [WF] using hw) hk
        have hb : pos + k ≤ inp.size := by
          rcases term_bound hk with h0 | h0
          · omega
          · exact h0
        simp [TilesO, TilesF, leavesL, leaves, Chain, this, hb]
      · exact Spec.err hi
    | eof =>
      simp only [eval]
      split
      · exact Spec.okNil hi
      · exact Spec.err hi
    | call f =>
      simp only [eval]
      exact (ih.call f pos r st hi).mono (fun _ => rfl) (fun hs => by simp [Still] at hs)
    | seq es =>
      simp only [eval]
      exact (ih.seq es pos r st hi).mono (fun h => by simpa [WF] using h) (fun h => by simpa [Still] using h)
    | alt es =>
      simp only [eval]
      exact (ih.alt es pos r st none hi).mono (fun h => by simpa [WF] using h) (fun hs => by simp [Still] at hs)
    | opt e =>
      simp only [eval]
      have h1 := ih.eval e pos r st hi
      split
      · rename_i q r' ts st' heq; rw [heq] at h1
        exact ⟨h1.1, fun hw => h1.2.1 (by simpa [WF] using hw), fun hs => by simp [Still] at hs⟩
      · rename_i ep st' heq; rw [heq] at h1; exact Spec.okNil h1.1
      · rename_i st' heq; rw [heq] at h1; exact Spec.oof h1.1
    | many0 e =>
      simp only [eval]
      exact (ih.many0 e pos r st hi).mono (fun h => by simpa [WF] using h) (fun hs => by simp [Still] at hs)
    | many1 e =>
      simp only [eval]
      have h1 := ih.eval e pos r st hi
      split
      · rename_i q r' ts st' heq; rw [heq] at h1
        have h2 := ih.many0 e q r' st' h1.1
        split
        · rename_i q' r'' ts' st'' heq2; rw [heq2] at h2
          refine ⟨h2.1, fun hw => ?_, fun hs => by simp [Still] at hs⟩
          have hw' : WF e = true := by simpa [WF] using hw
          exact tilesF_append (h1.2.1 hw') (h2.2.1 hw')
        · rename_i ep st'' heq2; rw [heq2] at h2; exact Spec.err h2.1
        · rename_i st'' heq2; rw [heq2] at h2; exact Spec.oof h2.1
      · rename_i ep st' heq; rw [heq] at h1; exact Spec.err h1.1
      · rename_i st' heq; rw [heq] at h1; exact Spec.oof h1.1
    | manyTill e t =>
      simp only [eval]
      exact (ih.manyTill e t pos r st hi).mono (fun h => by simpa [WF] using h) (fun hs => by simp [Still] at hs)
    | list sep item =>
      simp only [eval]
      have h1 := ih.eval item pos r st hi
      split
      · rename_i q r' ts st' heq; rw [heq] at h1
        have h2 := ih.list sep item q r' st' h1.1
        split
        · rename_i q' r'' ts' st'' heq2; rw [heq2] at h2
          refine ⟨h2.1, fun hw => ?_, fun hs => by simp [Still] at hs⟩
          have hw' : WF sep = true ∧ WF item = true := by simpa [WF] using hw
          exact tilesF_append (h1.2.1 hw'.2) (h2.2.1 (by simp [hw'.1, hw'.2]))
        · rename_i ep st'' heq2; rw [heq2] at h2; exact Spec.err h2.1
        · rename_i st'' heq2; rw [heq2] at h2; exact Spec.oof h2.1
      · rename_i ep st' heq; rw [heq] at h1; exact Spec.err h1.1
      · rename_i st' heq; rw [heq] at h1; exact Spec.oof h1.1
    | peek e =>
      simp only [eval]
      have h1 := ih.eval e pos r st hi
      split
      · rename_i q r' ts st' heq; rw [heq] at h1
        exact ⟨h1.1, fun hw => by simp [WF] at hw, fun _ => rfl⟩
      · rename_i ep st' heq; rw [heq] at h1; exact Spec.err h1.1
      · rename_i st' heq; rw [heq] at h1; exact Spec.oof h1.1
    | not e =>
      simp only [eval]
      have h1 := ih.eval e pos r st hi
      split
      · rename_i q r' ts st' heq; rw [heq] at h1; exact Spec.err h1.1
      · rename_i ep st' heq; rw [heq] at h1; exact Spec.okNil h1.1
      · rename_i st' heq; rw [heq] at h1; exact Spec.oof h1.1
    | drop e =>
      simp only [eval]
      have h1 := ih.eval e pos r st hi
      split
      · rename_i q r' ts st' heq; rw [heq] at h1
        refine ⟨h1.1, fun hw => ?_, fun hs => ?_⟩
        · have hq : q = pos := h1.2.2 (by simpa [WF] using hw)
          subst hq; exact tilesF_nil
        · exact h1.2.2 (by simpa [Still] using hs)
      · rename_i ep st' heq; rw [heq] at h1; exact Spec.err h1.1
      · rename_i st' heq; rw [heq] at h1; exact Spec.oof h1.1
    | allConsuming e =>
      simp only [eval]
      have h1 := ih.eval e pos r st hi
      split
      · rename_i q r' ts st' heq; rw [heq] at h1
        split
        · exact ⟨h1.1, fun hw => h1.2.1 (by simpa [WF] using hw), fun hs => by simp [Still] at hs⟩
        · exact Spec.err h1.1
      · rename_i ep st' heq; rw [heq] at h1; exact Spec.err h1.1
      · rename_i st' heq; rw [heq] at h1; exact Spec.oof h1.1
    | node k e =>
      simp only [eval]
      have h1 := ih.eval e pos r st hi
      split
      · rename_i q r' ts st' heq; rw [heq] at h1
        exact ⟨h1.1, fun hw => tilesF_node (h1.2.1 (by simpa [WF] using hw)), fun hs => by simp [Still] at hs⟩
      · rename_i ep st' heq; rw [heq] at h1; exact Spec.err h1.1
      · rename_i st' heq; rw [heq] at h1; exact Spec.oof h1.1
    | lexeme e =>
      simp only [eval]
      have h1 := ih.eval e pos r st hi
      split
      · rename_i q r' ts st' heq; rw [heq] at h1
        exact ⟨h1.1, fun hw => tiles_merge (h1.2.1 (by simpa [WF] using hw)), fun hs => by simp [Still] at hs⟩
      · rename_i ep st' heq; rw [heq] at h1; exact Spec.err h1.1
      · rename_i st' heq; rw [heq] at h1; exact Spec.oof h1.1
    | identKw e =>
      simp only [eval]
      have h1 := ih.eval e pos r st hi
      split
      · rename_i q r' ts st' heq; rw [heq] at h1
        split
        · exact Spec.err h1.1
        · exact ⟨h1.1, fun hw => tiles_merge (h1.2.1 (by simpa [WF] using hw)), fun hs => by simp [Still] at hs⟩
      · rename_i ep st' heq; rw [heq] at h1; exact Spec.err h1.1
      · rename_i st' heq; rw [heq] at h1; exact Spec.oof h1.1
    | beginDir => simp only [eval]; exact Spec.okNil (inv_dir hi _)
    | endDir => simp only [eval]; exact Spec.okNil (inv_dir hi _)
    | beginKw v => simp only [eval]; exact Spec.okNil (inv_vers hi _)
    | endKw => simp only [eval]; exact Spec.okNil (inv_vers hi _)
    | dirScope e =>
      simp only [eval]
      have h1 := ih.eval e pos r { st with dir := st.dir + 1 } (inv_dir hi _)
      exact ⟨inv_dir h1.1 _, fun hw => h1.2.1 (by simpa [WF] using hw), fun hs => by simp [Still] at hs⟩
    | kwScope v e =>
      simp only [eval]
      have h1 := ih.eval e pos r { st with vers := v :: st.vers } (inv_vers hi _)
      exact ⟨inv_vers h1.1 _, fun hw => h1.2.1 (by simpa [WF] using hw), fun hs => by simp [Still] at hs⟩
    | kwGuard w =>
      simp only [eval]
      split
      · exact Spec.err hi
      · exact Spec.okNil hi
    | ifDir a b =>
      simp only [eval]
      split
      · exact (ih.eval a pos r st hi).mono (fun h => by simp [WF] at h; exact h.1) (fun hs => by simp [Still] at hs)
      · exact (ih.eval b pos r st hi).mono (fun h => by simp [WF] at h; exact h.2) (fun hs => by simp [Still] at hs)
    | nestl first item wraps outer =>
      simp only [eval]
      have h1 := ih.eval first pos r st hi
      split
      · rename_i q r' ts st' heq; rw [heq] at h1
        have h2 := ih.nest item wraps outer q r' st' ts pos h1.1
        refine ⟨h2.1, fun hw => ?_, fun hs => by simp [Still] at hs⟩
        have hw' : WF first = true ∧ WF item = true := by simpa [WF] using hw
        exact h2.2 hw'.2 (h1.2.1 hw'.1)
      · rename_i ep st' heq; rw [heq] at h1; exact Spec.err h1.1
      · rename_i st' heq; rw [heq] at h1; exact Spec.oof h1.1
    | shaped stmts res =>
      simp only [eval]
      have h1 := ih.stmts stmts pos r st hi
      split
      · rename_i q r' x st' env heq
        rw [heq] at h1
        refine ⟨h1.1, fun hw => ?_, fun hs => by simp [Still] at hs⟩
        have := h1.2 (shapeVars res) 0 q r' x (by simpa [WF] using hw) rfl
        exact shape_tiles inp env res pos q this
      · rename_i ep st' env heq; rw [heq] at h1; exact Spec.err h1.1
      · rename_i st' env heq; rw [heq] at h1; exact Spec.oof h1.1
    | fail => simp only [eval]; exact Spec.err hi
  seq := by
    intro es pos r st hi
    cases es with
    | nil => simp only [evalSeq]; exact Spec.okNil hi
    | cons e es =>
      simp only [evalSeq]
      have h1 := ih.eval e pos r st hi
      split
      · rename_i q r' ts st' heq; rw [heq] at h1
        have h2 := ih.seq es q r' st' h1.1
        split
        · rename_i q' r'' ts' st'' heq2; rw [heq2] at h2
          refine ⟨h2.1, fun hw => ?_, fun hs => ?_⟩
          · have hw' : WF e = true ∧ WFL es = true := by simpa [WFL] using hw
            exact tilesF_append (h1.2.1 hw'.1) (h2.2.1 hw'.2)
          · have hs' : Still e = true ∧ StillL es = true := by simpa [StillL] using hs
            have a : q = pos := h1.2.2 hs'.1
            have b : q' = q := h2.2.2 hs'.2
            show q' = pos
            omega
        · rename_i ep st'' heq2; rw [heq2] at h2; exact Spec.err h2.1
        · rename_i st'' heq2; rw [heq2] at h2; exact Spec.oof h2.1
      · rename_i ep st' heq; rw [heq] at h1; exact Spec.err h1.1
      · rename_i st' heq; rw [heq] at h1; exact Spec.oof h1.1
  alt := by
    intro es pos r st best hi
    cases es with
    | nil => simp only [evalAlt]; exact Spec.err hi
    | cons e es =>
      simp only [evalAlt]
      have h1 := ih.eval e pos r st hi
      split
      · rename_i q r' ts st' heq; rw [heq] at h1
        exact ⟨h1.1, fun hw => h1.2.1 (by simp [WFL] at hw; exact hw.1), fun hs => by simp at hs⟩
      · rename_i ep st' heq; rw [heq] at h1
        exact (ih.alt es pos r st' _ h1.1).mono (fun hw => by simp [WFL] at hw; exact hw.2) (fun hs => by simp at hs)
      · rename_i st' heq; rw [heq] at h1; exact Spec.oof h1.1
  many0 := by
    intro e pos r st hi
    simp only [evalMany0]
    have h1 := ih.eval e pos r st hi
    split
    · rename_i q r' ts st' heq; rw [heq] at h1
      split
      · exact Spec.err h1.1
      · have h2 := ih.many0 e q r' st' h1.1
        split
        · rename_i q' r'' ts' st'' heq2; rw [heq2] at h2
          exact ⟨h2.1, fun hw => tilesF_append (h1.2.1 hw) (h2.2.1 hw), fun hs => by simp at hs⟩
        · rename_i ep st'' heq2; rw [heq2] at h2; exact Spec.err h2.1
        · rename_i st'' heq2; rw [heq2] at h2; exact Spec.oof h2.1
    · rename_i ep st' heq; rw [heq] at h1; exact Spec.okNil h1.1
    · rename_i st' heq; rw [heq] at h1; exact Spec.oof h1.1
  manyTill := by
    intro e t pos r st hi
    simp only [evalManyTill]
    have h1 := ih.eval t pos r st hi
    split
    · rename_i q r' ts st' heq; rw [heq] at h1
      exact ⟨h1.1, fun hw => h1.2.1 (by simp at hw; exact hw.2), fun hs => by simp at hs⟩
    · rename_i st' heq; rw [heq] at h1; exact Spec.oof h1.1
    · rename_i ep st' heq; rw [heq] at h1
      have h2 := ih.eval e pos r st' h1.1
      split
      · rename_i q r' ts st'' heq2; rw [heq2] at h2
        split
        · exact Spec.err h2.1
        · have h3 := ih.manyTill e t q r' st'' h2.1
          split
          · rename_i q' r'' ts' st3 heq3; rw [heq3] at h3
            exact ⟨h3.1, fun hw => tilesF_append (h2.2.1 (by simp at hw; exact hw.1)) (h3.2.1 hw),
              fun hs => by simp at hs⟩
          · rename_i ep' st3 heq3; rw [heq3] at h3; exact Spec.err h3.1
          · rename_i st3 heq3; rw [heq3] at h3; exact Spec.oof h3.1
      · rename_i ep' st'' heq2; rw [heq2] at h2; exact Spec.err h2.1
      · rename_i st'' heq2; rw [heq2] at h2; exact Spec.oof h2.1
  list := by
    intro sep item pos r st hi
    simp only [evalList]
    have h1 := ih.eval sep pos r st hi
    split
    · rename_i q r' ts st' heq; rw [heq] at h1
      have h2 := ih.eval item q r' st' h1.1
      split
      · rename_i q2 r2 ts2 st2 heq2; rw [heq2] at h2
        have h3 := ih.list sep item q2 r2 st2 h2.1
        split
        · rename_i q3 r3 ts3 st3 heq3; rw [heq3] at h3
          refine ⟨h3.1, fun hw => ?_, fun hs => by simp at hs⟩
          have hw' : WF sep = true ∧ WF item = true := by simpa using hw
          exact tilesF_append (tilesF_append (h1.2.1 hw'.1) (h2.2.1 hw'.2)) (h3.2.1 hw)
        · rename_i ep st3 heq3; rw [heq3] at h3; exact Spec.err h3.1
        · rename_i st3 heq3; rw [heq3] at h3; exact Spec.oof h3.1
      · rename_i ep st2 heq2; rw [heq2] at h2; exact Spec.okNil h2.1
      · rename_i st2 heq2; rw [heq2] at h2; exact Spec.oof h2.1
    · rename_i ep st' heq; rw [heq] at h1; exact Spec.okNil h1.1
    · rename_i st' heq; rw [heq] at h1; exact Spec.oof h1.1
  nest := by
    intro item wraps outer pos r st acc p0 hi
    simp only [evalNest]
    have h1 := ih.eval item pos r st hi
    split
    · rename_i q r' ts st' heq; rw [heq] at h1
      split
      · exact ⟨h1.1, fun _ _ => trivial⟩
      · have h2 := ih.nest item wraps outer q r' st'
          [.node outer (wraps.foldl (fun a k => [Tree.node k a]) acc ++ ts)] p0 h1.1
        refine ⟨h2.1, fun hw hacc => h2.2 hw ?_⟩
        exact tilesF_node (tilesF_append (wraps_tiles wraps hacc) (h1.2.1 hw))
    · rename_i ep st' heq; rw [heq] at h1
      exact ⟨h1.1, fun _ hacc => hacc⟩
    · rename_i st' heq; rw [heq] at h1; exact ⟨h1.1, fun _ _ => trivial⟩
  stmts := by
    intro stmts pos r st hi
    cases stmts with
    | nil =>
      simp only [evalStmts]
      refine ⟨hi, fun vs i q r' x hw h => ?_⟩
      simp only [WFS, List.isEmpty_iff] at hw
      subst hw
      simp at h
      simp [envLeaves, Chain, h.1]
    | cons e es =>
      simp only [evalStmts]
      have h1 := ih.eval e pos r st hi
      split
      · rename_i q r' ts st' heq; rw [heq] at h1
        have h2 := ih.stmts es q r' st' h1.1
        refine ⟨h2.1, fun vs i q' r'' x hw h => ?_⟩
        cases vs with
        | nil =>
          simp only [WFS, Bool.and_eq_true] at hw
          have hq : q = pos := h1.2.2 hw.1
          have := h2.2 [] (i + 1) q' r'' x hw.2 h
          simp only [envLeaves, Chain] at this ⊢
          omega
        | cons v vs =>
          simp only [WFS, Bool.and_eq_true] at hw
          obtain ⟨hall, hrest⟩ := hw
          split at hrest
          · rename_i hv
            subst hv
            simp only [Bool.and_eq_true] at hrest
            have hge := WFS_ge es vs (v + 1) hrest.2
            have := h2.2 vs (v + 1) q' r'' x hrest.2 h
            simp only [envLeaves, Nat.sub_self, List.getD_cons_zero]
            rw [envLeaves_shift ts _ vs v hge]
            exact Chain.append (h1.2.1 hrest.1) this
          · rename_i hv
            simp only [Bool.and_eq_true] at hrest
            have hq : q = pos := h1.2.2 hrest.1
            subst hq
            have hge := WFS_ge es (v :: vs) (i + 1) hrest.2
            have := h2.2 (v :: vs) (i + 1) q' r'' x hrest.2 h
            rw [envLeaves_shift ts _ (v :: vs) i hge]
            exact this
      · rename_i ep st' heq; rw [heq] at h1
        exact ⟨h1.1, fun vs i q r' x _ h => by simp at h⟩
      · rename_i st' heq; rw [heq] at h1
        exact ⟨h1.1, fun vs i q r' x _ h => by simp at h⟩
  call := by
    intro f pos r st hi
    simp only [evalCall]
    split
    · -- memo hit, accepted
      rename_i ts len hhit
      refine ⟨hi, fun _ => ?_, fun hs => by simp at hs⟩
      split at hhit
      · exact hi f pos _ ts len hhit
      · simp at hhit
    · exact Spec.err hi
    · -- miss: run
      have hrun : ∀ (res : Out × PState),
          res = (if (g.prod f).recursive = true then
            (if (if r.ptr = some pos then r else { flags := [], ptr := some pos : Rec }).flags.contains f = true
              then (Out.err pos, st)
              else eval g inp n (g.prod f).body pos
                { (if r.ptr = some pos then r else { flags := [], ptr := some pos : Rec }) with
                  flags := f :: (if r.ptr = some pos then r else { flags := [], ptr := some pos : Rec }).flags } st)
            else eval g inp n (g.prod f).body pos r st) →
          Spec inp true false pos res := by
        intro res hres
        subst hres
        repeat' split
        all_goals first
          | exact Spec.err hi
          | exact (ih.eval _ pos _ st hi).mono (fun _ => hg f) (fun hs => by simp at hs)
      have h1 := hrun _ rfl
      split
      · split
        · rename_i q r' ts st' heq
          rw [heq] at h1
          have ht : TilesF inp pos ts q := h1.2.1 rfl
          have hle := Chain.le ht
          refine ⟨?_, fun _ => ht, fun hs => by simp at hs⟩
          apply memoOK_insertW_some h1.1 g.memoCap
          have : pos + (q - pos) = q := by omega
          rw [this]; exact ht
        · rename_i ep st' heq
          rw [heq] at h1
          exact ⟨memoOK_insertW_none h1.1 _ _ _, fun _ => trivial, fun _ => trivial⟩
        · rename_i st' heq
          rw [heq] at h1
          exact Spec.oof h1.1
      · exact h1

theorem allSpec (g : Grammar) (inp : Input) (hg : GrammarWF g) : ∀ fuel, AllSpec g inp fuel := by
  intro fuel
  induction fuel with
  | zero => exact allSpec_zero g inp
  | succ n ih => exact allSpec_succ g inp hg n ih

end Sv

import SvModel.Lemmas.Tiling
/-!
T-productive and monotonicity: a successful evaluation never moves backwards, and an expression that
passes the syntactic check `PR marks` moves strictly forwards — provided every marked production's body
passes the check itself (`MarksOK`, discharged on the generated grammar by `decide +kernel`).
The packrat memo needs its own invariant: entries of marked productions have positive length.
-/
namespace Sv

mutual
def PR (marks : List Nat) : PExpr → Bool
  | .term t => t.nonEmpty
  | .call f => marks.contains f
  | .seq es => PRAny marks es
  | .alt es => PRAll marks es
  | .many1 e => PR marks e
  | .manyTill _ t => PR marks t
  | .list _ item => PR marks item
  | .drop e => PR marks e
  | .allConsuming e => PR marks e
  | .node _ e => PR marks e
  | .lexeme e => PR marks e
  | .identKw e => PR marks e
  | .dirScope e => PR marks e
  | .kwScope _ e => PR marks e
  | .ifDir a b => PR marks a && PR marks b
  | .nestl first _ _ _ => PR marks first
  | .shaped stmts _ => PRAny marks stmts
  | _ => false
def PRAny (marks : List Nat) : List PExpr → Bool
  | [] => false
  | e :: es => PR marks e || PRAny marks es
def PRAll (marks : List Nat) : List PExpr → Bool
  | [] => true
  | e :: es => PR marks e && PRAll marks es
end

def MarksOK (g : Grammar) (marks : List Nat) : Prop := ∀ f, marks.contains f = true → PR marks (g.prod f).body = true

/-- memo invariant for productivity -/
def InvP (marks : List Nat) (st : PState) : Prop :=
  ∀ f pos b ts len, marks.contains f = true → st.memo.find? (f, pos, b) = some (some (ts, len)) → 0 < len

theorem invP_init (marks : List Nat) (st : PState) : InvP marks st.init := by
  intro f pos b ts len _ h
  simp [PState.init, Memo.clear, Memo.find?] at h

def FwdO (pos : Nat) : Out → Prop
  | .ok q _ _ => pos ≤ q
  | _ => True

def StrictFwdO (pos : Nat) : Out → Prop
  | .ok q _ _ => pos < q
  | _ => True

/-- invariant preserved; never backwards; strictly forwards when `pr` -/
def PSpec (marks : List Nat) (pr : Bool) (pos : Nat) (res : Out × PState) : Prop :=
  InvP marks res.2 ∧ FwdO pos res.1 ∧ (pr = true → StrictFwdO pos res.1)

theorem PSpec.err {marks : List Nat} {pr : Bool} {pos ep : Nat} {st : PState} (h : InvP marks st) :
    PSpec marks pr pos (.err ep, st) := ⟨h, trivial, fun _ => trivial⟩
theorem PSpec.oof {marks : List Nat} {pr : Bool} {pos : Nat} {st : PState} (h : InvP marks st) :
    PSpec marks pr pos (.oof, st) := ⟨h, trivial, fun _ => trivial⟩
theorem PSpec.mono {marks : List Nat} {pr pr' : Bool} {pos : Nat} {res : Out × PState}
    (h : PSpec marks pr pos res) (h1 : pr' = true → pr = true) : PSpec marks pr' pos res :=
  ⟨h.1, h.2.1, fun a => h.2.2 (h1 a)⟩

theorem invP_dir {marks : List Nat} {st : PState} (h : InvP marks st) (d : Nat) : InvP marks { st with dir := d } := h
theorem invP_vers {marks : List Nat} {st : PState} (h : InvP marks st) (v : List Nat) :
    InvP marks { st with vers := v } := h

theorem invP_insert_none {marks : List Nat} {st : PState} (h : InvP marks st) (cap : Option Nat) (k : MKey) :
    InvP marks { st with memo := st.memo.insert cap k none } := by
  intro f pos b ts len hm hf
  rcases find_insert cap st.memo k (f, pos, b) none _ hf with ⟨_, h2⟩ | h2
  · simp at h2
  · exact h f pos b ts len hm h2

theorem invP_insert_some {marks : List Nat} {st : PState} (h : InvP marks st) (cap : Option Nat) (f pos : Nat) (b : Bool)
    (ts : List Tree) (len : Nat) (hl : marks.contains f = true → 0 < len) :
    InvP marks { st with memo := st.memo.insert cap (f, pos, b) (some (ts, len)) } := by
  intro f' pos' b' ts' len' hm hf
  rcases find_insert cap st.memo (f, pos, b) (f', pos', b') (some (ts, len)) _ hf with ⟨h1, h2⟩ | h2
  · simp at h1 h2
    obtain ⟨rfl, rfl, rfl⟩ := h1
    obtain ⟨rfl, rfl⟩ := h2
    exact hl hm
  · exact h f' pos' b' ts' len' hm h2

theorem invP_insertW_none {marks : List Nat} {st : PState} (h : InvP marks st) (cap : Option Nat) (tw : Bool) (k : MKey) :
    InvP marks { st with memo := st.memo.insertW cap tw k none } := by
  unfold Memo.insertW; split
  · exact invP_insert_none (st := { st with memo := st.memo.insert cap k none }) (invP_insert_none h cap k) cap k
  · exact invP_insert_none h cap k

theorem invP_insertW_some {marks : List Nat} {st : PState} (h : InvP marks st) (cap : Option Nat) (tw : Bool) (f pos : Nat) (b : Bool)
    (ts : List Tree) (len : Nat) (hl : marks.contains f = true → 0 < len) :
    InvP marks { st with memo := st.memo.insertW cap tw (f, pos, b) (some (ts, len)) } := by
  unfold Memo.insertW; split
  · exact invP_insert_some (st := { st with memo := st.memo.insert cap (f, pos, b) (some (ts, len)) })
      (invP_insert_some h cap f pos b ts len hl) cap f pos b ts len hl
  · exact invP_insert_some h cap f pos b ts len hl

structure PAll (g : Grammar) (inp : Input) (marks : List Nat) (fuel : Nat) : Prop where
  eval : ∀ e pos r st, InvP marks st → PSpec marks (PR marks e) pos (eval g inp fuel e pos r st)
  seq : ∀ es pos r st, InvP marks st → PSpec marks (PRAny marks es) pos (evalSeq g inp fuel es pos r st)
  alt : ∀ es pos r st best, InvP marks st → PSpec marks (PRAll marks es) pos (evalAlt g inp fuel es pos r st best)
  many0 : ∀ e pos r st, InvP marks st → PSpec marks false pos (evalMany0 g inp fuel e pos r st)
  manyTill : ∀ e t pos r st, InvP marks st → PSpec marks (PR marks t) pos (evalManyTill g inp fuel e t pos r st)
  list : ∀ sep item pos r st, InvP marks st → PSpec marks false pos (evalList g inp fuel sep item pos r st)
  nest : ∀ item wraps outer pos r st acc, InvP marks st →
    PSpec marks false pos (evalNest g inp fuel item wraps outer pos r st acc)
  stmts : ∀ stmts pos r st, InvP marks st →
    PSpec marks (PRAny marks stmts) pos (evalStmts g inp fuel stmts pos r st).1
  call : ∀ f pos r st, InvP marks st → PSpec marks (marks.contains f) pos (evalCall g inp fuel f pos r st)

theorem pAll_zero (g : Grammar) (inp : Input) (marks : List Nat) : PAll g inp marks 0 where
  eval := by intro e pos r st hi; simp only [eval]; exact PSpec.oof hi
  seq := by intro es pos r st hi; simp only [evalSeq]; exact PSpec.oof hi
  alt := by intro es pos r st best hi; simp only [evalAlt]; exact PSpec.oof hi
  many0 := by intro e pos r st hi; simp only [evalMany0]; exact PSpec.oof hi
  manyTill := by intro e t pos r st hi; simp only [evalManyTill]; exact PSpec.oof hi
  list := by intro sep item pos r st hi; simp only [evalList]; exact PSpec.oof hi
  nest := by intro item wraps outer pos r st acc hi; simp only [evalNest]; exact PSpec.oof hi
  stmts := by intro stmts pos r st hi; simp only [evalStmts]; exact PSpec.oof hi
  call := by intro f pos r st hi; simp only [evalCall]; exact PSpec.oof hi

/-- common step: run `e` then a continuation that never moves backwards -/
theorem pspec_ok_here {marks : List Nat} {pr : Bool} {pos : Nat} {r : Rec} {ts : List Tree} {st : PState}
    (h : InvP marks st) (hpr : pr = false) : PSpec marks pr pos (.ok pos r ts, st) :=
  ⟨h, Nat.le_refl _, fun a => by simp [hpr] at a⟩

theorem pAll_succ (g : Grammar) (inp : Input) (marks : List Nat) (hm : MarksOK g marks) (n : Nat)
    (ih : PAll g inp marks n) : PAll g inp marks (n + 1) where
  eval := by
    intro e pos r st hi
    cases e with
    | term t =>
      simp only [eval]
      split
      · rename_i k hk
        refine ⟨hi, Nat.le_add_right _ _, fun hp => ?_⟩
        have := term_pos (by simpa [PR] using hp) hk
        show pos < pos + k
        omega
      · exact PSpec.err hi
    | eof =>
      simp only [eval]
      split
      · exact pspec_ok_here hi (by simp [PR])
      · exact PSpec.err hi
    | call f => simp only [eval]; exact (ih.call f pos r st hi).mono (fun h => by simpa [PR] using h)
    | seq es => simp only [eval]; exact (ih.seq es pos r st hi).mono (fun h => by simpa [PR] using h)
    | alt es => simp only [eval]; exact (ih.alt es pos r st none hi).mono (fun h => by simpa [PR] using h)
    | opt e =>
      simp only [eval]
      have h1 := ih.eval e pos r st hi
      split
      · rename_i q r' ts st' heq; rw [heq] at h1
        exact ⟨h1.1, h1.2.1, fun hp => by simp [PR] at hp⟩
      · rename_i ep st' heq; rw [heq] at h1; exact pspec_ok_here h1.1 (by simp [PR])
      · rename_i st' heq; rw [heq] at h1; exact PSpec.oof h1.1
    | many0 e => simp only [eval]; exact (ih.many0 e pos r st hi).mono (fun h => by simp [PR] at h)
    | many1 e =>
      simp only [eval]
      have h1 := ih.eval e pos r st hi
      split
      · rename_i q r' ts st' heq; rw [heq] at h1
        have h2 := ih.many0 e q r' st' h1.1
        split
        · rename_i q' r'' ts' st'' heq2; rw [heq2] at h2
          have a : pos ≤ q := h1.2.1
          have b : q ≤ q' := h2.2.1
          refine ⟨h2.1, Nat.le_trans a b, fun hp => ?_⟩
          have c : pos < q := h1.2.2 (by simpa [PR] using hp)
          show pos < q'
          omega
        · rename_i ep st'' heq2; rw [heq2] at h2; exact PSpec.err h2.1
        · rename_i st'' heq2; rw [heq2] at h2; exact PSpec.oof h2.1
      · rename_i ep st' heq; rw [heq] at h1; exact PSpec.err h1.1
      · rename_i st' heq; rw [heq] at h1; exact PSpec.oof h1.1
    | manyTill e t =>
      simp only [eval]; exact (ih.manyTill e t pos r st hi).mono (fun h => by simpa [PR] using h)
    | list sep item =>
      simp only [eval]
      have h1 := ih.eval item pos r st hi
      split
      · rename_i q r' ts st' heq; rw [heq] at h1
        have h2 := ih.list sep item q r' st' h1.1
        split
        · rename_i q' r'' ts' st'' heq2; rw [heq2] at h2
          have a : pos ≤ q := h1.2.1
          have b : q ≤ q' := h2.2.1
          refine ⟨h2.1, Nat.le_trans a b, fun hp => ?_⟩
          have c : pos < q := h1.2.2 (by simpa [PR] using hp)
          show pos < q'
          omega
        · rename_i ep st'' heq2; rw [heq2] at h2; exact PSpec.err h2.1
        · rename_i st'' heq2; rw [heq2] at h2; exact PSpec.oof h2.1
      · rename_i ep st' heq; rw [heq] at h1; exact PSpec.err h1.1
      · rename_i st' heq; rw [heq] at h1; exact PSpec.oof h1.1
    | peek e =>
      simp only [eval]
      have h1 := ih.eval e pos r st hi
      split
      · rename_i q r' ts st' heq; rw [heq] at h1; exact pspec_ok_here h1.1 (by simp [PR])
      · rename_i ep st' heq; rw [heq] at h1; exact PSpec.err h1.1
      · rename_i st' heq; rw [heq] at h1; exact PSpec.oof h1.1
    | not e =>
      simp only [eval]
      have h1 := ih.eval e pos r st hi
      split
      · rename_i q r' ts st' heq; rw [heq] at h1; exact PSpec.err h1.1
      · rename_i ep st' heq; rw [heq] at h1; exact pspec_ok_here h1.1 (by simp [PR])
      · rename_i st' heq; rw [heq] at h1; exact PSpec.oof h1.1
    | drop e =>
      simp only [eval]
      have h1 := ih.eval e pos r st hi
      split
      · rename_i q r' ts st' heq; rw [heq] at h1
        exact ⟨h1.1, h1.2.1, fun hp => h1.2.2 (by simpa [PR] using hp)⟩
      · rename_i ep st' heq; rw [heq] at h1; exact PSpec.err h1.1
      · rename_i st' heq; rw [heq] at h1; exact PSpec.oof h1.1
    | allConsuming e =>
      simp only [eval]
      have h1 := ih.eval e pos r st hi
      split
      · rename_i q r' ts st' heq; rw [heq] at h1
        split
        · exact ⟨h1.1, h1.2.1, fun hp => h1.2.2 (by simpa [PR] using hp)⟩
        · exact PSpec.err h1.1
      · rename_i ep st' heq; rw [heq] at h1; exact PSpec.err h1.1
      · rename_i st' heq; rw [heq] at h1; exact PSpec.oof h1.1
    | node k e =>
      simp only [eval]
      have h1 := ih.eval e pos r st hi
      split
      · rename_i q r' ts st' heq; rw [heq] at h1
        exact ⟨h1.1, h1.2.1, fun hp => h1.2.2 (by simpa [PR] using hp)⟩
      · rename_i ep st' heq; rw [heq] at h1; exact PSpec.err h1.1
      · rename_i st' heq; rw [heq] at h1; exact PSpec.oof h1.1
    | lexeme e =>
      simp only [eval]
      have h1 := ih.eval e pos r st hi
      split
      · rename_i q r' ts st' heq; rw [heq] at h1
        exact ⟨h1.1, h1.2.1, fun hp => h1.2.2 (by simpa [PR] using hp)⟩
      · rename_i ep st' heq; rw [heq] at h1; exact PSpec.err h1.1
      · rename_i st' heq; rw [heq] at h1; exact PSpec.oof h1.1
    | identKw e =>
      simp only [eval]
      have h1 := ih.eval e pos r st hi
      split
      · rename_i q r' ts st' heq; rw [heq] at h1
        split
        · exact PSpec.err h1.1
        · exact ⟨h1.1, h1.2.1, fun hp => h1.2.2 (by simpa [PR] using hp)⟩
      · rename_i ep st' heq; rw [heq] at h1; exact PSpec.err h1.1
      · rename_i st' heq; rw [heq] at h1; exact PSpec.oof h1.1
    | beginDir => simp only [eval]; exact pspec_ok_here (invP_dir hi _) (by simp [PR])
    | endDir => simp only [eval]; exact pspec_ok_here (invP_dir hi _) (by simp [PR])
    | beginKw v => simp only [eval]; exact pspec_ok_here (invP_vers hi _) (by simp [PR])
    | endKw => simp only [eval]; exact pspec_ok_here (invP_vers hi _) (by simp [PR])
    | dirScope e =>
      simp only [eval]
      have h1 := ih.eval e pos r { st with dir := st.dir + 1 } (invP_dir hi _)
      exact ⟨invP_dir h1.1 _, h1.2.1, fun hp => h1.2.2 (by simpa [PR] using hp)⟩
    | kwScope v e =>
      simp only [eval]
      have h1 := ih.eval e pos r { st with vers := v :: st.vers } (invP_vers hi _)
      exact ⟨invP_vers h1.1 _, h1.2.1, fun hp => h1.2.2 (by simpa [PR] using hp)⟩
    | kwGuard w =>
      simp only [eval]
      split
      · exact PSpec.err hi
      · exact pspec_ok_here hi (by simp [PR])
    | ifDir a b =>
      simp only [eval]
      split
      · exact (ih.eval a pos r st hi).mono (fun h => by simp [PR] at h; exact h.1)
      · exact (ih.eval b pos r st hi).mono (fun h => by simp [PR] at h; exact h.2)
    | nestl first item wraps outer =>
      simp only [eval]
      have h1 := ih.eval first pos r st hi
      split
      · rename_i q r' ts st' heq; rw [heq] at h1
        have h2 := ih.nest item wraps outer q r' st' ts h1.1
        refine ⟨h2.1, ?_, fun hp => ?_⟩
        · have a : pos ≤ q := h1.2.1
          revert h2; cases evalNest g inp n item wraps outer q r' st' ts with
          | mk o s => cases o <;> simp [PSpec, FwdO] <;> intros <;> omega
        · have c : pos < q := h1.2.2 (by simpa [PR] using hp)
          revert h2; cases evalNest g inp n item wraps outer q r' st' ts with
          | mk o s => cases o <;> simp [PSpec, FwdO, StrictFwdO] <;> intros <;> omega
      · rename_i ep st' heq; rw [heq] at h1; exact PSpec.err h1.1
      · rename_i st' heq; rw [heq] at h1; exact PSpec.oof h1.1
    | shaped stmts res =>
      simp only [eval]
      have h1 := ih.stmts stmts pos r st hi
      split
      · rename_i q r' x st' env heq
        rw [heq] at h1
        exact ⟨h1.1, h1.2.1, fun hp => h1.2.2 (by simpa [PR] using hp)⟩
      · rename_i ep st' env heq; rw [heq] at h1; exact PSpec.err h1.1
      · rename_i st' env heq; rw [heq] at h1; exact PSpec.oof h1.1
    | fail => simp only [eval]; exact PSpec.err hi
  seq := by
    intro es pos r st hi
    cases es with
    | nil => simp only [evalSeq]; exact pspec_ok_here hi (by simp [PRAny])
    | cons e es =>
      simp only [evalSeq]
      have h1 := ih.eval e pos r st hi
      split
      · rename_i q r' ts st' heq; rw [heq] at h1
        have h2 := ih.seq es q r' st' h1.1
        split
        · rename_i q' r'' ts' st'' heq2; rw [heq2] at h2
          have a : pos ≤ q := h1.2.1
          have b : q ≤ q' := h2.2.1
          refine ⟨h2.1, Nat.le_trans a b, fun hp => ?_⟩
          simp only [PRAny, Bool.or_eq_true] at hp
          show pos < q'
          rcases hp with hp | hp
          · have c : pos < q := h1.2.2 hp; omega
          · have c : q < q' := h2.2.2 hp; omega
        · rename_i ep st'' heq2; rw [heq2] at h2; exact PSpec.err h2.1
        · rename_i st'' heq2; rw [heq2] at h2; exact PSpec.oof h2.1
      · rename_i ep st' heq; rw [heq] at h1; exact PSpec.err h1.1
      · rename_i st' heq; rw [heq] at h1; exact PSpec.oof h1.1
  alt := by
    intro es pos r st best hi
    cases es with
    | nil => simp only [evalAlt]; exact PSpec.err hi
    | cons e es =>
      simp only [evalAlt]
      have h1 := ih.eval e pos r st hi
      split
      · rename_i q r' ts st' heq; rw [heq] at h1
        exact ⟨h1.1, h1.2.1, fun hp => h1.2.2 (by simp [PRAll] at hp; exact hp.1)⟩
      · rename_i ep st' heq; rw [heq] at h1
        exact (ih.alt es pos r st' _ h1.1).mono (fun hp => by simp [PRAll] at hp; exact hp.2)
      · rename_i st' heq; rw [heq] at h1; exact PSpec.oof h1.1
  many0 := by
    intro e pos r st hi
    simp only [evalMany0]
    have h1 := ih.eval e pos r st hi
    split
    · rename_i q r' ts st' heq; rw [heq] at h1
      split
      · exact PSpec.err h1.1
      · have h2 := ih.many0 e q r' st' h1.1
        split
        · rename_i q' r'' ts' st'' heq2; rw [heq2] at h2
          have a : pos ≤ q := h1.2.1
          have b : q ≤ q' := h2.2.1
          exact ⟨h2.1, Nat.le_trans a b, fun hp => by simp at hp⟩
        · rename_i ep st'' heq2; rw [heq2] at h2; exact PSpec.err h2.1
        · rename_i st'' heq2; rw [heq2] at h2; exact PSpec.oof h2.1
    · rename_i ep st' heq; rw [heq] at h1; exact pspec_ok_here h1.1 rfl
    · rename_i st' heq; rw [heq] at h1; exact PSpec.oof h1.1
  manyTill := by
    intro e t pos r st hi
    simp only [evalManyTill]
    have h1 := ih.eval t pos r st hi
    split
    · rename_i q r' ts st' heq; rw [heq] at h1; exact h1
    · rename_i st' heq; rw [heq] at h1; exact PSpec.oof h1.1
    · rename_i ep st' heq; rw [heq] at h1
      have h2 := ih.eval e pos r st' h1.1
      split
      · rename_i q r' ts st'' heq2; rw [heq2] at h2
        split
        · exact PSpec.err h2.1
        · rename_i hne
          have h3 := ih.manyTill e t q r' st'' h2.1
          split
          · rename_i q' r'' ts' st3 heq3; rw [heq3] at h3
            have a : pos ≤ q := h2.2.1
            have b : q ≤ q' := h3.2.1
            refine ⟨h3.1, Nat.le_trans a b, fun _ => ?_⟩
            show pos < q'
            omega
          · rename_i ep' st3 heq3; rw [heq3] at h3; exact PSpec.err h3.1
          · rename_i st3 heq3; rw [heq3] at h3; exact PSpec.oof h3.1
      · rename_i ep' st'' heq2; rw [heq2] at h2; exact PSpec.err h2.1
      · rename_i st'' heq2; rw [heq2] at h2; exact PSpec.oof h2.1
  list := by
    intro sep item pos r st hi
    simp only [evalList]
    have h1 := ih.eval sep pos r st hi
    split
    · rename_i q r' ts st' heq; rw [heq] at h1
      have h2 := ih.eval item q r' st' h1.1
      split
      · rename_i q2 r2 ts2 st2 heq2; rw [heq2] at h2
        have h3 := ih.list sep item q2 r2 st2 h2.1
        split
        · rename_i q3 r3 ts3 st3 heq3; rw [heq3] at h3
          have a : pos ≤ q := h1.2.1
          have b : q ≤ q2 := h2.2.1
          have c : q2 ≤ q3 := h3.2.1
          exact ⟨h3.1, by show pos ≤ q3; omega, fun hp => by simp at hp⟩
        · rename_i ep st3 heq3; rw [heq3] at h3; exact PSpec.err h3.1
        · rename_i st3 heq3; rw [heq3] at h3; exact PSpec.oof h3.1
      · rename_i ep st2 heq2; rw [heq2] at h2; exact pspec_ok_here h2.1 rfl
      · rename_i st2 heq2; rw [heq2] at h2; exact PSpec.oof h2.1
    · rename_i ep st' heq; rw [heq] at h1; exact pspec_ok_here h1.1 rfl
    · rename_i st' heq; rw [heq] at h1; exact PSpec.oof h1.1
  nest := by
    intro item wraps outer pos r st acc hi
    simp only [evalNest]
    have h1 := ih.eval item pos r st hi
    split
    · rename_i q r' ts st' heq; rw [heq] at h1
      split
      · exact PSpec.err h1.1
      · have h2 := ih.nest item wraps outer q r' st'
          [.node outer (wraps.foldl (fun a k => [Tree.node k a]) acc ++ ts)] h1.1
        have a : pos ≤ q := h1.2.1
        refine ⟨h2.1, ?_, fun hp => by simp at hp⟩
        revert h2
        cases evalNest g inp n item wraps outer q r' st'
            [.node outer (wraps.foldl (fun a k => [Tree.node k a]) acc ++ ts)] with
        | mk o s => cases o <;> simp [PSpec, FwdO] <;> intros <;> omega
    · rename_i ep st' heq; rw [heq] at h1; exact pspec_ok_here h1.1 rfl
    · rename_i st' heq; rw [heq] at h1; exact PSpec.oof h1.1
  stmts := by
    intro stmts pos r st hi
    cases stmts with
    | nil => simp only [evalStmts]; exact pspec_ok_here hi (by simp [PRAny])
    | cons e es =>
      simp only [evalStmts]
      have h1 := ih.eval e pos r st hi
      split
      · rename_i q r' ts st' heq; rw [heq] at h1
        have h2 := ih.stmts es q r' st' h1.1
        have a : pos ≤ q := h1.2.1
        refine ⟨h2.1, ?_, fun hp => ?_⟩
        · revert h2
          cases (evalStmts g inp n es q r' st').1 with
          | mk o s => cases o <;> simp [PSpec, FwdO] <;> intros <;> omega
        · simp only [PRAny, Bool.or_eq_true] at hp
          revert h2
          cases hres : (evalStmts g inp n es q r' st').1 with
          | mk o s =>
            cases o with
            | ok q' r'' x =>
              intro h2
              have b : q ≤ q' := h2.2.1
              show pos < q'
              rcases hp with hp | hp
              · have c : pos < q := h1.2.2 hp; omega
              · have c : q < q' := h2.2.2 hp; omega
            | err ep => intro _; trivial
            | oof => intro _; trivial
      · rename_i ep st' heq; rw [heq] at h1; exact PSpec.err h1.1
      · rename_i st' heq; rw [heq] at h1; exact PSpec.oof h1.1
  call := by
    intro f pos r st hi
    simp only [evalCall]
    split
    · rename_i ts len hhit
      refine ⟨hi, Nat.le_add_right _ _, fun hp => ?_⟩
      split at hhit
      · have := hi f pos _ ts len hp hhit
        show pos < pos + len
        omega
      · simp at hhit
    · exact PSpec.err hi
    · have hrun : ∀ (res : Out × PState),
          res = (if (g.prod f).recursive = true then
            (if (if r.ptr = some pos then r else { flags := [], ptr := some pos : Rec }).flags.contains f = true
              then (Out.err pos, st)
              else eval g inp n (g.prod f).body pos
                { (if r.ptr = some pos then r else { flags := [], ptr := some pos : Rec }) with
                  flags := f :: (if r.ptr = some pos then r else { flags := [], ptr := some pos : Rec }).flags } st)
            else eval g inp n (g.prod f).body pos r st) →
          PSpec marks (marks.contains f) pos res := by
        intro res hres
        subst hres
        repeat' split
        all_goals first
          | exact PSpec.err hi
          | exact (ih.eval _ pos _ st hi).mono (fun hp => hm f hp)
      have h1 := hrun _ rfl
      split
      · split
        · rename_i q r' ts st' heq
          rw [heq] at h1
          refine ⟨?_, h1.2.1, h1.2.2⟩
          apply invP_insertW_some h1.1 g.memoCap
          intro hp
          have : pos < q := h1.2.2 hp
          omega
        · rename_i ep st' heq
          rw [heq] at h1
          exact ⟨invP_insertW_none h1.1 _ _ _, trivial, fun _ => trivial⟩
        · rename_i st' heq
          rw [heq] at h1
          exact PSpec.oof h1.1
      · exact h1

theorem pAll (g : Grammar) (inp : Input) (marks : List Nat) (hm : MarksOK g marks) :
    ∀ fuel, PAll g inp marks fuel := by
  intro fuel
  induction fuel with
  | zero => exact pAll_zero g inp marks
  | succ n ih => exact pAll_succ g inp marks hm n ih

end Sv

import SvModel.Lemmas.Strip
/-!
# Fuel is only a termination device: results of the walker model do not depend on it (C09 and every walker theorem)

`walk_fuel_mono`: if a run of `preprocess_str` / the event loop / `preprocess_inner` / `resolve_text_macro_usage` with fuel `n` ends in anything but
the model-only "out of fuel" error (possibly wrapped in `Include{…}`), then the run with any larger fuel ends in exactly the same result. So a
definite result of the model — a text, `ExceedRecursiveLimit`, any other error — is the result of the unbounded computation the Rust code performs.
-/
namespace Sv

/-- the model-only error, possibly wrapped by `include levels -/
def PpError.oofIn : PpError → Bool
  | .oof => true
  | .include e => e.oofIn
  | _ => false

/-- a result that is not "out of fuel" -/
def Definite {α : Type} (r : Except PpError α) : Prop :=
  match r with
  | .error e => e.oofIn = false
  | .ok _ => True

theorem Definite.ok {α : Type} (a : α) : Definite (.ok a : Except PpError α) := trivial

section
variable (C : Cfg)
    (recI recI' : Bytes → Defines → Bool → Bool → Nat → Nat → Except PpError (POut × Defines))
    (recU recU' : Input → Bytes → Bytes → Tree → Defines → Bool → Bool → Nat → Nat → Except PpError (Option (Bytes × Option (Bytes × Range) × Defines)))
    (inp : Input) (s path : Bytes) (ii sc : Bool) (rd id : Nat) (w : WState) (x : Tree)

/-- the file name of an `include, as `armInclude` computes it (the only use of the macro resolver in that arm) -/
def incPath (defs : Defines) (inner : Tree) : Except PpError (Bytes × List Tree) :=
  let K := C.K
  let lit := (inner.kids.drop 2).head?
  if x.kind == K.incDoubleQuote then
    match lit with
    | some l => (match firstLeaf l with
        | some (o, n, _) => .ok (trimMatches 34 (bytesOf inp o n), [])
        | none => .ok ([], []))
    | none => .ok ([], [])
  else if x.kind == K.incAngleBracket then
    match lit with
    | some l => (match firstLeaf l with
        | some (o, n, _) => .ok (trimEndMatches 62 (trimStartMatches 60 (bytesOf inp o n)), [])
        | none => .ok ([], []))
    | none => .ok ([], [])
  else
    match lit with
    | some u =>
      (match recU inp s path u defs ii true (rd + 1) id with
       | .error e => .error e
       | .ok (some (p, _, _)) => .ok (trimMatches 34 (trim p), [u])
       | .ok none => .ok ([], [u]))
    | none => .ok ([], [])

/-- what `armInclude` does once the name is known (the only use of `preprocess_inner` in that arm) -/
def incRest (wB : WState) (inner : Tree) (pathR : Except PpError (Bytes × List Tree)) : Except PpError WState :=
  match pathR with
  | .error e => .error e
  | .ok (p0, extra) =>
    let wE := skipPushAll wB (((inner.kids.drop 1).head?).toList ++ extra)
    let p1 := resolveIncludePath C.fs C.includePaths p0
    match recI p1 wE.defines sc false rd (id + 1) with
    | .error e => .error (.include e)
    | .ok (inc, nd) => .ok { wE with defines := nd, out := wE.out.merge inc }

theorem incTail_eq :
    incTail C recI recU inp s path ii rd id x sc w =
      (match x.kids.head? with
       | none => .ok w
       | some inner => incRest C recI sc rd id w inner (incPath C recU inp s path ii rd id x w.defines inner)) := by
  unfold incTail incPath incRest; rfl

theorem incPath_mono (defs : Defines) (inner : Tree)
    (hU : ∀ inp s path x d ii sc rd id, Definite (recU inp s path x d ii sc rd id) → recU' inp s path x d ii sc rd id = recU inp s path x d ii sc rd id)
    (hd : Definite (incPath C recU inp s path ii rd id x defs inner)) :
    incPath C recU' inp s path ii rd id x defs inner = incPath C recU inp s path ii rd id x defs inner := by
  unfold incPath at hd ⊢
  dsimp only at hd ⊢
  split
  · rfl
  · split
    · rfl
    · split
      · rename_i u _
        have hu := hU inp s path u defs ii true (rd + 1) id
        simp only [*] at hd
        revert hu hd
        generalize recU inp s path u defs ii true (rd + 1) id = ru
        intro hu hd
        cases ru with
        | error e => rw [hu (by simpa [Definite] using hd)]
        | ok v => rw [hu trivial]
      · rfl

theorem incRest_definite (wB : WState) (inner : Tree) (pathR : Except PpError (Bytes × List Tree))
    (hd : Definite (incRest C recI sc rd id wB inner pathR)) : Definite pathR := by
  unfold incRest at hd
  cases pathR with
  | error e => simpa [Definite] using hd
  | ok v => trivial

theorem incRest_mono (wB : WState) (inner : Tree) (pathR : Except PpError (Bytes × List Tree))
    (hI : ∀ p d sc ii rd id, Definite (recI p d sc ii rd id) → recI' p d sc ii rd id = recI p d sc ii rd id)
    (hd : Definite (incRest C recI sc rd id wB inner pathR)) :
    incRest C recI' sc rd id wB inner pathR = incRest C recI sc rd id wB inner pathR := by
  unfold incRest at hd ⊢
  cases pathR with
  | error e => rfl
  | ok v =>
    obtain ⟨p0, extra⟩ := v
    dsimp only at hd ⊢
    have := hI (resolveIncludePath C.fs C.includePaths p0) (skipPushAll wB (((inner.kids.drop 1).head?).toList ++ extra)).defines sc false rd (id + 1)
    revert this hd
    generalize recI (resolveIncludePath C.fs C.includePaths p0) (skipPushAll wB (((inner.kids.drop 1).head?).toList ++ extra)).defines sc false rd (id + 1) = r
    intro hd this
    cases r with
    | error e => rw [this (by simpa [Definite, PpError.oofIn] using hd)]
    | ok v => rw [this trivial]

theorem incTail_mono
    (hI : ∀ p d sc ii rd id, Definite (recI p d sc ii rd id) → recI' p d sc ii rd id = recI p d sc ii rd id)
    (hU : ∀ inp s path x d ii sc rd id, Definite (recU inp s path x d ii sc rd id) → recU' inp s path x d ii sc rd id = recU inp s path x d ii sc rd id)
    (hd : Definite (incTail C recI recU inp s path ii rd id x sc w)) :
    incTail C recI' recU' inp s path ii rd id x sc w = incTail C recI recU inp s path ii rd id x sc w := by
  rw [incTail_eq] at hd ⊢
  rw [incTail_eq]
  split
  · rfl
  · rename_i inner heq
    simp only [heq] at hd
    have h1 := incRest_definite C recI sc rd id w inner _ hd
    rw [incPath_mono C recU recU' inp s path ii rd id x w.defines inner hU h1]
    exact incRest_mono C recI recI' sc rd id w inner _ hI hd

theorem armInclude_mono
    (hI : ∀ p d sc ii rd id, Definite (recI p d sc ii rd id) → recI' p d sc ii rd id = recI p d sc ii rd id)
    (hU : ∀ inp s path x d ii sc rd id, Definite (recU inp s path x d ii sc rd id) → recU' inp s path x d ii sc rd id = recU inp s path x d ii sc rd id)
    (hd : Definite (armInclude C recI recU inp s path ii sc rd id w x)) :
    armInclude C recI' recU' inp s path ii sc rd id w x = armInclude C recI recU inp s path ii sc rd id w x := by
  rw [armInclude_eq] at hd ⊢
  rw [armInclude_eq]
  split
  · rfl
  · split
    · rfl
    · rename_i hne
      simp only [*, if_false] at hd
      exact incTail_mono C recI recI' recU recU' inp s path ii sc rd id _ x hI hU (by simpa using hd)

theorem armUsage_mono
    (hU : ∀ inp s path x d ii sc rd id, Definite (recU inp s path x d ii sc rd id) → recU' inp s path x d ii sc rd id = recU inp s path x d ii sc rd id)
    (hd : Definite (armUsage C recI recU inp s path ii sc rd id w x)) :
    armUsage C recI' recU' inp s path ii sc rd id w x = armUsage C recI recU inp s path ii sc rd id w x := by
  unfold armUsage at hd ⊢
  dsimp only at hd ⊢
  have hu := hU inp s path x (w.skipPush x).defines ii sc (rd + 1) id
  revert hu hd
  generalize recU inp s path x (w.skipPush x).defines ii sc (rd + 1) id = ru
  intro hd hu
  cases ru with
  | error e => rw [hu (by simpa [Definite] using hd)]
  | ok v => rw [hu trivial]

theorem enterStep_mono
    (hI : ∀ p d sc ii rd id, Definite (recI p d sc ii rd id) → recI' p d sc ii rd id = recI p d sc ii rd id)
    (hU : ∀ inp s path x d ii sc rd id, Definite (recU inp s path x d ii sc rd id) → recU' inp s path x d ii sc rd id = recU inp s path x d ii sc rd id)
    (hd : Definite (enterStep C recI recU inp s path ii sc rd id w x)) :
    enterStep C recI' recU' inp s path ii sc rd id w x = enterStep C recI recU inp s path ii sc rd id w x := by
  unfold enterStep at hd ⊢
  dsimp only at hd ⊢
  by_cases c0 : (x.baseKind == C.K.sdNotDirective) = true
  · simp only [c0, if_true]; rfl
  · simp only [c0, Bool.false_eq_true, if_false] at hd ⊢
    by_cases c1 : (x.kind == C.K.sdStringLiteral || x.kind == C.K.sdEscapedIdentifier) = true
    · simp only [c1, if_true]; rfl
    · simp only [c1, Bool.false_eq_true, if_false] at hd ⊢
      by_cases c2 : C.K.kept.contains x.baseKind = true
      · simp only [c2, if_true]; rfl
      · simp only [c2, Bool.false_eq_true, if_false] at hd ⊢
        by_cases c3 : (x.baseKind == C.K.undefine) = true
        · simp only [c3, if_true]; rfl
        · simp only [c3, Bool.false_eq_true, if_false] at hd ⊢
          by_cases c4 : (x.baseKind == C.K.undefineall) = true
          · simp only [c4, if_true]; rfl
          · simp only [c4, Bool.false_eq_true, if_false] at hd ⊢
            by_cases c5 : (x.baseKind == C.K.ifdef || x.baseKind == C.K.ifndef) = true
            · simp only [c5, if_true]; rfl
            · simp only [c5, Bool.false_eq_true, if_false] at hd ⊢
              by_cases c6 : (x.baseKind == C.K.whiteSpace) = true
              · simp only [c6, if_true]; rfl
              · simp only [c6, Bool.false_eq_true, if_false] at hd ⊢
                by_cases c7 : (x.baseKind == C.K.comment) = true
                · simp only [c7, if_true]; rfl
                · simp only [c7, Bool.false_eq_true, if_false] at hd ⊢
                  by_cases c8 : (x.baseKind == C.K.textMacroDefinition) = true
                  · simp only [c8, if_true]; rfl
                  · simp only [c8, Bool.false_eq_true, if_false] at hd ⊢
                    by_cases c9 : (x.baseKind == C.K.includeDirective && !ii) = true
                    · simp only [c9, if_true] at hd ⊢
                      exact armInclude_mono C recI recI' recU recU' inp s path ii sc rd id w x hI hU hd
                    · simp only [c9, Bool.false_eq_true, if_false] at hd ⊢
                      by_cases c10 : (x.baseKind == C.K.textMacroUsage) = true
                      · simp only [c10, if_true] at hd ⊢
                        exact armUsage_mono C recI recI' recU recU' inp s path ii sc rd id w x hU hd
                      · simp only [c10, Bool.false_eq_true, if_false] at hd ⊢
                        by_cases c11 : (x.baseKind == C.K.position) = true
                        · simp only [c11, if_true]; rfl
                        · simp only [c11, Bool.false_eq_true, if_false]

end


/-- **one more unit of fuel never changes a definite result** -/
theorem walk_fuel_succ (C : Cfg) : ∀ (fuel : Nat),
    (∀ s path d ii sc rd id, Definite (preprocessStr C fuel s path d ii sc rd id) →
      preprocessStr C (fuel + 1) s path d ii sc rd id = preprocessStr C fuel s path d ii sc rd id) ∧
    (∀ inp s path ii sc rd id evs w, Definite (walk C fuel inp s path ii sc rd id evs w) →
      walk C (fuel + 1) inp s path ii sc rd id evs w = walk C fuel inp s path ii sc rd id evs w) ∧
    (∀ path d sc ii rd id, Definite (preprocessInner C fuel path d sc ii rd id) →
      preprocessInner C (fuel + 1) path d sc ii rd id = preprocessInner C fuel path d sc ii rd id) ∧
    (∀ inp s path x d ii sc rd id, Definite (resolveUsage C fuel inp s path x d ii sc rd id) →
      resolveUsage C (fuel + 1) inp s path x d ii sc rd id = resolveUsage C fuel inp s path x d ii sc rd id) := by
  intro fuel
  induction fuel with
  | zero =>
    refine ⟨?_, ?_, ?_, ?_⟩ <;> intros <;> rename_i h <;> simp [preprocessStr, walk, preprocessInner, resolveUsage, Definite, PpError.oofIn] at h
  | succ n ih =>
    obtain ⟨ihS, ihW, ihI, ihU⟩ := ih
    refine ⟨?_, ?_, ?_, ?_⟩
    · intro s path d ii sc rd id hd
      unfold preprocessStr at hd ⊢
      dsimp only at hd ⊢
      split
      · rfl
      · rename_i hlim
        simp only [hlim, if_false] at hd
        split
        · rfl
        · rfl
        · rename_i heq
          simp only [heq] at hd
          exact ihW _ _ _ _ _ _ _ _ _ hd
    · intro inp s path ii sc rd id evs w hd
      cases evs with
      | nil => simp only [walk]
      | cons ev evs =>
        unfold walk at hd ⊢
        dsimp only at hd ⊢
        split
        · rename_i hsk
          simp only [hsk, if_true] at hd
          exact ihW _ _ _ _ _ _ _ _ _ hd
        · rename_i hsk
          simp only [hsk, if_false] at hd
          split
          · rfl
          · rename_i w2 heq
            simp only [heq] at hd
            split
            · exact ihW _ _ _ _ _ _ _ _ _ hd
            · rename_i x
              dsimp only at hd
              have hE : Definite (enterStep C (preprocessInner C n) (resolveUsage C n) inp s path ii sc rd id w2 x) := by
                revert hd
                generalize enterStep C (preprocessInner C n) (resolveUsage C n) inp s path ii sc rd id w2 x = e3
                intro hd
                cases e3 with
                | error e => exact hd
                | ok v => trivial
              rw [enterStep_mono C (preprocessInner C n) (preprocessInner C (n + 1)) (resolveUsage C n) (resolveUsage C (n + 1))
                inp s path ii sc rd id w2 x (fun p d sc ii rd id h => ihI p d sc ii rd id h)
                (fun inp s path x d ii sc rd id h => ihU inp s path x d ii sc rd id h) hE]
              revert hd
              generalize enterStep C (preprocessInner C n) (resolveUsage C n) inp s path ii sc rd id w2 x = e3
              intro hd
              cases e3 with
              | error e => rfl
              | ok w3 => exact ihW _ _ _ _ _ _ _ _ _ hd
    · intro path d sc ii rd id hd
      unfold preprocessInner at hd ⊢
      split
      · rfl
      · rfl
      · rename_i heq
        simp only [heq] at hd
        exact ihS _ _ _ _ _ _ _ hd
    · intro inp s path x d ii sc rd id hd
      unfold resolveUsage at hd ⊢
      dsimp only at hd ⊢
      split
      · rfl
      · rename_i h1
        simp only [h1, if_false] at hd
        split
        · rfl
        · rfl
        · rename_i heq
          simp only [heq] at hd
          split
          · rfl
          · rename_i h2
            simp only [h2, if_false] at hd
            split
            · rfl
            · rename_i heq2
              simp only [heq2] at hd
              split
              · rfl
              · rename_i heq3
                simp only [heq3] at hd
                have hS := ihS
                revert hd
                generalize hg : preprocessStr C n _ path d ii sc rd id = r1
                intro hd
                have hdef : Definite r1 := by
                  cases r1 with
                  | error e => exact hd
                  | ok v => trivial
                rw [hS _ _ _ _ _ _ _ (by rw [hg]; exact hdef), hg]

/-- **results do not depend on the fuel**: a definite result with fuel `n` is the result with every fuel `m ≥ n` -/
theorem walk_fuel_mono (C : Cfg) (n m : Nat) (h : n ≤ m) (s path : Bytes) (d : Defines) (ii sc : Bool) (rd id : Nat)
    (hd : Definite (preprocessStr C n s path d ii sc rd id)) :
    preprocessStr C m s path d ii sc rd id = preprocessStr C n s path d ii sc rd id := by
  induction m with
  | zero => have : n = 0 := by omega
            subst this; rfl
  | succ k ih =>
    by_cases hk : n ≤ k
    · have e := ih hk
      rw [(walk_fuel_succ C k).1 s path d ii sc rd id (by rw [e]; exact hd), e]
    · have : n = k + 1 := by omega
      subst this; rfl

end Sv

import SvModel.Lemmas.Walker
/-!
# The strip_comments flag changes nothing but comments — simulation of two runs of the walker model (C18)

Two runs of `preprocess_str` on the same arguments, one with `strip_comments = false` and one with `true`, go through the same control flow
(same parses, same skip bookkeeping, same include files, same macro expansions, same errors, same define tables) and their outputs are related
by `TextRel`: equal, except that a chunk which is the text of a `Comment` node in the first run is a single separator byte in the second.
By induction on fuel through the mutual recursion event loop ↔ `include ↔ macro expansion; every tree, file system, define table.
-/
namespace Sv

/-- `c` is the text spanned by a node of kind `Comment` (of some tree over some input) -/
def IsCommentChunk (K : PpKinds) (c : Bytes) : Prop :=
  ∃ (inp : Input) (x : Tree) (o l n : Nat), x.baseKind = K.comment ∧ locOf x = some (o, l, n) ∧ c = bytesOf inp o l

/-- texts related by comment stripping -/
inductive TextRel (K : PpKinds) : Bytes → Bytes → Prop
  | refl (a : Bytes) : TextRel K a a
  | comment (c : Bytes) : IsCommentChunk K c → TextRel K c (commentEmit true c)
  | app {a b a' b' : Bytes} : TextRel K a b → TextRel K a' b' → TextRel K (a ++ a') (b ++ b')

theorem TextRel.snoc {K : PpKinds} {a b : Bytes} (h : TextRel K a b) (s : Bytes) : TextRel K (a ++ s) (b ++ s) :=
  .app h (.refl s)

theorem push_rel {K : PpKinds} {o o' : POut} (h : TextRel K o.text o'.text) (s : Bytes) (src : Option (List Nat × Range)) :
    TextRel K (o.push s src).text (o'.push s src).text := by
  unfold POut.push; split
  · exact h
  · exact h.snoc s

theorem push_rel2 {K : PpKinds} {o o' : POut} (h : TextRel K o.text o'.text) {s s' : Bytes} (hs : TextRel K s s')
    (src src' : Option (List Nat × Range)) : TextRel K (o.push s src).text (o'.push s' src').text := by
  unfold POut.push
  split <;> split
  · exact h
  · rename_i h1 _; have : s = [] := by simpa using h1
    subst this; simpa using TextRel.app h hs
  · rename_i _ h2; have : s' = [] := by simpa using h2
    subst this; simpa using TextRel.app h hs
  · exact .app h hs

theorem merge_rel {K : PpKinds} {o o' i i' : POut} (h : TextRel K o.text o'.text) (hi : TextRel K i.text i'.text) :
    TextRel K (o.merge i).text (o'.merge i').text := by
  unfold POut.merge; exact .app h hi

/-- the two walker states agree on everything but the output, and the outputs are related -/
structure WRel (K : PpKinds) (w w' : WState) : Prop where
  skip : w'.skip = w.skip
  skipWs : w'.skipWs = w.skipWs
  skipNodes : w'.skipNodes = w.skipNodes
  defines : w'.defines = w.defines
  lastItemLine : w'.lastItemLine = w.lastItemLine
  lastIncludeLine : w'.lastIncludeLine = w.lastIncludeLine
  out : TextRel K w.out.text w'.out.text

/-- results of `preprocess_str` / the event loop / `preprocess_inner` -/
def ResRel (K : PpKinds) (r r' : Except PpError (POut × Defines)) : Prop :=
  match r, r' with
  | .ok (o, d), .ok (o', d') => d' = d ∧ TextRel K o.text o'.text
  | .error e, .error e' => e' = e
  | _, _ => False

/-- results of `resolve_text_macro_usage` -/
def UsRel (K : PpKinds) (r r' : Except PpError (Option (Bytes × Option (Bytes × Range) × Defines))) : Prop :=
  match r, r' with
  | .ok none, .ok none => True
  | .ok (some (t, o, d)), .ok (some (t', o', d')) => o' = o ∧ d' = d ∧ TextRel K t t'
  | .error e, .error e' => e' = e
  | _, _ => False

/-- results of one arm -/
def ArmRel (K : PpKinds) (r r' : Except PpError WState) : Prop :=
  match r, r' with
  | .ok a, .ok b => WRel K a b
  | .error e, .error e' => e' = e
  | _, _ => False

theorem WRel.of_eq {K : PpKinds} {sk sw : Bool} {sn : List Tree} {d : Defines} {l1 l2 : Option Nat} {o o' : POut}
    (h : TextRel K o.text o'.text) :
    WRel K ⟨sk, sw, sn, d, l1, l2, o⟩ ⟨sk, sw, sn, d, l1, l2, o'⟩ := ⟨rfl, rfl, rfl, rfl, rfl, rfl, h⟩

/-- bring two related states into the form `⟨…, o⟩`, `⟨…, o'⟩` -/
theorem WRel.cases {K : PpKinds} {w w' : WState} (h : WRel K w w') :
    ∃ sk sw sn d l1 l2 o o', w = ⟨sk, sw, sn, d, l1, l2, o⟩ ∧ w' = ⟨sk, sw, sn, d, l1, l2, o'⟩ ∧ TextRel K o.text o'.text := by
  obtain ⟨sk, sw, sn, d, l1, l2, o⟩ := w
  obtain ⟨sk', sw', sn', d', l1', l2', o'⟩ := w'
  obtain ⟨h1, h2, h3, h4, h5, h6, h7⟩ := h
  simp only at h1 h2 h3 h4 h5 h6 h7
  subst h1 h2 h3 h4 h5 h6
  exact ⟨_, _, _, _, _, _, _, _, rfl, rfl, h7⟩

theorem skipPush_rel {K : PpKinds} {w w' : WState} (h : WRel K w w') (t : Tree) : WRel K (w.skipPush t) (w'.skipPush t) := by
  obtain ⟨sk, sw, sn, d, l1, l2, o, o', rfl, rfl, ho⟩ := h.cases
  unfold WState.skipPush; split
  · exact .of_eq ho
  · exact .of_eq ho

theorem skipPushAll_rel {K : PpKinds} {w w' : WState} (h : WRel K w w') (ts : List Tree) :
    WRel K (skipPushAll w ts) (skipPushAll w' ts) := by
  unfold skipPushAll
  induction ts generalizing w w' with
  | nil => exact h
  | cons t ts ih => rw [List.foldl_cons, List.foldl_cons]; exact ih (skipPush_rel h t)

theorem pushLoc_rel {K : PpKinds} {w w' : WState} (h : WRel K w w') (inp : Input) (path : Bytes) (x : Tree) :
    WRel K (pushLoc inp path w x) (pushLoc inp path w' x) := by
  obtain ⟨sk, sw, sn, d, l1, l2, o, o', rfl, rfl, ho⟩ := h.cases
  unfold pushLoc; split
  · exact .of_eq (push_rel ho _ _)
  · exact .of_eq ho

theorem foldl_pushLoc_rel {K : PpKinds} (inp : Input) (path : Bytes) (ts : List Tree) {w w' : WState} (h : WRel K w w') :
    WRel K (ts.foldl (pushLoc inp path) w) (ts.foldl (pushLoc inp path) w') := by
  induction ts generalizing w w' with
  | nil => exact h
  | cons t ts ih => rw [List.foldl_cons, List.foldl_cons]; exact ih (pushLoc_rel h inp path t)

theorem skipStep_rel {K : PpKinds} {w w' : WState} (h : WRel K w w') (ev : Event) : WRel K (skipStep w ev) (skipStep w' ev) := by
  obtain ⟨sk, sw, sn, d, l1, l2, o, o', rfl, rfl, ho⟩ := h.cases
  unfold skipStep; split <;> (dsimp only; split) <;> exact .of_eq ho

theorem leaveStep_rel {K : PpKinds} {w w' : WState} (h : WRel K w w') (x : Tree) : WRel K (leaveStep K w x) (leaveStep K w' x) := by
  obtain ⟨sk, sw, sn, d, l1, l2, o, o', rfl, rfl, ho⟩ := h.cases
  unfold leaveStep; split <;> exact .of_eq ho

theorem lineStep_rel {K : PpKinds} {w w' : WState} (h : WRel K w w') (inp : Input) (ev : Event) :
    ArmRel K (lineStep K inp w ev) (lineStep K inp w' ev) := by
  obtain ⟨sk, sw, sn, d, l1, l2, o, o', rfl, rfl, ho⟩ := h.cases
  unfold lineStep
  dsimp only
  repeat' split
  all_goals first
    | exact WRel.of_eq ho
    | rfl

theorem WRel.withSkip {K : PpKinds} {a b : WState} (h : WRel K a b) (v : Bool) : WRel K { a with skip := v } { b with skip := v } :=
  ⟨rfl, h.2, h.3, h.4, h.5, h.6, h.7⟩
theorem WRel.withSkipWs {K : PpKinds} {a b : WState} (h : WRel K a b) (v : Bool) : WRel K { a with skipWs := v } { b with skipWs := v } :=
  ⟨h.1, rfl, h.3, h.4, h.5, h.6, h.7⟩
theorem WRel.withDefines {K : PpKinds} {a b : WState} (h : WRel K a b) (v : Defines) : WRel K { a with defines := v } { b with defines := v } :=
  ⟨h.1, h.2, h.3, rfl, h.5, h.6, h.7⟩
theorem WRel.withLastInclude {K : PpKinds} {a b : WState} (h : WRel K a b) (v : Option Nat) :
    WRel K { a with lastIncludeLine := v } { b with lastIncludeLine := v } :=
  ⟨h.1, h.2, h.3, h.4, h.5, rfl, h.7⟩
theorem WRel.withOut {K : PpKinds} {a b : WState} (h : WRel K a b) {o o' : POut} (ho : TextRel K o.text o'.text) :
    WRel K { a with out := o } { b with out := o' } :=
  ⟨h.1, h.2, h.3, h.4, h.5, h.6, ho⟩

section
variable (C : Cfg)
    (recInner : Bytes → Defines → Bool → Bool → Nat → Nat → Except PpError (POut × Defines))
    (recUsage : Input → Bytes → Bytes → Tree → Defines → Bool → Bool → Nat → Nat → Except PpError (Option (Bytes × Option (Bytes × Range) × Defines)))
    (inp : Input) (s path : Bytes) (ii : Bool) (rd id : Nat) (w w' : WState) (x : Tree)

theorem armNotDirective_rel (h : WRel C.K w w') :
    ArmRel C.K (armNotDirective C recInner recUsage inp s path ii false rd id w x) (armNotDirective C recInner recUsage inp s path ii true rd id w' x) := by
  unfold armNotDirective; exact pushLoc_rel h inp path x

theorem armStrLike_rel (h : WRel C.K w w') :
    ArmRel C.K (armStrLike C recInner recUsage inp s path ii false rd id w x) (armStrLike C recInner recUsage inp s path ii true rd id w' x) := by
  unfold armStrLike; dsimp only; split
  · exact pushLoc_rel h inp path _
  · exact h

theorem armKept_rel (h : WRel C.K w w') :
    ArmRel C.K (armKept C recInner recUsage inp s path ii false rd id w x) (armKept C recInner recUsage inp s path ii true rd id w' x) := by
  unfold armKept; exact (pushLoc_rel h inp path x).withSkipWs true

theorem armUndef_rel (h : WRel C.K w w') :
    ArmRel C.K (armUndef C recInner recUsage inp s path ii false rd id w x) (armUndef C recInner recUsage inp s path ii true rd id w' x) := by
  unfold armUndef; dsimp only
  rw [h.defines]
  exact (pushLoc_rel (h.withDefines _) inp path x).withSkipWs true

theorem armUndefAll_rel (h : WRel C.K w w') :
    ArmRel C.K (armUndefAll C recInner recUsage inp s path ii false rd id w x) (armUndefAll C recInner recUsage inp s path ii true rd id w' x) := by
  unfold armUndefAll; exact (pushLoc_rel (h.withDefines _) inp path x).withSkipWs true

theorem armCond_rel (h : WRel C.K w w') :
    ArmRel C.K (armCond C recInner recUsage inp s path ii false rd id w x) (armCond C recInner recUsage inp s path ii true rd id w' x) := by
  unfold armCond; dsimp only
  rw [h.defines]
  split
  · exact h
  · exact skipPushAll_rel h _

theorem armWhiteSpace_rel (h : WRel C.K w w') :
    ArmRel C.K (armWhiteSpace C recInner recUsage inp s path ii false rd id w x) (armWhiteSpace C recInner recUsage inp s path ii true rd id w' x) := by
  unfold armWhiteSpace; dsimp only
  rw [h.skipWs]
  split
  · split
    · split
      · exact ⟨h.1, rfl, h.3, h.4, h.5, h.6, push_rel h.out _ _⟩
      · exact h
    · exact h
  · exact h

theorem armComment_rel (hx : x.baseKind = C.K.comment) (h : WRel C.K w w') :
    ArmRel C.K (armComment C recInner recUsage inp s path ii false rd id w x) (armComment C recInner recUsage inp s path ii true rd id w' x) := by
  unfold armComment; dsimp only
  split
  · rename_i o l n heq
    refine h.withOut (push_rel2 h.out ?_ _ _)
    have : commentEmit false (bytesOf inp o l) = bytesOf inp o l := by simp [commentEmit]
    rw [this]
    exact .comment _ ⟨inp, x, o, l, n, hx, heq, rfl⟩
  · exact h

theorem armPosition_rel (h : WRel C.K w w') :
    ArmRel C.K (armPosition C recInner recUsage inp s path ii false rd id w x) (armPosition C recInner recUsage inp s path ii true rd id w' x) := by
  unfold armPosition; dsimp only
  have hA : WRel C.K { (w.skipPush x) with skip := true } { (w'.skipPush x) with skip := true } := (skipPush_rel h x).withSkip true
  split
  · split
    · split
      · exact hA.withOut (push_rel hA.out _ _)
      · split
        · exact hA.withOut (push_rel hA.out _ _)
        · exact hA
    · exact hA
  · exact hA

theorem armDefine_rel (h : WRel C.K w w') :
    ArmRel C.K (armDefine C recInner recUsage inp s path ii false rd id w x) (armDefine C recInner recUsage inp s path ii true rd id w' x) := by
  unfold armDefine; dsimp only
  have hA : WRel C.K { (w.skipPush x) with skip := true } { (w'.skipPush x) with skip := true } := (skipPush_rel h x).withSkip true
  have hd : ({ (w'.skipPush x) with skip := true } : WState).defines = ({ (w.skipPush x) with skip := true } : WState).defines := hA.defines
  split
  · split
    · dsimp only at hd ⊢
      rw [hd]
      exact pushLoc_rel (hA.withDefines _) inp path x
    · exact pushLoc_rel hA inp path x
  · exact pushLoc_rel hA inp path x

theorem armUsage_rel (hU : ∀ inp s path x d ii rd id, UsRel C.K (recUsage inp s path x d ii false rd id) (recUsage inp s path x d ii true rd id))
    (h : WRel C.K w w') :
    ArmRel C.K (armUsage C recInner recUsage inp s path ii false rd id w x) (armUsage C recInner recUsage inp s path ii true rd id w' x) := by
  unfold armUsage; dsimp only
  have hA : WRel C.K { (w.skipPush x) with skip := true } { (w'.skipPush x) with skip := true } := (skipPush_rel h x).withSkip true
  simp only [skipPush_defines]
  rw [h.defines]
  have hu := hU inp s path x w.defines ii (rd + 1) id
  revert hu
  generalize recUsage inp s path x w.defines ii false (rd + 1) id = r1
  generalize recUsage inp s path x w.defines ii true (rd + 1) id = r2
  intro hu
  match r1, r2, hu with
  | .error e, .error e', hu => exact hu
  | .ok none, .ok none, _ =>
    dsimp only
    exact foldl_pushLoc_rel inp path _ ⟨rfl, hA.2, hA.3, rfl, hA.5, hA.6, hA.7⟩
  | .ok (some (t, o, d)), .ok (some (t', o', d')), hu =>
    obtain ⟨ho, hd, ht⟩ := hu
    subst ho hd
    dsimp only
    refine foldl_pushLoc_rel inp path _ ?_
    exact ⟨rfl, hA.2, hA.3, rfl, hA.5, hA.6, push_rel2 hA.out ht _ _⟩
  | .error _, .ok _, hu => exact hu.elim
  | .ok none, .error _, hu => exact hu.elim
  | .ok (some _), .error _, hu => exact hu.elim
  | .ok none, .ok (some _), hu => exact hu.elim
  | .ok (some _), .ok none, hu => exact hu.elim

/-- the part of `armInclude` after the include-line test, as a function of the state `wB` at that point -/
def incTail (sc : Bool) (wB : WState) : Except PpError WState :=
  let K := C.K
  match x.kids.head? with
  | none => .ok wB
  | some inner =>
    let kwL : List Tree := ((inner.kids.drop 1).head?).toList
    let lit := (inner.kids.drop 2).head?
    let pathR : Except PpError (Bytes × List Tree) :=
      if x.kind == K.incDoubleQuote then
        match lit with
        | some l => (match firstLeaf l with
            | some (o, n, _) => .ok (trimMatches 34 (bytesOf inp o n), [])
            | none => .ok ([], []))
        | none => .ok ([], [])
      else if x.kind == K.incAngleBracket then
        match lit with
        | some l => (match firstLeaf l with
            | some (o, n, _) => .ok (trimEndMatches 62 (trimStartMatches 60 (bytesOf inp o n)), [])
            | none => .ok ([], []))
        | none => .ok ([], [])
      else
        match lit with
        | some u =>
          (match recUsage inp s path u wB.defines ii true (rd + 1) id with
           | .error e => .error e
           | .ok (some (p, _, _)) => .ok (trimMatches 34 (trim p), [u])
           | .ok none => .ok ([], [u]))
        | none => .ok ([], [])
    match pathR with
    | .error e => .error e
    | .ok (p0, extra) =>
      let wE := skipPushAll wB (kwL ++ extra)
      let p1 := resolveIncludePath C.fs C.includePaths p0
      match recInner p1 wE.defines sc false rd (id + 1) with
      | .error e => .error (.include e)
      | .ok (inc, nd) => .ok { wE with defines := nd, out := wE.out.merge inc }

theorem armInclude_eq (sc : Bool) :
    armInclude C recInner recUsage inp s path ii sc rd id w x =
      (match locOf x with
       | none => .ok { (w.skipPush x) with skip := true }
       | some (_, _, line) =>
         if (w.skipPush x).lastItemLine == some line then .error .includeLine
         else incTail C recInner recUsage inp s path ii rd id x sc
                { ({ (w.skipPush x) with skip := true } : WState) with lastIncludeLine := some line }) := by
  unfold armInclude incTail; rfl

theorem incTail_rel (hI : ∀ p d ii rd id, ResRel C.K (recInner p d false ii rd id) (recInner p d true ii rd id))
    (hB : WRel C.K w w') :
    ArmRel C.K (incTail C recInner recUsage inp s path ii rd id x false w) (incTail C recInner recUsage inp s path ii rd id x true w') := by
  unfold incTail; dsimp only
  rw [hB.defines]
  split
  · exact hB
  · split
    · rfl
    · rename_i inner _ _ p0 extra _
      have hE := skipPushAll_rel hB ((((inner.kids.drop 1).head?).toList) ++ extra)
      rw [hE.defines]
      have hr := hI (resolveIncludePath C.fs C.includePaths p0)
        (skipPushAll w ((((inner.kids.drop 1).head?).toList) ++ extra)).defines false rd (id + 1)
      revert hr
      generalize recInner (resolveIncludePath C.fs C.includePaths p0)
        (skipPushAll w ((((inner.kids.drop 1).head?).toList) ++ extra)).defines false false rd (id + 1) = r1
      generalize recInner (resolveIncludePath C.fs C.includePaths p0)
        (skipPushAll w ((((inner.kids.drop 1).head?).toList) ++ extra)).defines true false rd (id + 1) = r2
      intro hr
      match r1, r2, hr with
      | .error e, .error e', hr => dsimp only; rw [show e' = e from hr]; rfl
      | .ok (inc, nd), .ok (inc', nd'), hr =>
        obtain ⟨hd, ht⟩ := hr
        subst hd
        dsimp only
        exact ⟨hE.1, hE.2, hE.3, rfl, hE.5, hE.6, merge_rel hE.out ht⟩
      | .error _, .ok _, hr => exact hr.elim
      | .ok _, .error _, hr => exact hr.elim

theorem armInclude_rel (hI : ∀ p d ii rd id, ResRel C.K (recInner p d false ii rd id) (recInner p d true ii rd id))
    (h : WRel C.K w w') :
    ArmRel C.K (armInclude C recInner recUsage inp s path ii false rd id w x) (armInclude C recInner recUsage inp s path ii true rd id w' x) := by
  rw [armInclude_eq, armInclude_eq]
  have hA : WRel C.K { (w.skipPush x) with skip := true } { (w'.skipPush x) with skip := true } := (skipPush_rel h x).withSkip true
  have hl : (w'.skipPush x).lastItemLine = (w.skipPush x).lastItemLine := (skipPush_rel h x).lastItemLine
  rw [hl]
  split
  · exact hA
  · split
    · rfl
    · exact incTail_rel C recInner recUsage inp s path ii rd id _ _ x hI (hA.withLastInclude _)

theorem enterStep_rel (hI : ∀ p d ii rd id, ResRel C.K (recInner p d false ii rd id) (recInner p d true ii rd id))
    (hU : ∀ inp s path x d ii rd id, UsRel C.K (recUsage inp s path x d ii false rd id) (recUsage inp s path x d ii true rd id))
    (h : WRel C.K w w') :
    ArmRel C.K (enterStep C recInner recUsage inp s path ii false rd id w x) (enterStep C recInner recUsage inp s path ii true rd id w' x) := by
  unfold enterStep; dsimp only
  by_cases c0 : (x.baseKind == C.K.sdNotDirective) = true
  · rw [if_pos c0, if_pos c0]; exact armNotDirective_rel _ _ _ _ _ _ _ _ _ _ _ _ h
  · rw [if_neg c0, if_neg c0]
    by_cases c1 : (x.kind == C.K.sdStringLiteral || x.kind == C.K.sdEscapedIdentifier) = true
    · rw [if_pos c1, if_pos c1]; exact armStrLike_rel _ _ _ _ _ _ _ _ _ _ _ _ h
    · rw [if_neg c1, if_neg c1]
      by_cases c2 : C.K.kept.contains x.baseKind = true
      · rw [if_pos c2, if_pos c2]; exact armKept_rel _ _ _ _ _ _ _ _ _ _ _ _ h
      · rw [if_neg c2, if_neg c2]
        by_cases c3 : (x.baseKind == C.K.undefine) = true
        · rw [if_pos c3, if_pos c3]; exact armUndef_rel _ _ _ _ _ _ _ _ _ _ _ _ h
        · rw [if_neg c3, if_neg c3]
          by_cases c4 : (x.baseKind == C.K.undefineall) = true
          · rw [if_pos c4, if_pos c4]; exact armUndefAll_rel _ _ _ _ _ _ _ _ _ _ _ _ h
          · rw [if_neg c4, if_neg c4]
            by_cases c5 : (x.baseKind == C.K.ifdef || x.baseKind == C.K.ifndef) = true
            · rw [if_pos c5, if_pos c5]; exact armCond_rel _ _ _ _ _ _ _ _ _ _ _ _ h
            · rw [if_neg c5, if_neg c5]
              by_cases c6 : (x.baseKind == C.K.whiteSpace) = true
              · rw [if_pos c6, if_pos c6]; exact armWhiteSpace_rel _ _ _ _ _ _ _ _ _ _ _ _ h
              · rw [if_neg c6, if_neg c6]
                by_cases c7 : (x.baseKind == C.K.comment) = true
                · rw [if_pos c7, if_pos c7]; exact armComment_rel _ _ _ _ _ _ _ _ _ _ _ _ (by simpa using c7) h
                · rw [if_neg c7, if_neg c7]
                  by_cases c8 : (x.baseKind == C.K.textMacroDefinition) = true
                  · rw [if_pos c8, if_pos c8]; exact armDefine_rel _ _ _ _ _ _ _ _ _ _ _ _ h
                  · rw [if_neg c8, if_neg c8]
                    by_cases c9 : (x.baseKind == C.K.includeDirective && !ii) = true
                    · rw [if_pos c9, if_pos c9]; exact armInclude_rel _ _ _ _ _ _ _ _ _ _ _ _ hI h
                    · rw [if_neg c9, if_neg c9]
                      by_cases c10 : (x.baseKind == C.K.textMacroUsage) = true
                      · rw [if_pos c10, if_pos c10]; exact armUsage_rel _ _ _ _ _ _ _ _ _ _ _ _ hU h
                      · rw [if_neg c10, if_neg c10]
                        by_cases c11 : (x.baseKind == C.K.position) = true
                        · rw [if_pos c11, if_pos c11]; exact armPosition_rel _ _ _ _ _ _ _ _ _ _ _ _ h
                        · rw [if_neg c11, if_neg c11]; exact h

end

theorem usTail_rel {K : PpKinds} (r1 r2 : Except PpError (POut × Defines)) (origin : Option (Bytes × Range)) :
    ResRel K r1 r2 →
    UsRel K (match r1 with | .error e => .error e | .ok (out, nd) => .ok (some (out.text, origin, nd)))
            (match r2 with | .error e => .error e | .ok (out, nd) => .ok (some (out.text, origin, nd))) := by
  intro h
  match r1, r2, h with
  | .error e, .error e', h => exact h
  | .ok (o, d), .ok (o', d'), h => exact ⟨rfl, h.1, h.2⟩
  | .error _, .ok _, h => exact h.elim
  | .ok _, .error _, h => exact h.elim

theorem ResRel.refl_err {K : PpKinds} (e : PpError) : ResRel K (.error e) (.error e) := rfl

/-- **strip_comments changes nothing but comments** — for every configuration (grammar, kinds, file system, include paths), input, path, define
    table, `ignore_include`, depth counters and fuel: the runs with `strip_comments = false` and `= true` either fail with the same error or both
    succeed with the same define table and outputs related by `TextRel`; likewise for the event loop from related states, for `preprocess_inner`
    and for `resolve_text_macro_usage`. -/
theorem walk_strip_sim (C : Cfg) : ∀ (fuel : Nat),
    (∀ s path d ii rd id, ResRel C.K (preprocessStr C fuel s path d ii false rd id) (preprocessStr C fuel s path d ii true rd id)) ∧
    (∀ inp s path ii rd id evs w w', WRel C.K w w' →
      ResRel C.K (walk C fuel inp s path ii false rd id evs w) (walk C fuel inp s path ii true rd id evs w')) ∧
    (∀ path d ii rd id, ResRel C.K (preprocessInner C fuel path d false ii rd id) (preprocessInner C fuel path d true ii rd id)) ∧
    (∀ inp s path x d ii rd id, UsRel C.K (resolveUsage C fuel inp s path x d ii false rd id) (resolveUsage C fuel inp s path x d ii true rd id)) := by
  intro fuel
  induction fuel with
  | zero =>
    refine ⟨?_, ?_, ?_, ?_⟩ <;> intros <;> simp [preprocessStr, walk, preprocessInner, resolveUsage, ResRel, UsRel]
  | succ n ih =>
    obtain ⟨ihS, ihW, ihI, ihU⟩ := ih
    refine ⟨?_, ?_, ?_, ?_⟩
    · intro s path d ii rd id
      unfold preprocessStr
      dsimp only
      split
      · rfl
      · split
        · rfl
        · rfl
        · apply ihW; exact WRel.of_eq (.refl _)
    · intro inp s path ii rd id evs w w' hw
      cases evs with
      | nil => simp only [walk]; exact ⟨hw.defines, hw.out⟩
      | cons ev evs =>
        unfold walk
        dsimp only
        have h1 := skipStep_rel hw ev
        rw [h1.skip]
        generalize skipStep w ev = w1 at h1 ⊢
        generalize skipStep w' ev = w1' at h1 ⊢
        split
        · exact ihW _ _ _ _ _ _ _ _ _ h1
        · have h2 := lineStep_rel h1 inp ev
          revert h2
          generalize lineStep C.K inp w1 ev = b2
          generalize lineStep C.K inp w1' ev = b2'
          intro h2
          match b2, b2', h2 with
          | .error e, .error e', h2 => exact h2
          | .error _, .ok _, h2 => exact h2.elim
          | .ok _, .error _, h2 => exact h2.elim
          | .ok w2, .ok w2', h2 =>
            dsimp only
            split
            · exact ihW _ _ _ _ _ _ _ _ _ (leaveStep_rel h2 _)
            · rename_i x
              have h3 := enterStep_rel C (preprocessInner C n) (resolveUsage C n) inp s path ii rd id w2 w2' x ihI ihU h2
              revert h3
              generalize enterStep C (preprocessInner C n) (resolveUsage C n) inp s path ii false rd id w2 x = e3
              generalize enterStep C (preprocessInner C n) (resolveUsage C n) inp s path ii true rd id w2' x = e3'
              intro h3
              match e3, e3', h3 with
              | .error e, .error e', h3 => exact h3
              | .error _, .ok _, h3 => exact h3.elim
              | .ok _, .error _, h3 => exact h3.elim
              | .ok w3, .ok w3', h3 => exact ihW _ _ _ _ _ _ _ _ _ h3
    · intro path d ii rd id
      unfold preprocessInner
      split
      · rfl
      · rfl
      · apply ihS
    · intro inp s path x d ii rd id
      unfold resolveUsage
      dsimp only
      split
      · rfl
      · split
        · rfl
        · trivial
        · split
          · rfl
          · split
            · rfl
            · split
              · trivial
              · exact usTail_rel _ _ _ (ihS _ _ _ _ _ _)

end Sv

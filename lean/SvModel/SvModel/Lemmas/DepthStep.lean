import SvModel.Lemmas.FuelMono
/-!
# Each recursion level adds exactly one to exactly one counter (C09)

The `include arm consults `preprocess_inner` only with `(resolve_depth, include_depth + 1)` and the macro resolver only with
`(resolve_depth + 1, include_depth)`; the usage arm consults the resolver only with `(resolve_depth + 1, include_depth)`. Stated as
parametricity: replacing the callees by any others that agree at exactly those depths does not change the arm.
-/
namespace Sv

section
variable (C : Cfg)
    (recI recI' : Bytes → Defines → Bool → Bool → Nat → Nat → Except PpError (POut × Defines))
    (recU recU' : Input → Bytes → Bytes → Tree → Defines → Bool → Bool → Nat → Nat → Except PpError (Option (Bytes × Option (Bytes × Range) × Defines)))
    (inp : Input) (s path : Bytes) (ii sc : Bool) (rd id : Nat) (w : WState) (x : Tree)

theorem armUsage_depth (hU : ∀ inp s path x d ii sc, recU inp s path x d ii sc (rd + 1) id = recU' inp s path x d ii sc (rd + 1) id) :
    armUsage C recI recU inp s path ii sc rd id w x = armUsage C recI' recU' inp s path ii sc rd id w x := by
  unfold armUsage; dsimp only; rw [hU]

theorem armInclude_depth
    (hI : ∀ p d sc ii, recI p d sc ii rd (id + 1) = recI' p d sc ii rd (id + 1))
    (hU : ∀ inp s path x d ii sc, recU inp s path x d ii sc (rd + 1) id = recU' inp s path x d ii sc (rd + 1) id) :
    armInclude C recI recU inp s path ii sc rd id w x = armInclude C recI' recU' inp s path ii sc rd id w x := by
  rw [armInclude_eq, armInclude_eq]
  split
  · rfl
  · split
    · rfl
    · rw [incTail_eq, incTail_eq]
      split
      · rfl
      · rename_i inner _
        have hp : ∀ defs, incPath C recU inp s path ii rd id x defs inner = incPath C recU' inp s path ii rd id x defs inner := by
          intro defs
          unfold incPath; dsimp only
          split
          · rfl
          · split
            · rfl
            · split
              · rw [hU]
              · rfl
        rw [hp]
        unfold incRest
        split
        · rfl
        · dsimp only; rw [hI]
end

end Sv

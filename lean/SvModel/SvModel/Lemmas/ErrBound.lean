import SvModel.Core.Peg
/-!
Error positions are never before the position at which the failing parser was started (GreedyError keeps the deeper
of two errors; a cached failure is replayed at the call position).
-/
namespace Sv

def ErrGe (pos : Nat) : Out → Prop
  | .err ep => pos ≤ ep
  | _ => True

def OkGe (pos : Nat) : Out → Prop
  | .ok q _ _ => pos ≤ q
  | _ => True

/-- both: successes and errors are at or after the start position -/
def Ge (pos : Nat) (o : Out) : Prop := ErrGe pos o ∧ OkGe pos o

theorem Ge.err {pos ep : Nat} (h : pos ≤ ep) : Ge pos (.err ep) := ⟨h, trivial⟩
theorem Ge.ok {pos q : Nat} {r : Rec} {ts : List Tree} (h : pos ≤ q) : Ge pos (.ok q r ts) := ⟨trivial, h⟩
theorem Ge.oof {pos : Nat} : Ge pos .oof := ⟨trivial, trivial⟩

theorem Ge.trans {a b : Nat} {o : Out} (h : a ≤ b) (g : Ge b o) : Ge a o := by
  cases o with
  | ok q r ts => exact ⟨trivial, Nat.le_trans h g.2⟩
  | err ep => exact ⟨Nat.le_trans h g.1, trivial⟩
  | oof => exact ⟨trivial, trivial⟩

structure GeAll (g : Grammar) (inp : Input) (fuel : Nat) : Prop where
  eval : ∀ e pos r st, Ge pos (eval g inp fuel e pos r st).1
  seq : ∀ es pos r st, Ge pos (evalSeq g inp fuel es pos r st).1
  alt : ∀ es pos r st best, (∀ b, best = some b → pos ≤ b) → Ge pos (evalAlt g inp fuel es pos r st best).1
  many0 : ∀ e pos r st, Ge pos (evalMany0 g inp fuel e pos r st).1
  manyTill : ∀ e t pos r st, Ge pos (evalManyTill g inp fuel e t pos r st).1
  list : ∀ sep item pos r st, Ge pos (evalList g inp fuel sep item pos r st).1
  nest : ∀ item wraps outer pos r st acc, Ge pos (evalNest g inp fuel item wraps outer pos r st acc).1
  stmts : ∀ stmts pos r st, Ge pos (evalStmts g inp fuel stmts pos r st).1.1
  call : ∀ f pos r st, Ge pos (evalCall g inp fuel f pos r st).1

theorem geAll (g : Grammar) (inp : Input) : ∀ fuel, GeAll g inp fuel := by
  intro fuel
  induction fuel with
  | zero =>
    exact ⟨fun _ _ _ _ => by simp [eval, Ge.oof], fun _ _ _ _ => by simp [evalSeq, Ge.oof],
      fun _ _ _ _ _ _ => by simp [evalAlt, Ge.oof], fun _ _ _ _ => by simp [evalMany0, Ge.oof],
      fun _ _ _ _ _ => by simp [evalManyTill, Ge.oof], fun _ _ _ _ _ => by simp [evalList, Ge.oof],
      fun _ _ _ _ _ _ _ => by simp [evalNest, Ge.oof], fun _ _ _ _ => by simp [evalStmts, Ge.oof],
      fun _ _ _ _ => by simp [evalCall, Ge.oof]⟩
  | succ n ih =>
    -- a generic step: run `e` at pos; on ok continue with something that is `Ge q`
    refine ⟨?_, ?_, ?_, ?_, ?_, ?_, ?_, ?_, ?_⟩
    · intro e pos r st
      cases e with
      | term t =>
        simp only [eval]; split
        · exact Ge.ok (Nat.le_add_right _ _)
        · exact Ge.err (Nat.le_refl _)
      | eof => simp only [eval]; split; exact Ge.ok (Nat.le_refl _); exact Ge.err (Nat.le_refl _)
      | call f => simp only [eval]; exact ih.call f pos r st
      | seq es => simp only [eval]; exact ih.seq es pos r st
      | alt es => simp only [eval]; exact ih.alt es pos r st none (by simp)
      | opt e =>
        simp only [eval]
        have h1 := ih.eval e pos r st
        split
        · rename_i q r' ts st' heq; rw [heq] at h1; exact Ge.ok h1.2
        · exact Ge.ok (Nat.le_refl _)
        · exact Ge.oof
      | many0 e => simp only [eval]; exact ih.many0 e pos r st
      | many1 e =>
        simp only [eval]
        have h1 := ih.eval e pos r st
        split
        · rename_i q r' ts st' heq; rw [heq] at h1
          have h2 := ih.many0 e q r' st'
          have hq : pos ≤ q := h1.2
          split
          · rename_i q' r'' ts' st'' heq2; rw [heq2] at h2; exact Ge.ok (Nat.le_trans hq h2.2)
          · rename_i ep st'' heq2; rw [heq2] at h2; exact Ge.err (Nat.le_trans hq h2.1)
          · exact Ge.oof
        · rename_i ep st' heq; rw [heq] at h1; exact Ge.err h1.1
        · exact Ge.oof
      | manyTill e t => simp only [eval]; exact ih.manyTill e t pos r st
      | list sep item =>
        simp only [eval]
        have h1 := ih.eval item pos r st
        split
        · rename_i q r' ts st' heq; rw [heq] at h1
          have h2 := ih.list sep item q r' st'
          have hq : pos ≤ q := h1.2
          split
          · rename_i q' r'' ts' st'' heq2; rw [heq2] at h2; exact Ge.ok (Nat.le_trans hq h2.2)
          · rename_i ep st'' heq2; rw [heq2] at h2; exact Ge.err (Nat.le_trans hq h2.1)
          · exact Ge.oof
        · rename_i ep st' heq; rw [heq] at h1; exact Ge.err h1.1
        · exact Ge.oof
      | peek e =>
        simp only [eval]
        have h1 := ih.eval e pos r st
        split
        · exact Ge.ok (Nat.le_refl _)
        · rename_i ep st' heq; rw [heq] at h1; exact Ge.err h1.1
        · exact Ge.oof
      | not e =>
        simp only [eval]
        split
        · exact Ge.err (Nat.le_refl _)
        · exact Ge.ok (Nat.le_refl _)
        · exact Ge.oof
      | drop e =>
        simp only [eval]
        have h1 := ih.eval e pos r st
        split
        · rename_i q r' ts st' heq; rw [heq] at h1; exact Ge.ok h1.2
        · rename_i ep st' heq; rw [heq] at h1; exact Ge.err h1.1
        · exact Ge.oof
      | allConsuming e =>
        simp only [eval]
        have h1 := ih.eval e pos r st
        split
        · rename_i q r' ts st' heq; rw [heq] at h1
          split
          · exact Ge.ok h1.2
          · exact Ge.err h1.2
        · rename_i ep st' heq; rw [heq] at h1; exact Ge.err h1.1
        · exact Ge.oof
      | node k e =>
        simp only [eval]
        have h1 := ih.eval e pos r st
        split
        · rename_i q r' ts st' heq; rw [heq] at h1; exact Ge.ok h1.2
        · rename_i ep st' heq; rw [heq] at h1; exact Ge.err h1.1
        · exact Ge.oof
      | lexeme e =>
        simp only [eval]
        have h1 := ih.eval e pos r st
        split
        · rename_i q r' ts st' heq; rw [heq] at h1; exact Ge.ok h1.2
        · rename_i ep st' heq; rw [heq] at h1; exact Ge.err h1.1
        · exact Ge.oof
      | identKw e =>
        simp only [eval]
        have h1 := ih.eval e pos r st
        split
        · rename_i q r' ts st' heq; rw [heq] at h1
          split
          · exact Ge.err h1.2
          · exact Ge.ok h1.2
        · rename_i ep st' heq; rw [heq] at h1; exact Ge.err h1.1
        · exact Ge.oof
      | beginDir => simp only [eval]; exact Ge.ok (Nat.le_refl _)
      | endDir => simp only [eval]; exact Ge.ok (Nat.le_refl _)
      | beginKw v => simp only [eval]; exact Ge.ok (Nat.le_refl _)
      | endKw => simp only [eval]; exact Ge.ok (Nat.le_refl _)
      | dirScope e => simp only [eval]; exact ih.eval e pos r _
      | kwScope v e => simp only [eval]; exact ih.eval e pos r _
      | kwGuard w => simp only [eval]; split; exact Ge.err (Nat.le_refl _); exact Ge.ok (Nat.le_refl _)
      | ifDir a b => simp only [eval]; split; exact ih.eval a pos r st; exact ih.eval b pos r st
      | nestl first item wraps outer =>
        simp only [eval]
        have h1 := ih.eval first pos r st
        split
        · rename_i q r' ts st' heq; rw [heq] at h1
          exact Ge.trans h1.2 (ih.nest item wraps outer q r' st' ts)
        · rename_i ep st' heq; rw [heq] at h1; exact Ge.err h1.1
        · exact Ge.oof
      | shaped stmts res =>
        simp only [eval]
        have h1 := ih.stmts stmts pos r st
        split
        · rename_i q r' x st' env heq; rw [heq] at h1; exact Ge.ok h1.2
        · rename_i ep st' env heq; rw [heq] at h1; exact Ge.err h1.1
        · exact Ge.oof
      | fail => simp only [eval]; exact Ge.err (Nat.le_refl _)
    · intro es pos r st
      cases es with
      | nil => simp only [evalSeq]; exact Ge.ok (Nat.le_refl _)
      | cons e es =>
        simp only [evalSeq]
        have h1 := ih.eval e pos r st
        split
        · rename_i q r' ts st' heq; rw [heq] at h1
          have h2 := ih.seq es q r' st'
          have hq : pos ≤ q := h1.2
          split
          · rename_i q' r'' ts' st'' heq2; rw [heq2] at h2; exact Ge.ok (Nat.le_trans hq h2.2)
          · rename_i ep st'' heq2; rw [heq2] at h2; exact Ge.err (Nat.le_trans hq h2.1)
          · exact Ge.oof
        · rename_i ep st' heq; rw [heq] at h1; exact Ge.err h1.1
        · exact Ge.oof
    · intro es pos r st best hb
      cases es with
      | nil =>
        simp only [evalAlt]
        cases best with
        | none => exact Ge.err (Nat.le_refl _)
        | some b => exact Ge.err (hb b rfl)
      | cons e es =>
        simp only [evalAlt]
        have h1 := ih.eval e pos r st
        split
        · rename_i q r' ts st' heq; rw [heq] at h1; exact Ge.ok h1.2
        · rename_i ep st' heq; rw [heq] at h1
          apply ih.alt es pos r st' _
          intro b hbb
          have hep : pos ≤ ep := h1.1
          cases best with
          | none => simp [orErr] at hbb; omega
          | some b0 =>
            simp only [orErr] at hbb
            have := hb b0 rfl
            split at hbb <;> simp at hbb <;> omega
        · exact Ge.oof
    · intro e pos r st
      simp only [evalMany0]
      have h1 := ih.eval e pos r st
      split
      · rename_i q r' ts st' heq; rw [heq] at h1
        split
        · exact Ge.err (Nat.le_refl _)
        · have h2 := ih.many0 e q r' st'
          have hq : pos ≤ q := h1.2
          split
          · rename_i q' r'' ts' st'' heq2; rw [heq2] at h2; exact Ge.ok (Nat.le_trans hq h2.2)
          · rename_i ep st'' heq2; rw [heq2] at h2; exact Ge.err (Nat.le_trans hq h2.1)
          · exact Ge.oof
      · exact Ge.ok (Nat.le_refl _)
      · exact Ge.oof
    · intro e t pos r st
      simp only [evalManyTill]
      have h1 := ih.eval t pos r st
      split
      · rename_i q r' ts st' heq; rw [heq] at h1; exact Ge.ok h1.2
      · exact Ge.oof
      · rename_i ep st' heq
        have h2 := ih.eval e pos r st'
        split
        · rename_i q r' ts st'' heq2; rw [heq2] at h2
          have hq : pos ≤ q := h2.2
          split
          · exact Ge.err hq
          · have h3 := ih.manyTill e t q r' st''
            split
            · rename_i q' r'' ts' st3 heq3; rw [heq3] at h3; exact Ge.ok (Nat.le_trans hq h3.2)
            · rename_i ep' st3 heq3; rw [heq3] at h3; exact Ge.err (Nat.le_trans hq h3.1)
            · exact Ge.oof
        · rename_i ep' st'' heq2; rw [heq2] at h2; exact Ge.err h2.1
        · exact Ge.oof
    · intro sep item pos r st
      simp only [evalList]
      have h1 := ih.eval sep pos r st
      split
      · rename_i q r' ts st' heq; rw [heq] at h1
        have h2 := ih.eval item q r' st'
        have hq : pos ≤ q := h1.2
        split
        · rename_i q2 r2 ts2 st2 heq2; rw [heq2] at h2
          have h3 := ih.list sep item q2 r2 st2
          have hq2 : q ≤ q2 := h2.2
          split
          · rename_i q3 r3 ts3 st3 heq3; rw [heq3] at h3
            have : q2 ≤ q3 := h3.2
            exact Ge.ok (by omega)
          · rename_i ep st3 heq3; rw [heq3] at h3
            have : q2 ≤ ep := h3.1
            exact Ge.err (by omega)
          · exact Ge.oof
        · exact Ge.ok (Nat.le_refl _)
        · exact Ge.oof
      · exact Ge.ok (Nat.le_refl _)
      · exact Ge.oof
    · intro item wraps outer pos r st acc
      simp only [evalNest]
      have h1 := ih.eval item pos r st
      split
      · rename_i q r' ts st' heq; rw [heq] at h1
        split
        · exact Ge.err (Nat.le_refl _)
        · exact Ge.trans h1.2 (ih.nest item wraps outer q r' st' _)
      · exact Ge.ok (Nat.le_refl _)
      · exact Ge.oof
    · intro stmts pos r st
      cases stmts with
      | nil => simp only [evalStmts]; exact Ge.ok (Nat.le_refl _)
      | cons e es =>
        simp only [evalStmts]
        have h1 := ih.eval e pos r st
        split
        · rename_i q r' ts st' heq; rw [heq] at h1
          exact Ge.trans h1.2 (ih.stmts es q r' st')
        · rename_i ep st' heq; rw [heq] at h1; exact Ge.err h1.1
        · exact Ge.oof
    · intro f pos r st
      simp only [evalCall]
      split
      · exact Ge.ok (Nat.le_add_right _ _)
      · exact Ge.err (Nat.le_refl _)
      · have hrun : ∀ (res : Out × PState),
            res = (if (g.prod f).recursive = true then
              (if (if r.ptr = some pos then r else { flags := [], ptr := some pos : Rec }).flags.contains f = true
                then (Out.err pos, st)
                else eval g inp n (g.prod f).body pos
                  { (if r.ptr = some pos then r else { flags := [], ptr := some pos : Rec }) with
                    flags := f :: (if r.ptr = some pos then r else { flags := [], ptr := some pos : Rec }).flags } st)
              else eval g inp n (g.prod f).body pos r st) → Ge pos res.1 := by
          intro res hres
          subst hres
          repeat' split
          all_goals first
            | exact Ge.err (Nat.le_refl _)
            | exact ih.eval _ pos _ st
        have h1 := hrun _ rfl
        split
        · split
          · rename_i q r' ts st' heq; rw [heq] at h1; exact Ge.ok h1.2
          · rename_i ep st' heq; rw [heq] at h1; exact Ge.err h1.1
          · exact Ge.oof
        · exact h1

end Sv

import SvModel.Lemmas.Walker
/-!
# The define table of the model is a map: keys stay pairwise different (C11)

`Defines` models `HashMap<String, Option<Define>>` as an association list. `walk_keys`: every table a successful run returns — and every table
handed from an `include or a macro expansion back to the event loop — has pairwise different keys, whatever the caller supplied (duplicates in the
caller's list are resolved by the seeding inserts exactly as `HashMap::insert` would).
-/
namespace Sv

def KeysNodup (d : Defines) : Prop := (d.map (·.1)).Nodup

theorem keysNodup_nil : KeysNodup [] := List.nodup_nil

theorem keysNodup_remove (d : Defines) (k : Bytes) (h : KeysNodup d) : KeysNodup (d.remove k) := by
  unfold KeysNodup Defines.remove at *
  exact (List.Nodup.sublist (List.Sublist.map _ (List.filter_sublist)) h)

theorem keysNodup_insert (d : Defines) (k : Bytes) (v : Option Define) (h : KeysNodup d) : KeysNodup (d.insert k v) := by
  unfold KeysNodup Defines.insert
  simp only [List.map_cons]
  refine List.nodup_cons.mpr ⟨?_, List.Nodup.sublist (List.Sublist.map _ (List.filter_sublist)) h⟩
  intro hm
  obtain ⟨x, hx, hk⟩ := List.mem_map.mp hm
  have := (List.mem_filter.mp hx).2
  simp only [bne_iff_ne, ne_eq] at this
  exact this hk

theorem keysNodup_foldl_insert : ∀ (l : List (Bytes × Option Define)) (d0 : Defines), KeysNodup d0 →
    KeysNodup (l.foldl (fun d kv => d.insert kv.1 kv.2) d0) := by
  intro l
  induction l with
  | nil => intro d0 h; exact h
  | cons x xs ih => intro d0 h; rw [List.foldl_cons]; exact ih _ (keysNodup_insert d0 x.1 x.2 h)

theorem keysNodup_svcov : ∀ (l : List (String × String)) (d0 : Defines), KeysNodup d0 →
    KeysNodup (l.foldl (fun d (kv : String × String) =>
      d.insert (bstr kv.1) (some { ident := bstr kv.1, args := [], text := some { text := bstr kv.2, origin := none } })) d0) := by
  intro l
  induction l with
  | nil => intro d0 h; exact h
  | cons x xs ih => intro d0 h; rw [List.foldl_cons]; exact ih _ (keysNodup_insert d0 _ _ h)

section
variable (C : Cfg)
    (recI : Bytes → Defines → Bool → Bool → Nat → Nat → Except PpError (POut × Defines))
    (recU : Input → Bytes → Bytes → Tree → Defines → Bool → Bool → Nat → Nat → Except PpError (Option (Bytes × Option (Bytes × Range) × Defines)))
    (inp : Input) (s path : Bytes) (ii sc : Bool) (rd id : Nat) (w w' : WState) (x : Tree)

theorem pushLoc_defines_eq (inp : Input) (path : Bytes) (w : WState) (x : Tree) : (pushLoc inp path w x).defines = w.defines := by
  unfold pushLoc; split <;> rfl

macro "keys_arm" h:ident he:ident : tactic => `(tactic|
  (repeat' split at $he:ident
   all_goals first
     | (cases $he:ident; done)
     | (injection $he:ident with $he:ident; subst $he:ident
        first
          | exact $h
          | (simp only [pushLoc_defines_eq, foldl_pushLoc_defines, skipPush_defines, skipPushAll_defines]
             first
               | exact $h
               | exact keysNodup_remove _ _ $h
               | exact keysNodup_nil
               | exact keysNodup_insert _ _ _ $h)
          | (dsimp only; first | exact keysNodup_nil | exact $h))))

theorem armNotDirective_keys (h : KeysNodup w.defines) (he : armNotDirective C recI recU inp s path ii sc rd id w x = .ok w') : KeysNodup w'.defines := by
  unfold armNotDirective at he; dsimp only at he; keys_arm h he
theorem armStrLike_keys (h : KeysNodup w.defines) (he : armStrLike C recI recU inp s path ii sc rd id w x = .ok w') : KeysNodup w'.defines := by
  unfold armStrLike at he; dsimp only at he; keys_arm h he
theorem armKept_keys (h : KeysNodup w.defines) (he : armKept C recI recU inp s path ii sc rd id w x = .ok w') : KeysNodup w'.defines := by
  unfold armKept at he; dsimp only at he; keys_arm h he
theorem armUndef_keys (h : KeysNodup w.defines) (he : armUndef C recI recU inp s path ii sc rd id w x = .ok w') : KeysNodup w'.defines := by
  unfold armUndef at he; dsimp only at he; keys_arm h he
theorem armUndefAll_keys (h : KeysNodup w.defines) (he : armUndefAll C recI recU inp s path ii sc rd id w x = .ok w') : KeysNodup w'.defines := by
  unfold armUndefAll at he; dsimp only at he; keys_arm h he
theorem armCond_keys (h : KeysNodup w.defines) (he : armCond C recI recU inp s path ii sc rd id w x = .ok w') : KeysNodup w'.defines := by
  unfold armCond at he; dsimp only at he; keys_arm h he
theorem armWhiteSpace_keys (h : KeysNodup w.defines) (he : armWhiteSpace C recI recU inp s path ii sc rd id w x = .ok w') : KeysNodup w'.defines := by
  unfold armWhiteSpace at he; dsimp only at he; keys_arm h he
theorem armComment_keys (h : KeysNodup w.defines) (he : armComment C recI recU inp s path ii sc rd id w x = .ok w') : KeysNodup w'.defines := by
  unfold armComment at he; dsimp only at he; keys_arm h he
theorem armPosition_keys (h : KeysNodup w.defines) (he : armPosition C recI recU inp s path ii sc rd id w x = .ok w') : KeysNodup w'.defines := by
  unfold armPosition at he; dsimp only at he; keys_arm h he
theorem armDefine_keys (h : KeysNodup w.defines) (he : armDefine C recI recU inp s path ii sc rd id w x = .ok w') : KeysNodup w'.defines := by
  unfold armDefine at he; dsimp only at he; keys_arm h he

theorem armUsage_keys
    (hU : ∀ inp s path x d ii sc rd id t org nd, recU inp s path x d ii sc rd id = .ok (some (t, org, nd)) → KeysNodup nd)
    (h : KeysNodup w.defines) (he : armUsage C recI recU inp s path ii sc rd id w x = .ok w') : KeysNodup w'.defines := by
  unfold armUsage at he; dsimp only at he
  split at he
  · cases he
  · rename_i r hr
    injection he with he; subst he
    rw [foldl_pushLoc_defines]
    cases r with
    | none => simpa only [skipPush_defines] using h
    | some v => obtain ⟨t, org, nd⟩ := v; exact hU _ _ _ _ _ _ _ _ _ _ _ _ hr

theorem armInclude_keys
    (hI : ∀ p d sc ii rd id o d', recI p d sc ii rd id = .ok (o, d') → KeysNodup d')
    (h : KeysNodup w.defines) (he : armInclude C recI recU inp s path ii sc rd id w x = .ok w') : KeysNodup w'.defines := by
  unfold armInclude at he; dsimp only at he
  repeat' split at he
  all_goals first
    | (cases he; done)
    | (injection he with he; subst he
       first
         | (simp only [skipPush_defines, skipPushAll_defines]; exact h)
         | (rename_i heq; exact hI _ _ _ _ _ _ _ _ heq))

theorem enterStep_keys
    (hI : ∀ p d sc ii rd id o d', recI p d sc ii rd id = .ok (o, d') → KeysNodup d')
    (hU : ∀ inp s path x d ii sc rd id t org nd, recU inp s path x d ii sc rd id = .ok (some (t, org, nd)) → KeysNodup nd)
    (h : KeysNodup w.defines) (he : enterStep C recI recU inp s path ii sc rd id w x = .ok w') : KeysNodup w'.defines := by
  unfold enterStep at he; dsimp only at he
  by_cases c0 : (x.baseKind == C.K.sdNotDirective) = true
  · rw [if_pos c0] at he; exact armNotDirective_keys C recI recU inp s path ii sc rd id w w' x h he
  · rw [if_neg c0] at he
    by_cases c1 : (x.kind == C.K.sdStringLiteral || x.kind == C.K.sdEscapedIdentifier) = true
    · rw [if_pos c1] at he; exact armStrLike_keys C recI recU inp s path ii sc rd id w w' x h he
    · rw [if_neg c1] at he
      by_cases c2 : C.K.kept.contains x.baseKind = true
      · rw [if_pos c2] at he; exact armKept_keys C recI recU inp s path ii sc rd id w w' x h he
      · rw [if_neg c2] at he
        by_cases c3 : (x.baseKind == C.K.undefine) = true
        · rw [if_pos c3] at he; exact armUndef_keys C recI recU inp s path ii sc rd id w w' x h he
        · rw [if_neg c3] at he
          by_cases c4 : (x.baseKind == C.K.undefineall) = true
          · rw [if_pos c4] at he; exact armUndefAll_keys C recI recU inp s path ii sc rd id w w' x h he
          · rw [if_neg c4] at he
            by_cases c5 : (x.baseKind == C.K.ifdef || x.baseKind == C.K.ifndef) = true
            · rw [if_pos c5] at he; exact armCond_keys C recI recU inp s path ii sc rd id w w' x h he
            · rw [if_neg c5] at he
              by_cases c6 : (x.baseKind == C.K.whiteSpace) = true
              · rw [if_pos c6] at he; exact armWhiteSpace_keys C recI recU inp s path ii sc rd id w w' x h he
              · rw [if_neg c6] at he
                by_cases c7 : (x.baseKind == C.K.comment) = true
                · rw [if_pos c7] at he; exact armComment_keys C recI recU inp s path ii sc rd id w w' x h he
                · rw [if_neg c7] at he
                  by_cases c8 : (x.baseKind == C.K.textMacroDefinition) = true
                  · rw [if_pos c8] at he; exact armDefine_keys C recI recU inp s path ii sc rd id w w' x h he
                  · rw [if_neg c8] at he
                    by_cases c9 : (x.baseKind == C.K.includeDirective && !ii) = true
                    · rw [if_pos c9] at he; exact armInclude_keys C recI recU inp s path ii sc rd id w w' x hI h he
                    · rw [if_neg c9] at he
                      by_cases c10 : (x.baseKind == C.K.textMacroUsage) = true
                      · rw [if_pos c10] at he; exact armUsage_keys C recI recU inp s path ii sc rd id w w' x hU h he
                      · rw [if_neg c10] at he
                        by_cases c11 : (x.baseKind == C.K.position) = true
                        · rw [if_pos c11] at he; exact armPosition_keys C recI recU inp s path ii sc rd id w w' x h he
                        · rw [if_neg c11] at he
                          injection he with he; subst he; exact h
end


theorem lineStep_defines (K : PpKinds) (inp : Input) (w1 w2 : WState) (ev : Event) (he : lineStep K inp w1 ev = .ok w2) :
    w2.defines = w1.defines := by
  unfold lineStep at he
  dsimp only at he
  repeat' split at he
  all_goals first
    | (injection he with he; subst he; rfl)
    | (cases he)

/-- **every table a successful run returns has pairwise different keys** (every input, caller table — duplicates included —, flags, fuel) -/
theorem walk_keys (C : Cfg) : ∀ (fuel : Nat),
    (∀ s path d ii sc rd id o d', preprocessStr C fuel s path d ii sc rd id = .ok (o, d') → KeysNodup d') ∧
    (∀ inp s path ii sc rd id evs w o d', KeysNodup w.defines → walk C fuel inp s path ii sc rd id evs w = .ok (o, d') → KeysNodup d') ∧
    (∀ path d sc ii rd id o d', preprocessInner C fuel path d sc ii rd id = .ok (o, d') → KeysNodup d') ∧
    (∀ inp s path x d ii sc rd id t org nd, resolveUsage C fuel inp s path x d ii sc rd id = .ok (some (t, org, nd)) → KeysNodup nd) := by
  intro fuel
  induction fuel with
  | zero => refine ⟨?_, ?_, ?_, ?_⟩ <;> intros <;> rename_i h <;> simp [preprocessStr, walk, preprocessInner, resolveUsage] at h
  | succ n ih =>
    obtain ⟨ihS, ihW, ihI, ihU⟩ := ih
    refine ⟨?_, ?_, ?_, ?_⟩
    · intro s path d ii sc rd id o d' he
      unfold preprocessStr at he
      dsimp only at he
      split at he
      · cases he
      · split at he
        · cases he
        · cases he
        · exact ihW _ _ _ _ _ _ _ _ _ _ _ (keysNodup_foldl_insert _ _ (keysNodup_svcov _ _ keysNodup_nil)) he
    · intro inp s path ii sc rd id evs w o d' hw he
      cases evs with
      | nil => simp only [walk] at he; injection he with he; injection he with h1 h2; subst h2; exact hw
      | cons ev evs =>
        unfold walk at he
        dsimp only at he
        have h1 : KeysNodup (skipStep w ev).defines := by
          have : (skipStep w ev).defines = w.defines := by unfold skipStep; split <;> split <;> rfl
          rw [this]; exact hw
        split at he
        · exact ihW _ _ _ _ _ _ _ _ _ _ _ h1 he
        · split at he
          · cases he
          · rename_i w2 hl
            have h2 : KeysNodup w2.defines := by rw [lineStep_defines C.K inp _ w2 ev hl]; exact h1
            split at he
            · refine ihW _ _ _ _ _ _ _ _ _ _ _ ?_ he
              have : ∀ x, (leaveStep C.K w2 x).defines = w2.defines := by intro x; unfold leaveStep; split <;> rfl
              rw [this]; exact h2
            · split at he
              · cases he
              · rename_i w3 hes
                exact ihW _ _ _ _ _ _ _ _ _ _ _ (enterStep_keys C (preprocessInner C n) (resolveUsage C n) inp s path ii sc rd id w2 w3 _
                  (fun p d sc ii rd id o d' h => ihI p d sc ii rd id o d' h)
                  (fun inp s path x d ii sc rd id t org nd h => ihU inp s path x d ii sc rd id t org nd h) h2 hes) he
    · intro path d sc ii rd id o d' he
      unfold preprocessInner at he
      split at he
      · cases he
      · cases he
      · exact ihS _ _ _ _ _ _ _ _ _ he
    · intro inp s path x d ii sc rd id t org nd he
      unfold resolveUsage at he
      dsimp only at he
      split at he
      · cases he
      · split at he
        · cases he
        · cases he
        · split at he
          · cases he
          · split at he
            · cases he
            · split at he
              · cases he
              · split at he
                · cases he
                · rename_i out nd' hpp
                  injection he with he; injection he with he; injection he with h1 h2; injection h2 with h2 h3
                  subst h3
                  exact ihS _ _ _ _ _ _ _ _ _ hpp

end Sv

import SvModel.Core.Pp
/-!
# `split_text` and the substitution fold of `resolve_text_macro_usage` (C05)

* `splitText_flatten`: on macro text that does not start with white space / a backslash and contains no `//`, the pieces of `split_text`
  concatenate to the text itself — nothing is lost, nothing is reordered (every length, every content incl. strings and back-quotes).
* `splitText_string_piece`: a string literal of the macro text (`"…"` without inner quote, not preceded by a back-quote, not ending in one) is a
  piece of its own.
* `substBody_eq_map`: the substitution fold is piece-wise: the text handed to the re-scan is the concatenation of `substPiece` over the pieces.
* `replaceAll_absent`: a replace call whose pattern starts with a byte that does not occur is the identity.
-/
namespace Sv

def SplitSt.acc (s : SplitSt) : List Nat := s.ret.flatten ++ s.x

/-- no `//` in the text -/
def NoSlashSlash : List Nat → Prop
  | [] => True
  | c :: rest => ¬ (c = 47 ∧ rest.head? = some 47) ∧ NoSlashSlash rest

theorem flatten_snoc (l : List (List Nat)) (a : List Nat) : (l ++ [a]).flatten = l.flatten ++ a := by simp

/-- one step of the main loop (not in leading white space, not inside a one-line comment, not at the start of one) appends the character -/
theorem splitStep_acc (s : SplitSt) (c : Nat) (nxt : Option Nat)
    (hq : s.isLeadingWs = false ∨ (c != 92 && !isAsciiWhitespace c) = true) (hc : s.isComment = false)
    (hn : ¬ (c = 47 ∧ nxt = some 47)) :
    (splitStep s c nxt).acc = s.acc ++ [c] ∧ (splitStep s c nxt).isLeadingWs = false ∧ (splitStep s c nxt).isComment = false := by
  have hcond : (s.isLeadingWs && !(c != 92 && !isAsciiWhitespace c)) = false := by
    rcases hq with h | h
    · simp [h]
    · simp [h]
  have hn' : (c == 47 && nxt == some 47) = false := by
    cases h1 : (c == 47) <;> cases h2 : (nxt == some 47) <;> simp_all
  unfold splitStep
  simp only [hcond, Bool.false_eq_true, if_false, hc, Bool.and_false, Bool.false_and, hn', Bool.not_false, Bool.true_and, Bool.and_true]
  unfold SplitSt.acc
  repeat' split
  all_goals simp_all [flatten_snoc, List.append_assoc]

theorem splitLoop_acc : ∀ (t : List Nat) (s : SplitSt), s.isLeadingWs = false → s.isComment = false → NoSlashSlash t →
    (splitLoop s t).acc = s.acc ++ t := by
  intro t
  induction t with
  | nil => intro s _ _ _; simp [splitLoop]
  | cons c rest ih =>
    intro s hl hc hn
    obtain ⟨h1, h2, h3⟩ := splitStep_acc s c rest.head? (.inl hl) hc hn.1
    simp only [splitLoop]
    rw [ih _ h2 h3 hn.2, h1]; simp

/-- **`split_text` loses nothing**: on text without `//` that does not begin with white space or a backslash, the concatenation of the pieces is
    the text -/
theorem splitText_flatten (t : List Nat) (hn : NoSlashSlash t)
    (hh : ∀ c, t.head? = some c → (c != 92 && !isAsciiWhitespace c) = true) : (splitText t).flatten = t := by
  unfold splitText
  cases t with
  | nil => simp [splitLoop]
  | cons c rest =>
    obtain ⟨h1, h2, h3⟩ := splitStep_acc {} c rest.head? (.inr (hh c rfl)) rfl hn.1
    simp only [splitLoop]
    have := splitLoop_acc rest _ h2 h3 hn.2
    simp only [SplitSt.acc] at this h1
    rw [flatten_snoc, this, h1]; simp

/-! ### the replace chain is the identity on pieces without back-quote and backslash -/

theorem startsWith_head (s p : List Nat) (b : Nat) (hp : p.head? = some b) (hs : b ∉ s) : startsWith s p = false := by
  cases p with
  | nil => simp at hp
  | cons b' p' =>
    simp at hp; subst hp
    cases s with
    | nil => simp [startsWith]
    | cons a s' =>
      simp only [startsWith, List.length_cons, List.take_succ_cons]
      have : a ≠ b' := by intro h; subst h; simp at hs
      simp [this]

theorem replaceAll_absent (pat to : List Nat) (b : Nat) (hp : pat.head? = some b) :
    ∀ (fuel : Nat) (s : List Nat), b ∉ s → replaceAll fuel s pat to = s := by
  intro fuel
  induction fuel with
  | zero => intro s _; simp [replaceAll]
  | succ n ih =>
    intro s hs
    cases s with
    | nil => simp [replaceAll]
    | cons a rest =>
      have hne : pat.isEmpty = false := by cases pat <;> simp_all
      have hsw := startsWith_head (a :: rest) pat b hp hs
      simp only [replaceAll, hne, hsw, Bool.false_eq_true, if_false]
      rw [ih rest (by intro h; exact hs (List.mem_cons_of_mem _ h))]

/-- what the substitution fold of `resolve_text_macro_usage` does to one piece -/
def substPiece (lookup : Bytes → Option Bytes) (n : Nat) (chunk : Bytes) : Bytes :=
  match lookup chunk with
  | some v => v
  | none =>
    if chunk.head? == some 34 then chunk else
    let c1 := replaceAll n chunk [96, 96] []
    let c2 := replaceAll n c1 [96, 92, 96, 34] [92, 34]
    let c3 := replaceAll n c2 [96, 34] [34]
    let c4 := replaceAll n c3 [92, 10] [10]
    let c5 := replaceAll n c4 [92, 13, 10] [13, 10]
    replaceAll n c5 [92, 13] [13]

theorem foldl_subst (lookup : Bytes → Option Bytes) (n : Nat) (chunks : List Bytes) (acc0 : Bytes) :
    chunks.foldl (fun acc chunk =>
      match lookup chunk with
      | some v => acc ++ v
      | none =>
        if chunk.head? == some 34 then acc ++ chunk else
        let c1 := replaceAll n chunk [96, 96] []
        let c2 := replaceAll n c1 [96, 92, 96, 34] [92, 34]
        let c3 := replaceAll n c2 [96, 34] [34]
        let c4 := replaceAll n c3 [92, 10] [10]
        let c5 := replaceAll n c4 [92, 13, 10] [13, 10]
        let c6 := replaceAll n c5 [92, 13] [13]
        acc ++ c6) acc0 = acc0 ++ (chunks.map (substPiece lookup n)).flatten := by
  induction chunks generalizing acc0 with
  | nil => simp
  | cons ch rest ih =>
    rw [List.foldl_cons, ih]
    simp only [List.map_cons, List.flatten_cons, substPiece]
    cases lookup ch with
    | some v => simp [List.append_assoc]
    | none =>
      dsimp only
      split <;> simp [List.append_assoc]

/-- a piece that is not a formal, has no back-quote and no backslash is copied unchanged -/
theorem substPiece_plain (lookup : Bytes → Option Bytes) (n : Nat) (chunk : Bytes)
    (hl : lookup chunk = none) (h96 : 96 ∉ chunk) (h92 : 92 ∉ chunk) : substPiece lookup n chunk = chunk := by
  unfold substPiece
  simp only [hl]
  split
  · rfl
  · simp only [replaceAll_absent [96, 96] [] 96 rfl n chunk h96, replaceAll_absent [96, 92, 96, 34] [92, 34] 96 rfl n chunk h96,
      replaceAll_absent [96, 34] [34] 96 rfl n chunk h96, replaceAll_absent [92, 10] [10] 92 rfl n chunk h92,
      replaceAll_absent [92, 13, 10] [13, 10] 92 rfl n chunk h92, replaceAll_absent [92, 13] [13] 92 rfl n chunk h92]

/-- a piece that equals a formal name is replaced by the value bound to it — whatever else the piece list contains -/
theorem substPiece_formal (lookup : Bytes → Option Bytes) (n : Nat) (chunk v : Bytes) (hl : lookup chunk = some v) :
    substPiece lookup n chunk = v := by
  unfold substPiece; simp only [hl]

/-- an ordinary string literal (a piece that starts with a quote) that is not a formal is copied verbatim -/
theorem substPiece_string (lookup : Bytes → Option Bytes) (n : Nat) (chunk : Bytes) (hl : lookup chunk = none)
    (hq : chunk.head? = some 34) : substPiece lookup n chunk = chunk := by
  unfold substPiece; simp [hl, hq]

/-! ### a string literal of the macro text is a piece of its own -/

/-- the loop with an explicit look-ahead after the last character (`splitLoop s t = splitLoopA s t none`) -/
def splitLoopA : SplitSt → List Nat → Option Nat → SplitSt
  | s, [], _ => s
  | s, c :: rest, after => splitLoopA (splitStep s c (match rest.head? with | some d => some d | none => after)) rest after

theorem splitLoop_eq_A (t : List Nat) (s : SplitSt) : splitLoop s t = splitLoopA s t none := by
  induction t generalizing s with
  | nil => rfl
  | cons c rest ih =>
    simp only [splitLoop, splitLoopA]
    rw [ih]
    cases rest <;> rfl

theorem splitLoopA_append (a b : List Nat) (s : SplitSt) (after : Option Nat) :
    splitLoopA s (a ++ b) after = splitLoopA (splitLoopA s a (match b.head? with | some d => some d | none => after)) b after := by
  induction a generalizing s with
  | nil => rfl
  | cons c rest ih =>
    simp only [List.cons_append, splitLoopA]
    rw [ih]
    cases rest with
    | nil => simp
    | cons d r => simp

/-- `ret` only grows (case analysis over the eleven boolean tests of one step) -/
theorem splitStep_ret_prefix (s : SplitSt) (c : Nat) (nxt : Option Nat) : s.ret <+: (splitStep s c nxt).ret := by
  rcases s with ⟨iS, iI, iC, iB, iL, iBS, x, ret⟩
  unfold splitStep
  dsimp only
  generalize (c != 92 && !isAsciiWhitespace c) = b1
  generalize (c == 10) = b2
  generalize (c == 34) = b3
  generalize (c == 47 && nxt == some 47) = b4
  generalize isIdentByte c = b5
  generalize (c == 96) = b6
  cases iL <;> cases b1 <;> cases iC <;> cases b2 <;> cases b3 <;> cases iB <;> cases iS <;> cases b4 <;> cases b5 <;> cases iI <;> cases iBS <;> simp

theorem splitLoopA_ret_prefix (t : List Nat) (s : SplitSt) (after : Option Nat) : s.ret <+: (splitLoopA s t after).ret := by
  induction t generalizing s with
  | nil => exact List.prefix_refl _
  | cons c rest ih => exact List.IsPrefix.trans (splitStep_ret_prefix s c _) (ih _)

/-- plain text (no quote, no slash) keeps the machine outside strings and comments; the back-quote register holds "the last byte was a back-quote" -/
theorem splitLoopA_plain (t : List Nat) (after : Option Nat) : ∀ (s : SplitSt), s.isLeadingWs = false → s.isComment = false → s.isString = false →
    34 ∉ t → 47 ∉ t →
    (splitLoopA s t after).isLeadingWs = false ∧ (splitLoopA s t after).isComment = false ∧ (splitLoopA s t after).isString = false ∧
    (splitLoopA s t after).isBackquotePrev = (match t.getLast? with | some c => c == 96 | none => s.isBackquotePrev) := by
  induction t with
  | nil => intro s h1 h2 h3 _ _; exact ⟨h1, h2, h3, rfl⟩
  | cons c rest ih =>
    intro s h1 h2 h3 h34 h47
    have c34 : (c == 34) = false := by simp at h34 ⊢; exact fun h => h34.1 h.symm
    have c47 : (c == 47) = false := by simp at h47 ⊢; exact fun h => h47.1 h.symm
    have hs : ∀ nxt, (splitStep s c nxt).isLeadingWs = false ∧ (splitStep s c nxt).isComment = false ∧ (splitStep s c nxt).isString = false ∧
        (splitStep s c nxt).isBackquotePrev = (c == 96) := by
      intro nxt
      unfold splitStep
      simp only [h1, h2, h3, c34, c47, Bool.false_and, Bool.false_eq_true, if_false, Bool.and_false]
      repeat' split
      all_goals simp_all
    simp only [splitLoopA]
    obtain ⟨a1, a2, a3, a4⟩ := hs (match rest.head? with | some d => some d | none => after)
    obtain ⟨b1, b2, b3, b4⟩ := ih _ a1 a2 a3 (fun h => h34 (List.mem_cons_of_mem _ h)) (fun h => h47 (List.mem_cons_of_mem _ h))
    refine ⟨b1, b2, b3, ?_⟩
    rw [b4, a4]
    cases rest with
    | nil => simp
    | cons d r =>
      simp only [List.getLast?_cons_cons]
      cases hl : (d :: r).getLast? with
      | none => simp at hl
      | some e => rfl

/-- inside a string literal every byte other than a quote is appended to the current piece -/
theorem splitLoopA_instring (t : List Nat) (after : Option Nat) : ∀ (s : SplitSt), s.isLeadingWs = false → s.isComment = false → s.isString = true →
    34 ∉ t →
    (splitLoopA s t after).isLeadingWs = false ∧ (splitLoopA s t after).isComment = false ∧ (splitLoopA s t after).isString = true ∧
    (splitLoopA s t after).isBackquotePrev = (match t.getLast? with | some c => c == 96 | none => s.isBackquotePrev) ∧
    (splitLoopA s t after).x = s.x ++ t ∧ (splitLoopA s t after).ret = s.ret := by
  induction t with
  | nil => intro s h1 h2 h3 _; exact ⟨h1, h2, h3, rfl, by simp [splitLoopA], rfl⟩
  | cons c rest ih =>
    intro s h1 h2 h3 h34
    have c34 : (c == 34) = false := by simp at h34 ⊢; exact fun h => h34.1 h.symm
    have hs : ∀ nxt, (splitStep s c nxt).isLeadingWs = false ∧ (splitStep s c nxt).isComment = false ∧ (splitStep s c nxt).isString = true ∧
        (splitStep s c nxt).isBackquotePrev = (c == 96) ∧ (splitStep s c nxt).x = s.x ++ [c] ∧ (splitStep s c nxt).ret = s.ret := by
      intro nxt
      unfold splitStep
      simp only [h1, h2, h3, c34, Bool.false_and, Bool.false_eq_true, if_false, Bool.and_false, Bool.not_true]
      repeat' split
      all_goals simp_all
    simp only [splitLoopA]
    obtain ⟨a1, a2, a3, a4, a5, a6⟩ := hs (match rest.head? with | some d => some d | none => after)
    obtain ⟨b1, b2, b3, b4, b5, b6⟩ := ih _ a1 a2 a3 (fun h => h34 (List.mem_cons_of_mem _ h))
    refine ⟨b1, b2, b3, ?_, by rw [b5, a5]; simp, by rw [b6, a6]⟩
    rw [b4, a4]
    cases rest with
    | nil => simp
    | cons d r =>
      simp only [List.getLast?_cons_cons]
      cases hl : (d :: r).getLast? with
      | none => simp at hl
      | some e => rfl

/-- **a string literal of the macro text is a piece of its own**: in `pre ++ "body" ++ post`, where `pre` is non-empty plain text (no quote, no
    slash) that does not start with white space / backslash and does not end in a back-quote, and `body` has no quote and does not end in a
    back-quote, `split_text` returns the literal `"body"` — quotes included, content untouched — as one of its pieces (so the substitution fold
    copies it verbatim: `substPiece_string`) -/
theorem splitText_string_piece (pre body post : List Nat)
    (hp0 : ∀ c, pre.head? = some c → (c != 92 && !isAsciiWhitespace c) = true) (hpne : pre ≠ [])
    (hp34 : 34 ∉ pre) (hp47 : 47 ∉ pre) (hplast : pre.getLast? ≠ some 96)
    (hb34 : 34 ∉ body) (hblast : body.getLast? ≠ some 96) :
    ([34] ++ body ++ [34]) ∈ splitText (pre ++ ([34] ++ body ++ [34]) ++ post) := by
  unfold splitText
  rw [splitLoop_eq_A]
  suffices h : ([34] ++ body ++ [34]) ∈ (splitLoopA {} (pre ++ ([34] ++ body ++ [34]) ++ post) none).ret from
    List.mem_append_left _ h
  -- pre
  obtain ⟨c, pr, rfl⟩ : ∃ c pr, pre = c :: pr := by cases pre with | nil => exact absurd rfl hpne | cons c pr => exact ⟨c, pr, rfl⟩
  have hc := hp0 c rfl
  rw [List.append_assoc, splitLoopA_append]
  generalize hA : (match (([34] ++ body ++ [34]) ++ post).head? with | some d => some d | none => (none : Option Nat)) = aft
  have c34 : (c == 34) = false := by simp at hp34 ⊢; exact fun h => hp34.1 h.symm
  have c47 : (c == 47) = false := by simp at hp47 ⊢; exact fun h => hp47.1 h.symm
  -- first character
  have h0 : ∀ nxt, (splitStep {} c nxt).isLeadingWs = false ∧ (splitStep {} c nxt).isComment = false ∧ (splitStep {} c nxt).isString = false ∧
      (splitStep {} c nxt).isBackquotePrev = (c == 96) := by
    intro nxt
    unfold splitStep
    simp only [hc, c34, c47, Bool.not_true, Bool.and_false, Bool.false_and, Bool.false_eq_true, if_false]
    repeat' split
    all_goals simp_all
  simp only [splitLoopA]
  obtain ⟨a1, a2, a3, a4⟩ := h0 (match pr.head? with | some d => some d | none => aft)
  obtain ⟨b1, b2, b3, b4⟩ := splitLoopA_plain pr aft _ a1 a2 a3 (fun h => hp34 (List.mem_cons_of_mem _ h)) (fun h => hp47 (List.mem_cons_of_mem _ h))
  generalize splitLoopA (splitStep {} c (match pr.head? with | some d => some d | none => aft)) pr aft = s1 at b1 b2 b3 b4 ⊢
  have hbq : s1.isBackquotePrev = false := by
    rw [b4, a4]
    cases pr with
    | nil => simp at hplast ⊢; exact hplast
    | cons d r =>
      simp only [List.getLast?_cons_cons] at hplast
      cases hl : (d :: r).getLast? with
      | none => simp at hl
      | some e => rw [hl] at hplast; simp at hplast ⊢; exact hplast
  -- opening quote
  rw [show ([34] ++ body ++ [34]) ++ post = 34 :: (body ++ ([34] ++ post)) by simp]
  simp only [splitLoopA]
  have hopen : ∀ nxt, splitStep s1 34 nxt = { s1 with isIdent := false, ret := s1.ret ++ [s1.x], x := [34], isString := true, isBackquotePrev := false } := by
    intro nxt
    unfold splitStep
    simp [b1, b2, b3, hbq, isIdentByte]
  rw [hopen]
  -- body
  rw [splitLoopA_append]
  obtain ⟨d1, d2, d3, d4, d5, d6⟩ := splitLoopA_instring body (match ([34] ++ post).head? with | some d => some d | none => none)
    { s1 with isIdent := false, ret := s1.ret ++ [s1.x], x := [34], isString := true, isBackquotePrev := false } b1 b2 rfl hb34
  generalize splitLoopA { s1 with isIdent := false, ret := s1.ret ++ [s1.x], x := [34], isString := true, isBackquotePrev := false } body
    (match ([34] ++ post).head? with | some d => some d | none => none) = s2 at d1 d2 d3 d4 d5 d6 ⊢
  have hbq2 : s2.isBackquotePrev = false := by
    rw [d4]
    cases hl : body.getLast? with
    | none => rfl
    | some e => rw [hl] at hblast; simp at hblast ⊢; exact hblast
  -- closing quote
  simp only [List.singleton_append, splitLoopA]
  have hclose : ∀ nxt, (splitStep s2 34 nxt).ret = s2.ret ++ [s2.x ++ [34]] := by
    intro nxt
    unfold splitStep
    simp [d1, d2, d3, hbq2, isIdentByte]
  have hmem : ([34] ++ body ++ [34]) ∈ (splitStep s2 34 (match post.head? with | some d => some d | none => none)).ret := by
    rw [hclose, d5, d6]; simp
  exact (splitLoopA_ret_prefix post _ none).subset hmem

end Sv

namespace Sv

/-! ### a one-line comment does not become part of the substituted text (IEEE 1800-2017 22.5.1) -/

/-- inside a one-line comment every byte other than the line end is dropped -/
theorem splitLoopA_incomment (t : List Nat) (after : Option Nat) : ∀ (s : SplitSt), s.isLeadingWs = false → s.isComment = true → 10 ∉ t →
    (splitLoopA s t after).isLeadingWs = false ∧ (splitLoopA s t after).isComment = true ∧
    (splitLoopA s t after).acc = s.acc ∧ (splitLoopA s t after).isString = s.isString := by
  induction t with
  | nil => intro s h1 h2 _; exact ⟨h1, h2, rfl, rfl⟩
  | cons c rest ih =>
    intro s h1 h2 h10
    have c10 : (c == 10) = false := by simp at h10 ⊢; exact fun h => h10.1 h.symm
    have hs : ∀ nxt, (splitStep s c nxt).isLeadingWs = false ∧ (splitStep s c nxt).isComment = true ∧
        (splitStep s c nxt).acc = s.acc ∧ (splitStep s c nxt).isString = s.isString := by
      intro nxt
      unfold splitStep SplitSt.acc
      simp only [h1, h2, c10, Bool.false_and, Bool.false_eq_true, if_false, if_true, Bool.true_and]
      repeat' split
      all_goals simp_all
    simp only [splitLoopA]
    obtain ⟨a1, a2, a3, a4⟩ := hs (match rest.head? with | some d => some d | none => after)
    obtain ⟨b1, b2, b3, b4⟩ := ih _ a1 a2 (fun h => h10 (List.mem_cons_of_mem _ h))
    exact ⟨b1, b2, by rw [b3, a3], by rw [b4, a4]⟩

theorem splitLoopA_acc (t : List Nat) (after : Option Nat) : ∀ (s : SplitSt), s.isLeadingWs = false → s.isComment = false →
    NoSlashSlash t → (t.getLast? = some 47 → after ≠ some 47) →
    (splitLoopA s t after).acc = s.acc ++ t ∧ (splitLoopA s t after).isLeadingWs = false ∧ (splitLoopA s t after).isComment = false := by
  induction t with
  | nil => intro s h1 h2 _ _; exact ⟨by simp [splitLoopA], h1, h2⟩
  | cons c rest ih =>
    intro s h1 h2 hn hlast
    have hne : ¬ (c = 47 ∧ (match rest.head? with | some d => some d | none => after) = some 47) := by
      cases rest with
      | nil =>
        simp only [List.head?_nil]
        intro ⟨hc, ha⟩
        exact hlast (by simp [hc]) ha
      | cons d r => simpa using hn.1
    obtain ⟨a1, a2, a3⟩ := splitStep_acc s c _ (.inl h1) h2 hne
    simp only [splitLoopA]
    have hl2 : rest.getLast? = some 47 → after ≠ some 47 := by
      intro h
      apply hlast
      cases rest with
      | nil => simp at h
      | cons d r => simpa [List.getLast?_cons_cons] using h
    obtain ⟨b1, b2, b3⟩ := ih _ a2 a3 hn.2 hl2
    exact ⟨by rw [b1, a1]; simp, b2, b3⟩

/-- **a one-line comment in macro text is dropped, its line end is kept**: for `pre ++ "//" ++ comment ++ "\n" ++ post` with `pre`, `post` free of
    quotes and slashes (`pre` non-empty, not starting with white space / backslash) and no line end inside the comment, the pieces of
    `split_text` concatenate to `pre ++ "\n" ++ post` — and (repair D19) the piece before the comment ends where the comment begins. -/
theorem splitText_drops_line_comment (pre cm post : List Nat)
    (hp0 : ∀ c, pre.head? = some c → (c != 92 && !isAsciiWhitespace c) = true) (hpne : pre ≠ [])
    (hp34 : 34 ∉ pre) (hp47 : 47 ∉ pre) (hc10 : 10 ∉ cm) (hq47 : 47 ∉ post) :
    (splitText (pre ++ ([47, 47] ++ cm ++ [10]) ++ post)).flatten = pre ++ [10] ++ post := by
  unfold splitText
  rw [splitLoop_eq_A]
  have hflat : ∀ s : SplitSt, (s.ret ++ [s.x]).flatten = s.acc := by intro s; simp [SplitSt.acc]
  rw [hflat]
  obtain ⟨c, pr, rfl⟩ : ∃ c pr, pre = c :: pr := by cases pre with | nil => exact absurd rfl hpne | cons c pr => exact ⟨c, pr, rfl⟩
  have hc := hp0 c rfl
  have c34 : (c == 34) = false := by simp at hp34 ⊢; exact fun h => hp34.1 h.symm
  have c47 : (c == 47) = false := by simp at hp47 ⊢; exact fun h => hp47.1 h.symm
  rw [List.append_assoc, splitLoopA_append]
  simp only [List.cons_append, List.nil_append, List.head?_cons]
  -- pre: plain text, nothing lost
  have hnopre : NoSlashSlash (c :: pr) := by
    have : ∀ l : List Nat, 47 ∉ l → NoSlashSlash l := by
      intro l
      induction l with
      | nil => intro _; trivial
      | cons a l ih => intro h; exact ⟨fun ⟨h1, _⟩ => h (by simp [h1]), ih (fun hm => h (List.mem_cons_of_mem _ hm))⟩
    exact this _ hp47
  have hfirst := splitStep_acc {} c (match pr.head? with | some d => some d | none => some 47) (.inr hc) rfl (by simp [show c ≠ 47 from fun h => by simp [h] at c47])
  simp only [splitLoopA]
  obtain ⟨f1, f2, f3⟩ := hfirst
  have hrest := splitLoopA_acc pr (some 47) _ f2 f3 hnopre.2 (fun h => absurd (List.mem_of_mem_getLast? h) (fun hm => hp47 (List.mem_cons_of_mem _ hm)))
  obtain ⟨g1, g2, g3⟩ := hrest
  have hstr := (splitLoopA_plain pr (some 47) _ f2 f3 (by unfold splitStep; simp [hc, c34, c47]; repeat' split <;> simp_all)
    (fun h => hp34 (List.mem_cons_of_mem _ h)) (fun h => hp47 (List.mem_cons_of_mem _ h))).2.2.1
  generalize splitLoopA (splitStep {} c (match pr.head? with | some d => some d | none => some 47)) pr (some 47) = s1 at g1 g2 g3 hstr
  -- the first slash starts the comment
  have hstart : ∀ nxt, nxt = some 47 → (splitStep s1 47 nxt).isLeadingWs = false ∧ (splitStep s1 47 nxt).isComment = true ∧
      (splitStep s1 47 nxt).acc = s1.acc := by
    intro nxt hn
    unfold splitStep SplitSt.acc
    subst hn
    simp [g2, g3, hstr, isIdentByte]
  simp only [List.head?_cons]
  obtain ⟨h1, h2, h3⟩ := hstart (some 47) rfl
  generalize splitStep s1 47 (some 47) = s2 at h1 h2 h3
  -- the second slash is dropped
  have hin1 := splitLoopA_incomment [47] (match (cm ++ [10] ++ post).head? with | some d => some d | none => none) s2 h1 h2 (by simp)
  simp only [splitLoopA, List.head?_nil] at hin1
  obtain ⟨j1, j2, j3, _⟩ := hin1
  generalize splitStep s2 47 (match (cm ++ [10] ++ post).head? with | some d => some d | none => none) = s2' at j1 j2 j3
  -- the comment text is dropped
  rw [show cm ++ [10] ++ post = cm ++ (10 :: post) by simp, splitLoopA_append]
  simp only [List.head?_cons]
  obtain ⟨i1, i2, i3, _⟩ := splitLoopA_incomment cm (some 10) s2' j1 j2 hc10
  generalize splitLoopA s2' cm (some 10) = s3 at i1 i2 i3
  -- the line end closes the comment and is kept
  simp only [splitLoopA]
  have hnl : ∀ nxt, (splitStep s3 10 nxt).acc = s3.acc ++ [10] ∧ (splitStep s3 10 nxt).isLeadingWs = false ∧ (splitStep s3 10 nxt).isComment = false := by
    intro nxt
    unfold splitStep SplitSt.acc
    simp [i1, i2, isIdentByte]
  obtain ⟨k1, k2, k3⟩ := hnl (match post.head? with | some d => some d | none => none)
  have hnopost : NoSlashSlash post := by
    have : ∀ l : List Nat, 47 ∉ l → NoSlashSlash l := by
      intro l
      induction l with
      | nil => intro _; trivial
      | cons a l ih => intro h; exact ⟨fun ⟨h1, _⟩ => h (by simp [h1]), ih (fun hm => h (List.mem_cons_of_mem _ hm))⟩
    exact this _ hq47
  obtain ⟨m1, _, _⟩ := splitLoopA_acc post none _ k2 k3 hnopost (fun h => absurd (List.mem_of_mem_getLast? h) hq47)
  rw [m1, k1, i3, j3, h3, g1, f1]
  simp [SplitSt.acc]

end Sv

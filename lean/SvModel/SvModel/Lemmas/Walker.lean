import SvModel.Lemmas.OriginMap
import SvModel.Lemmas.TileDefs
import SvModel.Core.Pp
import SvModel.Lemmas.Tree
/-!
# Theorems about the preprocessor walker model (`Core/Pp.lean`)

1. `walk_tiled`: every successful `preprocess_str` / event loop / `preprocess_inner` returns a tiled output (C03).
2. `walk_skip_subtree`: a subtree on the skip list (a dead conditional branch) has no effect whatever it contains (C04).
3. `walk_plain_tree`, `copyOut_chain`, `idOut_origin`: on a directive-free tree without trailing trivia after strings the event loop
   copies every token verbatim, keeps the define table, and maps every output offset to the same offset of the file (C06).
All by induction on fuel / on the forest; every input, file system, define table, flag value.
-/

namespace Sv

theorem skipPush_out (w : WState) (t : Tree) : (w.skipPush t).out = w.out := by
  unfold WState.skipPush; split <;> rfl

theorem skipPushAll_out (w : WState) (ts : List Tree) : (skipPushAll w ts).out = w.out := by
  unfold skipPushAll
  induction ts generalizing w with
  | nil => rfl
  | cons t ts ih => rw [List.foldl_cons, ih, skipPush_out]

theorem skipStep_out (w : WState) (ev : Event) : (skipStep w ev).out = w.out := by
  unfold skipStep; split <;> split <;> rfl

theorem lineStep_out (K : PpKinds) (inp : Input) (w1 w2 : WState) (ev : Event) (h : lineStep K inp w1 ev = .ok w2) :
    w2.out = w1.out := by
  unfold lineStep at h
  dsimp only at h
  repeat' split at h
  all_goals first
    | (injection h with h; subst h; rfl)
    | (cases h)

theorem leaveStep_out (K : PpKinds) (w : WState) (x : Tree) : (leaveStep K w x).out = w.out := by
  unfold leaveStep; split <;> rfl

theorem pushLoc_tiled (inp : Input) (path : Bytes) (w : WState) (x : Tree) (h : w.out.Tiled) :
    (pushLoc inp path w x).out.Tiled := by
  unfold pushLoc; split
  · exact push_tiled _ _ _ h
  · exact h

theorem foldl_pushLoc_tiled (inp : Input) (path : Bytes) (ts : List Tree) (w : WState) (h : w.out.Tiled) :
    (ts.foldl (pushLoc inp path) w).out.Tiled := by
  induction ts generalizing w with
  | nil => exact h
  | cons t ts ih => rw [List.foldl_cons]; exact ih _ (pushLoc_tiled inp path w t h)

def TiledRes (r : Except PpError (POut × Defines)) : Prop :=
  match r with
  | .ok (o, _) => o.Tiled
  | .error _ => True

theorem TiledRes_ok {r : Except PpError (POut × Defines)} {o : POut} {d : Defines} (h : TiledRes r) (e : r = .ok (o, d)) : o.Tiled := by
  subst e; exact h

/-- closing tactic for one arm: every `.ok w'` leaf has `w'.out` = `w2.out` possibly after pushes -/
macro "arm_tiled" h2:ident he:ident : tactic => `(tactic|
  (repeat' split at $he:ident
   all_goals first
     | (cases $he:ident; done)
     | (injection $he:ident with $he:ident; subst $he:ident
        first
          | exact $h2
          | exact pushLoc_tiled _ _ _ _ $h2
          | exact push_tiled _ _ _ $h2
          | (simp only [skipPush_out, skipPushAll_out]; first | exact $h2 | exact pushLoc_tiled _ _ _ _ $h2 | exact push_tiled _ _ _ $h2)
          | (apply pushLoc_tiled; simp only [skipPush_out, skipPushAll_out]; exact $h2)
          | (apply foldl_pushLoc_tiled; simp only [skipPush_out, skipPushAll_out]; first | exact $h2 | exact push_tiled _ _ _ $h2))))

section
variable (C : Cfg)
    (recInner : Bytes → Defines → Bool → Bool → Nat → Nat → Except PpError (POut × Defines))
    (recUsage : Input → Bytes → Bytes → Tree → Defines → Bool → Bool → Nat → Nat → Except PpError (Option (Bytes × Option (Bytes × Range) × Defines)))
    (inp : Input) (s path : Bytes) (ii sc : Bool) (rd id : Nat) (w2 w3 : WState) (x : Tree)

theorem armNotDirective_tiled (h2 : w2.out.Tiled) (he : armNotDirective C recInner recUsage inp s path ii sc rd id w2 x = .ok w3) : w3.out.Tiled := by
  unfold armNotDirective at he; dsimp only at he; arm_tiled h2 he
theorem armStrLike_tiled (h2 : w2.out.Tiled) (he : armStrLike C recInner recUsage inp s path ii sc rd id w2 x = .ok w3) : w3.out.Tiled := by
  unfold armStrLike at he; dsimp only at he; arm_tiled h2 he
theorem armKept_tiled (h2 : w2.out.Tiled) (he : armKept C recInner recUsage inp s path ii sc rd id w2 x = .ok w3) : w3.out.Tiled := by
  unfold armKept at he; dsimp only at he; arm_tiled h2 he
theorem armUndef_tiled (h2 : w2.out.Tiled) (he : armUndef C recInner recUsage inp s path ii sc rd id w2 x = .ok w3) : w3.out.Tiled := by
  unfold armUndef at he; dsimp only at he; arm_tiled h2 he
theorem armUndefAll_tiled (h2 : w2.out.Tiled) (he : armUndefAll C recInner recUsage inp s path ii sc rd id w2 x = .ok w3) : w3.out.Tiled := by
  unfold armUndefAll at he; dsimp only at he; arm_tiled h2 he
theorem armCond_tiled (h2 : w2.out.Tiled) (he : armCond C recInner recUsage inp s path ii sc rd id w2 x = .ok w3) : w3.out.Tiled := by
  unfold armCond at he; dsimp only at he; arm_tiled h2 he
theorem armWhiteSpace_tiled (h2 : w2.out.Tiled) (he : armWhiteSpace C recInner recUsage inp s path ii sc rd id w2 x = .ok w3) : w3.out.Tiled := by
  unfold armWhiteSpace at he; dsimp only at he; arm_tiled h2 he
theorem armComment_tiled (h2 : w2.out.Tiled) (he : armComment C recInner recUsage inp s path ii sc rd id w2 x = .ok w3) : w3.out.Tiled := by
  unfold armComment at he; dsimp only at he; arm_tiled h2 he
theorem armPosition_tiled (h2 : w2.out.Tiled) (he : armPosition C recInner recUsage inp s path ii sc rd id w2 x = .ok w3) : w3.out.Tiled := by
  unfold armPosition at he; dsimp only at he; arm_tiled h2 he
theorem armDefine_tiled (h2 : w2.out.Tiled) (he : armDefine C recInner recUsage inp s path ii sc rd id w2 x = .ok w3) : w3.out.Tiled := by
  unfold armDefine at he; dsimp only at he; arm_tiled h2 he
theorem armUsage_tiled (h2 : w2.out.Tiled) (he : armUsage C recInner recUsage inp s path ii sc rd id w2 x = .ok w3) : w3.out.Tiled := by
  unfold armUsage at he; dsimp only at he; arm_tiled h2 he
theorem armInclude_tiled (hI : ∀ p d sc ii rd id, TiledRes (recInner p d sc ii rd id))
    (h2 : w2.out.Tiled) (he : armInclude C recInner recUsage inp s path ii sc rd id w2 x = .ok w3) : w3.out.Tiled := by
  unfold armInclude at he; dsimp only at he
  repeat' split at he
  all_goals first
    | (cases he; done)
    | (injection he with he; subst he
       first
         | (simp only [skipPush_out, skipPushAll_out]; exact h2)
         | (simp only [skipPush_out, skipPushAll_out]
            apply merge_tiled _ _ h2
            rename_i heq
            exact TiledRes_ok (hI _ _ _ _ _ _) heq))

theorem enterStep_tiled (hI : ∀ p d sc ii rd id, TiledRes (recInner p d sc ii rd id))
    (h2 : w2.out.Tiled) (he : enterStep C recInner recUsage inp s path ii sc rd id w2 x = .ok w3) : w3.out.Tiled := by
  unfold enterStep at he; dsimp only at he
  by_cases c0 : (x.baseKind == C.K.sdNotDirective) = true
  · rw [if_pos c0] at he; exact armNotDirective_tiled _ _ _ _ _ _ _ _ _ _ _ _ _ h2 he
  · rw [if_neg c0] at he
    by_cases c1 : (x.kind == C.K.sdStringLiteral || x.kind == C.K.sdEscapedIdentifier) = true
    · rw [if_pos c1] at he; exact armStrLike_tiled _ _ _ _ _ _ _ _ _ _ _ _ _ h2 he
    · rw [if_neg c1] at he
      by_cases c2 : C.K.kept.contains x.baseKind = true
      · rw [if_pos c2] at he; exact armKept_tiled _ _ _ _ _ _ _ _ _ _ _ _ _ h2 he
      · rw [if_neg c2] at he
        by_cases c3 : (x.baseKind == C.K.undefine) = true
        · rw [if_pos c3] at he; exact armUndef_tiled _ _ _ _ _ _ _ _ _ _ _ _ _ h2 he
        · rw [if_neg c3] at he
          by_cases c4 : (x.baseKind == C.K.undefineall) = true
          · rw [if_pos c4] at he; exact armUndefAll_tiled _ _ _ _ _ _ _ _ _ _ _ _ _ h2 he
          · rw [if_neg c4] at he
            by_cases c5 : (x.baseKind == C.K.ifdef || x.baseKind == C.K.ifndef) = true
            · rw [if_pos c5] at he; exact armCond_tiled _ _ _ _ _ _ _ _ _ _ _ _ _ h2 he
            · rw [if_neg c5] at he
              by_cases c6 : (x.baseKind == C.K.whiteSpace) = true
              · rw [if_pos c6] at he; exact armWhiteSpace_tiled _ _ _ _ _ _ _ _ _ _ _ _ _ h2 he
              · rw [if_neg c6] at he
                by_cases c7 : (x.baseKind == C.K.comment) = true
                · rw [if_pos c7] at he; exact armComment_tiled _ _ _ _ _ _ _ _ _ _ _ _ _ h2 he
                · rw [if_neg c7] at he
                  by_cases c8 : (x.baseKind == C.K.textMacroDefinition) = true
                  · rw [if_pos c8] at he; exact armDefine_tiled _ _ _ _ _ _ _ _ _ _ _ _ _ h2 he
                  · rw [if_neg c8] at he
                    by_cases c9 : (x.baseKind == C.K.includeDirective && !ii) = true
                    · rw [if_pos c9] at he; exact armInclude_tiled _ _ _ _ _ _ _ _ _ _ _ _ _ hI h2 he
                    · rw [if_neg c9] at he
                      by_cases c10 : (x.baseKind == C.K.textMacroUsage) = true
                      · rw [if_pos c10] at he; exact armUsage_tiled _ _ _ _ _ _ _ _ _ _ _ _ _ h2 he
                      · rw [if_neg c10] at he
                        by_cases c11 : (x.baseKind == C.K.position) = true
                        · rw [if_pos c11] at he; exact armPosition_tiled _ _ _ _ _ _ _ _ _ _ _ _ _ h2 he
                        · rw [if_neg c11] at he
                          injection he with he; subst he; exact h2
end

/-- **the walker only ever produces tiled outputs**: for every configuration, file system, input, define table, flag
    combination and fuel, a successful `preprocess_str` / event loop / `preprocess_inner` returns an output whose origin
    keys tile `[0, |text|)` — so `C03_origin_lookup` applies to every output position of every successful run -/
theorem walk_tiled (C : Cfg) : ∀ (fuel : Nat),
    (∀ s path d ii sc rd id, TiledRes (preprocessStr C fuel s path d ii sc rd id)) ∧
    (∀ inp s path ii sc rd id evs w, w.out.Tiled → TiledRes (walk C fuel inp s path ii sc rd id evs w)) ∧
    (∀ path d sc ii rd id, TiledRes (preprocessInner C fuel path d sc ii rd id)) := by
  intro fuel
  induction fuel with
  | zero =>
    refine ⟨?_, ?_, ?_⟩ <;> intros <;> simp [preprocessStr, walk, preprocessInner, TiledRes]
  | succ n ih =>
    obtain ⟨ihS, ihW, ihI⟩ := ih
    refine ⟨?_, ?_, ?_⟩
    · intro s path d ii sc rd id
      unfold preprocessStr
      dsimp only
      split
      · trivial
      · split
        · trivial
        · trivial
        · apply ihW; exact tiled_empty
    · intro inp s path ii sc rd id evs w hw
      cases evs with
      | nil => simp only [walk]; exact hw
      | cons ev evs =>
        unfold walk
        dsimp only
        have h1 : (skipStep w ev).out.Tiled := by rw [skipStep_out]; exact hw
        generalize skipStep w ev = w1 at h1 ⊢
        split
        · exact ihW _ _ _ _ _ _ _ _ _ h1
        · split
          · trivial
          · rename_i w2 heq
            have h2 : w2.out.Tiled := by rw [lineStep_out _ _ _ _ _ heq]; exact h1
            split
            · apply ihW; rw [leaveStep_out]; exact h2
            · split
              · trivial
              · rename_i w3 he
                exact ihW _ _ _ _ _ _ _ _ _ (enterStep_tiled _ _ _ _ _ _ _ _ _ _ _ _ _ ihI h2 he)
    · intro path d sc ii rd id
      unfold preprocessInner
      split
      · trivial
      · trivial
      · apply ihS
end Sv

namespace Sv

/-- node kinds on which the walker does anything (an `Enter` arm or one of the two bookkeeping blocks) -/
def activeBase (K : PpKinds) : List Nat :=
  [K.sdNotDirective, K.compilerDirective, K.undefine, K.undefineall, K.ifdef, K.ifndef, K.whiteSpace, K.comment,
   K.textMacroDefinition, K.includeDirective, K.textMacroUsage, K.position] ++ K.kept

/-- a node the walker passes over without any effect -/
def inert (K : PpKinds) (x : Tree) : Bool :=
  !(activeBase K).contains x.baseKind && x.kind != K.sdStringLiteral && x.kind != K.sdEscapedIdentifier

/-- walker state in which nothing is being skipped and no `include has been seen -/
structure Quiet (w : WState) : Prop where
  skip : w.skip = false
  skipWs : w.skipWs = false
  nodes : w.skipNodes = []
  incl : w.lastIncludeLine = none

theorem walk_enter_inert (C : Cfg) (fuel : Nat) (inp : Input) (s path : Bytes) (ii sc : Bool) (rd id : Nat) (evs : List Event)
    (w : WState) (x : Tree) (hx : inert C.K x = true) (hq : Quiet w) :
    walk C (fuel + 1) inp s path ii sc rd id (.enter x :: evs) w = walk C fuel inp s path ii sc rd id evs w := by
  obtain ⟨h1, h2, h3, h4⟩ := hq
  simp only [inert, activeBase, List.cons_append, List.nil_append, List.contains_cons, Bool.not_or, Bool.and_eq_true, Bool.not_eq_true',
    bne_iff_ne, ne_eq, Bool.or_eq_false_iff, Bool.not_eq_eq_eq_not, Bool.not_true] at hx
  obtain ⟨⟨hb, k1⟩, k2⟩ := hx
  have k1' : (x.kind == C.K.sdStringLiteral) = false := by simpa using k1
  have k2' : (x.kind == C.K.sdEscapedIdentifier) = false := by simpa using k2
  conv => lhs; unfold walk
  simp only [skipStep, h3, List.contains_nil, h1, lineStep, enterStep, hb, k1', k2', Bool.false_eq_true, if_false, Bool.or_self, Bool.false_and]

theorem walk_leave_inert (C : Cfg) (fuel : Nat) (inp : Input) (s path : Bytes) (ii sc : Bool) (rd id : Nat) (evs : List Event)
    (w : WState) (x : Tree) (hx : inert C.K x = true) (hq : Quiet w) :
    walk C (fuel + 1) inp s path ii sc rd id (.leave x :: evs) w = walk C fuel inp s path ii sc rd id evs w := by
  obtain ⟨h1, h2, h3, h4⟩ := hq
  simp only [inert, activeBase, List.cons_append, List.nil_append, List.contains_cons, Bool.not_or, Bool.and_eq_true,
    bne_iff_ne, ne_eq, Bool.not_eq_eq_eq_not, Bool.not_true] at hx
  obtain ⟨⟨hb, _⟩, _⟩ := hx
  conv => lhs; unfold walk
  simp only [skipStep, h3, List.contains_nil, h1, lineStep, leaveStep, hb, Bool.false_eq_true, if_false, Bool.or_self]

def inertKind (K : PpKinds) (b : Nat) : Bool := !(activeBase K).contains b

/-- what the identity theorem needs to know about the kind numbers: facts about the generated `ppKinds`, each checked by `decide` -/
structure KindsOK (K : PpKinds) : Prop where
  nd_lt : K.sdNotDirective < 2048
  cm_lt : K.comment < 2048
  sl_lt : K.stringLiteral < 2048
  ei_lt : K.escapedIdentifier < 2048
  sd_inert : inertKind K K.sourceDescription = true
  leaf_inert : inertKind K 0 = true
  sl_inert : inertKind K K.stringLiteral = true
  ei_inert : inertKind K K.escapedIdentifier = true
  ss_mod : K.sdStringLiteral % 2048 = K.sourceDescription
  se_mod : K.sdEscapedIdentifier % 2048 = K.sourceDescription
  ss_ne0 : K.sdStringLiteral ≠ 0
  se_ne0 : K.sdEscapedIdentifier ≠ 0
  ss_ge : 2048 ≤ K.sdStringLiteral
  se_ge : 2048 ≤ K.sdEscapedIdentifier
  cm_nd : (K.comment == K.sdNotDirective) = false
  cm_cd : (K.comment == K.compilerDirective) = false
  cm_kept : K.kept.contains K.comment = false
  cm_undef : (K.comment == K.undefine) = false
  cm_undefall : (K.comment == K.undefineall) = false
  cm_ifdef : (K.comment == K.ifdef) = false
  cm_ifndef : (K.comment == K.ifndef) = false
  cm_ws : (K.comment == K.whiteSpace) = false
  nd_cd : (K.sdNotDirective == K.compilerDirective) = false
  nd_kept : K.kept.contains K.sdNotDirective = false
  nd_undef : (K.sdNotDirective == K.undefine) = false
  nd_undefall : (K.sdNotDirective == K.undefineall) = false

theorem locOf_single (k o l n : Nat) : locOf (.node k [.leaf o l n]) = some (o, l, n) := by
  simp [locOf, leaves, leavesL]

theorem baseKind_node (k : Nat) (ks : List Tree) : (Tree.node k ks).baseKind = k % 2048 := rfl
theorem kind_node (k : Nat) (ks : List Tree) : (Tree.node k ks).kind = k := rfl

theorem walk_enter_nd (C : Cfg) (fuel : Nat) (inp : Input) (s path : Bytes) (ii sc : Bool) (rd id : Nat) (evs : List Event)
    (w : WState) (o l n : Nat) (hK : KindsOK C.K) (hq : Quiet w) :
    walk C (fuel + 1) inp s path ii sc rd id (.enter (.node C.K.sdNotDirective [.leaf o l n]) :: evs) w =
      walk C fuel inp s path ii sc rd id evs { w with out := w.out.push (bytesOf inp o l) (some (path, ⟨o, o + l⟩)) } := by
  obtain ⟨h1, h2, h3, h4⟩ := hq
  have hlt : C.K.sdNotDirective % 2048 = C.K.sdNotDirective := Nat.mod_eq_of_lt hK.nd_lt
  conv => lhs; unfold walk
  simp only [skipStep, h3, List.contains_nil, h1, h4, lineStep, enterStep, armNotDirective, pushLoc, baseKind_node, hlt, locOf_single,
    beq_self_eq_true, Bool.true_or, Bool.false_eq_true, if_false, if_true]
  simp [h1, h3, h4]

theorem walk_leave_nd (C : Cfg) (fuel : Nat) (inp : Input) (s path : Bytes) (ii sc : Bool) (rd id : Nat) (evs : List Event)
    (w : WState) (o l n : Nat) (hK : KindsOK C.K) (hq : Quiet w) :
    ∃ li, walk C (fuel + 1) inp s path ii sc rd id (.leave (.node C.K.sdNotDirective [.leaf o l n]) :: evs) w =
      walk C fuel inp s path ii sc rd id evs { w with lastItemLine := li } := by
  obtain ⟨h1, h2, h3, h4⟩ := hq
  have hlt : C.K.sdNotDirective % 2048 = C.K.sdNotDirective := Nat.mod_eq_of_lt hK.nd_lt
  conv => enter [1, li, 1]; unfold walk
  simp only [skipStep, h3, List.contains_nil, h1, h4, lineStep, leaveStep, baseKind_node, hlt, locOf_single,
    beq_self_eq_true, Bool.true_or, Bool.false_eq_true, if_false, if_true, hK.nd_kept, hK.nd_undef, hK.nd_undefall, Bool.or_self]
  by_cases hc : (!List.isEmpty (trimEnd (bytesOf inp o l))) = true
  · exact ⟨some (n + List.count 10 (trimEnd (bytesOf inp o l))), by simp only [hc, if_true]⟩
  · refine ⟨w.lastItemLine, ?_⟩
    simp only [hc, if_false, Bool.false_eq_true]
    congr 1
    cases w; simp_all

/-- a `Comment` node (one token) is copied verbatim when comments are kept -/
theorem walk_enter_cm (C : Cfg) (fuel : Nat) (inp : Input) (s path : Bytes) (ii : Bool) (rd id : Nat) (evs : List Event)
    (w : WState) (o l n : Nat) (hK : KindsOK C.K) (hq : Quiet w) :
    walk C (fuel + 1) inp s path ii false rd id (.enter (.node C.K.comment [.leaf o l n]) :: evs) w =
      walk C fuel inp s path ii false rd id evs { w with out := w.out.push (bytesOf inp o l) (some (path, ⟨o, o + l⟩)) } := by
  obtain ⟨h1, h2, h3, h4⟩ := hq
  have hlt : C.K.comment % 2048 = C.K.comment := Nat.mod_eq_of_lt hK.cm_lt
  have k1 : (C.K.comment == C.K.sdStringLiteral) = false := by
    have := hK.ss_ge; have := hK.cm_lt; simp; omega
  have k2 : (C.K.comment == C.K.sdEscapedIdentifier) = false := by
    have := hK.se_ge; have := hK.cm_lt; simp; omega
  conv => lhs; unfold walk
  simp only [skipStep, h3, List.contains_nil, h1, h4, lineStep, enterStep, armComment, commentEmit, baseKind_node, kind_node, hlt, locOf_single,
    beq_self_eq_true, Bool.false_eq_true, if_false, if_true, hK.cm_nd, hK.cm_cd, hK.cm_kept, hK.cm_undef, hK.cm_undefall, hK.cm_ifdef,
    hK.cm_ifndef, hK.cm_ws, k1, k2, Bool.or_self, Bool.not_false]

theorem walk_leave_inertK (C : Cfg) (fuel : Nat) (inp : Input) (s path : Bytes) (ii sc : Bool) (rd id : Nat) (evs : List Event)
    (w : WState) (x : Tree) (hx : inertKind C.K x.baseKind = true) (hq : Quiet w) :
    walk C (fuel + 1) inp s path ii sc rd id (.leave x :: evs) w = walk C fuel inp s path ii sc rd id evs w := by
  obtain ⟨h1, h2, h3, h4⟩ := hq
  simp only [inertKind, activeBase, List.cons_append, List.nil_append, List.contains_cons, Bool.not_or, Bool.and_eq_true,
    bne_iff_ne, ne_eq, Bool.not_eq_eq_eq_not, Bool.not_true] at hx
  conv => lhs; unfold walk
  simp only [skipStep, h3, List.contains_nil, h1, lineStep, leaveStep, hx, Bool.false_eq_true, if_false, Bool.or_self]

theorem walk_leave_cm (C : Cfg) (fuel : Nat) (inp : Input) (s path : Bytes) (ii sc : Bool) (rd id : Nat) (evs : List Event)
    (w : WState) (ks : List Tree) (hK : KindsOK C.K) (hq : Quiet w) :
    walk C (fuel + 1) inp s path ii sc rd id (.leave (.node C.K.comment ks) :: evs) w = walk C fuel inp s path ii sc rd id evs w := by
  obtain ⟨h1, h2, h3, h4⟩ := hq
  have hlt : C.K.comment % 2048 = C.K.comment := Nat.mod_eq_of_lt hK.cm_lt
  conv => lhs; unfold walk
  simp only [skipStep, h3, List.contains_nil, h1, lineStep, leaveStep, baseKind_node, hlt, hK.cm_nd, hK.cm_cd, hK.cm_kept, hK.cm_undef,
    hK.cm_undefall, Bool.false_eq_true, if_false, Bool.or_self]

/-- a top-level string literal / escaped identifier without trailing trivia: the token is copied on entering the `SourceDescription` -/
theorem walk_enter_sl (C : Cfg) (fuel : Nat) (inp : Input) (s path : Bytes) (ii sc : Bool) (rd id : Nat) (evs : List Event)
    (w : WState) (k ck o l n : Nat) (hk : k = C.K.sdStringLiteral ∨ k = C.K.sdEscapedIdentifier) (hK : KindsOK C.K) (hq : Quiet w) :
    walk C (fuel + 1) inp s path ii sc rd id (.enter (.node k [.node ck [.leaf o l n]]) :: evs) w =
      walk C fuel inp s path ii sc rd id evs { w with out := w.out.push (bytesOf inp o l) (some (path, ⟨o, o + l⟩)) } := by
  obtain ⟨h1, h2, h3, h4⟩ := hq
  have hm : k % 2048 = C.K.sourceDescription := by rcases hk with rfl | rfl; exact hK.ss_mod; exact hK.se_mod
  have hsd := hK.sd_inert
  simp only [inertKind, activeBase, List.cons_append, List.nil_append, List.contains_cons, Bool.not_or, Bool.and_eq_true,
    bne_iff_ne, ne_eq, Bool.not_eq_eq_eq_not, Bool.not_true] at hsd
  have hkk : (k == C.K.sdStringLiteral || k == C.K.sdEscapedIdentifier) = true := by rcases hk with rfl | rfl <;> simp
  conv => lhs; unfold walk
  simp only [skipStep, h3, List.contains_nil, h1, h4, lineStep, enterStep, armStrLike, pushLoc, baseKind_node, kind_node, hm, hsd, hkk,
    Tree.kids, List.head?, locOf_single, Bool.false_eq_true, if_false, if_true, Bool.or_self]

/-! ### composing the steps: a plain source description is copied verbatim -/

/-- a top-level item of a directive-free, D4-free preprocessor tree: `SourceDescription::{NotDirective, Comment}` with one token, or
    `SourceDescription::{StringLiteral, EscapedIdentifier}` whose node has the token and NO trailing whitespace -/
inductive PlainSD (K : PpKinds) : Tree → Prop
  | nd (k o l n : Nat) : k % 2048 = K.sourceDescription → k ≠ K.sdStringLiteral → k ≠ K.sdEscapedIdentifier →
      PlainSD K (.node k [.node K.sdNotDirective [.leaf o l n]])
  | cm (k o l n : Nat) : k % 2048 = K.sourceDescription → k ≠ K.sdStringLiteral → k ≠ K.sdEscapedIdentifier →
      PlainSD K (.node k [.node K.comment [.leaf o l n]])
  | sl (k ck o l n : Nat) : (k = K.sdStringLiteral ∨ k = K.sdEscapedIdentifier) → (ck = K.stringLiteral ∨ ck = K.escapedIdentifier) →
      PlainSD K (.node k [.node ck [.leaf o l n]])

theorem quiet_out {w : WState} (hq : Quiet w) (o : POut) (li : Option Nat) : Quiet { w with out := o, lastItemLine := li } :=
  ⟨hq.skip, hq.skipWs, hq.nodes, hq.incl⟩

theorem inert_mk (K : PpKinds) (x : Tree) (h1 : inertKind K x.baseKind = true) (h2 : x.kind ≠ K.sdStringLiteral)
    (h3 : x.kind ≠ K.sdEscapedIdentifier) : inert K x = true := by
  unfold inert; unfold inertKind at h1; rw [h1]; simp [h2, h3]

theorem inert_leaf (K : PpKinds) (hK : KindsOK K) (o l n : Nat) : inert K (.leaf o l n) = true :=
  inert_mk K _ hK.leaf_inert (Ne.symm hK.ss_ne0) (Ne.symm hK.se_ne0)

theorem inertK_leaf (K : PpKinds) (hK : KindsOK K) (o l n : Nat) : inertKind K (Tree.leaf o l n).baseKind = true := hK.leaf_inert

def pushLeaf (inp : Input) (path : Bytes) (out : POut) (x : Nat × Nat × Nat) : POut :=
  out.push (bytesOf inp x.1 x.2.1) (some (path, ⟨x.1, x.1 + x.2.1⟩))

/-- the output after copying the given tokens -/
def copyOut (inp : Input) (path : Bytes) (out : POut) (ls : List (Nat × Nat × Nat)) : POut := ls.foldl (pushLeaf inp path) out

theorem walk_plainSD (C : Cfg) (hK : KindsOK C.K) (fuel : Nat) (inp : Input) (s path : Bytes) (ii : Bool) (rd id : Nat)
    (evs : List Event) (w : WState) (t : Tree) (ht : PlainSD C.K t) (hq : Quiet w) :
    ∃ li, walk C (fuel + 6) inp s path ii false rd id (events t ++ evs) w =
      walk C fuel inp s path ii false rd id evs { w with out := copyOut inp path w.out (leaves t), lastItemLine := li } := by
  cases ht with
  | nd k o l n hm h1 h2 =>
    have hik : inertKind C.K (Tree.node k [.node C.K.sdNotDirective [.leaf o l n]]).baseKind = true := by
      rw [baseKind_node, hm]; exact hK.sd_inert
    have hi : inert C.K (.node k [.node C.K.sdNotDirective [.leaf o l n]]) = true := inert_mk _ _ hik h1 h2
    simp only [events, eventsL, List.append_nil, List.cons_append, List.nil_append, List.append_assoc]
    rw [walk_enter_inert C _ inp s path ii false rd id _ w _ hi hq]
    rw [walk_enter_nd C _ inp s path ii false rd id _ w o l n hK hq]
    have hq1 := quiet_out hq (w.out.push (bytesOf inp o l) (some (path, ⟨o, o + l⟩))) w.lastItemLine
    rw [walk_enter_inert C _ inp s path ii false rd id _ _ _ (inert_leaf C.K hK o l n) hq1]
    rw [walk_leave_inertK C _ inp s path ii false rd id _ _ _ (inertK_leaf C.K hK o l n) hq1]
    obtain ⟨li, hli⟩ := walk_leave_nd C (fuel + 1) inp s path ii false rd id (Event.leave (Tree.node k [.node C.K.sdNotDirective [.leaf o l n]]) :: evs) _ o l n hK hq1
    rw [hli]
    refine ⟨li, ?_⟩
    rw [walk_leave_inertK C _ inp s path ii false rd id _ _ _ hik (quiet_out hq _ li)]
    rfl
  | cm k o l n hm h1 h2 =>
    have hik : inertKind C.K (Tree.node k [.node C.K.comment [.leaf o l n]]).baseKind = true := by
      rw [baseKind_node, hm]; exact hK.sd_inert
    have hi : inert C.K (.node k [.node C.K.comment [.leaf o l n]]) = true := inert_mk _ _ hik h1 h2
    simp only [events, eventsL, List.append_nil, List.cons_append, List.nil_append, List.append_assoc]
    rw [walk_enter_inert C _ inp s path ii false rd id _ w _ hi hq]
    rw [walk_enter_cm C _ inp s path ii rd id _ w o l n hK hq]
    have hq1 := quiet_out hq (w.out.push (bytesOf inp o l) (some (path, ⟨o, o + l⟩))) w.lastItemLine
    rw [walk_enter_inert C _ inp s path ii false rd id _ _ _ (inert_leaf C.K hK o l n) hq1]
    rw [walk_leave_inertK C _ inp s path ii false rd id _ _ _ (inertK_leaf C.K hK o l n) hq1]
    rw [walk_leave_cm C _ inp s path ii false rd id _ _ _ hK hq1]
    rw [walk_leave_inertK C _ inp s path ii false rd id _ _ _ hik hq1]
    exact ⟨w.lastItemLine, rfl⟩
  | sl k ck o l n hk hck =>
    have hm : k % 2048 = C.K.sourceDescription := by rcases hk with rfl | rfl; exact hK.ss_mod; exact hK.se_mod
    have hik : inertKind C.K (Tree.node k [.node ck [.leaf o l n]]).baseKind = true := by
      rw [baseKind_node, hm]; exact hK.sd_inert
    have hcl : ck < 2048 := by rcases hck with rfl | rfl; exact hK.sl_lt; exact hK.ei_lt
    have hcm : ck % 2048 = ck := Nat.mod_eq_of_lt hcl
    have hcik : inertKind C.K (Tree.node ck [.leaf o l n]).baseKind = true := by
      rw [baseKind_node, hcm]; rcases hck with rfl | rfl; exact hK.sl_inert; exact hK.ei_inert
    have hci : inert C.K (.node ck [.leaf o l n]) = true :=
      inert_mk _ _ hcik (by have := hK.ss_ge; rw [kind_node]; omega) (by have := hK.se_ge; rw [kind_node]; omega)
    simp only [events, eventsL, List.append_nil, List.cons_append, List.nil_append, List.append_assoc]
    rw [walk_enter_sl C _ inp s path ii false rd id _ w k ck o l n hk hK hq]
    have hq1 := quiet_out hq (w.out.push (bytesOf inp o l) (some (path, ⟨o, o + l⟩))) w.lastItemLine
    rw [walk_enter_inert C _ inp s path ii false rd id _ _ _ hci hq1]
    rw [walk_enter_inert C _ inp s path ii false rd id _ _ _ (inert_leaf C.K hK o l n) hq1]
    rw [walk_leave_inertK C _ inp s path ii false rd id _ _ _ (inertK_leaf C.K hK o l n) hq1]
    rw [walk_leave_inertK C _ inp s path ii false rd id _ _ _ hcik hq1]
    rw [walk_leave_inertK C _ inp s path ii false rd id _ _ _ hik hq1]
    exact ⟨w.lastItemLine, rfl⟩

theorem copyOut_append (inp : Input) (path : Bytes) (out : POut) (a b : List (Nat × Nat × Nat)) :
    copyOut inp path out (a ++ b) = copyOut inp path (copyOut inp path out a) b := by
  simp [copyOut, List.foldl_append]

theorem walk_plainL (C : Cfg) (hK : KindsOK C.K) (fuel : Nat) (inp : Input) (s path : Bytes) (ii : Bool) (rd id : Nat)
    (evs : List Event) : ∀ (sds : List Tree) (w : WState), (∀ t ∈ sds, PlainSD C.K t) → Quiet w →
    ∃ li, walk C (fuel + 6 * sds.length) inp s path ii false rd id (eventsL sds ++ evs) w =
      walk C fuel inp s path ii false rd id evs { w with out := copyOut inp path w.out (leavesL sds), lastItemLine := li } := by
  intro sds
  induction sds with
  | nil => intro w _ _; exact ⟨w.lastItemLine, by simp [eventsL, leavesL, copyOut]⟩
  | cons t ts ih =>
    intro w hp hq
    have e1 : fuel + 6 * (t :: ts).length = (fuel + 6 * ts.length) + 6 := by simp [List.length_cons]; omega
    obtain ⟨li, h1⟩ := walk_plainSD C hK (fuel + 6 * ts.length) inp s path ii rd id (eventsL ts ++ evs) w t (hp t (by simp)) hq
    obtain ⟨li2, h2⟩ := ih { w with out := copyOut inp path w.out (leaves t), lastItemLine := li }
      (fun t' ht' => hp t' (by simp [ht'])) (quiet_out hq _ li)
    refine ⟨li2, ?_⟩
    rw [e1]
    simp only [eventsL, List.append_assoc]
    rw [h1, h2]
    simp only [leavesL, copyOut_append]

/-- **the walker is the identity on a directive-free, D4-free tree**: the whole event loop returns exactly the copied tokens and the
    unchanged define table (any prior quiet state, any flags except strip_comments, any amount of spare fuel) -/
theorem walk_plain_tree (C : Cfg) (hK : KindsOK C.K) (f : Nat) (inp : Input) (s path : Bytes) (ii : Bool) (rd id : Nat)
    (kpp : Nat) (sds : List Tree) (hpp : inert C.K (.node kpp sds) = true) (hp : ∀ t ∈ sds, PlainSD C.K t) (w : WState) (hq : Quiet w) :
    walk C (f + 6 * sds.length + 3) inp s path ii false rd id (eventsL [.node kpp sds]) w =
      .ok (copyOut inp path w.out (leavesL sds), w.defines) := by
  have hik : inertKind C.K (Tree.node kpp sds).baseKind = true := by
    unfold inert at hpp; unfold inertKind; simp only [Bool.and_eq_true] at hpp; exact hpp.1.1
  simp only [eventsL, events, List.append_nil]
  have e1 : f + 6 * sds.length + 3 = ((f + 2) + 6 * sds.length) + 1 := by omega
  rw [e1, walk_enter_inert C _ inp s path ii false rd id _ w _ hpp hq]
  obtain ⟨li, h1⟩ := walk_plainL C hK (f + 2) inp s path ii rd id [Event.leave (Tree.node kpp sds)] sds w hp hq
  rw [h1]
  rw [walk_leave_inertK C _ inp s path ii false rd id _ _ _ hik (quiet_out hq _ li)]
  simp [walk]

/-! ### what the copied output looks like -/

/-- an output all of whose segments map to the same offsets of `path` -/
def IdOut (path : Bytes) (t : POut) : Prop :=
  t.Tiled ∧ ∀ kv ∈ t.origins, kv.2.src = some (path, kv.1)

theorem insert_end_mem : ∀ (m : OMap) (a n e : Nat) (v : Origin), TiledFrom a m n → n < e →
    ∀ kv ∈ m.insert ⟨n, e⟩ v, kv = (⟨n, e⟩, v) ∨ kv ∈ m := by
  intro m
  induction m with
  | nil => intro a n e v _ _ kv hkv; simp [OMap.insert] at hkv; exact Or.inl hkv
  | cons x xs ih =>
    intro a n e v h h1 kv hkv
    obtain ⟨k, v0⟩ := x
    simp only [TiledFrom] at h
    obtain ⟨hb, hne, hv0, hr⟩ := h
    have hle := hr.le
    have hgt : (⟨n, e⟩ : Range).cmp k = .gt := by
      unfold Range.cmp Range.eqv
      have h3 : ¬ (n ≤ k.b) := by omega
      have h4 : ¬ (n < k.e) := by omega
      simp [h3, h4]
      rw [Nat.compare_eq_gt]; omega
    simp only [OMap.insert, hgt, List.mem_cons] at hkv
    rcases hkv with rfl | hkv
    · exact Or.inr (by simp)
    · rcases ih k.e n e v hr h1 kv hkv with h | h
      · exact Or.inl h
      · exact Or.inr (by simp [h])

theorem idOut_push (path : Bytes) (t : POut) (bs : Bytes) (o : Nat) (h : IdOut path t) (ho : t.text.length = o) :
    IdOut path (t.push bs (some (path, ⟨o, o + bs.length⟩))) := by
  refine ⟨push_tiled _ _ _ h.1, ?_⟩
  unfold POut.push
  split
  · exact h.2
  · rename_i hs
    intro kv hkv
    have hpos : 0 < bs.length := List.length_pos_iff.mpr (by simpa using hs)
    rcases insert_end_mem t.origins 0 t.text.length (t.text.length + bs.length) _ h.1 (by omega) kv hkv with rfl | hm
    · simp [ho]
    · exact h.2 kv hm

theorem sliceBytes_add' (inp : Input) (o a b : Nat) :
    sliceBytes inp o (a + b) = sliceBytes inp o a ++ sliceBytes inp (o + a) b := by
  unfold sliceBytes
  rw [List.range_add, List.map_append, List.map_map]
  congr 1
  apply List.map_congr_left
  intro i _
  simp [Nat.add_assoc]

theorem bytesOf_length (inp : Input) (o l : Nat) : (bytesOf inp o l).length = l := by simp [bytesOf, sliceBytes]

theorem copyOut_chain (inp : Input) (path : Bytes) : ∀ (ls : List (Nat × Nat × Nat)) (out : POut) (p q : Nat),
    IdOut path out → out.text.length = p → Chain inp p ls q →
    IdOut path (copyOut inp path out ls) ∧ (copyOut inp path out ls).text = out.text ++ sliceBytes inp p (q - p) := by
  intro ls
  induction ls with
  | nil => intro out p q h _ hc; simp [Chain] at hc; subst hc; simp [copyOut, sliceBytes, h]
  | cons x xs ih =>
    intro out p q h hl hc
    obtain ⟨o, l, n⟩ := x
    simp only [Chain] at hc
    obtain ⟨rfl, hpos, _, _, hr⟩ := hc
    have hle := Chain.le hr
    have h1 : IdOut path (pushLeaf inp path out (o, l, n)) := by
      have := idOut_push path out (bytesOf inp o l) o h hl
      rw [bytesOf_length] at this; exact this
    have hne : (bytesOf inp o l).isEmpty = false := by
      have := bytesOf_length inp o l; cases hb : bytesOf inp o l with
      | nil => rw [hb] at this; simp at this; omega
      | cons _ _ => rfl
    have hl1 : (pushLeaf inp path out (o, l, n)).text.length = o + l := by
      simp [pushLeaf, POut.push, hne, bytesOf_length, hl]
    obtain ⟨i1, i2⟩ := ih (pushLeaf inp path out (o, l, n)) (o + l) q h1 hl1 hr
    refine ⟨by simpa [copyOut] using i1, ?_⟩
    have e : (copyOut inp path out ((o, l, n) :: xs)) = copyOut inp path (pushLeaf inp path out (o, l, n)) xs := by simp [copyOut]
    rw [e, i2]
    have : q - o = l + (q - (o + l)) := by omega
    rw [this, sliceBytes_add']
    have hne' : ¬ (sliceBytes inp o l = []) := by
      intro hh; have := bytesOf_length inp o l; rw [bytesOf, hh] at this; simp at this; omega
    simp [pushLeaf, POut.push, bytesOf, hne', List.append_assoc]

theorem idOut_origin (path : Bytes) (t : POut) (h : IdOut path t) (pos : Nat) (hp : pos < t.text.length) :
    t.origin pos = some (path, pos) := by
  obtain ⟨k, v, hm, h1, h2, h3⟩ := origin_tiled t h.1 pos hp
  rw [h3, h.2 (k, v) hm]
  simp; omega

/-- executable version of `PlainSD` (used by the driver to test the hypothesis of `C06_identity` on real parse trees) -/
def plainSDb (K : PpKinds) : Tree → Bool
  | .node k [.node ck [.leaf _ _ _]] =>
    (k % 2048 == K.sourceDescription && k != K.sdStringLiteral && k != K.sdEscapedIdentifier && (ck == K.sdNotDirective || ck == K.comment)) ||
    ((k == K.sdStringLiteral || k == K.sdEscapedIdentifier) && (ck == K.stringLiteral || ck == K.escapedIdentifier))
  | _ => false

theorem plainSDb_sound (K : PpKinds) (t : Tree) (h : plainSDb K t = true) : PlainSD K t := by
  unfold plainSDb at h
  split at h
  · rename_i k ck o l n
    simp only [Bool.or_eq_true, Bool.and_eq_true, beq_iff_eq, bne_iff_ne, ne_eq] at h
    rcases h with ⟨⟨⟨hm, h1⟩, h2⟩, rfl | rfl⟩ | ⟨hk, hck⟩
    · exact PlainSD.nd k o l n hm h1 h2
    · exact PlainSD.cm k o l n hm h1 h2
    · exact PlainSD.sl k ck o l n hk hck
  · cases h

/-- the whole-tree hypothesis of `C06_identity`, executable -/
def plainTreeb (K : PpKinds) (ts : List Tree) : Bool :=
  match ts with
  | [.node kpp sds] => inert K (.node kpp sds) && sds.all (plainSDb K)
  | _ => false


/-! ### skipped subtrees (C04: dead branches have no effect) -/


def evNode : Event → Tree
  | .enter x => x
  | .leave x => x

/-- while skipping, events whose node is not on the skip list change nothing -/
theorem walk_skipping (C : Cfg) (inp : Input) (s path : Bytes) (ii sc : Bool) (rd id : Nat) (evs : List Event) :
    ∀ (es : List Event) (fuel : Nat) (w : WState), w.skip = true → (∀ e ∈ es, w.skipNodes.contains (evNode e) = false) →
      walk C (fuel + es.length) inp s path ii sc rd id (es ++ evs) w = walk C fuel inp s path ii sc rd id evs w := by
  intro es
  induction es with
  | nil => intro fuel w _ _; rfl
  | cons e es ih =>
    intro fuel w hs hn
    have he : w.skipNodes.contains (evNode e) = false := hn e (by simp)
    have e1 : fuel + (e :: es).length = (fuel + es.length) + 1 := by simp [List.length_cons]; omega
    rw [e1, List.cons_append]
    conv => lhs; unfold walk
    have hstep : skipStep w e = w := by
      unfold skipStep; cases e <;> simp [evNode] at he <;> simp [he]
    simp only [hstep, hs, if_true]
    exact ih fuel w hs (fun e' he' => hn e' (by simp [he']))

theorem evNode_mem_preL : ∀ (ts : List Tree) (e : Event), e ∈ eventsL ts → evNode e ∈ preL ts := by
  intro ts
  -- mutual structural fact, proved by well-founded induction on the size of the forest
  induction h : sizeL ts using Nat.strongRecOn generalizing ts with
  | _ n ih =>
    intro e he
    match ts with
    | [] => simp [eventsL] at he
    | t :: rest =>
      simp only [eventsL, List.mem_append] at he
      simp only [preL, List.mem_append]
      rcases he with he | he
      · left
        match t with
        | .leaf o l k => simp [events] at he; rcases he with rfl | rfl <;> simp [evNode, pre]
        | .node k ks =>
          simp only [events, List.mem_cons, List.mem_append, List.mem_singleton] at he
          rcases he with rfl | he | he
          · simp [evNode, pre]
          · have : sizeL ks < n := by subst h; simp [sizeL, size]; omega
            have := ih (sizeL ks) this ks rfl e he
            simp [pre, this]
          · simp at he; subst he; simp [evNode, pre]
      · right
        have : sizeL rest < n := by subst h; simp only [sizeL]; have := size_pos t; omega
        exact ih (sizeL rest) this rest rfl e he

/-- **a subtree on the skip list has no effect, whatever it contains** (defines, undefs, includes, macro usages, nested
    conditionals, unknown macros …): walking all its events returns the walker to exactly the state it was in — no output, no change
    of the define table, no error — provided no proper descendant is itself on the skip list and the node's own kind triggers no
    bookkeeping on `Leave` (true of the nodes the conditional arms put on the list) -/
theorem walk_skip_subtree (C : Cfg) (inp : Input) (s path : Bytes) (ii sc : Bool) (rd id : Nat) (evs : List Event)
    (t : Tree) (w : WState) (fuel : Nat) (hs : w.skip = false) (ht : w.skipNodes.contains t = true)
    (hd : ∀ d ∈ preL t.kids, w.skipNodes.contains d = false) (hik : inertKind C.K t.baseKind = true) :
    walk C (fuel + (events t).length) inp s path ii sc rd id (events t ++ evs) w = walk C fuel inp s path ii sc rd id evs w := by
  have hev : events t = .enter t :: (eventsL t.kids ++ [.leave t]) := by
    cases t with
    | leaf o l n => simp [events, Tree.kids, eventsL]
    | node k ks => simp [events, Tree.kids]
  rw [hev]
  have e1 : fuel + (Event.enter t :: (eventsL t.kids ++ [Event.leave t])).length = ((fuel + 1) + (eventsL t.kids).length) + 1 := by
    simp [List.length_cons, List.length_append]; omega
  rw [e1, List.cons_append, List.append_assoc]
  conv => lhs; unfold walk
  simp only [skipStep, ht, if_true]
  rw [walk_skipping C inp s path ii sc rd id ([Event.leave t] ++ evs) (eventsL t.kids) (fuel + 1) { w with skip := true } rfl
    (fun e he => hd _ (evNode_mem_preL _ e he))]
  simp only [List.singleton_append]
  conv => lhs; unfold walk
  simp only [inertKind, activeBase, List.cons_append, List.nil_append, List.contains_cons, Bool.not_or, Bool.and_eq_true,
    bne_iff_ne, ne_eq, Bool.not_eq_eq_eq_not, Bool.not_true] at hik
  simp only [skipStep, ht, if_true, lineStep, leaveStep, hik, Bool.false_eq_true, if_false, Bool.or_self]
  congr 1
  cases w; simp_all


/-! ### both values of strip_comments on plain trees (C18) -/


/-- a `Comment` node (one token): copied, or with strip_comments replaced by one separator byte -/
theorem walk_enter_cm' (C : Cfg) (fuel : Nat) (inp : Input) (s path : Bytes) (ii sc : Bool) (rd id : Nat) (evs : List Event)
    (w : WState) (o l n : Nat) (hK : KindsOK C.K) (hq : Quiet w) :
    walk C (fuel + 1) inp s path ii sc rd id (.enter (.node C.K.comment [.leaf o l n]) :: evs) w =
      walk C fuel inp s path ii sc rd id evs { w with out := w.out.push (commentEmit sc (bytesOf inp o l)) (some (path, ⟨o, o + l⟩)) } := by
  obtain ⟨h1, h2, h3, h4⟩ := hq
  have hlt : C.K.comment % 2048 = C.K.comment := Nat.mod_eq_of_lt hK.cm_lt
  have k1 : (C.K.comment == C.K.sdStringLiteral) = false := by
    have := hK.ss_ge; have := hK.cm_lt; simp; omega
  have k2 : (C.K.comment == C.K.sdEscapedIdentifier) = false := by
    have := hK.se_ge; have := hK.cm_lt; simp; omega
  conv => lhs; unfold walk
  simp only [skipStep, h3, List.contains_nil, h1, h4, lineStep, enterStep, armComment, baseKind_node, kind_node, hlt, locOf_single,
    beq_self_eq_true, Bool.false_eq_true, if_false, if_true, hK.cm_nd, hK.cm_cd, hK.cm_kept, hK.cm_undef, hK.cm_undefall, hK.cm_ifdef,
    hK.cm_ifndef, hK.cm_ws, k1, k2, Bool.or_self]

/-- what one plain source description contributes to the output -/
def emitSD (K : PpKinds) (sc : Bool) (inp : Input) (path : Bytes) (out : POut) (t : Tree) : POut :=
  match t with
  | .node _ [.node ck [.leaf o l _]] =>
    out.push (if ck == K.comment then commentEmit sc (bytesOf inp o l) else bytesOf inp o l) (some (path, ⟨o, o + l⟩))
  | _ => out

def emitAll (K : PpKinds) (sc : Bool) (inp : Input) (path : Bytes) (out : POut) (sds : List Tree) : POut :=
  sds.foldl (emitSD K sc inp path) out

theorem walk_plainSD' (C : Cfg) (hK : KindsOK C.K) (hne : C.K.comment ≠ C.K.sdNotDirective) (hsl : C.K.comment ≠ C.K.stringLiteral)
    (hei : C.K.comment ≠ C.K.escapedIdentifier)
    (fuel : Nat) (inp : Input) (s path : Bytes) (ii sc : Bool) (rd id : Nat)
    (evs : List Event) (w : WState) (t : Tree) (ht : PlainSD C.K t) (hq : Quiet w) :
    ∃ li, walk C (fuel + 6) inp s path ii sc rd id (events t ++ evs) w =
      walk C fuel inp s path ii sc rd id evs { w with out := emitSD C.K sc inp path w.out t, lastItemLine := li } := by
  cases ht with
  | nd k o l n hm h1 h2 =>
    have hik : inertKind C.K (Tree.node k [.node C.K.sdNotDirective [.leaf o l n]]).baseKind = true := by
      rw [baseKind_node, hm]; exact hK.sd_inert
    have hi : inert C.K (.node k [.node C.K.sdNotDirective [.leaf o l n]]) = true := inert_mk _ _ hik h1 h2
    have hc : (C.K.sdNotDirective == C.K.comment) = false := by simp; exact fun h => hne h.symm
    simp only [events, eventsL, List.append_nil, List.cons_append, List.nil_append, List.append_assoc, emitSD, hc, Bool.false_eq_true, if_false]
    rw [walk_enter_inert C _ inp s path ii sc rd id _ w _ hi hq]
    rw [walk_enter_nd C _ inp s path ii sc rd id _ w o l n hK hq]
    have hq1 := quiet_out hq (w.out.push (bytesOf inp o l) (some (path, ⟨o, o + l⟩))) w.lastItemLine
    rw [walk_enter_inert C _ inp s path ii sc rd id _ _ _ (inert_leaf C.K hK o l n) hq1]
    rw [walk_leave_inertK C _ inp s path ii sc rd id _ _ _ (inertK_leaf C.K hK o l n) hq1]
    obtain ⟨li, hli⟩ := walk_leave_nd C (fuel + 1) inp s path ii sc rd id (Event.leave (Tree.node k [.node C.K.sdNotDirective [.leaf o l n]]) :: evs) _ o l n hK hq1
    rw [hli]
    refine ⟨li, ?_⟩
    rw [walk_leave_inertK C _ inp s path ii sc rd id _ _ _ hik (quiet_out hq _ li)]
  | cm k o l n hm h1 h2 =>
    have hik : inertKind C.K (Tree.node k [.node C.K.comment [.leaf o l n]]).baseKind = true := by
      rw [baseKind_node, hm]; exact hK.sd_inert
    have hi : inert C.K (.node k [.node C.K.comment [.leaf o l n]]) = true := inert_mk _ _ hik h1 h2
    simp only [events, eventsL, List.append_nil, List.cons_append, List.nil_append, List.append_assoc, emitSD, beq_self_eq_true, if_true]
    rw [walk_enter_inert C _ inp s path ii sc rd id _ w _ hi hq]
    rw [walk_enter_cm' C _ inp s path ii sc rd id _ w o l n hK hq]
    have hq1 := quiet_out hq (w.out.push (commentEmit sc (bytesOf inp o l)) (some (path, ⟨o, o + l⟩))) w.lastItemLine
    rw [walk_enter_inert C _ inp s path ii sc rd id _ _ _ (inert_leaf C.K hK o l n) hq1]
    rw [walk_leave_inertK C _ inp s path ii sc rd id _ _ _ (inertK_leaf C.K hK o l n) hq1]
    rw [walk_leave_cm C _ inp s path ii sc rd id _ _ _ hK hq1]
    rw [walk_leave_inertK C _ inp s path ii sc rd id _ _ _ hik hq1]
    exact ⟨w.lastItemLine, rfl⟩
  | sl k ck o l n hk hck =>
    have hm : k % 2048 = C.K.sourceDescription := by rcases hk with rfl | rfl; exact hK.ss_mod; exact hK.se_mod
    have hik : inertKind C.K (Tree.node k [.node ck [.leaf o l n]]).baseKind = true := by
      rw [baseKind_node, hm]; exact hK.sd_inert
    have hcl : ck < 2048 := by rcases hck with rfl | rfl; exact hK.sl_lt; exact hK.ei_lt
    have hcm : ck % 2048 = ck := Nat.mod_eq_of_lt hcl
    have hcik : inertKind C.K (Tree.node ck [.leaf o l n]).baseKind = true := by
      rw [baseKind_node, hcm]; rcases hck with rfl | rfl; exact hK.sl_inert; exact hK.ei_inert
    have hci : inert C.K (.node ck [.leaf o l n]) = true :=
      inert_mk _ _ hcik (by have := hK.ss_ge; rw [kind_node]; omega) (by have := hK.se_ge; rw [kind_node]; omega)
    have hc : (ck == C.K.comment) = false := by
      simp; rcases hck with rfl | rfl; exact fun h => hsl h.symm; exact fun h => hei h.symm
    simp only [events, eventsL, List.append_nil, List.cons_append, List.nil_append, List.append_assoc, emitSD, hc, Bool.false_eq_true, if_false]
    rw [walk_enter_sl C _ inp s path ii sc rd id _ w k ck o l n hk hK hq]
    have hq1 := quiet_out hq (w.out.push (bytesOf inp o l) (some (path, ⟨o, o + l⟩))) w.lastItemLine
    rw [walk_enter_inert C _ inp s path ii sc rd id _ _ _ hci hq1]
    rw [walk_enter_inert C _ inp s path ii sc rd id _ _ _ (inert_leaf C.K hK o l n) hq1]
    rw [walk_leave_inertK C _ inp s path ii sc rd id _ _ _ (inertK_leaf C.K hK o l n) hq1]
    rw [walk_leave_inertK C _ inp s path ii sc rd id _ _ _ hcik hq1]
    rw [walk_leave_inertK C _ inp s path ii sc rd id _ _ _ hik hq1]
    exact ⟨w.lastItemLine, rfl⟩

theorem walk_plainL' (C : Cfg) (hK : KindsOK C.K) (hne : C.K.comment ≠ C.K.sdNotDirective) (hsl : C.K.comment ≠ C.K.stringLiteral)
    (hei : C.K.comment ≠ C.K.escapedIdentifier) (fuel : Nat) (inp : Input) (s path : Bytes) (ii sc : Bool) (rd id : Nat)
    (evs : List Event) : ∀ (sds : List Tree) (w : WState), (∀ t ∈ sds, PlainSD C.K t) → Quiet w →
    ∃ li, walk C (fuel + 6 * sds.length) inp s path ii sc rd id (eventsL sds ++ evs) w =
      walk C fuel inp s path ii sc rd id evs { w with out := emitAll C.K sc inp path w.out sds, lastItemLine := li } := by
  intro sds
  induction sds with
  | nil => intro w _ _; exact ⟨w.lastItemLine, by simp [eventsL, emitAll]⟩
  | cons t ts ih =>
    intro w hp hq
    have e1 : fuel + 6 * (t :: ts).length = (fuel + 6 * ts.length) + 6 := by simp [List.length_cons]; omega
    obtain ⟨li, h1⟩ := walk_plainSD' C hK hne hsl hei (fuel + 6 * ts.length) inp s path ii sc rd id (eventsL ts ++ evs) w t (hp t (by simp)) hq
    obtain ⟨li2, h2⟩ := ih { w with out := emitSD C.K sc inp path w.out t, lastItemLine := li }
      (fun t' ht' => hp t' (by simp [ht'])) (quiet_out hq _ li)
    refine ⟨li2, ?_⟩
    rw [e1]
    simp only [eventsL, List.append_assoc]
    rw [h1, h2]
    simp only [emitAll, List.foldl_cons]

/-- **strip_comments removes comments and nothing else (directive-free, D4-free trees).** For either value of the flag the event loop
    returns `emitAll`: every non-comment token verbatim and in order, every comment verbatim (flag off) or replaced by exactly one
    separator byte (flag on); the define table is untouched -/
theorem walk_plain_tree' (C : Cfg) (hK : KindsOK C.K) (hne : C.K.comment ≠ C.K.sdNotDirective) (hsl : C.K.comment ≠ C.K.stringLiteral)
    (hei : C.K.comment ≠ C.K.escapedIdentifier) (f : Nat) (inp : Input) (s path : Bytes) (ii sc : Bool) (rd id : Nat)
    (kpp : Nat) (sds : List Tree) (hpp : inert C.K (.node kpp sds) = true) (hp : ∀ t ∈ sds, PlainSD C.K t) (w : WState) (hq : Quiet w) :
    walk C (f + 6 * sds.length + 3) inp s path ii sc rd id (eventsL [.node kpp sds]) w =
      .ok (emitAll C.K sc inp path w.out sds, w.defines) := by
  have hik : inertKind C.K (Tree.node kpp sds).baseKind = true := by
    unfold inert at hpp; unfold inertKind; simp only [Bool.and_eq_true] at hpp; exact hpp.1.1
  simp only [eventsL, events, List.append_nil]
  have e1 : f + 6 * sds.length + 3 = ((f + 2) + 6 * sds.length) + 1 := by omega
  rw [e1, walk_enter_inert C _ inp s path ii sc rd id _ w _ hpp hq]
  obtain ⟨li, h1⟩ := walk_plainL' C hK hne hsl hei (f + 2) inp s path ii sc rd id [Event.leave (Tree.node kpp sds)] sds w hp hq
  rw [h1]
  rw [walk_leave_inertK C _ inp s path ii sc rd id _ _ _ hik (quiet_out hq _ li)]
  simp [walk]

/-- the two runs differ only in what they emit for comment nodes -/
theorem emitSD_noncomment (K : PpKinds) (inp : Input) (path : Bytes) (out : POut) (k ck o l n : Nat) (h : ck ≠ K.comment) :
    emitSD K true inp path out (.node k [.node ck [.leaf o l n]]) = emitSD K false inp path out (.node k [.node ck [.leaf o l n]]) := by
  have : (ck == K.comment) = false := by simpa using h
  simp [emitSD, this]

theorem emitSD_comment (K : PpKinds) (inp : Input) (path : Bytes) (out : POut) (k o l n : Nat) :
    emitSD K true inp path out (.node k [.node K.comment [.leaf o l n]]) =
      out.push (if (bytesOf inp o l).getLast? == some 10 then [10] else [32]) (some (path, ⟨o, o + l⟩)) := by
  simp [emitSD, commentEmit]

/-! ### the define table is not touched by skip-list and push bookkeeping -/


theorem skipPush_defines (w : WState) (t : Tree) : (w.skipPush t).defines = w.defines := by
  unfold WState.skipPush; split <;> rfl

theorem skipPushAll_defines (w : WState) (ts : List Tree) : (skipPushAll w ts).defines = w.defines := by
  unfold skipPushAll
  induction ts generalizing w with
  | nil => rfl
  | cons t ts ih => rw [List.foldl_cons, ih, skipPush_defines]


theorem foldl_pushLoc_defines (inp : Input) (path : Bytes) (ts : List Tree) (w : WState) :
    (ts.foldl (pushLoc inp path) w).defines = w.defines := by
  induction ts generalizing w with
  | nil => rfl
  | cons t ts ih => rw [List.foldl_cons, ih]; unfold pushLoc; split <;> rfl


end Sv

import SvModel.Core.Peg
/-!
# Fuel is only a termination device for the PEG evaluator

`evalFuelSucc`: if a call of any of the nine mutually recursive evaluator functions with fuel `n` returns anything but `oof`, the call with fuel
`n + 1` returns exactly the same outcome and the same thread state (memo table included). By induction: every larger fuel.
-/
namespace Sv

def NotOof (p : Out × PState) : Prop := p.1 ≠ .oof

@[simp] theorem notOof_ok (q : Nat) (r : Rec) (ts : List Tree) (st : PState) : NotOof (.ok q r ts, st) := by simp [NotOof]
@[simp] theorem notOof_err (ep : Nat) (st : PState) : NotOof (.err ep, st) := by simp [NotOof]
@[simp] theorem notOof_oof (st : PState) : ¬ NotOof (.oof, st) := by simp [NotOof]

structure Stable (g : Grammar) (inp : Input) (n : Nat) : Prop where
  eval : ∀ e pos r st, NotOof (eval g inp n e pos r st) → eval g inp (n + 1) e pos r st = eval g inp n e pos r st
  seq : ∀ es pos r st, NotOof (evalSeq g inp n es pos r st) → evalSeq g inp (n + 1) es pos r st = evalSeq g inp n es pos r st
  alt : ∀ es pos r st best, NotOof (evalAlt g inp n es pos r st best) → evalAlt g inp (n + 1) es pos r st best = evalAlt g inp n es pos r st best
  many0 : ∀ e pos r st, NotOof (evalMany0 g inp n e pos r st) → evalMany0 g inp (n + 1) e pos r st = evalMany0 g inp n e pos r st
  manyTill : ∀ e t pos r st, NotOof (evalManyTill g inp n e t pos r st) → evalManyTill g inp (n + 1) e t pos r st = evalManyTill g inp n e t pos r st
  list : ∀ sep item pos r st, NotOof (evalList g inp n sep item pos r st) → evalList g inp (n + 1) sep item pos r st = evalList g inp n sep item pos r st
  nest : ∀ item wraps outer pos r st acc, NotOof (evalNest g inp n item wraps outer pos r st acc) →
    evalNest g inp (n + 1) item wraps outer pos r st acc = evalNest g inp n item wraps outer pos r st acc
  stmts : ∀ ss pos r st, NotOof (evalStmts g inp n ss pos r st).1 → evalStmts g inp (n + 1) ss pos r st = evalStmts g inp n ss pos r st
  call : ∀ f pos r st, NotOof (evalCall g inp n f pos r st) → evalCall g inp (n + 1) f pos r st = evalCall g inp n f pos r st

/-- case-split the inner call `c` (made with fuel `n`): the `oof` case contradicts `h`; in the other two the call with fuel `n + 1` is rewritten
    to the same value by the induction hypothesis `ihc` and both sides are reduced. Leaves the `ok` goal and the `err` goal. -/
macro "descend " c:term " by " ihc:term " at " h:ident : tactic => `(tactic|
  (have e := $ihc
   generalize $c = p at $h:ident e ⊢
   rcases p with ⟨o, st'⟩
   cases o <;> first
     | (dsimp only at $h:ident; exact absurd $h (notOof_oof _))
     | (rw [e (by simp)]; done)
     | (rw [e (by simp)]; clear e; try dsimp only at $h:ident ⊢)))

theorem stable_zero (g : Grammar) (inp : Input) : Stable g inp 0 := by
  refine ⟨?_, ?_, ?_, ?_, ?_, ?_, ?_, ?_, ?_⟩ <;> intros <;> rename_i h <;>
    simp [eval, evalSeq, evalAlt, evalMany0, evalManyTill, evalList, evalNest, evalStmts, evalCall, NotOof] at h

theorem stable_eval_succ (g : Grammar) (inp : Input) (n : Nat) (ih : Stable g inp n) :
    ∀ e pos r st, NotOof (eval g inp (n + 1) e pos r st) → eval g inp (n + 1 + 1) e pos r st = eval g inp (n + 1) e pos r st := by
  intro e pos r st h
  cases e with
  | term t => simp only [eval]
  | eof => simp only [eval]
  | call f => simp only [eval] at h ⊢; exact ih.call f pos r st h
  | seq es => simp only [eval] at h ⊢; exact ih.seq es pos r st h
  | alt es => simp only [eval] at h ⊢; exact ih.alt es pos r st none h
  | opt e =>
    rw [eval] at h; conv => lhs; rw [eval]
    conv => rhs; rw [eval]
    descend (eval g inp n e pos r st) by (ih.eval e pos r st) at h
  | many0 e => simp only [eval] at h ⊢; exact ih.many0 e pos r st h
  | many1 e =>
    rw [eval] at h; conv => lhs; rw [eval]
    conv => rhs; rw [eval]
    descend (eval g inp n e pos r st) by (ih.eval e pos r st) at h
    rename_i st' q r' ts
    descend (evalMany0 g inp n e q r' st') by (ih.many0 e q r' st') at h
  | manyTill e t => simp only [eval] at h ⊢; exact ih.manyTill e t pos r st h
  | list sep item =>
    rw [eval] at h; conv => lhs; rw [eval]
    conv => rhs; rw [eval]
    descend (eval g inp n item pos r st) by (ih.eval item pos r st) at h
    rename_i st' q r' ts
    descend (evalList g inp n sep item q r' st') by (ih.list sep item q r' st') at h
  | peek e =>
    rw [eval] at h; conv => lhs; rw [eval]
    conv => rhs; rw [eval]
    descend (eval g inp n e pos r st) by (ih.eval e pos r st) at h
  | not e =>
    rw [eval] at h; conv => lhs; rw [eval]
    conv => rhs; rw [eval]
    descend (eval g inp n e pos r st) by (ih.eval e pos r st) at h
  | drop e =>
    rw [eval] at h; conv => lhs; rw [eval]
    conv => rhs; rw [eval]
    descend (eval g inp n e pos r st) by (ih.eval e pos r st) at h
  | allConsuming e =>
    rw [eval] at h; conv => lhs; rw [eval]
    conv => rhs; rw [eval]
    descend (eval g inp n e pos r st) by (ih.eval e pos r st) at h
  | node k e =>
    rw [eval] at h; conv => lhs; rw [eval]
    conv => rhs; rw [eval]
    descend (eval g inp n e pos r st) by (ih.eval e pos r st) at h
  | lexeme e =>
    rw [eval] at h; conv => lhs; rw [eval]
    conv => rhs; rw [eval]
    descend (eval g inp n e pos r st) by (ih.eval e pos r st) at h
  | identKw e =>
    rw [eval] at h; conv => lhs; rw [eval]
    conv => rhs; rw [eval]
    descend (eval g inp n e pos r st) by (ih.eval e pos r st) at h
  | beginDir => simp only [eval]
  | endDir => simp only [eval]
  | beginKw v => simp only [eval]
  | endKw => simp only [eval]
  | dirScope e =>
    rw [eval] at h; conv => lhs; rw [eval]
    conv => rhs; rw [eval]
    descend (eval g inp n e pos r { st with dir := st.dir + 1 }) by (ih.eval e pos r { st with dir := st.dir + 1 }) at h
  | kwScope v e =>
    rw [eval] at h; conv => lhs; rw [eval]
    conv => rhs; rw [eval]
    descend (eval g inp n e pos r { st with vers := v :: st.vers }) by (ih.eval e pos r { st with vers := v :: st.vers }) at h
  | kwGuard w => simp only [eval]
  | ifDir a b =>
    rw [eval] at h; conv => lhs; rw [eval]
    conv => rhs; rw [eval]
    split
    · rename_i hd; simp only [hd, if_true] at h; exact ih.eval a pos r st h
    · rename_i hd; simp only [hd, if_false] at h; exact ih.eval b pos r st h
  | nestl first item wraps outer =>
    rw [eval] at h; conv => lhs; rw [eval]
    conv => rhs; rw [eval]
    descend (eval g inp n first pos r st) by (ih.eval first pos r st) at h
    rename_i st' q r' ts
    exact ih.nest item wraps outer q r' st' ts h
  | shaped stmts res =>
    rw [eval] at h; conv => lhs; rw [eval]
    conv => rhs; rw [eval]
    have e := ih.stmts stmts pos r st
    generalize evalStmts g inp n stmts pos r st = p at h e ⊢
    rcases p with ⟨⟨o, st'⟩, env⟩
    cases o <;> first
      | (dsimp only at h; exact absurd h (notOof_oof _))
      | rw [e (by simp)]
  | fail => simp only [eval]


theorem stable_seq_succ (g : Grammar) (inp : Input) (n : Nat) (ih : Stable g inp n) :
    ∀ es pos r st, NotOof (evalSeq g inp (n + 1) es pos r st) → evalSeq g inp (n + 1 + 1) es pos r st = evalSeq g inp (n + 1) es pos r st := by
  intro es pos r st h
  cases es with
  | nil => simp only [evalSeq]
  | cons e es =>
    rw [evalSeq] at h; conv => lhs; rw [evalSeq]
    conv => rhs; rw [evalSeq]
    descend (eval g inp n e pos r st) by (ih.eval e pos r st) at h
    rename_i st' q r' ts
    descend (evalSeq g inp n es q r' st') by (ih.seq es q r' st') at h

theorem stable_alt_succ (g : Grammar) (inp : Input) (n : Nat) (ih : Stable g inp n) :
    ∀ es pos r st best, NotOof (evalAlt g inp (n + 1) es pos r st best) →
      evalAlt g inp (n + 1 + 1) es pos r st best = evalAlt g inp (n + 1) es pos r st best := by
  intro es pos r st best h
  cases es with
  | nil => simp only [evalAlt]
  | cons e es =>
    rw [evalAlt] at h; conv => lhs; rw [evalAlt]
    conv => rhs; rw [evalAlt]
    descend (eval g inp n e pos r st) by (ih.eval e pos r st) at h
    rename_i st' ep
    exact ih.alt es pos r st' _ h

theorem stable_many0_succ (g : Grammar) (inp : Input) (n : Nat) (ih : Stable g inp n) :
    ∀ e pos r st, NotOof (evalMany0 g inp (n + 1) e pos r st) → evalMany0 g inp (n + 1 + 1) e pos r st = evalMany0 g inp (n + 1) e pos r st := by
  intro e pos r st h
  rw [evalMany0] at h; conv => lhs; rw [evalMany0]
  conv => rhs; rw [evalMany0]
  descend (eval g inp n e pos r st) by (ih.eval e pos r st) at h
  rename_i st' q r' ts
  split
  · rfl
  · rename_i hq
    simp only [hq, if_false] at h
    descend (evalMany0 g inp n e q r' st') by (ih.many0 e q r' st') at h

theorem stable_manyTill_succ (g : Grammar) (inp : Input) (n : Nat) (ih : Stable g inp n) :
    ∀ e t pos r st, NotOof (evalManyTill g inp (n + 1) e t pos r st) →
      evalManyTill g inp (n + 1 + 1) e t pos r st = evalManyTill g inp (n + 1) e t pos r st := by
  intro e t pos r st h
  rw [evalManyTill] at h; conv => lhs; rw [evalManyTill]
  conv => rhs; rw [evalManyTill]
  descend (eval g inp n t pos r st) by (ih.eval t pos r st) at h
  rename_i st' ep
  descend (eval g inp n e pos r st') by (ih.eval e pos r st') at h
  rename_i st'' q r' ts
  split
  · rfl
  · rename_i hq
    simp only [hq, if_false] at h
    descend (evalManyTill g inp n e t q r' st'') by (ih.manyTill e t q r' st'') at h

theorem stable_list_succ (g : Grammar) (inp : Input) (n : Nat) (ih : Stable g inp n) :
    ∀ sep item pos r st, NotOof (evalList g inp (n + 1) sep item pos r st) →
      evalList g inp (n + 1 + 1) sep item pos r st = evalList g inp (n + 1) sep item pos r st := by
  intro sep item pos r st h
  rw [evalList] at h; conv => lhs; rw [evalList]
  conv => rhs; rw [evalList]
  descend (eval g inp n sep pos r st) by (ih.eval sep pos r st) at h
  rename_i st' q r' ts
  descend (eval g inp n item q r' st') by (ih.eval item q r' st') at h
  rename_i st2 q2 r2 ts2
  descend (evalList g inp n sep item q2 r2 st2) by (ih.list sep item q2 r2 st2) at h

theorem stable_nest_succ (g : Grammar) (inp : Input) (n : Nat) (ih : Stable g inp n) :
    ∀ item wraps outer pos r st acc, NotOof (evalNest g inp (n + 1) item wraps outer pos r st acc) →
      evalNest g inp (n + 1 + 1) item wraps outer pos r st acc = evalNest g inp (n + 1) item wraps outer pos r st acc := by
  intro item wraps outer pos r st acc h
  rw [evalNest] at h; conv => lhs; rw [evalNest]
  conv => rhs; rw [evalNest]
  descend (eval g inp n item pos r st) by (ih.eval item pos r st) at h
  rename_i st' q r' ts
  split
  · rfl
  · rename_i hq
    simp only [hq, if_false] at h
    exact ih.nest item wraps outer q r' st' _ h

theorem stable_stmts_succ (g : Grammar) (inp : Input) (n : Nat) (ih : Stable g inp n) :
    ∀ ss pos r st, NotOof (evalStmts g inp (n + 1) ss pos r st).1 → evalStmts g inp (n + 1 + 1) ss pos r st = evalStmts g inp (n + 1) ss pos r st := by
  intro ss pos r st h
  cases ss with
  | nil => simp only [evalStmts]
  | cons e es =>
    rw [evalStmts] at h; conv => lhs; rw [evalStmts]
    conv => rhs; rw [evalStmts]
    descend (eval g inp n e pos r st) by (ih.eval e pos r st) at h
    rename_i st' q r' ts
    have e2 := ih.stmts es q r' st'
    generalize evalStmts g inp n es q r' st' = p at h e2 ⊢
    rcases p with ⟨x, env⟩
    dsimp only at h ⊢
    rw [e2 h]

theorem stable_call_succ (g : Grammar) (inp : Input) (n : Nat) (ih : Stable g inp n) :
    ∀ f pos r st, NotOof (evalCall g inp (n + 1) f pos r st) → evalCall g inp (n + 1 + 1) f pos r st = evalCall g inp (n + 1) f pos r st := by
  intro f pos r st h
  rw [evalCall] at h; conv => lhs; rw [evalCall]
  conv => rhs; rw [evalCall]
  dsimp only at h ⊢
  split
  · rfl
  · rfl
  · rename_i hhit
    simp only [hhit] at h
    -- the body run (with or without the recursion guard)
    have hrun : ∀ (r1 : Rec), NotOof (eval g inp n (g.prod f).body pos r1 st) →
        eval g inp (n + 1) (g.prod f).body pos r1 st = eval g inp n (g.prod f).body pos r1 st := fun r1 => ih.eval _ pos r1 st
    cases hp : (g.prod f).packrat <;> cases hr : (g.prod f).recursive <;>
      simp only [hp, hr, Bool.false_eq_true, if_false, if_true] at h ⊢
    · exact hrun r h
    · generalize (if r.ptr = some pos then r else ({ flags := [], ptr := some pos } : Rec)) = r1 at h ⊢
      by_cases hc : r1.flags.contains f = true
      · simp only [hc, if_true]
      · simp only [hc, Bool.false_eq_true, if_false] at h ⊢
        exact hrun _ h
    · descend (eval g inp n (g.prod f).body pos r st) by (hrun r) at h
    · generalize (if r.ptr = some pos then r else ({ flags := [], ptr := some pos } : Rec)) = r1 at h ⊢
      by_cases hc : r1.flags.contains f = true
      · simp only [hc, if_true]
      · simp only [hc, Bool.false_eq_true, if_false] at h ⊢
        descend (eval g inp n (g.prod f).body pos { flags := f :: r1.flags, ptr := r1.ptr } st) by (hrun { flags := f :: r1.flags, ptr := r1.ptr }) at h

/-- **one more unit of fuel never changes a definite outcome**, for all nine evaluator functions, every grammar, input, position, recursion
    record and thread state -/
theorem stable_all (g : Grammar) (inp : Input) : ∀ n, Stable g inp n := by
  intro n
  induction n with
  | zero => exact stable_zero g inp
  | succ n ih =>
    exact ⟨stable_eval_succ g inp n ih, stable_seq_succ g inp n ih, stable_alt_succ g inp n ih, stable_many0_succ g inp n ih,
      stable_manyTill_succ g inp n ih, stable_list_succ g inp n ih, stable_nest_succ g inp n ih, stable_stmts_succ g inp n ih,
      stable_call_succ g inp n ih⟩

/-- **the outcome of a parse does not depend on the fuel**: a definite outcome with fuel `n` is the outcome, and the thread state left behind,
    with every fuel `m ≥ n` -/
theorem eval_fuel_mono (g : Grammar) (inp : Input) (n m : Nat) (hnm : n ≤ m) (e : PExpr) (pos : Nat) (r : Rec) (st : PState)
    (h : NotOof (eval g inp n e pos r st)) : eval g inp m e pos r st = eval g inp n e pos r st := by
  induction m with
  | zero => have : n = 0 := by omega
            subst this; rfl
  | succ k ih =>
    by_cases hk : n ≤ k
    · have e1 := ih hk
      rw [(stable_all g inp k).eval e pos r st (by rw [e1]; exact h), e1]
    · have : n = k + 1 := by omega
      subst this; rfl

end Sv

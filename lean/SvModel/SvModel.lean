import SvModel.Core.Tree
import SvModel.Core.Peg
import SvModel.Lemmas.Tree

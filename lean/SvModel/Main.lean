import SvModel.Core.Tree
import SvModel.Core.Peg
import SvModel.Gen.Grammar
import SvModel.Gen.Names
import SvModel.Lemmas.Walker
import SvModel.Lemmas.SkipChain
import SvModel.Core.Pp
import SvModel.Gen.PpKinds
/-!
Line-protocol driver for the executable models (`svmodel`). One request per line on stdin, one
canonical response per line on stdout. Used by the correspondence checks (`bin/check`).
-/
open Sv Sv.Gen

def hexVal (c : Char) : Nat :=
  if '0' ≤ c ∧ c ≤ '9' then c.toNat - 48
  else if 'a' ≤ c ∧ c ≤ 'f' then c.toNat - 87
  else if 'A' ≤ c ∧ c ≤ 'F' then c.toNat - 55 else 0

def unhex (s : String) : ByteArray := Id.run do
  let cs := s.toList.toArray
  let mut out := ByteArray.empty
  let mut i := 0
  while i + 1 < cs.size do
    out := out.push (UInt8.ofNat (hexVal cs[i]! * 16 + hexVal cs[i+1]!))
    i := i + 2
  return out

/-- FNV-1a over a stream of naturals (mod 2^64) -/
def fnvStep (h : UInt64) (x : Nat) : UInt64 := (h ^^^ (UInt64.ofNat x)) * 1099511628211

mutual
partial def skelHash (h : UInt64) : Tree → UInt64
  | .leaf o l n => fnvStep (fnvStep (fnvStep (fnvStep h 1) o) l) n
  | .node k ks => fnvStep (skelHashL (fnvStep (fnvStep h 2) (k % 2048)) ks) 3
partial def skelHashL (h : UInt64) : List Tree → UInt64
  | [] => h
  | t :: ts => skelHashL (skelHash h t) ts
end

mutual
partial def skelStr : Tree → String
  | .leaf o l n => s!"L{o},{l},{n} "
  | .node k ks => s!"({kindNames.getD (k % 2048) "?"} " ++ skelStrL ks ++ ") "
partial def skelStrL : List Tree → String
  | [] => ""
  | t :: ts => skelStr t ++ skelStrL ts
end

def startOf (s : String) : Option Nat :=
  match s with
  | "sv" => some idx_source_text
  | "svi" => some idx_source_text_incomplete
  | "lib" => some idx_library_text
  | "libi" => some idx_library_text_incomplete
  | "pp" => some idx_preprocessor_text
  | _ => none

def capOf (s : String) : Option Nat := if s == "none" then none else s.toNat?

def fuelFor (inp : ByteArray) : Nat := 4000 + 400 * inp.size

def doParse (verbose : Bool) (start cap hex : String) : String :=
  match startOf start with
  | none => "bad-start"
  | some f =>
    let inp := unhex hex
    let st0 : PState := {}
    let g : Grammar := { grammar with memoCap := capOf cap }
    -- pp entry: all_consuming(pp_parser)
    let e : PExpr := if start == "pp" then .allConsuming (.call f) else .call f
    match eval g inp (fuelFor inp) e 0 {} st0.init with
    | (.ok q _ ts, st) =>
      let h := skelHashL 14695981039346656037 ts
      let base := s!"ok {q} {(leavesL ts).length} {(preL ts).length} {h} {st.dir} {st.vers.length}"
      if verbose then base ++ " " ++ skelStrL ts else base
    | (.err e, st) => s!"err {e} {st.dir} {st.vers.length}"
    | (.oof, _) => "oof"

/-- memo table after the parse (diagnostic / correspondence of the memo traffic): entries `name:pos:dir:len|F`,
    sorted, plus the length of the FIFO key queue (= number of insertions when the capacity is unbounded) -/
def doParseM (start cap hex : String) : String :=
  match startOf start with
  | none => "bad-start"
  | some f =>
    let inp := unhex hex
    let st0 : PState := {}
    let g : Grammar := { grammar with memoCap := capOf cap }
    let e : PExpr := if start == "pp" then .allConsuming (.call f) else .call f
    let (_, st) := eval g inp (fuelFor inp) e 0 {} st0.init
    let ents := st.memo.tbl.toList.map (fun (kv : MKey × MVal) =>
      let v := match kv.2 with | some (_, l) => toString l | none => "F"
      s!"{prodNames.getD kv.1.1 "?"}:{kv.1.2.1}:{if kv.1.2.2 then 1 else 0}:{v}")
    let sorted := ents.toArray.qsort (· < ·)
    s!"{st.memo.keys.length} " ++ String.intercalate "," sorted.toList

/-- canonical hash of the memo table after a parse: entries (production, position, in-directive flag, stored length + 1 | 0)
    in lexicographic order. At a bounded capacity the surviving set depends on the exact insertion sequence (doubled
    wrappers, re-evaluations), so this is a sharp observable of the memo traffic. -/
def memoHash (m : Memo) : UInt64 :=
  let ents : Array (Nat × Nat × Nat × Nat) := m.tbl.toList.toArray.map (fun (kv : MKey × MVal) =>
    (kv.1.1, kv.1.2.1, (if kv.1.2.2 then 1 else 0), (match kv.2 with | some (_, l) => l + 1 | none => 0)))
  let lt (a b : Nat × Nat × Nat × Nat) : Bool :=
    a.1 < b.1 || (a.1 == b.1 && (a.2.1 < b.2.1 || (a.2.1 == b.2.1 && a.2.2.1 < b.2.2.1)))
  (ents.qsort lt).foldl (fun h e => fnvStep (fnvStep (fnvStep (fnvStep h e.1) e.2.1) e.2.2.1) e.2.2.2) 14695981039346656037

def doParseH (start cap hex : String) : String :=
  match startOf start with
  | none => "bad-start"
  | some f =>
    let inp := unhex hex
    let st0 : PState := {}
    let g : Grammar := { grammar with memoCap := capOf cap }
    let e : PExpr := if start == "pp" then .allConsuming (.call f) else .call f
    match eval g inp (fuelFor inp) e 0 {} st0.init with
    | (.ok q _ ts, st) =>
      s!"ok {q} {(leavesL ts).length} {(preL ts).length} {skelHashL 14695981039346656037 ts} {st.dir} {st.vers.length} m={memoHash st.memo}"
    | (.err e, st) => s!"err {e} {st.dir} {st.vers.length} m={memoHash st.memo}"
    | (.oof, _) => "oof"

/-- does the preprocessor's parse of the text have the shape assumed by `C06_identity`? (`plain` / `not-plain` / `reject`) -/
def doPlain (hex : String) : String :=
  let inp := unhex hex
  let st0 : PState := {}
  match eval grammar inp (fuelFor inp) (.allConsuming (.call idx_preprocessor_text)) 0 {} st0.init with
  | (.ok _ _ ts, _) => if plainTreeb ppKinds ts then "plain" else "not-plain"
  | (.err _, _) => "reject"
  | (.oof, _) => "oof"

/-- hypotheses of `C04_dead_subtrees_reached_clean` on the preprocessor's parse of the text: every `define / usage / position / `include node
    carries a token and every `include node has exactly one child (`good_of_checks`) -/
def doGood (hex : String) : String :=
  let inp := unhex hex
  let st0 : PState := {}
  match eval grammar inp (fuelFor inp) (.allConsuming (.call idx_preprocessor_text)) 0 {} st0.init with
  | (.ok _ _ ts, _) => if goodLeafyb ppKinds ts && goodIncb ppKinds ts then "leafy" else "not-leafy"
  | (.err _, _) => "reject"
  | (.oof, _) => "oof"

/-- insertion order of the memo keys (capacity unbounded keeps the whole queue) -/
def doParseK (start cap hex : String) : String :=
  match startOf start with
  | none => "bad-start"
  | some f =>
    let inp := unhex hex
    let st0 : PState := {}
    let g : Grammar := { grammar with memoCap := capOf cap }
    let e : PExpr := if start == "pp" then .allConsuming (.call f) else .call f
    let (_, st) := eval g inp (fuelFor inp) e 0 {} st0.init
    String.intercalate "," (st.memo.keys.map (fun (k : MKey) => s!"{prodNames.getD k.1 "?"}:{k.2.1}:{if k.2.2 then 1 else 0}"))

/-! ### C16: iterator models on a tree sent by the harness -/

/-- tokens: `N<kind>` opens a node, `)` closes it, `L<off>,<len>,<line>` is a leaf -/
def parseTree (toks : List String) : Option Tree := Id.run do
  -- stack of (kind, children so far in reverse)
  let mut stack : List (Nat × List Tree) := []
  let mut roots : List Tree := []
  for t in toks do
    if t == ")" then
      match stack with
      | (k, kids) :: rest =>
        let node := Tree.node k kids.reverse
        match rest with
        | (k2, kids2) :: rest2 => stack := (k2, node :: kids2) :: rest2
        | [] => stack := []; roots := node :: roots
      | [] => return none
    else if t.startsWith "N" then
      stack := ((t.drop 1).toString.toNat?.getD 0, []) :: stack
    else if t.startsWith "L" then
      match (t.drop 1).toString.splitOn "," with
      | [a, b, c] =>
        let leaf := Tree.leaf (a.toNat?.getD 0) (b.toNat?.getD 0) (c.toNat?.getD 0)
        match stack with
        | (k2, kids2) :: rest2 => stack := (k2, leaf :: kids2) :: rest2
        | [] => roots := leaf :: roots
      | _ => return none
    else return none
  match roots, stack with
  | [t], [] => return some t
  | _, _ => return none

def treeHash (h : UInt64) : Tree → UInt64
  | .leaf o l n => fnvStep (fnvStep (fnvStep (fnvStep h 1) o) l) n
  | .node k _ => fnvStep (fnvStep h 2) k

def evHash (h : UInt64) : Event → UInt64
  | .enter t => treeHash h t
  | .leave (.leaf ..) => fnvStep h 4
  | .leave (.node k _) => fnvStep (fnvStep h 3) k

def rangeStr : Option (Nat × Nat) → String
  | none => "none"
  | some (b, e) => s!"{b}-{e}"

def doC16 (ws : String) (toks : List String) : String :=
  match parseTree toks with
  | none => "bad-tree"
  | some t =>
    let it := iterAll [t]
    let ev := evAll [t]
    let ih := it.foldl treeHash 14695981039346656037
    let eh := ev.foldl evHash 14695981039346656037
    s!"{ih} {it.length} {eh} {ev.length} {rangeStr (getStrRange it)} {rangeStr (getStrTrimRange (ws.toNat?.getD 0) ev)}"

/-! ### preprocessor model -/

def hexOfBytes (b : Bytes) : String :=
  let hexd (n : Nat) : Char := if n < 10 then Char.ofNat (48 + n) else Char.ofNat (87 + n)
  String.ofList (b.foldr (fun x acc => hexd (x / 16) :: hexd (x % 16) :: acc) [])

def bytesOfHex (s : String) : Bytes := if s == "-" then [] else (unhex s).toList.map (·.toNat)

def splitNE (s : String) (sep : String) : List String := if s == "-" || s == "" then [] else s.splitOn sep

partial def errStr : PpError → String
  | .file p => s!"File({hexOfBytes p})"
  | .readUtf8 p => s!"ReadUtf8({hexOfBytes p})"
  | .include e => s!"Include[{errStr e}]"
  | .preprocess none => "Preprocess(None)"
  | .preprocess (some (p, o)) => s!"Preprocess({hexOfBytes p}:{o})"
  | .defineArgNotFound x => s!"DefineArgNotFound({hexOfBytes x})"
  | .defineNotFound x => s!"DefineNotFound({hexOfBytes x})"
  | .defineNoArgs x => s!"DefineNoArgs({hexOfBytes x})"
  | .exceedRecursiveLimit => "ExceedRecursiveLimit"
  | .includeLine => "IncludeLine"
  | .oof => "oof"

/-- `name:N` | `name:D:<arg[~default],…|->:<text|->` (hex fields) -/
def parseDefines (s : String) : Defines :=
  (splitNE s ";").filterMap (fun e =>
    match e.splitOn ":" with
    | [n, "N"] => some (bytesOfHex n, none)
    | [n, "D", args, text] =>
      let al := (splitNE args ",").map (fun a =>
        match a.splitOn "~" with
        | [x, d] => (bytesOfHex x, some (bytesOfHex d))
        | _ => (bytesOfHex a, none))
      let t : Option DefineText := if text == "-" then none else some { text := bytesOfHex (text.drop 1).toString, origin := none }
      some (bytesOfHex n, some { ident := bytesOfHex n, args := al, text := t })
    | _ => none)

def parseFs (s : String) : Fs :=
  (splitNE s ";").filterMap (fun e =>
    match e.splitOn "=" with
    | [p, "!"] => some (bytesOfHex p, none)
    | [p, c] => some (bytesOfHex p, some (bytesOfHex (c.drop 1).toString))
    | _ => none)

def insertSorted (x : String) : List String → List String
  | [] => [x]
  | y :: ys => if x ≤ y then x :: y :: ys else y :: insertSorted x ys

def definesStr (d : Defines) : String :=
  let items := d.map (fun (kv : Bytes × Option Define) =>
    match kv.2 with
    | none => s!"{hexOfBytes kv.1}=N"
    | some df =>
      let args := String.intercalate "," (df.args.map (fun a =>
        match a.2 with | some dd => s!"{hexOfBytes a.1}~{hexOfBytes dd}" | none => hexOfBytes a.1))
      let t := match df.text with
        | none => "-"
        | some dt =>
          let o := match dt.origin with
            | none => "-"
            | some (p, r) => s!"{hexOfBytes p}@{r.b}-{r.e}"
          s!"x{hexOfBytes dt.text}/{o}"
      s!"{hexOfBytes kv.1}=D[{hexOfBytes df.ident}]({args}){t}")
  String.intercalate ";" (items.foldl (fun acc x => insertSorted x acc) [])

/-- run-length encoded `origin(pos)` for every output position -/
def originsStr (o : POut) : String := Id.run do
  let n := o.text.length
  let mut out : List String := []
  let mut start := 0
  let mut cur : Option (Option (Bytes × Nat)) := none   -- origin at `start`
  let mut len := 0
  for pos in [0:n] do
    let og := o.origin pos
    let cont : Bool :=
      match cur, og with
      | some none, none => true
      | some (some (p, s0)), some (p2, s2) => p == p2 && s2 == s0 + len
      | _, _ => false
    if cont then len := len + 1
    else
      if let some c := cur then
        out := (match c with
          | none => s!"{start}+{len}:-"
          | some (p, s0) => s!"{start}+{len}:{hexOfBytes p}@{s0}") :: out
      start := pos; cur := some og; len := 1
  if let some c := cur then
    out := (match c with
      | none => s!"{start}+{len}:-"
      | some (p, s0) => s!"{start}+{len}:{hexOfBytes p}@{s0}") :: out
  return String.intercalate "," out.reverse

def doPp (args : List String) : String :=
  match args with
  | [strip, ignore, path, text, defs, incs, fs] =>
    let C : Cfg := { K := ppKinds, g := grammar, fs := parseFs fs, includePaths := (splitNE incs ",").map bytesOfHex }
    let r := preprocessStr C 100000000 (bytesOfHex text) (bytesOfHex path) (parseDefines defs) (ignore == "1") (strip == "1") 0 0
    match r with
    | .error e => s!"err {errStr e}"
    | .ok (o, d) => s!"ok {if o.text.isEmpty then "-" else hexOfBytes o.text} [{originsStr o}] [{definesStr d}]"
  | _ => "bad-args"

def doPpFile (args : List String) : String :=
  match args with
  | [strip, ignore, path, defs, incs, fs] =>
    let C : Cfg := { K := ppKinds, g := grammar, fs := parseFs fs, includePaths := (splitNE incs ",").map bytesOfHex }
    let r := preprocessInner C 100000000 (bytesOfHex path) (parseDefines defs) (strip == "1") (ignore == "1") 0 0
    match r with
    | .error e => s!"err {errStr e}"
    | .ok (o, d) => s!"ok {if o.text.isEmpty then "-" else hexOfBytes o.text} [{originsStr o}] [{definesStr d}]"
  | _ => "bad-args"

def doSplit (hex : String) : String :=
  String.intercalate "," ((splitText (bytesOfHex hex)).map (fun c => if c.isEmpty then "-" else hexOfBytes c))

/-! ### component-level models driven by operation sequences -/

/-- `otext` : a stack machine over `POut` — `n` new text, `p,<text>,<path|->,<b>,<e>` push onto the top, `m` merge the top into the one below -/
def doOText (ops : List String) : String :=
  let r : Option (List POut) := ops.foldl (fun (st : Option (List POut)) op =>
    match st with
    | none => none
    | some stack =>
      match op.splitOn "," with
      | ["n"] => some (({} : POut) :: stack)
      | ["m"] => (match stack with | top :: below :: rest => some (below.merge top :: rest) | _ => none)
      | ["p", t, path, b, e] =>
        (match stack with
         | top :: rest =>
           let src : Option (Bytes × Range) := if path == "-" then none else some (bytesOfHex path, ⟨b.toNat?.getD 0, e.toNat?.getD 0⟩)
           some (top.push (bytesOfHex t) src :: rest)
         | [] => none)
      | _ => none) (some [])
  match r with
  | some (top :: _) => s!"{if top.text.isEmpty then "-" else hexOfBytes top.text} [{originsStr top}]"
  | _ => "bad-ops"

def doStrFn (f hexs : String) : String :=
  let s := bytesOfHex hexs
  let r := match f with
    | "trim_end" => trimEnd s
    | "trim" => trim s
    | "trim_start" => trimStart s
    | _ => s
  if r.isEmpty then "-" else hexOfBytes r

def step (line : String) : String :=
  match line.trimAscii.toString.splitOn " " with
  | ["parse", start, cap, hex] => doParse false start cap hex
  | ["parse", start, cap] => doParse false start cap ""
  | ["parsev", start, cap, hex] => doParse true start cap hex
  | ["parsev", start, cap] => doParse true start cap ""
  | ["plain", hex] => doPlain hex
  | ["plain"] => doPlain ""
  | ["good", hex] => doGood hex
  | ["good"] => doGood ""
  | ["parseh", start, cap, hex] => doParseH start cap hex
  | ["parseh", start, cap] => doParseH start cap ""
  | ["parsem", start, cap, hex] => doParseM start cap hex
  | ["parsek", start, cap, hex] => doParseK start cap hex
  | "c16" :: ws :: toks => doC16 ws toks
  | "pp" :: rest => doPp rest
  | "ppfile" :: rest => doPpFile rest
  | ["split", hex] => doSplit hex
  | ["split"] => doSplit "-"
  | "otext" :: ops => doOText ops
  | ["strfn", f, hexs] => doStrFn f hexs
  | ["strfn", f] => doStrFn f "-"
  | _ => "bad-op"

partial def loop (h : IO.FS.Stream) (out : IO.FS.Stream) : IO Unit := do
  let line ← h.getLine
  if line.isEmpty then return ()
  out.putStrLn (step line)
  loop h out

def main : IO Unit := do
  let out ← IO.getStdout
  loop (← IO.getStdin) out
  out.flush

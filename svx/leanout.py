"""Helpers for emitting Lean source."""
import os

def lstr(s):
    """Lean string literal for python str (ASCII-safe)."""
    out = ['"']
    for ch in s:
        o = ord(ch)
        if ch == '"': out.append('\\"')
        elif ch == '\\': out.append('\\\\')
        elif ch == '\n': out.append('\\n')
        elif ch == '\r': out.append('\\r')
        elif ch == '\t': out.append('\\t')
        elif 32 <= o < 127: out.append(ch)
        else: out.append('\\u{%x}' % o)
    out.append('"')
    return ''.join(out)

def lbytes(s):
    """Lean `List Nat` literal of the UTF-8 bytes of python str."""
    return '[' + ', '.join(str(b) for b in s.encode('utf-8')) + ']'

def llist(items):
    return '[' + ', '.join(items) + ']'

def write_if_changed(path, text):
    os.makedirs(os.path.dirname(path), exist_ok=True)
    try:
        if open(path).read() == text: return False
    except FileNotFoundError:
        pass
    open(path, 'w').write(text)
    return True

"""T-gen: translate every `fn NAME(s: Span) -> IResult<Span, T>` of sv-parser-parser (and the combinator
definitions of utils.rs) into the deep embedding of lean/SvModel/SvModel/Core/Peg.lean.

A function that is outside the recognised subset is emitted as `.fail` and listed as opaque with the
reason; nothing is guessed."""
import re, os, json, collections
from rustsrc import REPO, blank_literals, match_brace, rs_files, unescape_rust_str
from rustexpr import Parser, Unsupported, parse_stmts_prefix
import conv

FN = re.compile(r'((?:#\[[^\]]*\]\s*)*)pub(?:\(crate\))?\s+fn\s+((?:r#)?\w+)\s*\(\s*s:\s*Span,?\s*\)\s*->\s*IResult<Span,\s*([^{]*)>\s*\{')

def functions(path):
    src = open(path).read(); ss = blank_literals(src)
    for m in FN.finditer(ss):
        e = match_brace(ss, m.end())
        yield m.group(2).replace('r#', ''), m.group(1), m.group(3).strip(), src[m.end():e - 1]

# ---------------------------------------------------------------------------------------------
# utils.rs combinator definitions: `fn NAME<..>(params) -> impl FnMut(Span<'a>) -> IResult<..> { move |s: Span<'a>| { BODY } }`

COMB = re.compile(r"((?:#\[[^\]]*\]\s*)*)pub\(crate\)\s+fn\s+(\w+)\s*<[^{]*?>\s*\(([^)]*)\)\s*->\s*impl\s+FnMut\(Span<'a>\)\s*->\s*IResult<[^{]*?\{", re.S)

def combinator_defs():
    p = os.path.join(REPO, 'sv-parser-parser/src/utils.rs')
    src = open(p).read(); ss = blank_literals(src)
    out = {}
    for m in COMB.finditer(ss):
        attrs, name, params = m.group(1), m.group(2), m.group(3)
        if 'cfg(feature = "trace")' in src[m.start():m.end()] and 'not(' not in src[m.start(1):m.end(1)]:
            continue
        if re.search(r'cfg\(feature', src[m.start(1):m.end(1)]) and 'not(feature' not in src[m.start(1):m.end(1)]:
            continue
        e = match_brace(ss, m.end())
        body = src[m.end():e - 1]
        cm = re.match(r"\s*move\s*\|\s*s\s*:\s*Span<'a>\s*\|\s*\{", body)
        if not cm: continue
        bss = blank_literals(body)
        ce = match_brace(bss, cm.end())
        inner = body[cm.end():ce - 1]
        pnames = [re.sub(r'^mut\s+', '', x.split(':')[0].strip()) for x in params.split(',') if x.strip()]
        out[name] = (pnames, inner)
    return out

# ---------------------------------------------------------------------------------------------

VERSIONS = ['1364-1995', '1364-2001', '1364-2001-noconfig', '1364-2005', '1800-2005', '1800-2009',
            '1800-2012', '1800-2017', 'directive']

LIST_LOOP = re.sub(r'\s+', ' ', '''let (s, a) = g(s)?; let mut s = s; let mut ret = Vec::new();
 while let Ok((t, b)) = f(s) { if let Ok((u, c)) = g(t) { s = u; ret.push((b, c)); } else { break; } }
 Ok((s, List { nodes: (a, ret) }))''').strip()

def attr_info(attrs):
    """attribute macros of a parser function, in source order (the first listed is expanded first, so its code ends up INSIDE the
    code of those listed after it): (memoised, memoised twice, left-recursion guard, problem). The model (Core/Peg.lean evalCall) has
    the packrat wrapper(s) outside the recursion guard, i.e. `recursive_parser` listed before every `packrat_parser`; a function
    carrying `#[packrat_parser]` twice looks the key up twice on a miss and inserts it twice (two entries in the FIFO queue)."""
    names = re.findall(r'#\[\s*(\w+)', attrs)
    n = names.count('packrat_parser'); rc = 'recursive_parser' in names
    prob = None
    if n > 2: prob = 'more than two packrat_parser attributes'
    if names.count('recursive_parser') > 1: prob = 'recursive_parser repeated'
    if rc and n and names.index('recursive_parser') > names.index('packrat_parser'): prob = 'recursive_parser listed after packrat_parser (guard outside the memo)'
    return n >= 1, n == 2, rc, prob

class Translator:
    def __init__(self):
        self.kinds = conv.node_kinds()
        self.kind_id = {'Locate': 0}
        self.kind_sort = {}
        for i, (name, sort, _, _) in enumerate(self.kinds):
            self.kind_id[name] = i + 1
            self.kind_sort[name] = sort
        self.variants = conv.enum_variants()
        self.consts = self.string_consts()
        self.fns = []
        for f in rs_files('sv-parser-parser', exclude=('tests.rs', 'keywords.rs', 'utils.rs', 'lib.rs')):
            for x in functions(f): self.fns.append((os.path.relpath(f, REPO),) + x)
        # white_space lives in utils.rs and is special (if in_directive())
        self.utils_fns = list(functions(os.path.join(REPO, 'sv-parser-parser/src/utils.rs')))
        self.names = sorted(set(x[1] for x in self.fns) | set(x[0] for x in self.utils_fns))
        self.idx = {n: i for i, n in enumerate(self.names)}
        self.combs = combinator_defs()
        self.comb_templates = {}
        self.opaque = {}
        self.comb_opaque = {}

    def string_consts(self):
        out = {}
        for f in rs_files('sv-parser-parser', exclude=('tests.rs', 'keywords.rs')):
            src = open(f).read()
            for m in re.finditer(r'const\s+(\w+)\s*:\s*&str\s*=\s*("(?:\\.|[^"\\])*")\s*;', src):
                out[m.group(1)] = unescape_rust_str(m.group(2))
        return out

    # ---- literals
    def lit(self, e):
        if e[0] == 'str': return unescape_rust_str(e[1])
        if e[0] == 'path' and e[1] in self.consts: return self.consts[e[1]]
        if e[0] == 'chr':
            return unescape_rust_str('"' + e[1][1:-1].replace('"', '\\"') + '"') if e[1] != "'\"'" else '"'
        raise Unsupported('literal ' + str(e)[:40])

    # ---- expressions (parsers)
    def tr(self, e, holes):
        k = e[0]
        if k == 'path':
            n = e[1]
            if n in holes: return ('hole', n)
            if n in self.idx: return ('call', n)
            if n == 'digit1': return ('term', ('digit1',))
            if n == 'space1': return ('term', ('space1',))
            if n == 'multispace1': return ('term', ('multispace1',))
            if n == 'alpha1': return ('term', ('alpha1',))
            if n == 'eof': return ('eof',)
            raise Unsupported('path ' + n)
        if k == 'call':
            f, a = e[1], e[2]
            if f[0] != 'path': raise Unsupported('call of non-path')
            n = f[1]
            if n in ('tag', 'tag_no_case', 'is_a', 'is_not', 'one_of', 'none_of') and len(a) == 1:
                if a[0][0] == 'path' and a[0][1] in holes:
                    return ('term', ({'tag': 'tag'}.get(n, None) or self._unsup('hole in ' + n), ('hole', a[0][1])))
                s = self.lit(a[0])
                tn = {'tag': 'tag', 'tag_no_case': 'tagNoCase', 'is_a': 'isA', 'is_not': 'isNot',
                      'one_of': 'oneOf', 'none_of': 'noneOf'}[n]
                if tn in ('isA', 'isNot', 'oneOf', 'noneOf') and any(ord(c) > 127 for c in s):
                    raise Unsupported('non-ASCII set')
                return ('term', (tn, s))
            if n == 'char' and len(a) == 1: return ('term', ('tag', self.lit(a[0])))
            if n == 'take' and len(a) == 1 and a[0][0] == 'num':
                return ('term', ('take', int(a[0][1].replace('usize', ''))))
            if n in ('opt', 'many0', 'many1', 'peek', 'not') and len(a) == 1:
                return (n, self.tr(a[0], holes))
            if n == 'all_consuming' and len(a) == 1: return ('allConsuming', self.tr(a[0], holes))
            if n == 'pair' and len(a) == 2: return ('seq', [self.tr(x, holes) for x in a])
            if n == 'tuple' and len(a) == 1 and a[0][0] == 'tuple':
                return ('seq', [self.tr(x, holes) for x in a[0][1]])
            if n == 'alt' and len(a) == 1 and a[0][0] == 'tuple':
                return ('alt', [self.tr(x, holes) for x in a[0][1]])
            if n == 'preceded' and len(a) == 2:
                return ('seq', [('drop', self.tr(a[0], holes)), self.tr(a[1], holes)])
            if n == 'terminated' and len(a) == 2:
                return ('seq', [self.tr(a[0], holes), ('drop', self.tr(a[1], holes))])
            if n == 'many_till' and len(a) == 2:
                return ('manyTill', self.tr(a[0], holes), self.tr(a[1], holes))
            if n == 'context' and len(a) == 2: return self.tr(a[1], holes)
            if n == 'map' and len(a) == 2: return self.tr_map(a[0], a[1], holes)
            if n in self.combs:
                return self.inst_comb(n, a, holes)
            raise Unsupported('combinator ' + n)
        raise Unsupported('expr ' + k)

    def _unsup(self, msg): raise Unsupported(msg)

    # ---- utils.rs combinators as templates with holes
    def comb_template(self, name):
        if name in self.comb_templates: return self.comb_templates[name]
        pnames, inner = self.combs[name]
        norm = re.sub(r'\s+', ' ', inner.strip())
        if name == 'list':
            if norm != LIST_LOOP: raise Unsupported('utils::list has an unrecognised body')
            t = ('list', ('hole', 'f'), ('hole', 'g'))
        else:
            t = self.tr_body(inner, set(pnames))
        self.comb_templates[name] = (pnames, t)
        return self.comb_templates[name]

    def inst_comb(self, name, args, holes):
        pnames, t = self.comb_template(name)
        if len(args) != len(pnames): raise Unsupported('arity of ' + name)
        sub = {}
        for pn, a in zip(pnames, args):
            if a[0] == 'str' or (a[0] == 'path' and a[1] in self.consts):
                sub[pn] = ('strlit', self.lit(a))
            elif a[0] == 'path' and a[1] in holes:
                sub[pn] = ('hole', a[1])
            else:
                sub[pn] = self.tr(a, holes)
        return self.subst(t, sub)

    def subst(self, t, sub):
        if isinstance(t, tuple):
            if t[0] == 'hole':
                v = sub[t[1]]
                if v[0] == 'strlit': raise Unsupported('string argument used as parser')
                return v
            if t[0] == 'kwGuard' and isinstance(t[1], tuple) and t[1][0] == 'hole':
                v = sub[t[1][1]]
                if v[0] == 'hole': return ('kwGuard', v)
                if v[0] != 'strlit': raise Unsupported('parser argument used as keyword text')
                return ('kwGuard', v[1])
            if t[0] == 'term' and isinstance(t[1][1], tuple) and t[1][1][0] == 'hole':
                v = sub[t[1][1][1]]
                if v[0] == 'hole': return ('term', (t[1][0], v))
                if v[0] != 'strlit': raise Unsupported('parser argument used as string')
                return ('term', (t[1][0], v[1]))
            return tuple(self.subst(x, sub) for x in t)
        if isinstance(t, list): return [self.subst(x, sub) for x in t]
        return t

    # ---- map closures
    def tr_map(self, inner, fn, holes):
        if fn[0] == 'path' and fn[1] == 'into_locate':
            return ('lexeme', self.tr(inner, holes))
        if fn[0] != 'closure': raise Unsupported('map with non-closure')
        params, body = fn[1], fn[2]
        if len(params) != 1: raise Unsupported('closure arity')
        stmts = []; env = {}
        self.bind_pattern(params[0], self.tr(inner, holes), stmts, env)
        for st in body[1]:
            stmts.append(self.effect_stmt(st))
        if body[2] is None: raise Unsupported('closure without value')
        return ('shaped', stmts, self.shape(body[2], env))

    def effect_stmt(self, st):
        if st[0] == 'call' and st[1][0] == 'path':
            n, a = st[1][1], st[2]
            if n == 'begin_keywords' and len(a) == 1 and a[0][0] == 'str':
                v = unescape_rust_str(a[0][1])
                if v not in VERSIONS: raise Unsupported('begin_keywords of unknown version ' + v)
                return ('beginKw', VERSIONS.index(v))
            if n == 'end_keywords' and not a: return ('endKw',)
            if n == 'begin_directive' and not a: return ('beginDir',)
            if n == 'end_directive' and not a: return ('endDir',)
        raise Unsupported('statement ' + str(st)[:50])

    def bind_pattern(self, pat, pe, stmts, env):
        """append statements evaluating pe and bind pattern variables to slots"""
        if pat[0] == 'pvar':
            stmts.append(pe)
            if pat[1] != '_': env[pat[1]] = ('var', len(stmts) - 1)
            return
        if pat[0] == 'ptuple':
            if pe[0] == 'seq' and len(pe[1]) == len(pat[1]):
                for p1, e1 in zip(pat[1], pe[1]): self.bind_pattern(p1, e1, stmts, env)
                return
            # a combinator template whose result is the identity tuple of its statements (utils::triple)
            if (pe[0] == 'shaped' and len(pe[1]) == len(pat[1])
                    and pe[2] == ('tuple', [('var', i) for i in range(len(pe[1]))])):
                for p1, e1 in zip(pat[1], pe[1]): self.bind_pattern(p1, e1, stmts, env)
                return
            # (items, terminator) = many_till(e, g): one slot holds items ++ terminator; the second name may
            # only be used immediately after the first one (checked in shape()); `_` drops the terminator.
            if pe[0] == 'manyTill' and len(pat[1]) == 2 and pat[1][0][0] == 'pvar' and pat[1][1][0] == 'pvar' \
                    and pat[1][0][1] != '_':
                if pat[1][1][1] == '_':
                    stmts.append(('manyTill', pe[1], ('drop', pe[2])))
                    env[pat[1][0][1]] = ('var', len(stmts) - 1)
                else:
                    stmts.append(pe)
                    env[pat[1][0][1]] = ('var', len(stmts) - 1)
                    env[pat[1][1][1]] = ('follow', len(stmts) - 1)
                return
            raise Unsupported('tuple pattern against non-tuple parser')
        raise Unsupported('pattern')

    # ---- result shapes
    def shape(self, v, env):
        k = v[0]
        if k == 'path':
            if v[1] in env: return env[v[1]]
            if v[1] == 'None': return ('empty',)
            raise Unsupported('result uses unknown name ' + v[1])
        if k == 'struct':
            name = v[1].split('::')[-1]
            inner = self.shape(v[2], env)
            if name in ('Paren', 'Brace', 'Bracket', 'ApostropheBrace', 'List'):
                return inner
            if name not in self.kind_id: raise Unsupported('struct ' + name + ' is not a node kind')
            if self.kind_sort[name] != 'struct': raise Unsupported(name + ' is not a struct')
            return ('node', name, inner)
        if k == 'tuple':
            items = [self.shape(x, env) for x in v[1]]
            out = []
            for it in items:
                if it[0] == 'follow':
                    if not out or out[-1] != ('var', it[1]): raise Unsupported('many_till terminator not adjacent to its items')
                    continue
                out.append(it)
            return ('tuple', out)
        if k == 'vecempty': return ('empty',)
        if k == 'mcall' and v[2] == 'unwrap' and not v[3]:
            c = v[1]
            if c[0] == 'call' and c[1] == ('path', 'concat') and len(c[2]) == 2:
                return ('leaf', ('tuple', [self.unleaf(self.shape(x, env)) for x in c[2]]))
            raise Unsupported('unwrap of non-concat')
        if k == 'call' and v[1][0] == 'path':
            n = v[1][1]
            if n == 'Box::new' and len(v[2]) == 1: return self.shape(v[2][0], env)
            if n == 'Some' and len(v[2]) == 1: return self.shape(v[2][0], env)
            if n == 'into_locate' and len(v[2]) == 1: return ('leaf', self.unleaf(self.shape(v[2][0], env)))
            m = re.match(r'^([A-Z]\w*)::([A-Z]\w*)$', n)
            if m and len(v[2]) == 1:
                en = m.group(1)
                if en not in self.kind_id or self.kind_sort[en] != 'enum':
                    raise Unsupported('enum ' + en + ' is not a node kind')
                if m.group(2) not in self.variants.get(en, []):
                    raise Unsupported('unknown variant ' + n)
                return ('node', en + '::' + m.group(2), self.shape(v[2][0], env))
        raise Unsupported('result ' + k + ' ' + str(v)[:60])

    @staticmethod
    def unleaf(s):
        # merging is idempotent: leaf(leaf x) = leaf x ; keep it simple
        return s[1] if s[0] == 'leaf' else s

    # ---- function bodies
    TAIL_TEMPLATES = [
        # (regex on the normalised tail, handler name)
        (r'let (\w+) = if let Some\((\w+)\) = (\w+) \{ concat\((\w+), (\w+)\)\.unwrap\(\) \} else \{ (\w+) \};\s*', 'optcat'),
        (r'let (\w+) = if let Some\((\w+)\) = (\w+) \{ concat\(concat\((\w+), (\w+)\)\.unwrap\(\), (\w+)\)\.unwrap\(\) \} else \{ concat\((\w+), (\w+)\)\.unwrap\(\) \};\s*', 'optcat3'),
        (r'let mut ret = None; for x in (\w+) \{ ret = if let Some\(ret\) = ret \{ Some\(concat\(ret, x\)\.unwrap\(\)\) \} else \{ Some\(x\) \};? \} let (\w+) = ret\.unwrap\(\);\s*', 'foldall'),
        (r'let mut ret = None; for x in (\w+) \{ ret = if let Some\(ret\) = ret \{ Some\(concat\(ret, x\)\.unwrap\(\)\) \} else \{ Some\(x\) \};? \} let (\w+) = if let Some\((\w+)\) = ret \{ let (\w+) = concat\((\w+), (\w+)\)\.unwrap\(\); concat\((\w+), (\w+)\)\.unwrap\(\) \} else \{ concat\((\w+), (\w+)\)\.unwrap\(\) \};\s*', 'foldmid'),
        (r'let mut (\w+) = (\w+); for (\w+) in (\w+) \{ (\w+) = concat\((\w+), (\w+)\)\.unwrap\(\); \}\s*', 'foldacc'),
    ]
    NESTL = re.compile(
        r'let mut (?P<acc>\w+) = (?P<outer>\w+) \{ nodes: (?P<init>\([^)]*\)) \}; '
        r'let \(s, (?P<vec>\w+)\) = many0\(pair\((?P<item>.*)\)\)\(s\)\?; '
        r'for \((?P<dot>\w+), (?P<body>\w+)\) in (?P<v2>\w+) \{ '
        r'let (?P<tmp>\w+) = (?P<e1>\w+)::(?P<w1>\w+)\(Box::new\((?P<s1>\w+) \{ nodes: \((?P<e2>\w+)::(?P<w2>\w+)\(Box::new\((?P<acc2>\w+)\)\),\), \}\)\); '
        r'(?P<acc3>\w+) = (?P<outer2>\w+) \{ nodes: \((?P<e3>\w+)::(?P<w3>\w+)\(Box::new\((?P<tmp2>\w+)\)\), (?P<dot2>\w+), (?P<body2>\w+)\), \}; \} '
        r'Ok\(\(s, (?P<acc4>\w+)\)\)$')
    KWTAIL = re.compile(r'if is_keyword\(&(\w+)\) \{ Err\(Err::Error\(make_error\(s, ErrorKind::Fix\)\)\) \} else \{ Ok\(\(s, into_locate\((\w+)\)\)\) \}\s*$')

    GUARD = re.compile(r'^\s*if is_later_keyword\((\w+)\) \{ return Err\(Err::Error\(make_error\(s, ErrorKind::Fix\)\)\); \}\s*')

    def tr_body(self, body, holes=frozenset()):
        """Translate a function (or combinator closure) body to a PExpr."""
        gm = self.GUARD.match(re.sub(r'\s+', ' ', body))
        if gm:
            # the guard is the first statement: evaluate it, then the rest of the body
            raw = body[body.index('}') + 1:]
            inner = self.tr_body(raw, holes)
            gv = gm.group(1)
            if gv not in holes: raise Unsupported('is_later_keyword of a non-parameter')
            return ('seq', [('kwGuard', ('hole', gv)), inner])
        stmts_src, rest = parse_stmts_prefix(body)
        # (a) single expression applied to s
        if not rest and len(stmts_src) == 1 and stmts_src[0][0] == 'tail':
            e = stmts_src[0][1]
            if e[0] == 'call' and e[2] == [('path', 's')]:
                return self.tr(e[1], holes)
        # (b) begin_directive(); let ret = E(s); end_directive(); ret
        if not rest and len(stmts_src) == 4:
            a, b, c, d = [x[1] for x in stmts_src]
            if (a == ('call', ('path', 'begin_directive'), []) and c == ('call', ('path', 'end_directive'), [])
                    and b[0] == 'let' and b[1] == ('pvar', 'ret') and b[2][0] == 'call' and b[2][2] == [('path', 's')]
                    and d == ('path', 'ret')):
                return ('dirScope', self.tr(b[2][1], holes))
        # (c) statement sequence
        stmts = []; env = {}
        final = None
        pending = {}   # name -> (parser expression, index of the opening begin_keywords effect) for `let ret = E(s);`
        for kind, st in stmts_src:
            if kind == 'tail':
                final = st; break
            # scoped keyword table:  begin_keywords("v"); let ret = E(s); end_keywords(); let (s, x) = ret?;
            if (st[0] == 'let' and st[1][0] == 'pvar' and st[2][0] == 'call' and st[2][2] == [('path', 's')]
                    and stmts and stmts[-1][0] == 'beginKw'):
                pending[st[1][1]] = (self.tr(st[2][1], holes), stmts[-1][1], 'open')
                stmts.pop()
                continue
            if pending and st == ('call', ('path', 'end_keywords'), []):
                nm = [k for k, v in pending.items() if v[2] == 'open']
                if len(nm) != 1: raise Unsupported('scoped keywords shape')
                pending[nm[0]] = (pending[nm[0]][0], pending[nm[0]][1], 'closed')
                continue
            if (st[0] == 'let' and st[1][0] == 'ptuple' and len(st[1][1]) == 2 and st[1][1][0] == ('pvar', 's')
                    and st[2][0] == 'try' and st[2][1][0] == 'path' and st[2][1][1] in pending):
                pe0, v, state = pending.pop(st[2][1][1])
                if state != 'closed': raise Unsupported('scoped keywords: result used before end_keywords')
                self.bind_pattern(st[1][1][1], ('kwScope', v, pe0), stmts, env)
                continue
            if pending and any(v[2] == 'open' for v in pending.values()): raise Unsupported('statement inside scoped keywords')
            if st[0] == 'let':
                pat, val = st[1], st[2]
                if (pat[0] == 'ptuple' and len(pat[1]) == 2 and pat[1][0] == ('pvar', 's')
                        and val[0] == 'try' and val[1][0] == 'call' and val[1][2] == [('path', 's')]):
                    pexp = val[1][1]
                    # fold_many0(F, || init, |acc, item| concat(acc, item).unwrap())
                    if pexp[0] == 'call' and pexp[1] == ('path', 'fold_many0') and len(pexp[2]) == 3:
                        F, init, g = pexp[2]
                        ok = (init[0] == 'closure' and init[1] == [] and init[2][1] == [] and init[2][2][0] == 'path'
                              and g[0] == 'closure' and g[1] == [('pvar', 'acc'), ('pvar', 'item')]
                              and g[2][2] == ('mcall', ('call', ('path', 'concat'), [('path', 'acc'), ('path', 'item')]), 'unwrap', []))
                        if not ok or pat[1][1][0] != 'pvar': raise Unsupported('fold_many0 shape')
                        iv = init[2][2][1]
                        if iv not in env: raise Unsupported('fold_many0 init')
                        stmts.append(('many0', self.tr(F, holes)))
                        env[pat[1][1][1]] = ('leaf', ('tuple', [self.unleaf(env[iv]), ('var', len(stmts) - 1)]))
                        continue
                    self.bind_pattern(pat[1][1], self.tr(pexp, holes), stmts, env)
                    continue
                if pat[0] == 'pvar':
                    # let a = <shape expression>;
                    env[pat[1]] = self.shape(val, env)
                    continue
                raise Unsupported('let form')
            stmts.append(self.effect_stmt(st))
        if pending: raise Unsupported('scoped keywords: dangling result')
        t = re.sub(r'\s+', ' ', re.sub(r'//[^\n]*', '', rest).strip())
        m = self.NESTL.match(t)
        if m:
            g = m.groupdict()
            if not (g['acc'] in (g['acc2'], ) and g['v2'] == g['vec'] and g['tmp2'] == g['tmp'] and g['dot2'] == g['dot']
                    and g['body2'] == g['body'] and g['outer2'] == g['outer'] and g['acc3'] == g['acc'] and g['acc4'] == g['acc']):
                raise Unsupported('nestl names')
            first = ('shaped', stmts, self.shape(('struct', g['outer'], Parser(g['init']).expr()), env))
            item = self.tr(Parser('pair(' + g['item'] + ')').expr(), holes)
            for en in (g['e1'], g['e2'], g['e3']):
                if self.kind_sort.get(en) != 'enum': raise Unsupported('nestl enum ' + en)
            for sn in (g['s1'], g['outer']):
                if self.kind_sort.get(sn) != 'struct': raise Unsupported('nestl struct ' + sn)
            for en, vn in ((g['e1'], g['w1']), (g['e2'], g['w2']), (g['e3'], g['w3'])):
                if vn not in self.variants.get(en, []): raise Unsupported('nestl variant ' + en + '::' + vn)
            return ('nestl', first, item, [g['e2'] + '::' + g['w2'], g['s1'], g['e1'] + '::' + g['w1'], g['e3'] + '::' + g['w3']], g['outer'])
        while t:
            for rx, h in self.TAIL_TEMPLATES:
                m = re.match(rx, t)
                if m:
                    g = m.groups()
                    if h == 'optcat':
                        x, y, y2, x2, y3, x3 = g
                        if not (y == y2 == y3 and x == x2 == x3): raise Unsupported('optcat names')
                        env[x] = ('leaf', ('tuple', [self.unleaf(env[x]), self.unleaf(env[y])]))
                    elif h == 'optcat3':
                        x, y, y2, x2, y3, z, x3, z2 = g
                        if not (y == y2 == y3 and x == x2 == x3 and z == z2): raise Unsupported('optcat3 names')
                        env[x] = ('leaf', ('tuple', [self.unleaf(env[x]), self.unleaf(env[y]), self.unleaf(env[z])]))
                    elif h == 'foldall':
                        v, x = g
                        env[x] = ('leaf', self.unleaf(env[v]))
                    elif h == 'foldmid':
                        v, x, y, x2, x3, y2, x4, z, x5, z2 = g
                        if not (x == x2 == x3 == x4 == x5 and y == y2 and z == z2): raise Unsupported('foldmid names')
                        env[x] = ('leaf', ('tuple', [self.unleaf(env[x]), self.unleaf(env[v]), self.unleaf(env[z])]))
                    elif h == 'foldacc':
                        x, x2, y, y2, x3, x4, y3 = g
                        if not (x == x2 == x3 == x4 and y == y2 == y3): raise Unsupported('foldacc names')
                        env[x] = ('leaf', ('tuple', [self.unleaf(env[x]), self.unleaf(env[y])]))
                    t = t[m.end():]
                    break
            else:
                break
        if t:
            m = self.KWTAIL.match(t)
            if m and m.group(1) == m.group(2) and final is None:
                sh = env[m.group(1)]
                return ('identKw', ('shaped', stmts, ('leaf', self.unleaf(sh))))
            # remaining plain statements / final expression
            more, rest2 = parse_stmts_prefix(t)
            if rest2: raise Unsupported('tail: ' + rest2[:60])
            for kind, st in more:
                if kind == 'tail': final = st
                elif st[0] == 'let' and st[1][0] == 'pvar': env[st[1][1]] = self.shape(st[2], env)
                else: raise Unsupported('tail statement')
        if final is None: raise Unsupported('no final expression')
        if not (final[0] == 'call' and final[1] == ('path', 'Ok') and len(final[2]) == 1 and final[2][0][0] == 'tuple'
                and len(final[2][0][1]) == 2 and final[2][0][1][0] == ('path', 's')):
            raise Unsupported('final expression is not Ok((s, ..))')
        return ('shaped', stmts, self.shape(final[2][0][1][1], env))

    def white_space(self, body):
        """utils.rs white_space: `if in_directive() { A(s) } else { B(s) }` — modelled as a dedicated constructor pair"""
        norm = re.sub(r'\s+', ' ', re.sub(r'//[^\n]*', '', body).strip())
        m = re.match(r'if in_directive\(\) \{ (.*)\(s\) \} else \{ (.*)\(s\) \}$', norm)
        if not m: raise Unsupported('white_space shape')
        a = Parser(m.group(1)).expr(); b = Parser(m.group(2)).expr()
        return ('ifDir', self.tr(a, set()), self.tr(b, set()))

    def translate_all(self):
        prods = {}
        for (path, name, attrs, ret, body) in self.fns:
            pk, pk2, rc, aprob = attr_info(attrs)
            try:
                if aprob: raise Unsupported(aprob)
                pe = self.tr_body(body)
            except Unsupported as ex:
                self.opaque[name] = str(ex)[:120]
                pe = ('fail',)
            except (KeyError, IndexError) as ex:
                self.opaque[name] = 'internal: ' + repr(ex)[:100]
                pe = ('fail',)
            prods[name] = {'packrat': pk, 'packrat2': pk2, 'recursive': rc, 'body': pe, 'file': path, 'ret': ret}
        for (name, attrs, ret, body) in self.utils_fns:
            pk, pk2, rc, aprob = attr_info(attrs)
            try:
                if aprob: raise Unsupported(aprob)
                pe = self.white_space(body) if name == 'white_space' else self.tr_body(body)
            except Unsupported as ex:
                self.opaque[name] = str(ex)[:120]; pe = ('fail',)
            prods[name] = {'packrat': pk, 'packrat2': pk2, 'recursive': rc, 'body': pe, 'file': 'sv-parser-parser/src/utils.rs', 'ret': ret}
        return prods

if __name__ == '__main__':
    t = Translator()
    prods = t.translate_all()
    print(len(prods), 'productions;', len(t.opaque), 'opaque')
    for k, v in sorted(t.opaque.items()): print('  ', k, ':', v)
    print('combinators:', sorted(t.comb_templates))

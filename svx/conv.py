"""T-gen for the tree crate: the `RefNodes` conversion impls of any_node.rs (order in which the
components of tuples / Paren / Brace / Bracket / ApostropheBrace / List are appended), the shape of the
`Node` derive macro, and the node kinds (structs/enums deriving Node)."""
import re, os
from rustsrc import REPO, blank_literals, match_brace, rs_files

def conv_table():
    """[(key, names destructured in order, names appended in order)]"""
    p = os.path.join(REPO, 'sv-parser-syntaxtree/src/any_node.rs')
    src = open(p).read(); ss = blank_literals(src)
    out = []
    for m in re.finditer(r"From<&'a\s+([^>]*(?:<[^>]*>)?[^>]*)>\s*for\s+RefNodes<'a>", ss):
        key = re.sub(r'\s+', '', m.group(1))
        b = ss.index('{', ss.index('fn from', m.end()))
        e = match_brace(ss, b + 1)
        body = ss[b + 1:e - 1]
        dm = re.search(r'let\s*\(([^)]*)\)\s*=\s*&?\s*x(?:\.nodes)?\s*;', body)
        if not dm:
            out.append((key, None, None, re.sub(r'\s+', ' ', body.strip())))
            continue
        names = [n.strip() for n in dm.group(1).split(',') if n.strip()]
        apps = re.findall(r'ret\.append\(\s*&mut\s+([A-Za-z_0-9]+)', body)
        out.append((key, names, apps, None))
    return out

def node_kinds():
    """Names of all items deriving Node, with 'struct'/'enum' and (for enums) variant names, in the same
    order rule as build.rs (line after a #[derive(..Node..)])."""
    kinds = []
    for f in rs_files('sv-parser-syntaxtree'):
        lines = open(f).read().split('\n')
        hit = False
        for idx, line in enumerate(lines):
            if hit:
                parts = line.split()
                if len(parts) >= 3:
                    name = parts[2].replace("<'a>", '')
                    kinds.append((name, parts[1], os.path.relpath(f, REPO), idx + 1))
                hit = False
            if re.search(r'#\[derive.*Node.*\]', line):
                hit = True
    return kinds

def derive_shape():
    """Normalised text of the two `next` arms of impl_node in sv-parser-macros."""
    src = open(os.path.join(REPO, 'sv-parser-macros/src/lib.rs')).read()
    enum_arm = re.search(r'#name::#ident\(x\)\s*=>\s*\{\s*(.*?)\s*\}', src, re.S)
    struct_arm = re.search(r'Struct\(_\)\s*=>\s*\{\s*quote!\s*\{\s*(.*?)\s*\}', src, re.S)
    norm = lambda m: re.sub(r'\s+', '', m.group(1)) if m else ''
    return norm(enum_arm), norm(struct_arm)


def enum_variants():
    """{enum name: [variant names in declaration order]} for every enum deriving Node"""
    out = {}
    for f in rs_files('sv-parser-syntaxtree'):
        src = open(f).read(); ss = blank_literals(src)
        for m in re.finditer(r'#\[derive[^\]]*Node[^\]]*\]\s*pub enum (\w+)[^{]*\{', ss):
            e = match_brace(ss, m.end())
            body = ss[m.end():e - 1]
            out[m.group(1)] = re.findall(r'^\s*(\w+)\s*\(', body, re.M)
    return out

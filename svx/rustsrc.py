"""Low-level helpers for reading the Rust sources of /repo (no guessing: exact lexical handling of
strings, raw strings, chars and comments)."""
import re, os

REPO = os.environ.get('SVX_REPO', '/repo')

def blank_literals(src):
    """Return a same-length copy of src with the contents of comments, string/char literals replaced by
    blanks/underscores so that brace matching and regexes see only code."""
    out = []; i = 0; n = len(src)
    while i < n:
        c = src[i]
        if src.startswith('//', i):
            j = src.find('\n', i); j = n if j < 0 else j
            out.append(' ' * (j - i)); i = j
        elif src.startswith('/*', i):
            j = src.find('*/', i + 2); j = n if j < 0 else j + 2
            out.append(''.join(ch if ch == '\n' else ' ' for ch in src[i:j])); i = j
        elif c == 'r' and re.match(r'r#*"', src[i:i + 12]) and (i == 0 or not (src[i - 1].isalnum() or src[i - 1] == '_')):
            m = re.match(r'r(#*)"', src[i:])
            close = '"' + m.group(1)
            j = src.find(close, i + len(m.group(0)))
            j = n if j < 0 else j + len(close)
            body = src[i:j]
            out.append(body[:len(m.group(0))] + ''.join(ch if ch == '\n' else '_' for ch in body[len(m.group(0)):len(body) - len(close)]) + close)
            i = j
        elif c == '"':
            j = i + 1
            while j < n and src[j] != '"':
                if src[j] == '\\': j += 1
                j += 1
            out.append('"' + ''.join(ch if ch == '\n' else '_' for ch in src[i + 1:j]) + '"'); i = j + 1
        elif c == "'" and re.match(r"'(\\.|[^\\'])'", src[i:i + 6]):
            m = re.match(r"'(\\.|[^\\'])'", src[i:])
            out.append("'" + '_' * (len(m.group(0)) - 2) + "'"); i += len(m.group(0))
        else:
            out.append(c); i += 1
    r = ''.join(out)
    assert len(r) == len(src)
    return r

def match_brace(ss, start, open_='{', close='}'):
    """ss[start] is just after an opening brace; return index just after its matching close."""
    depth = 1; i = start
    while depth > 0:
        c = ss[i]
        if c == open_: depth += 1
        elif c == close: depth -= 1
        i += 1
    return i

def rs_files(crate, exclude=()):
    base = os.path.join(REPO, crate, 'src')
    for root, _, files in os.walk(base):
        for f in sorted(files):
            if f.endswith('.rs') and f not in exclude:
                yield os.path.join(root, f)

def unescape_rust_str(lit):
    """Value (python str) of a Rust string literal token (normal or raw)."""
    m = re.match(r'r(#*)"', lit)
    if m:
        return lit[len(m.group(0)):len(lit) - 1 - len(m.group(1))]
    assert lit[0] == '"' and lit[-1] == '"', lit
    s = lit[1:-1]; out = []; i = 0
    while i < len(s):
        c = s[i]
        if c == '\\':
            d = s[i + 1]
            if d == 'n': out.append('\n'); i += 2
            elif d == 'r': out.append('\r'); i += 2
            elif d == 't': out.append('\t'); i += 2
            elif d == '\\': out.append('\\'); i += 2
            elif d == '0': out.append('\0'); i += 2
            elif d == '"': out.append('"'); i += 2
            elif d == "'": out.append("'"); i += 2
            elif d == 'x': out.append(chr(int(s[i + 2:i + 4], 16))); i += 4
            elif d == 'u':
                j = s.index('}', i); out.append(chr(int(s[i + 3:j], 16))); i = j + 1
            elif d == '\n':
                i += 2
                while i < len(s) and s[i] in ' \t\n\r': i += 1
            else: raise ValueError('escape ' + d)
        else:
            out.append(c); i += 1
    return ''.join(out)

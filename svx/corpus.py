"""Extract the in-tree corpus: every `test!(parser, <string literal>, Ok(_))` snippet of
sv-parser-parser/src/tests.rs whose parser is a whole-program parser (or can be wrapped into one),
plus the preprocessor test inputs."""
import re, os, json, hashlib
from rustsrc import REPO, blank_literals, unescape_rust_str

WRAP = {
    'source_text': ('sv', '%s'),
    'many1(module_item)': ('sv', 'module verif_wrap;\n%s\nendmodule\n'),
    'module_item': ('sv', 'module verif_wrap;\n%s\nendmodule\n'),
    'many1(description)': ('sv', '%s'),
    'description': ('sv', '%s'),
    'module_declaration': ('sv', '%s'),
    'interface_declaration': ('sv', '%s'),
    'program_declaration': ('sv', '%s'),
    'package_declaration': ('sv', '%s'),
    'class_declaration': ('sv', '%s'),
    'udp_declaration': ('sv', '%s'),
    'checker_declaration': ('sv', '%s'),
    'library_text': ('lib', '%s'),
}

def extract():
    path = os.path.join(REPO, 'sv-parser-parser/src/tests.rs')
    src = open(path).read()
    ss = blank_literals(src)
    out = []
    for m in re.finditer(r'\btest!\(', ss):
        i = m.end()
        # parser expression up to the first top-level comma
        depth = 0; j = i
        while True:
            c = ss[j]
            if c in '([': depth += 1
            elif c in ')]': depth -= 1
            elif c == ',' and depth == 0: break
            j += 1
        parser = re.sub(r'\s+', '', src[i:j])
        k = j + 1
        while ss[k] in ' \t\n\r': k += 1
        # the literal
        lm = re.match(r'r#*"|"', ss[k:])
        if not lm: continue
        if lm.group(0).startswith('r'):
            hashes = lm.group(0)[1:-1]
            e = ss.index('"' + hashes, k + len(lm.group(0))) + 1 + len(hashes)
        else:
            e = k + 1
            while ss[e] != '"': e += 1
            e += 1
        lit = src[k:e]
        rest = ss[e:e + 40]
        okm = re.match(r'\s*,\s*(Ok|Err)\(', rest)
        if not okm: continue
        try:
            text = unescape_rust_str(lit)
        except Exception:
            continue
        out.append((parser, text, okm.group(1)))
    return out

def write(workdir):
    cdir = os.path.join(workdir, 'corpus')
    os.makedirs(cdir, exist_ok=True)
    for f in os.listdir(cdir): os.unlink(os.path.join(cdir, f))
    items = extract()
    n = {'sv': 0, 'lib': 0, 'skipped': 0}
    seen = set()
    index = []
    for parser, text, verdict in items:
        if verdict != 'Ok' or parser not in WRAP:
            n['skipped'] += 1; continue
        kind, tmpl = WRAP[parser]
        prog = tmpl % text
        h = hashlib.sha1(prog.encode()).hexdigest()[:12]
        if h in seen: continue
        seen.add(h)
        name = '%s_%04d_%s.%s' % (kind, n[kind], h, 'sv' if kind == 'sv' else 'map')
        open(os.path.join(cdir, name), 'w').write(prog)
        index.append({'file': name, 'kind': kind, 'parser': parser, 'bytes': len(prog.encode())})
        n[kind] += 1
    # preprocessor testcases are used in place (they include each other by relative path)
    pp = sorted(f for f in os.listdir(os.path.join(REPO, 'sv-parser-pp/testcases')) if f.endswith('.sv') or f.endswith('.svh'))
    json.dump({'counts': n, 'total_test_macros': len(items), 'items': index, 'pp_testcases': pp},
              open(os.path.join(cdir, 'index.json'), 'w'), indent=0)
    return n, len(items)

if __name__ == '__main__':
    import sys
    print(write(sys.argv[1] if len(sys.argv) > 1 else '/verif/work'))
